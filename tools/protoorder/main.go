// protoorder: reads functions from the CURRENT working tree of the repository and prints, as JSON,
// the ORDER of the calls they make (by operation kind, not by line), with same-package calls
// inlined. Used by the dispatch-protocol checks (C01, C02, C05) to tie the thread programs of the
// Coq model to the source.
//
// usage: protoorder -repo /repo -spec spec.json
// spec:  {"files": ["actor/pid.go", ...],
//         "entries": [{"name":"pid.doReceive","recv":"PID","func":"doReceive"}, ...],
//         "stop": ["dispatchOne", ...],          // method names never inlined (emitted as tokens)
//         "iface": {"runTurn": "PID"},           // interface method -> receiver type to inline
//         "depth": 5}
// output: {"entries": {"pid.doReceive": <seq>}, "users": {"schedState": [{"func":"PID.doReceive","method":"TrySchedule"}...]}}
//   <seq>  = list of items; item = "token" | {"loop": <seq>} | {"ret": true}
//   token  = selector path without the receiver/param variable, e.g. "mailbox.Enqueue",
//            "v.CompareAndSwap(dispatchIdle,dispatchScheduled)", "cond.Signal"; assignments to
//            fields are "set:<field>" and ++/-- are "inc:<field>"/"dec:<field>".
package main

import (
	"encoding/json"
	"flag"
	"fmt"
	"go/ast"
	"go/parser"
	"go/token"
	"os"
	"path/filepath"
	"sort"
	"strings"
)

type entry struct {
	Name string `json:"name"`
	Recv string `json:"recv"`
	Func string `json:"func"`
}
type spec struct {
	Files   []string          `json:"files"`
	Entries []entry           `json:"entries"`
	Stop    []string          `json:"stop"`
	Iface   map[string]string `json:"iface"`
	Depth   int               `json:"depth"`
	Track   []string          `json:"track"` // field names whose users are listed (e.g. schedState)
	Reads   []string          `json:"reads"` // field names whose READS are emitted as "rd:<path>" tokens
	ScanDir string            `json:"scan_dir"` // package dir: names called anywhere in its non-test files are listed
}

type fkey struct{ recv, name string }

type user struct {
	Func   string `json:"func"`
	Method string `json:"method"`
}

var (
	funcs      = map[fkey]*ast.FuncDecl{}
	byName     = map[string][]fkey{}
	fieldType  = map[string]string{} // field name -> named type (when unambiguous)
	fieldAmbig = map[string]bool{}
	stop       = map[string]bool{}
	sp         spec
	users      = map[string][]user{}
	visited    = map[string]bool{}
)

func typeName(e ast.Expr) string {
	switch t := e.(type) {
	case *ast.StarExpr:
		return typeName(t.X)
	case *ast.Ident:
		return t.Name
	case *ast.IndexExpr:
		return typeName(t.X)
	case *ast.ArrayType:
		return typeName(t.Elt)
	case *ast.SelectorExpr:
		return t.Sel.Name
	}
	return ""
}

func exprString(e ast.Expr) string {
	switch t := e.(type) {
	case *ast.Ident:
		return t.Name
	case *ast.SelectorExpr:
		return exprString(t.X) + "." + t.Sel.Name
	case *ast.BasicLit:
		return t.Value
	case *ast.CallExpr:
		var a []string
		for _, x := range t.Args {
			a = append(a, exprString(x))
		}
		return exprString(t.Fun) + "(" + strings.Join(a, ",") + ")"
	case *ast.StarExpr:
		return exprString(t.X)
	case *ast.UnaryExpr:
		return t.Op.String() + exprString(t.X)
	case *ast.BinaryExpr:
		return exprString(t.X) + t.Op.String() + exprString(t.Y)
	case *ast.ParenExpr:
		return exprString(t.X)
	case *ast.IndexExpr:
		return exprString(t.X) + "[]"
	}
	return "?"
}

type walker struct {
	recvVar  string
	recvType string
	vars     map[string]string // local/param variable -> type name
	depth    int
	fn       string
	stack    map[fkey]bool
}

// selector path of e as a list of names, outermost first; ok=false when not a pure path
func path(e ast.Expr) ([]string, bool) {
	switch t := e.(type) {
	case *ast.Ident:
		return []string{t.Name}, true
	case *ast.SelectorExpr:
		p, ok := path(t.X)
		if !ok {
			return nil, false
		}
		return append(p, t.Sel.Name), true
	case *ast.IndexExpr:
		p, ok := path(t.X)
		if !ok {
			return nil, false
		}
		p[len(p)-1] += "[]"
		return p, true
	case *ast.ParenExpr:
		return path(t.X)
	case *ast.StarExpr:
		return path(t.X)
	case *ast.UnaryExpr:
		if t.Op == token.AND {
			return path(t.X)
		}
	}
	return nil, false
}

// resolve the receiver type of a call whose selector path (without the method) is p
func (w *walker) resolveType(p []string) string {
	if len(p) == 0 {
		return ""
	}
	last := strings.TrimSuffix(p[len(p)-1], "[]")
	if len(p) == 1 {
		if last == w.recvVar {
			return w.recvType
		}
		if t, ok := w.vars[last]; ok {
			return t
		}
		return ""
	}
	if t, ok := fieldType[last]; ok && !fieldAmbig[last] {
		return t
	}
	return ""
}

func (w *walker) stripVar(p []string) []string {
	if len(p) > 1 {
		if p[0] == w.recvVar {
			return p[1:]
		}
		if _, ok := w.vars[p[0]]; ok {
			return p[1:]
		}
	}
	return p
}

func (w *walker) call(c *ast.CallExpr, out *[]any) {
	// arguments first (evaluation order), then the call
	if fl, ok := c.Fun.(*ast.FuncLit); ok {
		for _, a := range c.Args {
			w.expr(a, out)
		}
		w.block(fl.Body.List, out)
		return
	}
	if sel, ok := c.Fun.(*ast.SelectorExpr); ok {
		w.expr(sel.X, out)
	}
	for _, a := range c.Args {
		w.expr(a, out)
	}
	p, ok := path(c.Fun)
	if !ok {
		return
	}
	method := p[len(p)-1]
	base := p[:len(p)-1]
	for _, tr := range sp.Track {
		if len(base) > 0 && strings.TrimSuffix(base[len(base)-1], "[]") == tr {
			users[tr] = append(users[tr], user{Func: w.fn, Method: method})
		}
	}
	var target *ast.FuncDecl
	var tkey fkey
	if len(base) == 0 {
		// plain function call
		if f, ok := funcs[fkey{"", method}]; ok {
			target, tkey = f, fkey{"", method}
		}
	} else {
		rt := w.resolveType(base)
		if rt != "" {
			if f, ok := funcs[fkey{rt, method}]; ok {
				target, tkey = f, fkey{rt, method}
			}
		}
		if target == nil {
			if it, ok := sp.Iface[method]; ok {
				if f, ok := funcs[fkey{it, method}]; ok {
					target, tkey = f, fkey{it, method}
				}
			}
		}
	}
	if target != nil && !stop[method] && w.depth < sp.Depth && !w.stack[tkey] {
		sub := newWalker(target, tkey, w.depth+1)
		for k := range w.stack {
			sub.stack[k] = true
		}
		sub.block(target.Body.List, out)
		return
	}
	tok := strings.Join(append(w.stripVar(base), method), ".")
	if target != nil {
		tok = tkey.recv + "." + method
		if tkey.recv == "" {
			tok = method
		}
	}
	switch method {
	case "CompareAndSwap", "Store", "Swap", "Add":
		var a []string
		for _, x := range c.Args {
			a = append(a, exprString(x))
		}
		tok += "(" + strings.Join(a, ",") + ")"
	}
	*out = append(*out, tok)
}

func (w *walker) expr(e ast.Expr, out *[]any) {
	if e == nil {
		return
	}
	switch t := e.(type) {
	case *ast.CallExpr:
		w.call(t, out)
	case *ast.BinaryExpr:
		w.expr(t.X, out)
		w.expr(t.Y, out)
	case *ast.UnaryExpr:
		w.expr(t.X, out)
	case *ast.ParenExpr:
		w.expr(t.X, out)
	case *ast.SelectorExpr:
		w.expr(t.X, out)
		for _, r := range sp.Reads {
			if t.Sel.Name == r {
				if p, ok := path(t); ok {
					*out = append(*out, "rd:"+strings.Join(w.stripVar(p), "."))
				}
			}
		}
	case *ast.IndexExpr:
		w.expr(t.X, out)
		w.expr(t.Index, out)
	case *ast.StarExpr:
		w.expr(t.X, out)
	case *ast.CompositeLit:
		for _, x := range t.Elts {
			w.expr(x, out)
		}
	case *ast.KeyValueExpr:
		w.expr(t.Value, out)
	case *ast.TypeAssertExpr:
		w.expr(t.X, out)
	case *ast.FuncLit:
		// closures (go func / errgroup): body listed in place
		w.block(t.Body.List, out)
	}
}

func (w *walker) lhs(e ast.Expr, kind string, out *[]any) {
	p, ok := path(e)
	if !ok {
		return
	}
	if len(p) == 1 {
		return // local variable
	}
	if p[0] != w.recvVar {
		if _, ok := w.vars[p[0]]; !ok {
			return
		}
	}
	*out = append(*out, kind+":"+strings.Join(w.stripVar(p), "."))
}

func (w *walker) stmt(s ast.Stmt, out *[]any) {
	switch t := s.(type) {
	case *ast.ExprStmt:
		w.expr(t.X, out)
	case *ast.AssignStmt:
		for _, r := range t.Rhs {
			w.expr(r, out)
		}
		if t.Tok == token.DEFINE {
			for i, l := range t.Lhs {
				if id, ok := l.(*ast.Ident); ok && i < len(t.Rhs) {
					// remember the type of simple locals: x := rq.locals[i] / x := &T{} / x := recv.field
					if p, ok := path(t.Rhs[i]); ok {
						if rt := w.resolveType(p); rt != "" {
							w.vars[id.Name] = rt
						}
					}
				}
			}
		}
		for _, l := range t.Lhs {
			w.lhs(l, "set", out)
		}
	case *ast.IncDecStmt:
		if t.Tok == token.INC {
			w.lhs(t.X, "inc", out)
		} else {
			w.lhs(t.X, "dec", out)
		}
	case *ast.IfStmt:
		if t.Init != nil {
			w.stmt(t.Init, out)
		}
		w.expr(t.Cond, out)
		w.block(t.Body.List, out)
		if t.Else != nil {
			w.stmt(t.Else, out)
		}
	case *ast.BlockStmt:
		w.block(t.List, out)
	case *ast.ForStmt:
		if t.Init != nil {
			w.stmt(t.Init, out)
		}
		var body []any
		w.expr(t.Cond, &body)
		w.block(t.Body.List, &body)
		if t.Post != nil {
			w.stmt(t.Post, &body)
		}
		*out = append(*out, map[string]any{"loop": body})
	case *ast.RangeStmt:
		w.expr(t.X, out)
		var body []any
		w.block(t.Body.List, &body)
		*out = append(*out, map[string]any{"loop": body})
	case *ast.ReturnStmt:
		for _, r := range t.Results {
			w.expr(r, out)
		}
		if w.depth == 0 {
			*out = append(*out, map[string]any{"ret": true})
		}
	case *ast.DeferStmt:
		w.call(t.Call, out)
	case *ast.GoStmt:
		w.call(t.Call, out)
	case *ast.SwitchStmt:
		if t.Init != nil {
			w.stmt(t.Init, out)
		}
		w.expr(t.Tag, out)
		w.block(t.Body.List, out)
	case *ast.TypeSwitchStmt:
		w.block(t.Body.List, out)
	case *ast.CaseClause:
		for _, e := range t.List {
			w.expr(e, out)
		}
		w.block(t.Body, out)
	case *ast.SelectStmt:
		w.block(t.Body.List, out)
	case *ast.CommClause:
		if t.Comm != nil {
			w.stmt(t.Comm, out)
		}
		w.block(t.Body, out)
	case *ast.DeclStmt:
		if gd, ok := t.Decl.(*ast.GenDecl); ok {
			for _, s := range gd.Specs {
				if vs, ok := s.(*ast.ValueSpec); ok {
					for _, v := range vs.Values {
						w.expr(v, out)
					}
				}
			}
		}
	case *ast.SendStmt:
		w.expr(t.Value, out)
	case *ast.LabeledStmt:
		w.stmt(t.Stmt, out)
	}
}

func (w *walker) block(l []ast.Stmt, out *[]any) {
	for _, s := range l {
		w.stmt(s, out)
	}
}

func newWalker(f *ast.FuncDecl, k fkey, depth int) *walker {
	visited[k.recv+"."+k.name] = true
	w := &walker{vars: map[string]string{}, depth: depth, recvType: k.recv, fn: k.recv + "." + k.name, stack: map[fkey]bool{k: true}}
	if f.Recv != nil && len(f.Recv.List) > 0 && len(f.Recv.List[0].Names) > 0 {
		w.recvVar = f.Recv.List[0].Names[0].Name
	}
	if f.Type.Params != nil {
		for _, p := range f.Type.Params.List {
			for _, n := range p.Names {
				w.vars[n.Name] = typeName(p.Type)
			}
		}
	}
	return w
}

func main() {
	repo := flag.String("repo", "/repo", "repository root")
	specPath := flag.String("spec", "", "spec json")
	flag.Parse()
	b, err := os.ReadFile(*specPath)
	if err != nil {
		fmt.Fprintln(os.Stderr, err)
		os.Exit(2)
	}
	if err := json.Unmarshal(b, &sp); err != nil {
		fmt.Fprintln(os.Stderr, err)
		os.Exit(2)
	}
	if sp.Depth == 0 {
		sp.Depth = 5
	}
	for _, s := range sp.Stop {
		stop[s] = true
	}
	fset := token.NewFileSet()
	for _, f := range sp.Files {
		af, err := parser.ParseFile(fset, filepath.Join(*repo, f), nil, 0)
		if err != nil {
			fmt.Fprintln(os.Stderr, "parse:", err)
			os.Exit(1)
		}
		for _, d := range af.Decls {
			switch t := d.(type) {
			case *ast.FuncDecl:
				if t.Body == nil {
					continue
				}
				k := fkey{"", t.Name.Name}
				if t.Recv != nil && len(t.Recv.List) > 0 {
					k.recv = typeName(t.Recv.List[0].Type)
				}
				funcs[k] = t
				byName[k.name] = append(byName[k.name], k)
			case *ast.GenDecl:
				for _, s := range t.Specs {
					ts, ok := s.(*ast.TypeSpec)
					if !ok {
						continue
					}
					st, ok := ts.Type.(*ast.StructType)
					if !ok {
						continue
					}
					for _, fl := range st.Fields.List {
						tn := typeName(fl.Type)
						for _, n := range fl.Names {
							if old, ok := fieldType[n.Name]; ok && old != tn {
								fieldAmbig[n.Name] = true
							}
							fieldType[n.Name] = tn
						}
					}
				}
			}
		}
	}
	res := map[string]any{}
	vis := map[string][]string{}
	for _, e := range sp.Entries {
		visited = map[string]bool{}
		f, ok := funcs[fkey{e.Recv, e.Func}]
		if !ok {
			res[e.Name] = nil
			continue
		}
		w := newWalker(f, fkey{e.Recv, e.Func}, 0)
		out := []any{}
		w.block(f.Body.List, &out)
		res[e.Name] = out
		var vl []string
		for k := range visited {
			vl = append(vl, k)
		}
		sort.Strings(vl)
		vis[e.Name] = vl
	}
	// users of tracked fields: walk EVERY function of the files once, without inlining
	users = map[string][]user{}
	saveDepth := sp.Depth
	sp.Depth = 0
	var keys []fkey
	for k := range funcs {
		keys = append(keys, k)
	}
	sort.Slice(keys, func(i, j int) bool {
		if keys[i].recv != keys[j].recv {
			return keys[i].recv < keys[j].recv
		}
		return keys[i].name < keys[j].name
	})
	for _, k := range keys {
		w := newWalker(funcs[k], k, 0)
		var out []any
		w.block(funcs[k].Body.List, &out)
	}
	sp.Depth = saveDepth
	called := map[string]bool{}
	if sp.ScanDir != "" {
		ents, _ := os.ReadDir(filepath.Join(*repo, sp.ScanDir))
		for _, e := range ents {
			n := e.Name()
			if e.IsDir() || !strings.HasSuffix(n, ".go") || strings.HasSuffix(n, "_test.go") {
				continue
			}
			af, err := parser.ParseFile(token.NewFileSet(), filepath.Join(*repo, sp.ScanDir, n), nil, 0)
			if err != nil {
				continue
			}
			ast.Inspect(af, func(nd ast.Node) bool {
				if c, ok := nd.(*ast.CallExpr); ok {
					switch f := c.Fun.(type) {
					case *ast.Ident:
						called[f.Name] = true
					case *ast.SelectorExpr:
						called[f.Sel.Name] = true
					}
				}
				// method values / function values passed around
				if se, ok := nd.(*ast.SelectorExpr); ok {
					_ = se
				}
				return true
			})
		}
	}
	var calledList []string
	for k := range called {
		calledList = append(calledList, k)
	}
	sort.Strings(calledList)
	enc := json.NewEncoder(os.Stdout)
	enc.SetIndent("", " ")
	enc.Encode(map[string]any{"entries": res, "users": users, "visited": vis, "called": calledList})
}
