module protoorder

go 1.23
