#!/bin/bash
# tools/mutbatch.sh Cnn [--no-pkgtests] : run every mutant under /tmp/mut-Cnn/_out/m* through mutest.py and archive into seeded/
ID=$1; shift
for d in /tmp/mut-$ID/_out/m*; do
  [ -f $d/patch.diff ] || continue
  k=$(basename $d)
  if [ -z "$FORCE" ] && [ -s /verif/seeded/$ID-$k/result.json ] && grep -q '"caught"' /verif/seeded/$ID-$k/result.json; then echo "$ID $k: already done"; continue; fi
  out=$(timeout 4000 python3 /verif/tools/mutest.py $ID $d "$@" | tail -1)
  dest=/verif/seeded/$ID-$k
  mkdir -p $dest
  cp $d/patch.diff $dest/; cp $d/*_test.go $dest/ 2>/dev/null; [ -f $d/meta.json ] && cp $d/meta.json $dest/agent_meta.json
  echo "$out" > $dest/result.json
  echo "$ID $k: $(echo "$out" | python3 -c 'import json,sys; r=json.loads(sys.stdin.read()); print({k:r.get(k) for k in ("applies","demo_fails_with_patch","demo_passes_without_patch","pkg_tests_pass","caught","with_input","check_s")})')"
done
