#!/bin/bash
# tools/runall.sh [tier] [ids...] : run checks sequentially, print id, exit code, seconds
cd "$(dirname "$0")/.."
tier=${1:-quick}; shift
ids="$@"
if [ -z "$ids" ]; then ids=$(python3 -c "
import json;print(' '.join(c['property_id'] for c in json.load(open('MANIFEST.json'))['checks']))"); fi
mkdir -p .build/runall
for id in $ids; do
  s=$(date +%s)
  bin/check $id $tier > .build/runall/$id.log 2>&1; rc=$?
  e=$(date +%s)
  echo "$id rc=$rc $((e-s))s $(grep -c '^KNOWN-FINDING' .build/runall/$id.log) known $(grep -c '^VIOLATION' .build/runall/$id.log) viol"
done
