#!/bin/bash
# tools/mutqueue.sh P id1 id2 ... : run mutbatch for each id with P parallel workers (--no-pkgtests for package actor properties handled by caller flags file)
P=$1; shift
mkdir -p /verif/.build/mut
printf "%s\n" "$@" | xargs -P $P -I{} sh -c 'cd /verif && tools/mutbatch.sh {} --no-pkgtests > .build/mut/q-{}.log 2>&1'
