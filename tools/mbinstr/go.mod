module mbinstr

go 1.23
