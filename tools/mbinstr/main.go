// mbinstr: yield-point instrumenter for the mailbox files (properties C03/C04).
//
// For every given Go source file of the repository's CURRENT working tree it writes a copy in
// which each statement that performs a synchronisation operation directly (sync/atomic call,
// method Load/Store/Add/Swap/CompareAndSwap/LoadOrStore on an atomic or sync.Map value,
// sync.Pool Get/Put, Mutex Lock/RLock) or stores into a struct field / slice element is preceded by
// `verifMbPoint("<func>", "<op>")`.
// The copies replace the originals at build time through `go test -overlay`; nothing is written
// into the repository. Points are named by enclosing function and operation, never by line.
// No point is inserted before Unlock, so a logical thread never pauses while holding a mutex.
//
//	mbinstr -out <dir> file1.go file2.go ...      (prints "<in> <out> <points>" per file)
package main

import (
	"bytes"
	"flag"
	"fmt"
	"go/ast"
	"go/format"
	"go/parser"
	"go/token"
	"go/types"
	"os"
	"path/filepath"
	"strings"
)

const hook = "verifMbPoint"

var atomicMethods = map[string]bool{"Load": true, "Store": true, "Add": true, "Swap": true, "CompareAndSwap": true,
	"LoadOrStore": true, "Get": true, "Put": true, "Lock": true, "RLock": true}

var count int
var plainWrites bool
var ordinals = map[string]int{}

func main() {
	out := flag.String("out", "", "output directory")
	flag.Parse()
	if *out == "" || flag.NArg() == 0 {
		fmt.Fprintln(os.Stderr, "usage: mbinstr -out dir files...")
		os.Exit(2)
	}
	for _, in := range flag.Args() {
		count = 0
		ordinals = map[string]int{}
		fset := token.NewFileSet()
		src, err := os.ReadFile(in)
		if err != nil {
			die("read %s: %v", in, err)
		}
		file, err := parser.ParseFile(fset, in, src, 0)
		if err != nil {
			die("parse %s: %v", in, err)
		}
		for _, d := range file.Decls {
			if fd, ok := d.(*ast.FuncDecl); ok && fd.Body != nil {
				name := fd.Name.Name
				if fd.Recv != nil && len(fd.Recv.List) == 1 {
					name = recvName(fd.Recv.List[0].Type) + "." + name
				}
				// plain stores are yield points only in functions that synchronise themselves (helpers
				// such as the container/heap adapter run under the caller's mutex or on the consumer only)
				plainWrites = opOf(fd.Body) != ""
				fd.Body.List = instrList(name, fd.Body.List)
			}
		}
		var buf bytes.Buffer
		if err := format.Node(&buf, fset, file); err != nil {
			die("print %s: %v", in, err)
		}
		header := src[:fset.Position(file.Package).Offset]
		dst := filepath.Join(*out, filepath.Base(in))
		if err := os.WriteFile(dst, append(append([]byte{}, header...), buf.Bytes()...), 0o644); err != nil {
			die("write: %v", err)
		}
		fmt.Printf("%s %s %d\n", in, dst, count)
	}
}

func die(f string, a ...any) {
	fmt.Fprintf(os.Stderr, "mbinstr: "+f+"\n", a...)
	os.Exit(1)
}

func recvName(e ast.Expr) string {
	switch t := e.(type) {
	case *ast.StarExpr:
		return recvName(t.X)
	case *ast.Ident:
		return t.Name
	case *ast.IndexExpr:
		return recvName(t.X)
	}
	return "?"
}

// opOf: the first synchronisation operation occurring directly in the nodes (function literals are
// not entered).
func opOf(nodes ...ast.Node) string {
	op := ""
	for _, n := range nodes {
		if n == nil {
			continue
		}
		ast.Inspect(n, func(x ast.Node) bool {
			if op != "" {
				return false
			}
			switch e := x.(type) {
			case *ast.FuncLit:
				return false
			case *ast.CallExpr:
				if sel, ok := e.Fun.(*ast.SelectorExpr); ok {
					if id, ok := sel.X.(*ast.Ident); ok && id.Name == "atomic" {
						op = sel.Sel.Name
						return false
					}
					if atomicMethods[sel.Sel.Name] {
						s := types.ExprString(sel.X)
						if i := strings.LastIndex(s, "."); i >= 0 {
							s = s[i+1:]
						}
						if j := strings.Index(s, "["); j >= 0 {
							s = s[:j]
						}
						op = s + "." + sel.Sel.Name
						return false
					}
				}
			}
			return true
		})
	}
	return op
}

func point(fn, op string) ast.Stmt {
	count++
	ordinals[fn+"/"+op]++
	op = fmt.Sprintf("%s#%d", op, ordinals[fn+"/"+op])
	return &ast.ExprStmt{X: &ast.CallExpr{Fun: ast.NewIdent(hook), Args: []ast.Expr{
		&ast.BasicLit{Kind: token.STRING, Value: fmt.Sprintf("%q", fn)},
		&ast.BasicLit{Kind: token.STRING, Value: fmt.Sprintf("%q", op)}}}}
}

func stmtNode(s ast.Stmt) ast.Node {
	if s == nil {
		return nil
	}
	return s
}
func exprNode(e ast.Expr) ast.Node {
	if e == nil {
		return nil
	}
	return e
}

func instrList(fn string, list []ast.Stmt) []ast.Stmt {
	var out []ast.Stmt
	for _, s := range list {
		op := ""
		switch st := s.(type) {
		case *ast.BlockStmt:
			st.List = instrList(fn, st.List)
		case *ast.IfStmt:
			op = opOf(stmtNode(st.Init), exprNode(st.Cond))
			instrIf(fn, st)
		case *ast.ForStmt:
			op = opOf(stmtNode(st.Init), exprNode(st.Cond))
			st.Body.List = instrList(fn, st.Body.List)
			if c := opOf(exprNode(st.Cond), stmtNode(st.Post)); c != "" {
				st.Body.List = append(st.Body.List, point(fn, c)) // condition re-evaluated every iteration
			}
		case *ast.RangeStmt:
			op = opOf(exprNode(st.X))
			st.Body.List = instrList(fn, st.Body.List)
		case *ast.SwitchStmt:
			op = opOf(stmtNode(st.Init), exprNode(st.Tag))
			for _, c := range st.Body.List {
				cc := c.(*ast.CaseClause)
				cc.Body = instrList(fn, cc.Body)
			}
		case *ast.TypeSwitchStmt:
			for _, c := range st.Body.List {
				cc := c.(*ast.CaseClause)
				cc.Body = instrList(fn, cc.Body)
			}
		case *ast.SelectStmt:
			for _, c := range st.Body.List {
				cc := c.(*ast.CommClause)
				cc.Body = instrList(fn, cc.Body)
			}
		case *ast.LabeledStmt:
			inner := instrList(fn, []ast.Stmt{st.Stmt})
			if len(inner) == 2 {
				out = append(out, inner[0])
			}
			st.Stmt = inner[len(inner)-1]
		case *ast.DeferStmt, *ast.GoStmt:
			// not a yield point in the enclosing thread
		case *ast.AssignStmt:
			op = opOf(s)
			if op == "" && plainWrites {
				// a plain store into shared memory (struct field or slice/array element), e.g. cell.ctx = msg:
				// the protocol decides who owns it, so it is a yield point as well
				for _, l := range st.Lhs {
					switch x := l.(type) {
					case *ast.SelectorExpr:
						op = "write:" + x.Sel.Name
					case *ast.IndexExpr:
						if sel, ok := x.X.(*ast.SelectorExpr); ok {
							op = "write:" + sel.Sel.Name + "[]"
						}
					}
					if op != "" {
						break
					}
				}
			}
		default:
			op = opOf(s)
		}
		if op != "" {
			out = append(out, point(fn, op))
		}
		out = append(out, s)
	}
	return out
}

func instrIf(fn string, st *ast.IfStmt) {
	st.Body.List = instrList(fn, st.Body.List)
	switch e := st.Else.(type) {
	case *ast.BlockStmt:
		e.List = instrList(fn, e.List)
	case *ast.IfStmt:
		// `else if <atomic>`: the condition is evaluated only when the first test failed
		if op := opOf(stmtNode(e.Init), exprNode(e.Cond)); op != "" {
			instrIf(fn, e)
			st.Else = &ast.BlockStmt{List: []ast.Stmt{point(fn, op), e}}
		} else {
			instrIf(fn, e)
		}
	}
}
