#!/usr/bin/env python3
"""Write seeded/<id>/meta.json from the author's agent_meta.json and the lead's result.json."""
import glob, json, os
ROOT = os.path.dirname(os.path.dirname(os.path.abspath(__file__)))
n = 0
for d in sorted(glob.glob(os.path.join(ROOT, "seeded", "C*-m*"))):
    try:
        r = json.loads(open(os.path.join(d, "result.json")).read().strip().splitlines()[-1])
    except Exception:
        continue
    a = {}
    for mn in ("agent_meta.json",):
        p = os.path.join(d, mn)
        if os.path.exists(p):
            try:
                a = json.load(open(p))
            except Exception:
                pass
    verdict = "caught with a concrete failing input" if r.get("caught") and r.get("with_input") else ("caught (proof/tie broken, no failing input)" if r.get("caught") else "not caught")
    meta = {
        "property": r.get("property"),
        "breaks": a.get("what_it_breaks"),
        "needs_in_order_to_manifest": a.get("needs_to_manifest"),
        "files_touched": a.get("files_touched") or r.get("packages"),
        "demonstration": {"file": "demo_test.go", "copy_to": a.get("demo_dir"), "command": a.get("demo_cmd")},
        "author": "independent sub-agent given only the property text and a scratch worktree; its own record is agent_meta.json (existing tests it ran: %s)" % (str(a.get("existing_tests_run"))[:600]),
        "what_the_lead_ran": "tools/mutest.py %s seeded/%s : scratch worktree of /repo HEAD + patch.diff; demonstration with the patch and without it; `bin/check %s quick` of a private copy of /verif with VERIF_REPO=<patched worktree>" % (r.get("property"), os.path.basename(d), r.get("property")),
        "confirmed": {"patch_applies_and_builds": r.get("applies"), "demo_fails_with_patch": r.get("demo_fails_with_patch"), "demo_passes_without_patch": r.get("demo_passes_without_patch"),
                      "touched_packages_existing_tests_with_patch": {True: "pass (lead's run)", False: "FAIL (lead's run)", None: "run by the author (see agent_meta.json); baseline suite of the unpatched tree re-run by the lead: docs/baseline_run.txt"}[r.get("pkg_tests_pass")]},
        "check_verdict": verdict,
        "check_first_lines": r.get("check_lines", [])[:4],
    }
    json.dump(meta, open(os.path.join(d, "meta.json"), "w"), indent=1)
    n += 1
print(n, "meta.json written")
