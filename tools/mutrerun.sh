#!/bin/bash
# tools/mutrerun.sh Cnn [flags] : re-run every archived seeded/Cnn-m* through mutest.py and refresh result.json
ID=$1; shift
for d in /verif/seeded/$ID-m*; do
  [ -f $d/patch.diff ] || continue
  out=$(timeout 4000 python3 /verif/tools/mutest.py $ID $d "$@" | tail -1)
  echo "$out" > $d/result.json
  echo "$ID $(basename $d): $(echo "$out" | python3 -c 'import json,sys; r=json.loads(sys.stdin.read()); print({k:r.get(k) for k in ("applies","demo_fails_with_patch","demo_passes_without_patch","pkg_tests_pass","caught","with_input","check_s")})')"
done
