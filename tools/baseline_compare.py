#!/usr/bin/env python3
"""Run the repository's test suite (guard off) on /repo and compare with /root/.vp/BASELINE.json stable_pass.
usage: baseline_compare.py [json-log]   (runs `go test -json` when no log is given; writes .build/baseline.json)"""
import json, os, subprocess, sys
ROOT = os.path.dirname(os.path.dirname(os.path.abspath(__file__)))
log = sys.argv[1] if len(sys.argv) > 1 else os.path.join(ROOT, ".build", "baseline.json")
if len(sys.argv) <= 1:
    env = dict(os.environ, GOFLAGS="-mod=mod")
    with open(log, "w") as f:
        subprocess.run("go test -mod=mod -json -vet=off -count=1 -timeout 60m ./...", shell=True, cwd="/repo", env=env, stdout=f, stderr=subprocess.STDOUT)
res = {}
for line in open(log, errors="replace"):
    try:
        e = json.loads(line)
    except Exception:
        continue
    if e.get("Test") and e.get("Action") in ("pass", "fail", "skip"):
        res[e["Package"] + "::" + e["Test"]] = e["Action"]
b = json.load(open("/root/.vp/BASELINE.json"))
bad = [t for t in b["stable_pass"] if res.get(t) != "pass"]
print("stable_pass: %d, passing now: %d, not passing: %d" % (len(b["stable_pass"]), len(b["stable_pass"]) - len(bad), len(bad)))
for t in bad:
    print("  ", res.get(t, "MISSING"), t)
