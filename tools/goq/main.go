// goq: a small Go -> Gallina translator for scalar integer code.
//
// It reads functions (or an index expression inside a function) from the CURRENT working tree of
// the repository and emits Gallina definitions over the GoInt library (Z with explicit wrap-around).
// Anything outside the supported subset is an error: the caller then treats the translation
// obligation as broken; there is no silent fallback.
//
// usage: goq -repo /repo -spec spec.json -out File.v
//
// spec.json: {"module": "GenC08", "targets": [ {
//     "file": "actor/pid.go", "func": "backoffDelay", "recv": "", "name": "backoffDelay",
//     "mode": "func" | "index",          // index: the first IndexExpr over `index_of` in the function
//     "index_of": "routees",
//     "free": {"x_next": "uint32", "len_x_nodes": "int"}   // types of free variables (become parameters)
// } ]}
package main

import (
	"encoding/json"
	"flag"
	"fmt"
	"go/ast"
	"go/parser"
	"go/token"
	"os"
	"path/filepath"
	"reflect"
	"sort"
	"strings"
)

type Target struct {
	File    string            `json:"file"`
	Func    string            `json:"func"`
	Recv    string            `json:"recv"`
	Name    string            `json:"name"`
	Mode    string            `json:"mode"`
	IndexOf string            `json:"index_of"`
	Free    map[string]string `json:"free"`
	// FreeOrder fixes the order of the free-variable parameters (defaults to sorted names).
	FreeOrder []string `json:"free_order"`
	// StoreTo (mode "store"): flattened name of the field (e.g. x_roundRobinNext) whose value after the
	// block that contains the index expression over IndexOf is returned (selector assignment,
	// atomic.StoreUintNN(&f, e) and atomic.AddUintNN(&f, d) are the recognised writes).
	StoreTo string `json:"store_to"`
	// Local (mode "local"): name of the local variable whose defining expression is translated.
	Local string `json:"local"`
	// Case (modes "index"/"store", optional): restrict the search to the body of the first switch case
	// clause whose expression list contains this identifier (e.g. RoundRobinRouting).
	Case string `json:"case"`
}

type Spec struct {
	Module  string   `json:"module"`
	Targets []Target `json:"targets"`
}

type tr struct {
	fset  *token.FileSet
	types map[string]string // variable -> go type (normalised)
	free  map[string]string
	used  map[string]bool
	fresh int
	// track: field writes (x.f = e, atomic.Store*(&x.f, e), atomic.Add*(&x.f, d)) shadow the free
	// variable of the field from then on (modes "index" with "track_stores" semantics and "store").
	track   bool
	prelude []string // let-bindings hoisted in front of the statement being translated (atomic.Add under track)
}

// softDie: when set, die panics with a dieErr instead of exiting (mode "store" uses it to mark the
// target of an untranslatable assignment opaque instead of failing; using an opaque variable still fails).
var softDie bool

type dieErr struct{ msg string }

func die(format string, a ...any) {
	if softDie {
		panic(dieErr{fmt.Sprintf(format, a...)})
	}
	fmt.Fprintf(os.Stderr, "goq: "+format+"\n", a...)
	os.Exit(2)
}

func normType(t string) (string, bool) {
	switch t {
	case "int", "int64", "time.Duration", "Duration":
		return "int64", true
	case "int32":
		return "int32", true
	case "uint", "uint64", "uintptr":
		return "uint64", true
	case "uint32":
		return "uint32", true
	case "bool":
		return "bool", true
	}
	return "", false
}

func typeString(e ast.Expr) string {
	switch t := e.(type) {
	case *ast.Ident:
		return t.Name
	case *ast.SelectorExpr:
		return typeString(t.X) + "." + t.Sel.Name
	case *ast.StarExpr:
		return "*" + typeString(t.X)
	case *ast.ArrayType:
		return "[]" + typeString(t.Elt)
	}
	return "?"
}

func wrapOf(ty string) string {
	switch ty {
	case "int64":
		return "i64"
	case "int32":
		return "i32"
	case "uint64":
		return "u64"
	case "uint32":
		return "u32"
	}
	return ""
}

func (t *tr) pos(n ast.Node) string {
	if n == nil || reflect.ValueOf(n).IsNil() {
		return "(end of block)"
	}
	return t.fset.Position(n.Pos()).String()
}

// flatten a selector chain x.a.b into x_a_b
func flatSel(e ast.Expr) (string, bool) {
	switch v := e.(type) {
	case *ast.Ident:
		return v.Name, true
	case *ast.SelectorExpr:
		p, ok := flatSel(v.X)
		if !ok {
			return "", false
		}
		return p + "_" + v.Sel.Name, true
	case *ast.ParenExpr:
		return flatSel(v.X)
	}
	return "", false
}

func coqIdent(s string) string {
	switch s {
	case "max", "min", "in", "at", "as", "end", "fun", "let", "if", "then", "else", "return", "match", "with", "fix", "Type", "Prop", "Set", "forall", "exists":
		return s + "_"
	}
	return s
}

func (t *tr) useFree(name string, n ast.Node) (string, string) {
	ty, ok := t.free[name]
	if !ok {
		die("%s: free variable %q has no declared type in the spec", t.pos(n), name)
	}
	nt, ok := normType(ty)
	if !ok {
		die("%s: unsupported type %q for free variable %q", t.pos(n), ty, name)
	}
	t.used[name] = true
	return coqIdent(name), nt
}

// readVar reads a (flattened) field: the shadowing let when the field was written earlier in the
// fragment, the free variable otherwise.
func (t *tr) readVar(name string, n ast.Node) (string, string) {
	if ty, ok := t.types[name]; ok {
		if ty == "opaque" {
			die("%s: %s holds a value outside the subset", t.pos(n), name)
		}
		return coqIdent(name), ty
	}
	return t.useFree(name, n)
}

// addrField: &x.f -> "x_f"
func addrField(e ast.Expr) (string, bool) {
	u, ok := e.(*ast.UnaryExpr)
	if !ok || u.Op != token.AND {
		return "", false
	}
	return flatSel(u.X)
}

var atomicWidth = map[string]string{
	"atomic.AddUint32": "uint32", "atomic.AddUint64": "uint64", "atomic.AddInt64": "int64", "atomic.AddInt32": "int32",
	"atomic.LoadUint32": "uint32", "atomic.LoadUint64": "uint64", "atomic.LoadInt64": "int64", "atomic.LoadInt32": "int32",
	"atomic.StoreUint32": "uint32", "atomic.StoreUint64": "uint64", "atomic.StoreInt64": "int64", "atomic.StoreInt32": "int32",
}

// unify operand types: an untyped constant adopts the other side's type
func unify(a, b string) (string, bool) {
	if a == "const" {
		return b, true
	}
	if b == "const" {
		return a, true
	}
	return a, a == b
}

func (t *tr) expr(e ast.Expr) (string, string) {
	switch v := e.(type) {
	case *ast.ParenExpr:
		s, ty := t.expr(v.X)
		return "(" + s + ")", ty
	case *ast.BasicLit:
		if v.Kind != token.INT {
			die("%s: unsupported literal %s", t.pos(v), v.Value)
		}
		var z int64
		if _, err := fmt.Sscan(v.Value, &z); err != nil {
			die("%s: bad int literal %s", t.pos(v), v.Value)
		}
		return fmt.Sprintf("%d", z), "const"
	case *ast.Ident:
		if v.Name == "true" || v.Name == "false" {
			return v.Name, "bool"
		}
		if ty, ok := t.types[v.Name]; ok {
			if ty == "opaque" {
				die("%s: variable %s holds a value outside the subset", t.pos(v), v.Name)
			}
			return coqIdent(v.Name), ty
		}
		return t.useFree(v.Name, v)
	case *ast.SelectorExpr:
		name, ok := flatSel(v)
		if !ok {
			die("%s: unsupported selector", t.pos(v))
		}
		return t.readVar(name, v)
	case *ast.UnaryExpr:
		s, ty := t.expr(v.X)
		switch v.Op {
		case token.NOT:
			return "(negb " + s + ")", "bool"
		case token.SUB:
			if ty == "const" {
				return "(- " + s + ")", ty
			}
			return "(" + wrapOf(ty) + " (- " + s + "))", ty
		}
		die("%s: unsupported unary operator %s", t.pos(v), v.Op)
	case *ast.BinaryExpr:
		return t.binary(v)
	case *ast.CallExpr:
		return t.call(v)
	}
	die("%s: unsupported expression %T", t.pos(e), e)
	return "", ""
}

func (t *tr) binary(v *ast.BinaryExpr) (string, string) {
	l, lt := t.expr(v.X)
	r, rt := t.expr(v.Y)
	switch v.Op {
	case token.LAND:
		return "(" + l + " && " + r + ")", "bool"
	case token.LOR:
		return "(" + l + " || " + r + ")", "bool"
	case token.SHL, token.SHR:
		if lt == "const" {
			die("%s: shift of an untyped constant is not supported", t.pos(v))
		}
		if rt != "uint64" && rt != "uint32" && rt != "const" {
			// Go >= 1.13 allows signed counts (panics if negative); keep it out of the subset
			die("%s: shift count must be unsigned or constant (got %s)", t.pos(v), rt)
		}
		op := "shl"
		if v.Op == token.SHR {
			op = "shr"
		}
		w := wrapOf(lt)
		if w == "i32" {
			die("%s: int32 shifts unsupported", t.pos(v))
		}
		return fmt.Sprintf("(%s_%s %s %s)", w, op, l, r), lt
	}
	ty, ok := unify(lt, rt)
	if !ok {
		die("%s: mismatched operand types %s and %s", t.pos(v), lt, rt)
	}
	cmp := map[token.Token]string{token.LSS: "<?", token.LEQ: "<=?", token.GTR: ">?", token.GEQ: ">=?", token.EQL: "=?"}
	if op, ok := cmp[v.Op]; ok {
		if ty == "bool" {
			die("%s: bool comparison unsupported", t.pos(v))
		}
		return "(" + l + " " + op + " " + r + ")", "bool"
	}
	if v.Op == token.NEQ {
		return "(negb (" + l + " =? " + r + "))", "bool"
	}
	if ty == "bool" {
		die("%s: arithmetic on bool", t.pos(v))
	}
	wrap := func(s string) string {
		if ty == "const" {
			return "(" + s + ")"
		}
		return "(" + wrapOf(ty) + " (" + s + "))"
	}
	switch v.Op {
	case token.ADD:
		return wrap(l + " + " + r), ty
	case token.SUB:
		return wrap(l + " - " + r), ty
	case token.MUL:
		return wrap(l + " * " + r), ty
	case token.QUO:
		return wrap("go_quot " + l + " " + r), ty
	case token.REM:
		return wrap("go_rem " + l + " " + r), ty
	}
	die("%s: unsupported binary operator %s", t.pos(v), v.Op)
	return "", ""
}

func (t *tr) call(v *ast.CallExpr) (string, string) {
	fn := typeString(v.Fun)
	// conversions
	if nt, ok := normType(fn); ok && len(v.Args) == 1 && nt != "bool" {
		s, from := t.expr(v.Args[0])
		if from == "const" || from == nt {
			return s, nt
		}
		// widening conversions that cannot change the value
		if (from == "uint32" && (nt == "int64" || nt == "uint64")) || (from == "int32" && nt == "int64") {
			return s, nt
		}
		return "(" + wrapOf(nt) + " " + s + ")", nt
	}
	switch fn {
	case "len":
		name, ok := flatSel(v.Args[0])
		if !ok {
			die("%s: len of a non-variable", t.pos(v))
		}
		return t.useFree("len_"+name, v)
	case "min", "max":
		if len(v.Args) != 2 {
			die("%s: %s with %d args", t.pos(v), fn, len(v.Args))
		}
		a, at := t.expr(v.Args[0])
		b, bt := t.expr(v.Args[1])
		ty, ok := unify(at, bt)
		if !ok {
			die("%s: mismatched %s operands", t.pos(v), fn)
		}
		return "(Z." + fn + " " + a + " " + b + ")", ty
	case "atomic.AddUint32", "atomic.AddUint64", "atomic.AddInt64":
		u, ok := v.Args[0].(*ast.UnaryExpr)
		if !ok || u.Op != token.AND {
			die("%s: atomic add needs &field", t.pos(v))
		}
		name, ok := flatSel(u.X)
		if !ok {
			die("%s: atomic add on a non-field", t.pos(v))
		}
		cur, ty := t.readVar(name, v)
		want := map[string]string{"atomic.AddUint32": "uint32", "atomic.AddUint64": "uint64", "atomic.AddInt64": "int64"}[fn]
		if ty != want {
			die("%s: %s on %s", t.pos(v), fn, ty)
		}
		d, _ := t.expr(v.Args[1])
		val := "(" + wrapOf(ty) + " (" + cur + " + " + d + "))"
		if t.track {
			// the addition also writes the field: hoist `let tmp := new in let field := tmp in`
			t.fresh++
			tmp := fmt.Sprintf("atomic_new%d", t.fresh)
			t.prelude = append(t.prelude, "let "+tmp+" := "+val+" in\n  let "+coqIdent(name)+" := "+tmp+" in\n  ")
			t.types[name] = ty
			return tmp, ty
		}
		return val, ty
	case "atomic.LoadUint32", "atomic.LoadUint64", "atomic.LoadInt64", "atomic.LoadInt32":
		if len(v.Args) != 1 {
			die("%s: %s with %d args", t.pos(v), fn, len(v.Args))
		}
		name, ok := addrField(v.Args[0])
		if !ok {
			die("%s: atomic load needs &field", t.pos(v))
		}
		s, ty := t.readVar(name, v)
		if ty != atomicWidth[fn] {
			die("%s: %s on %s", t.pos(v), fn, ty)
		}
		return s, ty
	}
	// value-preserving methods on time.Duration / atomics: x.Nanoseconds(), x.Load()
	if sel, ok := v.Fun.(*ast.SelectorExpr); ok && len(v.Args) == 0 {
		switch sel.Sel.Name {
		case "Nanoseconds":
			s, ty := t.expr(sel.X)
			if ty != "int64" {
				die("%s: Nanoseconds on %s", t.pos(v), ty)
			}
			return s, ty
		case "Load":
			name, ok := flatSel(sel.X)
			if ok {
				return t.useFree(name, v)
			}
		}
	}
	die("%s: unsupported call %s", t.pos(v), fn)
	return "", ""
}

// endsInReturn: does the statement list always return?
func endsInReturn(stmts []ast.Stmt) bool {
	if len(stmts) == 0 {
		return false
	}
	switch s := stmts[len(stmts)-1].(type) {
	case *ast.ReturnStmt:
		return true
	case *ast.IfStmt:
		if s.Else == nil {
			return false
		}
		eb, ok := s.Else.(*ast.BlockStmt)
		if !ok {
			if ei, ok := s.Else.(*ast.IfStmt); ok {
				return endsInReturn(s.Body.List) && endsInReturn([]ast.Stmt{ei})
			}
			return false
		}
		return endsInReturn(s.Body.List) && endsInReturn(eb.List)
	}
	return false
}

func (t *tr) assign(a *ast.AssignStmt, rest func() string) string {
	if len(a.Lhs) != 1 || len(a.Rhs) != 1 {
		die("%s: only single assignment supported", t.pos(a))
	}
	id, ok := a.Lhs[0].(*ast.Ident)
	if !ok {
		// field write x.f = e: a let that shadows the field's free variable from here on
		if sel, isSel := a.Lhs[0].(*ast.SelectorExpr); isSel {
			if name, okf := flatSel(sel); okf {
				if a.Tok == token.DEFINE {
					die("%s: := on a field", t.pos(a))
				}
				if _, shadowed := t.types[name]; !shadowed {
					if _, declared := t.free[name]; !declared {
						die("%s: write to field %q that has no declared type in the spec", t.pos(a), name)
					}
				}
				id = &ast.Ident{Name: name, NamePos: a.Pos()}
				ok = true
			}
		}
	}
	if !ok {
		die("%s: assignment to a non-variable", t.pos(a))
	}
	if _, isSel := a.Lhs[0].(*ast.SelectorExpr); isSel && a.Tok != token.ASSIGN {
		// compound assignment on a field: x.f op= e reads the field through readVar
		opTok := map[token.Token]token.Token{token.ADD_ASSIGN: token.ADD, token.SUB_ASSIGN: token.SUB, token.MUL_ASSIGN: token.MUL, token.SHL_ASSIGN: token.SHL, token.SHR_ASSIGN: token.SHR, token.QUO_ASSIGN: token.QUO, token.REM_ASSIGN: token.REM}[a.Tok]
		if opTok == 0 {
			die("%s: unsupported assignment operator %s", t.pos(a), a.Tok)
		}
		s, ty := t.binary(&ast.BinaryExpr{X: a.Lhs[0], Op: opTok, Y: a.Rhs[0], OpPos: a.Pos()})
		pre := t.takePrelude()
		t.types[id.Name] = ty
		return pre + "let " + coqIdent(id.Name) + " := " + s + " in\n  " + rest()
	}
	var s, ty string
	switch a.Tok {
	case token.DEFINE, token.ASSIGN:
		s, ty = t.expr(a.Rhs[0])
	default:
		// compound assignment x op= e
		opTok := map[token.Token]token.Token{token.ADD_ASSIGN: token.ADD, token.SUB_ASSIGN: token.SUB, token.MUL_ASSIGN: token.MUL, token.SHL_ASSIGN: token.SHL, token.SHR_ASSIGN: token.SHR, token.QUO_ASSIGN: token.QUO, token.REM_ASSIGN: token.REM}[a.Tok]
		if opTok == 0 {
			die("%s: unsupported assignment operator %s", t.pos(a), a.Tok)
		}
		s, ty = t.binary(&ast.BinaryExpr{X: id, Op: opTok, Y: a.Rhs[0], OpPos: a.Pos()})
	}
	if _, isSel := a.Lhs[0].(*ast.SelectorExpr); isSel && ty == "const" {
		if nt, okn := normType(t.free[id.Name]); okn {
			ty = nt
		}
	}
	if ty == "const" {
		ty = "int64"
	}
	if _, isSel := a.Lhs[0].(*ast.SelectorExpr); isSel {
		// the field's declared type decides the width of the stored value
		if ft, okf := t.free[id.Name]; okf {
			if nt, okn := normType(ft); okn && nt != ty {
				die("%s: field %s of type %s assigned a %s", t.pos(a), id.Name, nt, ty)
			}
		}
	}
	if old, ok := t.types[id.Name]; ok && old != ty && old != "opaque" && a.Tok == token.ASSIGN {
		die("%s: assignment changes type of %s", t.pos(a), id.Name)
	}
	pre := t.takePrelude()
	t.types[id.Name] = ty
	return pre + "let " + coqIdent(id.Name) + " := " + s + " in\n  " + rest()
}

func (t *tr) takePrelude() string {
	p := strings.Join(t.prelude, "")
	t.prelude = nil
	return p
}

// atomicStore recognises the statement atomic.StoreUintNN(&x.f, e) and returns (field, e).
func atomicStore(st ast.Stmt) (string, ast.Expr, string, bool) {
	es, ok := st.(*ast.ExprStmt)
	if !ok {
		return "", nil, "", false
	}
	c, ok := es.X.(*ast.CallExpr)
	if !ok || len(c.Args) != 2 {
		return "", nil, "", false
	}
	fn := typeString(c.Fun)
	if !strings.HasPrefix(fn, "atomic.Store") {
		return "", nil, "", false
	}
	w, ok := atomicWidth[fn]
	if !ok {
		return "", nil, "", false
	}
	name, ok := addrField(c.Args[0])
	if !ok {
		return "", nil, "", false
	}
	return name, c.Args[1], w, true
}

// storeLet translates atomic.StoreUintNN(&x.f, e) as `let x_f := e in rest`.
func (t *tr) storeLet(st ast.Stmt, name string, val ast.Expr, width string, rest func() string) string {
	s, ty := t.expr(val)
	if ty == "const" {
		ty = width
	}
	if ty != width {
		die("%s: atomic store of a %s into a %s field", t.pos(st), ty, width)
	}
	pre := t.takePrelude()
	t.types[name] = ty
	return pre + "let " + coqIdent(name) + " := " + s + " in\n  " + rest()
}

// stmts translates a statement list that must end in a return on every path.
func (t *tr) stmts(list []ast.Stmt) string {
	if len(list) == 0 {
		die("function body falls off the end (no return)")
	}
	rest := func() string { return t.stmts(list[1:]) }
	switch s := list[0].(type) {
	case *ast.ReturnStmt:
		if len(s.Results) != 1 {
			die("%s: only single-result returns supported", t.pos(s))
		}
		e, _ := t.expr(s.Results[0])
		return e
	case *ast.AssignStmt:
		return t.assign(s, rest)
	case *ast.DeclStmt:
		die("%s: var declarations unsupported", t.pos(s))
	case *ast.IfStmt:
		body := func() string {
			c, ct := t.expr(s.Cond)
			if ct != "bool" {
				die("%s: non-boolean condition", t.pos(s))
			}
			if !endsInReturn(s.Body.List) {
				die("%s: if-branch must end in return (only early-return control flow is supported)", t.pos(s))
			}
			saved := copyTypes(t.types)
			th := t.stmts(s.Body.List)
			t.types = copyTypes(saved)
			var el string
			if s.Else != nil {
				switch eb := s.Else.(type) {
				case *ast.BlockStmt:
					if !endsInReturn(eb.List) {
						die("%s: else-branch must end in return", t.pos(s))
					}
					el = t.stmts(eb.List)
				case *ast.IfStmt:
					el = t.stmts(append([]ast.Stmt{eb}, list[1:]...))
				}
			} else {
				el = rest()
			}
			t.types = saved
			return "if " + c + " then " + th + "\n  else " + el
		}
		if s.Init != nil {
			a, ok := s.Init.(*ast.AssignStmt)
			if !ok {
				die("%s: unsupported if-init", t.pos(s))
			}
			return t.assign(a, body)
		}
		return body()
	case *ast.ExprStmt:
		die("%s: expression statements (side effects) are outside the subset", t.pos(s))
	}
	die("%s: unsupported statement %T", t.pos(list[0]), list[0])
	return ""
}

func copyTypes(m map[string]string) map[string]string {
	c := make(map[string]string, len(m))
	for k, v := range m {
		c[k] = v
	}
	return c
}

// findIndexBlock finds the innermost statement list containing the first IndexExpr over `name`,
// returning the statements that precede it in that list and the index expression.
func findIndexBlock(body *ast.BlockStmt, name string) ([]ast.Stmt, ast.Expr) {
	pre, _, idx := findIndexBlockFull(body, name)
	return pre, idx
}

// findIndexList: the whole innermost statement list containing the first IndexExpr over `name`.
func findIndexList(body *ast.BlockStmt, name string) ([]ast.Stmt, ast.Expr) {
	_, full, idx := findIndexBlockFull(body, name)
	return full, idx
}

func findIndexBlockFull(body *ast.BlockStmt, name string) ([]ast.Stmt, []ast.Stmt, ast.Expr) {
	var pre []ast.Stmt
	var full []ast.Stmt
	var idx ast.Expr
	var visitList func(list []ast.Stmt) bool
	containsIdx := func(n ast.Node) ast.Expr {
		var found ast.Expr
		ast.Inspect(n, func(m ast.Node) bool {
			if found != nil {
				return false
			}
			if ie, ok := m.(*ast.IndexExpr); ok {
				if fs, ok := flatSel(ie.X); ok && fs == name {
					found = ie.Index
					return false
				}
			}
			return true
		})
		return found
	}
	visitList = func(list []ast.Stmt) bool {
		for i, st := range list {
			if containsIdx(st) == nil {
				continue
			}
			// descend into nested blocks first
			nested := false
			ast.Inspect(st, func(m ast.Node) bool {
				if nested {
					return false
				}
				switch b := m.(type) {
				case *ast.BlockStmt:
					if containsIdx(b) != nil && visitList(b.List) {
						nested = true
						return false
					}
				case *ast.CaseClause:
					if visitList(b.Body) {
						nested = true
						return false
					}
				}
				return true
			})
			if nested {
				return true
			}
			pre = list[:i]
			full = list
			idx = containsIdx(st)
			return true
		}
		return false
	}
	visitList(body.List)
	return pre, full, idx
}

// incDecAsAssign rewrites x++ / x-- as x += 1 / x -= 1.
func incDecAsAssign(st ast.Stmt) ast.Stmt {
	if id, ok := st.(*ast.IncDecStmt); ok {
		tok := token.ADD_ASSIGN
		if id.Tok == token.DEC {
			tok = token.SUB_ASSIGN
		}
		return &ast.AssignStmt{Lhs: []ast.Expr{id.X}, TokPos: id.TokPos, Tok: tok, Rhs: []ast.Expr{&ast.BasicLit{ValuePos: id.TokPos, Kind: token.INT, Value: "1"}}}
	}
	return st
}

func (t *tr) indexFragment(pre []ast.Stmt, idx ast.Expr) string {
	if len(pre) == 0 {
		e, _ := t.expr(idx)
		return e
	}
	switch s := incDecAsAssign(pre[0]).(type) {
	case *ast.AssignStmt:
		return t.assign(s, func() string { return t.indexFragment(pre[1:], idx) })
	case *ast.ExprStmt, *ast.DeferStmt:
		if name, val, w, ok := atomicStore(pre[0]); ok {
			return t.storeLet(pre[0], name, val, w, func() string { return t.indexFragment(pre[1:], idx) })
		}
		// lock/unlock/defer calls before the index expression carry no integer data flow
		return t.indexFragment(pre[1:], idx)
	}
	die("%s: unsupported statement %T before index expression", t.pos(pre[0]), pre[0])
	return ""
}

// storeFragment walks a statement list to its end (or first return) and yields the value the field
// `field` holds afterwards. Assignments whose right-hand side is outside the subset (e.g. the slice
// read itself) make their target opaque; control flow other than a trailing return is rejected.
func (t *tr) storeFragment(list []ast.Stmt, field string) string {
	if len(list) == 0 {
		s, _ := t.readVar(field, nil)
		return s
	}
	rest := func() string { return t.storeFragment(list[1:], field) }
	switch s := incDecAsAssign(list[0]).(type) {
	case *ast.ReturnStmt:
		// a return expression may still write the field (atomic.Add inside it)
		for _, r := range s.Results {
			t.tryExpr(r)
		}
		pre := t.takePrelude()
		v, _ := t.readVar(field, s)
		return pre + v
	case *ast.AssignStmt:
		if out, ok := t.tryAssign(s, rest); ok {
			return out
		}
		for _, l := range s.Lhs {
			if n, ok := flatSel(l); ok {
				t.types[n] = "opaque"
			}
		}
		return rest()
	case *ast.ExprStmt, *ast.DeferStmt, *ast.GoStmt:
		if name, val, w, ok := atomicStore(list[0]); ok {
			return t.storeLet(list[0], name, val, w, rest)
		}
		if es, ok := list[0].(*ast.ExprStmt); ok {
			// a call statement may contain an atomic.Add on the field (value discarded)
			if c, ok := es.X.(*ast.CallExpr); ok && strings.HasPrefix(typeString(c.Fun), "atomic.Add") {
				t.expr(c)
				return t.takePrelude() + rest()
			}
		}
		return rest()
	}
	if n := list[0]; n != nil {
		die("%s: unsupported statement %T in the block that updates %s", t.pos(n), n, field)
	}
	return ""
}

func (t *tr) tryExpr(e ast.Expr) {
	saved := softDie
	softDie = true
	defer func() {
		softDie = saved
		if r := recover(); r != nil {
			if _, ok := r.(dieErr); !ok {
				panic(r)
			}
		}
	}()
	t.expr(e)
}

// tryAssign translates an assignment; ok=false (and no state change besides hoisted writes) when its
// right-hand side is outside the subset.
func (t *tr) tryAssign(a *ast.AssignStmt, rest func() string) (out string, ok bool) {
	if len(a.Lhs) != 1 || len(a.Rhs) != 1 {
		return "", false
	}
	saved := softDie
	savedTypes := copyTypes(t.types)
	savedUsed := make(map[string]bool, len(t.used))
	for k, v := range t.used {
		savedUsed[k] = v
	}
	softDie = true
	var head string
	func() {
		defer func() {
			softDie = saved
			if r := recover(); r != nil {
				if _, isDie := r.(dieErr); !isDie {
					panic(r)
				}
				ok = false
			}
		}()
		head = t.assign(a, func() string { return "\x00" })
		ok = true
	}()
	if !ok {
		if len(t.prelude) > 0 {
			die("%s: a field write inside an expression outside the subset", t.pos(a))
		}
		t.types = savedTypes
		t.used = savedUsed
		return "", false
	}
	return strings.Replace(head, "\x00", rest(), 1), true
}

// caseBody: the function body, or (Target.Case set) the body of the selected switch case clause.
func caseBody(fd *ast.FuncDecl, tg Target) *ast.BlockStmt {
	if tg.Case == "" {
		return fd.Body
	}
	var found *ast.CaseClause
	ast.Inspect(fd.Body, func(n ast.Node) bool {
		if found != nil {
			return false
		}
		if cc, ok := n.(*ast.CaseClause); ok {
			for _, e := range cc.List {
				if s := typeString(e); s == tg.Case || strings.HasSuffix(s, "."+tg.Case) {
					found = cc
					return false
				}
			}
		}
		return true
	})
	if found == nil {
		die("%s: no switch case %s", tg.Func, tg.Case)
	}
	return &ast.BlockStmt{List: found.Body}
}

func main() {
	repo := flag.String("repo", "/repo", "repository root")
	specPath := flag.String("spec", "", "spec json")
	out := flag.String("out", "", "output .v")
	flag.Parse()
	raw, err := os.ReadFile(*specPath)
	if err != nil {
		die("%v", err)
	}
	var spec Spec
	if err := json.Unmarshal(raw, &spec); err != nil {
		die("spec: %v", err)
	}
	var b strings.Builder
	b.WriteString("(* GENERATED by tools/goq from the current /repo working tree. Do not edit. *)\n")
	b.WriteString("From Coq Require Import ZArith Bool.\nFrom GV Require Import Lib.GoInt.\nOpen Scope Z_scope.\n\n")
	for _, tg := range spec.Targets {
		fset := token.NewFileSet()
		f, err := parser.ParseFile(fset, filepath.Join(*repo, tg.File), nil, parser.ParseComments)
		if err != nil {
			die("parse %s: %v", tg.File, err)
		}
		var fd *ast.FuncDecl
		for _, d := range f.Decls {
			if x, ok := d.(*ast.FuncDecl); ok && x.Name.Name == tg.Func {
				recv := ""
				if x.Recv != nil && len(x.Recv.List) == 1 {
					recv = strings.TrimPrefix(typeString(x.Recv.List[0].Type), "*")
				}
				if tg.Recv == recv {
					fd = x
				}
			}
		}
		if fd == nil {
			die("function %s (recv %q) not found in %s", tg.Func, tg.Recv, tg.File)
		}
		t := &tr{fset: fset, types: map[string]string{}, free: tg.Free, used: map[string]bool{}}
		if t.free == nil {
			t.free = map[string]string{}
		}
		var params []string
		var body string
		switch tg.Mode {
		case "", "func":
			for _, fld := range fd.Type.Params.List {
				nt, ok := normType(typeString(fld.Type))
				if !ok {
					die("%s: unsupported parameter type %s", tg.Func, typeString(fld.Type))
				}
				for _, n := range fld.Names {
					t.types[n.Name] = nt
					params = append(params, coqIdent(n.Name))
				}
			}
			body = t.stmts(fd.Body.List)
		case "index":
			pre, idx := findIndexBlock(caseBody(fd, tg), tg.IndexOf)
			if idx == nil {
				die("%s: no index expression over %s", tg.Func, tg.IndexOf)
			}
			t.track = true
			body = t.indexFragment(pre, idx)
			body = t.takePrelude() + body
		case "store":
			// the value held by field StoreTo at the end of the statement list that contains the
			// index expression over IndexOf (or of the function body when IndexOf is empty)
			list := fd.Body.List
			if tg.IndexOf != "" {
				l, idx := findIndexList(caseBody(fd, tg), tg.IndexOf)
				if idx == nil {
					die("%s: no index expression over %s", tg.Func, tg.IndexOf)
				}
				list = l
			}
			if tg.StoreTo == "" {
				die("%s: mode store needs store_to", tg.Func)
			}
			t.track = true
			body = t.storeFragment(list, tg.StoreTo)
		case "ifcond":
			// the condition of the first if statement in the function (with its init as a let)
			var ifs *ast.IfStmt
			ast.Inspect(fd.Body, func(n ast.Node) bool {
				if ifs != nil {
					return false
				}
				if x, ok := n.(*ast.IfStmt); ok {
					ifs = x
					return false
				}
				return true
			})
			if ifs == nil {
				die("%s: no if statement", tg.Func)
			}
			for _, fld := range fd.Type.Params.List {
				if nt, ok := normType(typeString(fld.Type)); ok {
					for _, n := range fld.Names {
						t.types[n.Name] = nt
						params = append(params, coqIdent(n.Name))
					}
				}
			}
			cond := func() string { c, _ := t.expr(ifs.Cond); return c }
			if ifs.Init != nil {
				a, ok := ifs.Init.(*ast.AssignStmt)
				if !ok {
					die("%s: unsupported if-init", tg.Func)
				}
				body = t.assign(a, cond)
			} else {
				body = cond()
			}
		case "local":
			// the right-hand side of the first `name := expr` / `name = expr` for the local variable
			// tg.Local in the function; every other identifier is a free variable (typed by "free")
			if tg.Local == "" {
				die("%s: mode local needs \"local\"", tg.Func)
			}
			var rhs ast.Expr
			ast.Inspect(fd.Body, func(n ast.Node) bool {
				if rhs != nil {
					return false
				}
				if a, ok := n.(*ast.AssignStmt); ok && len(a.Lhs) == 1 && len(a.Rhs) == 1 {
					if id, ok := a.Lhs[0].(*ast.Ident); ok && id.Name == tg.Local {
						rhs = a.Rhs[0]
						return false
					}
				}
				return true
			})
			if rhs == nil {
				die("%s: no assignment to local %s", tg.Func, tg.Local)
			}
			body, _ = t.expr(rhs)
		default:
			die("unknown mode %q", tg.Mode)
		}
		order := tg.FreeOrder
		if len(order) == 0 {
			for k := range t.used {
				order = append(order, k)
			}
			sort.Strings(order)
		}
		for _, k := range order {
			params = append(params, coqIdent(k))
		}
		for k := range t.used {
			found := false
			for _, o := range order {
				if o == k {
					found = true
				}
			}
			if !found {
				die("%s: free variable %s missing from free_order", tg.Func, k)
			}
		}
		fmt.Fprintf(&b, "(* %s : %s%s *)\n", tg.File, map[bool]string{true: tg.Recv + ".", false: ""}[tg.Recv != ""], tg.Func)
		fmt.Fprintf(&b, "Definition %s", tg.Name)
		if len(params) > 0 {
			fmt.Fprintf(&b, " (%s : Z)", strings.Join(params, " "))
		}
		fmt.Fprintf(&b, " :=\n  %s.\n\n", body)
	}
	if err := os.WriteFile(*out, []byte(b.String()), 0o644); err != nil {
		die("%v", err)
	}
}
