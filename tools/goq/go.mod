module goq

go 1.23
