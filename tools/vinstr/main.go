// vinstr: yield-point instrumenter for the /verif atomic-step harnesses.
//
// It reads ONE Go source file of the repository's current working tree and writes a copy in which
// every statement that performs a synchronisation operation (or touches one of the listed shared
// plain fields) is preceded by a call `verifPoint("<enclosing func>", "<kind>")`. The copy replaces
// the original at build time through `go test -overlay`; nothing is written to the repository.
// `verifPoint` itself is supplied by the harness (a small file added to the package by the same
// overlay). Kinds are derived from the operation (never from line numbers), e.g. "LoadPointer",
// "CompareAndSwapPointer", "pool.Get", "field", "send", "select".
//
//	vinstr -in f.go -out g.go -rules '<regex>=<kind>;...' -fields v,next [-chan]
//
// A rule's regex is matched against the printed callee expression of every call (`atomic.LoadPointer`,
// `q.pool.Get`, `c.responseClosed.CompareAndSwap`); `$1` in the kind is replaced by the first group.
package main

import (
	"bytes"
	"flag"
	"fmt"
	"go/ast"
	"go/format"
	"go/parser"
	"go/token"
	"go/types"
	"os"
	"regexp"
	"strings"
)

type rule struct {
	re   *regexp.Regexp
	kind string
}

var (
	rules   []rule
	fields  = map[string]bool{}
	chanOps bool
	hook    string
	only    = map[string]bool{}
	count   int
)

func main() {
	in := flag.String("in", "", "input .go file")
	out := flag.String("out", "", "output .go file")
	rs := flag.String("rules", `^atomic\.(\w+)$=$1`, "semicolon separated <regex>=<kind>")
	fs := flag.String("fields", "", "comma separated plain field names whose access is a yield point")
	flag.BoolVar(&chanOps, "chan", false, "channel send / receive / select are yield points")
	flag.StringVar(&hook, "hook", "verifPoint", "name of the hook function")
	fn := flag.String("funcs", "", "comma separated function names to instrument (default all)")
	flag.Parse()
	for _, r := range strings.Split(*rs, ";") {
		if r == "" {
			continue
		}
		i := strings.LastIndex(r, "=")
		if i < 0 {
			die("bad rule %q", r)
		}
		rules = append(rules, rule{regexp.MustCompile(r[:i]), r[i+1:]})
	}
	for _, f := range strings.Split(*fs, ",") {
		if f != "" {
			fields[f] = true
		}
	}
	for _, f := range strings.Split(*fn, ",") {
		if f != "" {
			only[f] = true
		}
	}
	fset := token.NewFileSet()
	src, err := os.ReadFile(*in)
	if err != nil {
		die("read: %v", err)
	}
	// comments are dropped from the body (inserted statements would displace them); the header
	// before the package clause (licence, build constraints) is copied verbatim
	file, err := parser.ParseFile(fset, *in, src, 0)
	if err != nil {
		die("parse: %v", err)
	}
	for _, d := range file.Decls {
		fd, ok := d.(*ast.FuncDecl)
		if !ok || fd.Body == nil {
			continue
		}
		if len(only) > 0 && !only[fd.Name.Name] {
			continue
		}
		instrBlock(fd.Name.Name, fd.Body)
	}
	var buf bytes.Buffer
	if err := format.Node(&buf, fset, file); err != nil {
		die("print: %v", err)
	}
	header := src[:fset.Position(file.Package).Offset]
	if err := os.WriteFile(*out, append(append([]byte{}, header...), buf.Bytes()...), 0o644); err != nil {
		die("write: %v", err)
	}
	fmt.Printf("vinstr: %d points in %s\n", count, *in)
}

func die(f string, a ...any) {
	fmt.Fprintf(os.Stderr, "vinstr: "+f+"\n", a...)
	os.Exit(1)
}

func point(fn, kind string) ast.Stmt {
	count++
	return &ast.ExprStmt{X: &ast.CallExpr{Fun: ast.NewIdent(hook), Args: []ast.Expr{
		&ast.BasicLit{Kind: token.STRING, Value: fmt.Sprintf("%q", fn)},
		&ast.BasicLit{Kind: token.STRING, Value: fmt.Sprintf("%q", kind)}}}}
}

// kindOf returns the kind of the first synchronisation operation found in the given nodes
// (function literals are not entered: their bodies are instrumented on their own).
func kindOf(nodes ...ast.Node) string {
	kind, fieldKind := "", ""
	for _, n := range nodes {
		if n == nil || isNilNode(n) {
			continue
		}
		ast.Inspect(n, func(x ast.Node) bool {
			if kind != "" {
				return false
			}
			switch e := x.(type) {
			case *ast.FuncLit:
				return false
			case *ast.CallExpr:
				s := types.ExprString(e.Fun)
				for _, r := range rules {
					if m := r.re.FindStringSubmatch(s); m != nil {
						k := r.kind
						for i := 1; i < len(m); i++ {
							k = strings.ReplaceAll(k, fmt.Sprintf("$%d", i), m[i])
						}
						kind = k
						return false
					}
				}
			case *ast.SelectorExpr:
				if fieldKind == "" && fields[e.Sel.Name] {
					fieldKind = "field"
				}
			case *ast.UnaryExpr:
				if chanOps && e.Op == token.ARROW {
					kind = "recv"
					return false
				}
			case *ast.SendStmt:
				if chanOps {
					kind = "send"
					return false
				}
			}
			return true
		})
	}
	if kind != "" {
		return kind
	}
	return fieldKind
}

func isNilNode(n ast.Node) bool {
	switch v := n.(type) {
	case ast.Expr:
		return v == nil
	case ast.Stmt:
		return v == nil
	}
	return false
}

func instrFuncLits(fn string, n ast.Node) {
	if n == nil || isNilNode(n) {
		return
	}
	ast.Inspect(n, func(x ast.Node) bool {
		if fl, ok := x.(*ast.FuncLit); ok {
			instrBlock(fn, fl.Body)
			return false
		}
		return true
	})
}

func instrBlock(fn string, b *ast.BlockStmt) {
	if b == nil {
		return
	}
	b.List = instrList(fn, b.List)
}

func nodeOrNil[T ast.Node](v T, isnil bool) ast.Node {
	if isnil {
		return nil
	}
	return v
}

func instrList(fn string, list []ast.Stmt) []ast.Stmt {
	var out []ast.Stmt
	for _, s := range list {
		k := ""
		switch st := s.(type) {
		case *ast.BlockStmt:
			instrBlock(fn, st)
		case *ast.IfStmt:
			k = kindOf(nodeOrNil(st.Init, st.Init == nil), st.Cond)
			instrIf(fn, st)
		case *ast.ForStmt:
			k = kindOf(nodeOrNil(st.Init, st.Init == nil), nodeOrNil(st.Cond, st.Cond == nil))
			instrBlock(fn, st.Body)
			if ck := kindOf(nodeOrNil(st.Cond, st.Cond == nil), nodeOrNil(st.Post, st.Post == nil)); ck != "" {
				// the condition is re-evaluated on every iteration: yield at the end of the body too
				st.Body.List = append(st.Body.List, point(fn, ck))
			}
		case *ast.RangeStmt:
			k = kindOf(st.X)
			instrBlock(fn, st.Body)
		case *ast.SwitchStmt:
			k = kindOf(nodeOrNil(st.Init, st.Init == nil), nodeOrNil(st.Tag, st.Tag == nil))
			for _, c := range st.Body.List {
				cc := c.(*ast.CaseClause)
				cc.Body = instrList(fn, cc.Body)
			}
		case *ast.TypeSwitchStmt:
			for _, c := range st.Body.List {
				cc := c.(*ast.CaseClause)
				cc.Body = instrList(fn, cc.Body)
			}
		case *ast.SelectStmt:
			if chanOps {
				k = "select"
			}
			for _, c := range st.Body.List {
				cc := c.(*ast.CommClause)
				cc.Body = instrList(fn, cc.Body)
			}
		case *ast.LabeledStmt:
			inner := instrList(fn, []ast.Stmt{st.Stmt})
			if len(inner) == 2 {
				out = append(out, inner[0])
			}
			st.Stmt = inner[len(inner)-1]
			out = append(out, st)
			continue
		case *ast.DeferStmt, *ast.GoStmt, *ast.DeclStmt:
			instrFuncLits(fn, s)
		default:
			k = kindOf(s)
			instrFuncLits(fn, s)
		}
		if k != "" {
			out = append(out, point(fn, k))
		}
		out = append(out, s)
	}
	return out
}

func instrIf(fn string, st *ast.IfStmt) {
	instrBlock(fn, st.Body)
	switch e := st.Else.(type) {
	case *ast.BlockStmt:
		instrBlock(fn, e)
	case *ast.IfStmt:
		// `else if <op>`: the operation runs only when the first condition was false; wrap it
		if k := kindOf(nodeOrNil(e.Init, e.Init == nil), e.Cond); k != "" {
			instrIf(fn, e)
			st.Else = &ast.BlockStmt{List: []ast.Stmt{point(fn, k), e}}
		} else {
			instrIf(fn, e)
		}
	}
}
