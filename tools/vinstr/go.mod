module vinstr

go 1.23
