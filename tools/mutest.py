#!/usr/bin/env python3
"""tools/mutest.py <ID> <mutant dir> [--no-pkgtests] [--keep]

Confirm a seeded mutant and run the check against it, without touching /repo or /verif's build:
  1. scratch worktree of /repo HEAD under /tmp, apply <dir>/patch.diff
  2. demo (from meta.json: demo_dir, demo_cmd) must FAIL with the patch and PASS without it
  3. the existing tests of the touched packages must pass with the patch (unless --no-pkgtests)
  4. a private copy of /verif (with its compiled .vo) runs `bin/check <ID> quick` with VERIF_REPO=<worktree>
Prints one JSON line with the outcome and leaves nothing behind.
"""
import glob
import json
import os
import re
import shutil
import subprocess
import sys
import time

ENV = dict(os.environ, GOFLAGS="-mod=mod", GOPROXY="off", GOTOOLCHAIN="local")
ENV.pop("GOSUMDB", None)


def sh(cmd, cwd=None, timeout=3600, env=None):
    try:
        p = subprocess.run(cmd, cwd=cwd, shell=True, stdout=subprocess.PIPE, stderr=subprocess.STDOUT, text=True,
                           errors="replace", timeout=timeout, env=env or ENV)
        return p.returncode, p.stdout
    except subprocess.TimeoutExpired as e:
        return 124, (e.stdout or b"").decode("utf8", "replace") if isinstance(e.stdout, bytes) else (e.stdout or "")


def main():
    pid, mdir = sys.argv[1], os.path.abspath(sys.argv[2])
    pkgtests = "--no-pkgtests" not in sys.argv
    tag = "%s-%s-%d" % (pid, os.path.basename(mdir), os.getpid())
    wt, vm = "/tmp/mt-" + tag, "/tmp/vm-" + tag
    res = {"property": pid, "mutant": mdir}
    meta = {}
    for mn in ("meta.json", "agent_meta.json"):
        if os.path.exists(os.path.join(mdir, mn)):
            try:
                meta = json.load(open(os.path.join(mdir, mn)))
                if meta.get("demo_cmd"):
                    break
            except Exception:
                pass
    try:
        rc, out = sh("git -C /repo worktree add --detach -f %s HEAD" % wt)
        rc, out = sh("git apply --check %s/patch.diff && git apply %s/patch.diff" % (mdir, mdir), cwd=wt)
        res["applies"] = rc == 0
        if rc != 0:
            res["apply_error"] = out[-500:]
            print(json.dumps(res))
            return
        # (the demo test build and the check's harness build both compile the patched packages)
        files = re.findall(r"^\+\+\+ b/(\S+)", open(os.path.join(mdir, "patch.diff")).read(), re.M)
        pkgs = sorted({"./" + os.path.dirname(f) + "/" for f in files if f.endswith(".go")})
        res["packages"] = pkgs
        # demo
        demo_dir = (meta.get("demo_dir") or "").split()[0].rstrip("/") if meta.get("demo_dir") else None
        demo_cmd = meta.get("demo_cmd")
        if demo_cmd:
            # the demo file is copied by this script: drop a leading `cp ... &&` (and `cd ... &&`) from the author's command
            demo_cmd = re.sub(r"^\s*((cp|cd|mkdir)\s[^&]*&&\s*)+", "", demo_cmd)
        demos = [f for f in glob.glob(os.path.join(mdir, "*_test.go"))]
        if demo_dir and demo_cmd and demos:
            dd = os.path.join(wt, demo_dir.replace(wt, "").lstrip("/")) if not os.path.isabs(demo_dir) else os.path.join(wt, os.path.relpath(demo_dir, re.match(r"(/tmp/[^/]+)", demo_dir).group(1)) if demo_dir.startswith("/tmp/") else demo_dir.lstrip("/"))
            os.makedirs(dd, exist_ok=True)
            copied = []
            for d in demos:
                dst = os.path.join(dd, "zz_mut_" + os.path.basename(d))
                shutil.copy(d, dst)
                copied.append(dst)
            cmd = re.sub(r"/tmp/mut-[A-Za-z0-9]+", wt, demo_cmd)
            cmd = re.sub(r"\bgo test\b", "go1.26 test", cmd) if "go1.26" not in cmd else cmd
            rc1, o1 = sh(cmd, cwd=wt, timeout=1500)
            res["demo_fails_with_patch"] = rc1 != 0
            sh("git apply -R %s/patch.diff" % mdir, cwd=wt)
            rc2, o2 = sh(cmd, cwd=wt, timeout=1500)
            res["demo_passes_without_patch"] = rc2 == 0
            if rc2 != 0:
                res["demo_clean_tail"] = o2[-400:]
            sh("git apply %s/patch.diff" % mdir, cwd=wt)
            for c in copied:
                os.remove(c)
        else:
            res["demo"] = "no demo_dir/demo_cmd in meta.json"
        if pkgtests and pkgs:
            t0 = time.time()
            rc, out = sh("go1.26 test -vet=off -count=1 -timeout 40m %s" % " ".join(pkgs), cwd=wt, timeout=2700)
            res["pkg_tests_pass"] = rc == 0
            res["pkg_tests_s"] = int(time.time() - t0)
            if rc != 0:
                res["pkg_tests_tail"] = "\n".join(l for l in out.splitlines() if l.startswith(("--- FAIL", "FAIL", "panic")))[-800:]
        if "--demo-only" in sys.argv:
            raise SystemExit
        # the check, in a private copy of /verif
        sh("rsync -a --exclude '.build/*/' --exclude replays --exclude .git /verif/ %s/" % vm)
        os.makedirs(os.path.join(vm, "replays"), exist_ok=True)
        t0 = time.time()
        e = dict(ENV, VERIF_REPO=wt)
        rc, out = sh("bin/check %s quick" % pid, cwd=vm, timeout=2400, env=e)
        res["check_rc"] = rc
        res["check_s"] = int(time.time() - t0)
        res["check_lines"] = [l for l in out.splitlines() if l.startswith(("VIOLATION", "KNOWN-FINDING", "OK ", "  what:"))][:8]
        res["caught"] = rc == 1 and any(l.startswith("VIOLATION") for l in out.splitlines())
        res["with_input"] = any(l.startswith("VIOLATION") and "no-failing-input-found" not in l for l in out.splitlines())
    except SystemExit:
        pass
    finally:
        if "--keep" not in sys.argv:
            sh("git -C /repo worktree remove --force %s" % wt)
            shutil.rmtree(vm, ignore_errors=True)
            shutil.rmtree(wt, ignore_errors=True)
    print(json.dumps(res))
    # runs on an archived seeded change refresh its result.json (only complete runs)
    if mdir.startswith("/verif/seeded/") and "--demo-only" in sys.argv and "demo_fails_with_patch" in res:
        try:
            rp = os.path.join(mdir, "result.json")
            old = json.loads(open(rp).read().strip().splitlines()[-1])
            for k in ("demo_fails_with_patch", "demo_passes_without_patch", "demo_clean_tail"):
                if k in res:
                    old[k] = res[k]
                elif k in old and k == "demo_clean_tail":
                    del old[k]
            open(rp, "w").write(json.dumps(old) + "\n")
        except Exception:
            pass
    if mdir.startswith("/verif/seeded/") and "check_rc" in res:
        try:
            old = {}
            rp = os.path.join(mdir, "result.json")
            if os.path.exists(rp) and open(rp).read().strip():
                old = json.loads(open(rp).read().strip().splitlines()[-1])
            # keep demo / package-test confirmations from an earlier complete run when this run skipped them
            for k in ("demo_fails_with_patch", "demo_passes_without_patch", "pkg_tests_pass", "pkg_tests_s"):
                if res.get(k) is None and old.get(k) is not None:
                    res[k] = old[k]
            open(rp, "w").write(json.dumps(res) + "\n")
        except Exception:
            pass


main()
