#!/bin/bash
# tools/mkmut.sh Cnn : create a scratch worktree /tmp/mut-Cnn of /repo HEAD with the property text and task brief inside
set -e
ID=$1
D=/tmp/mut-$ID
git -C /repo worktree add --detach -f $D HEAD >/dev/null 2>&1
mkdir -p $D/_out
python3 - "$ID" > $D/_PROPERTY.txt <<'PY'
import json,sys
for l in open('/verif/properties.jsonl'):
    p=json.loads(l)
    if p['id']==sys.argv[1]:
        print("PROPERTY", p['id'], "-", p['title']); print()
        print("Statement:", p['statement']); print()
        print("Quantified over:", ", ".join(p['quantifier']['over']), "-", p['quantifier']['text']); print()
        print("Why the existing tests cannot settle it:", p['why_tests_cant']); print()
        print("Anchored in files:", ", ".join(p['anchors']['files']))
        for m in p['anchors'].get('mechanism',[]): print("  mechanism:", m.get('name'), "@", m.get('where'))
        for m in p['anchors'].get('state',[]): print("  state:", m.get('name'), "-", m.get('meaning'), "@", m.get('where'))
PY
cat > $D/_TASK.txt <<'T'
You have your own scratch git worktree of the Go project Tochemey/goakt (an actor framework) in THIS directory. Work only inside it. Do not read or use anything under /verif or /repo. The sandbox is offline.

_PROPERTY.txt states a semantic property the code is meant to satisfy.

Task: produce realistic changes ("mutants") to the project's non-test Go source that BREAK this property while the project still compiles and its existing tests still pass, each with a demonstration. Requirements for each mutant:
  * It must look like something a developer could plausibly introduce: a refactor, an optimisation, a simplification, a reordered pair of statements, a relaxed or dropped check, an off-by-one in a boundary, reuse of a pooled object a little too early, a lock or atomic narrowed, etc. Keep it small (typically 1–15 changed lines) and keep it compiling.
  * It must need something SPECIFIC to manifest — a particular interleaving, a crash or fault at a particular point, a multi-step sequence of operations, an unusual input/magnitude, or two cooperating sites that each look fine alone — not something ordinary use or the existing tests expose at once.
  * The existing tests of every package you touch must still pass with the mutant applied (run them: `GOFLAGS=-mod=mod GOPROXY=off GOTOOLCHAIN=local go1.26 test -vet=off -count=1 ./<pkg>/` ; the `actor` package's full test run takes 15–40 min on this shared machine: use `-run <regex>` for the tests related to the code you touch while iterating, and ONE full run with `-timeout 60m` in the background for your final mutants; these tests fail or flake on the UNMODIFIED tree here and may be ignored: TestRelocationWithConsulProvider, TestRelocationWithEtcdProvider (need Docker), TestGrain/With_TellGrain_with_mailbox_full, TestReliableEndpointShutdownStopsCompanion, TestProducerControllerDurableQueueFailures, TestBatchTellBatchAskRemote, TestRestartPreservesInitTimeout, TestNonBlockingBoundedMailbox; never set GOSUMDB=off; never use `pkill`/`killall` with a pattern (other people's processes match too) — kill by PID only). If an existing test fails, the mutant is not acceptable: change it.
  * Write a demonstration: a new Go test file (in-package is fine) or small program that FAILS (deterministically, or with overwhelming probability within a few seconds) with the mutant and PASSES without it. Verify both directions yourself by saving the source change with `git diff > _out/m<k>/patch.diff` and toggling it with `git apply -R _out/m<k>/patch.diff` / `git apply _out/m<k>/patch.diff` (do NOT use `git stash`, `git commit`, `git checkout <branch>` or any other command that writes shared git state: this worktree shares its repository with other people's worktrees).
Produce up to THREE different mutants that attack different mechanisms behind the property (one good one is better than three weak ones). For mutant k write into `_out/m<k>/`:
  patch.diff   — `git diff` of the non-test source change only (relative to the worktree root, applies with `git apply`)
  demo_test.go — the demonstration, plus in meta.json the directory it must be copied to and the exact `go test -run ...` command
  meta.json    — {"property": "...", "what_it_breaks": "...", "needs_to_manifest": "...", "files_touched": [...], "demo_dir": "...", "demo_cmd": "...", "existing_tests_run": "... and result"}
Leave the worktree's tracked files UNMODIFIED at the end (`git apply -R` your patch; `git diff` must be empty), with only `_out/` remaining. Final message: one paragraph per mutant (what, why it needs something specific, how verified).
T
echo $D
