#!/usr/bin/env python3
"""Regenerate /verif/MANIFEST.json from the META dictionaries of checks/*.py."""
import importlib, json, os, re, sys
ROOT = os.path.dirname(os.path.dirname(os.path.abspath(__file__)))
sys.path.insert(0, os.path.join(ROOT, "lib")); sys.path.insert(0, ROOT)
props = [json.loads(l) for l in open(os.path.join(ROOT, "properties.jsonl"))]
checks, na = [], []
pending = json.load(open(os.path.join(ROOT, "tools", "not_applicable.json"))) if os.path.exists(os.path.join(ROOT, "tools", "not_applicable.json")) else {}
for p in props:
    pid = p["id"]
    path = os.path.join(ROOT, "checks", pid + ".py")
    if not os.path.exists(path):
        na.append({"property_id": pid, "reason": pending.get(pid, "not claimed yet: the check for this property has not been built (design in DESIGN.md section 7)")})
        continue
    m = importlib.import_module("checks." + pid)
    M = getattr(m, "META", {})
    if not M.get("ready"):
        na.append({"property_id": pid, "reason": pending.get(pid, "not claimed yet: the check for this property is still being built (design in DESIGN.md section 7)")})
        continue
    checks.append({
        "property_id": pid,
        "quick_cmd": "bin/check %s quick" % pid,
        "thorough_cmd": "bin/check %s thorough" % pid,
        "evidence_file": "/verif/evidence/%s.json" % pid,
        "replay_cmd_template": "bin/check %s quick --replay {path}" % pid,
        "engine": "rocq",
        "level_claimed": {"category": M["category"], "text": M["text"], "design_ref": M.get("design_ref", "DESIGN.md 7/" + pid)},
        "level_note": M["level_note"],
        "technique": M["technique"],
    })
man = {
    "version": 1,
    "setup_cmd": "bin/setup",
    "hooks": {
        "guard": "verif",
        "enable": "go1.26 test -tags verif -overlay <json> : harness files live in /verif/go/inpkg and are injected with -overlay; no hook is committed to /repo",
        "baseline_off_cmd": "cd /repo && go test -mod=mod -vet=off -count=1 -timeout 25m ./...",
        "source_commits": [],
        "add_only": True,
    },
    "engines": [
        {"name": "rocq", "path": "/verif/coq", "serves_properties": [c["property_id"] for c in checks],
         "kind_free_text": "Coq 8.16.1 development (models, proofs, Properties/*.v) + goq Go->Gallina translator + Go correspondence harnesses driven by bin/check"}
    ],
    "checks": checks,
    "notes": "Every check: regenerates/re-ties the model to /repo's working tree, rebuilds the Coq closure of the property, runs the implementation-side oracle. See DESIGN.md.",
    "not_applicable": na,
}
json.dump(man, open(os.path.join(ROOT, "MANIFEST.json"), "w"), indent=1)
print("checks:", len(checks), "not_applicable:", len(na))
