"""Helpers shared by checks C38/C39/C40: programs for the CRDT slot machine
(go/inpkg/crdt/zz_verif_crdtvm_test.go  <->  coq/theories/C38/Exec.v)."""
import json
import os
import re

TYPES = {"g": 1, "pn": 2, "f": 3, "l": 4, "mv": 5, "s": 6, "m": 7, "mm": 8}
NODES = ["", "a", "aa", "ab", "b", "n1", "n10", "n2"]
NVALS = 12
U64 = 2 ** 64


def z(n):
    return "(%d)%%Z" % n


def nlit(n):
    return "%d%%N" % n


def tree(t):
    if isinstance(t, int):
        return "L %s" % z(t)
    return "T [" + "; ".join(tree(x) for x in t) + "]"


def op_coq(o):
    k = o["o"]
    g = lambda f: o.get(f, 0)
    if k == "new":
        return "ONew %d %s" % (g("d"), nlit(TYPES[o["t"]]))
    if k == "inc":
        return "OInc %d %d %s %s" % (g("d"), g("s"), nlit(g("n")), nlit(g("v")))
    if k == "dec":
        return "ODec %d %d %s %s" % (g("d"), g("s"), nlit(g("n")), nlit(g("v")))
    if k == "enable":
        return "OEnable %d %d" % (g("d"), g("s"))
    if k == "lset":
        return "OLset %d %d %s %s %s" % (g("d"), g("s"), nlit(g("n")), nlit(g("e")), z(g("ts")))
    if k == "mvset":
        return "OMvset %d %d %s %s" % (g("d"), g("s"), nlit(g("n")), nlit(g("e")))
    if k == "add":
        return "OAdd %d %d %s %s" % (g("d"), g("s"), nlit(g("n")), nlit(g("e")))
    if k == "rem":
        return "ORem %d %d %s" % (g("d"), g("s"), nlit(g("e")))
    if k == "mset":
        return "OMset %d %d %s %s %d" % (g("d"), g("s"), nlit(g("n")), nlit(g("e")), g("a"))
    if k == "mrem":
        return "OMrem %d %d %s" % (g("d"), g("s"), nlit(g("e")))
    if k == "mget":
        return "OMget %d %d %s" % (g("d"), g("s"), nlit(g("e")))
    if k == "merge":
        return "OMerge %d %d %d" % (g("d"), g("a"), g("b"))
    if k == "clone":
        return "OClone %d %d" % (g("d"), g("s"))
    if k == "delta":
        return "ODelta %d %d" % (g("d"), g("s"))
    if k == "reset":
        return "OReset %d" % g("s")
    if k == "compact":
        return "OCompact %d %d" % (g("d"), g("s"))
    if k == "laws":
        return "OLaws %d %d %d" % (g("a"), g("b"), g("c"))
    if k == "fold":
        v, l = g("v"), []
        while v:
            l.append((v & 15) - 1)
            v >>= 4
        return "OFold %d %d [%s]" % (g("d"), g("a"), "; ".join("%d" % x for x in l))
    raise ValueError(k)


def fold_v(slots):
    """encode a list of slot numbers (< 15) for the "fold" op"""
    v = 0
    for i, s in enumerate(slots):
        assert 0 <= s < 15
        v |= (s + 1) << (4 * i)
    assert v < U64
    return v


def write_progs(path, progs):
    with open(path, "w") as f:
        for p in progs:
            f.write(json.dumps(p) + "\n")


def coq_cases(progs, outs, chunk=None):
    """Coq source evaluating the model on the programs and comparing with the implementation's dumps.
    summary = (number of programs, list of (program id, first differing op index))"""
    by_id = {o["id"]: o for o in outs}
    items = []
    for p in progs:
        o = by_id.get(p["id"])
        if o is None or o.get("panic"):
            continue
        items.append("(%d%%nat, [%s], [%s])" % (p["id"], "; ".join(op_coq(x) for x in p["ops"]),
                                                "; ".join(tree(t) for t in o["res"])))
    body = """From stdpp Require Import gmap.
From Coq Require Import ZArith.
From GV Require Import C38.Model C38.Exec.
Definition cases : list (nat * list op * list tree) := [%s].
Definition bad := omap (fun c => match c with (i, p, w) => match check_prog p w with Some k => Some (i, k) | None => None end end) cases.
Definition summary := (length cases, length bad, firstn 5 bad).
Eval vm_compute in summary.
""" % ";\n ".join(items)
    return body, len(items)


def parse_summary(out):
    flat = " ".join(out.split())
    m = re.search(r"= \((\d+)(?:%nat)?, (\d+)(?:%nat)?, (\[.*?\])\) : ", flat)
    if not m:
        return None
    bad = [(int(a), int(b)) for a, b in re.findall(r"\((\d+)(?:%nat)?, (\d+)(?:%nat)?\)", m.group(3))]
    return int(m.group(1)), int(m.group(2)), bad
