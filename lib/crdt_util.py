"""Helpers shared by checks C38/C39/C40: programs for the CRDT slot machine
(go/inpkg/crdt/zz_verif_crdtvm_test.go  <->  coq/theories/C38/Exec.v)."""
import json
import os
import re

TYPES = {"g": 1, "pn": 2, "f": 3, "l": 4, "mv": 5, "s": 6, "m": 7, "mm": 8}
NODES = ["", "a", "aa", "ab", "b", "n1", "n10", "n2"]
NVALS = 14          # 12, 13: CBOR-registered structs (register values only, never set elements / map keys)
STRUCT_VALS = [12, 13]
U64 = 2 ** 64


def z(n):
    return "(%d)%%Z" % n


def nlit(n):
    return "%d%%N" % n


def tree(t):
    if isinstance(t, int):
        return "L %s" % z(t)
    return "T [" + "; ".join(tree(x) for x in t) + "]"


def op_coq(o):
    k = o["o"]
    g = lambda f: o.get(f, 0)
    if k == "new":
        return "ONew %d %s" % (g("d"), nlit(TYPES[o["t"]]))
    if k == "inc":
        return "OInc %d %d %s %s" % (g("d"), g("s"), nlit(g("n")), nlit(g("v")))
    if k == "dec":
        return "ODec %d %d %s %s" % (g("d"), g("s"), nlit(g("n")), nlit(g("v")))
    if k == "enable":
        return "OEnable %d %d" % (g("d"), g("s"))
    if k == "lset":
        return "OLset %d %d %s %s %s" % (g("d"), g("s"), nlit(g("n")), nlit(g("e")), z(g("ts")))
    if k == "mvset":
        return "OMvset %d %d %s %s" % (g("d"), g("s"), nlit(g("n")), nlit(g("e")))
    if k == "add":
        return "OAdd %d %d %s %s" % (g("d"), g("s"), nlit(g("n")), nlit(g("e")))
    if k == "rem":
        return "ORem %d %d %s" % (g("d"), g("s"), nlit(g("e")))
    if k == "mset":
        return "OMset %d %d %s %s %d" % (g("d"), g("s"), nlit(g("n")), nlit(g("e")), g("a"))
    if k == "mrem":
        return "OMrem %d %d %s" % (g("d"), g("s"), nlit(g("e")))
    if k == "mget":
        return "OMget %d %d %s" % (g("d"), g("s"), nlit(g("e")))
    if k == "merge":
        return "OMerge %d %d %d" % (g("d"), g("a"), g("b"))
    if k == "clone":
        return "OClone %d %d" % (g("d"), g("s"))
    if k == "delta":
        return "ODelta %d %d" % (g("d"), g("s"))
    if k == "reset":
        return "OReset %d" % g("s")
    if k == "compact":
        return "OCompact %d %d" % (g("d"), g("s"))
    if k == "laws":
        return "OLaws %d %d %d" % (g("a"), g("b"), g("c"))
    if k == "fold":
        v, l = g("v"), []
        while v:
            l.append((v & 15) - 1)
            v >>= 4
        return "OFold %d %d [%s]" % (g("d"), g("a"), "; ".join("%d" % x for x in l))
    raise ValueError(k)


def fold_v(slots):
    """encode a list of slot numbers (< 15) for the "fold" op"""
    v = 0
    for i, s in enumerate(slots):
        assert 0 <= s < 15
        v |= (s + 1) << (4 * i)
    assert v < U64
    return v


def write_progs(path, progs):
    with open(path, "w") as f:
        for p in progs:
            f.write(json.dumps(p) + "\n")


def coq_cases(progs, outs, chunk=None):
    """Coq source evaluating the model on the programs and comparing with the implementation's dumps.
    summary = (number of programs, list of (program id, first differing op index))"""
    by_id = {o["id"]: o for o in outs}
    items = []
    for p in progs:
        o = by_id.get(p["id"])
        if o is None or o.get("panic"):
            continue
        items.append("(%d%%nat, [%s], [%s])" % (p["id"], "; ".join(op_coq(x) for x in p["ops"]),
                                                "; ".join(tree(t) for t in o["res"])))
    body = """From stdpp Require Import gmap.
From Coq Require Import ZArith.
From GV Require Import C38.Model C38.Exec.
Definition cases : list (nat * list op * list tree) := [%s].
Definition bad := omap (fun c => match c with (i, p, w) => match check_prog p w with Some k => Some (i, k) | None => None end end) cases.
Definition summary := (length cases, length bad, firstn 5 bad).
Eval vm_compute in summary.
""" % ";\n ".join(items)
    return body, len(items)


def parse_summary(out):
    flat = " ".join(out.split())
    m = re.search(r"= \((\d+)(?:%nat)?, (\d+)(?:%nat)?, (\[.*?\])\) : ", flat)
    if not m:
        return None
    bad = [(int(a), int(b)) for a, b in re.findall(r"\((\d+)(?:%nat)?, (\d+)(?:%nat)?\)", m.group(3))]
    return int(m.group(1)), int(m.group(2)), bad


# ---------------------------------------------------------------------------------------------
# program generators.  Slot layout: replicas 0..R-1 (replica i uses node REPL_NODE[i]),
# snapshots R..R+S-1, nested values for maps 10..13.
REPL_NODE = [1, 4, 7, 2]          # "a", "b", "n2", "aa"
BIG = [0, 1, 2, 3, 5, 2 ** 32, 2 ** 63 - 1, 2 ** 63, 2 ** 64 - 1]


def local_ops(t, r, rng, small=False):
    """alphabet of local operations of replica slot r for type t (as functions of the rng)"""
    n = REPL_NODE[r]
    ev = [1, 2] if small else [1, 2, 4, 5, 3, 10]
    if t == "g":
        return [{"o": "inc", "d": r, "s": r, "n": n, "v": v} for v in ([1, 3] if small else BIG)]
    if t == "pn":
        vs = [1, 3] if small else BIG
        return [{"o": "inc", "d": r, "s": r, "n": n, "v": v} for v in vs] + [{"o": "dec", "d": r, "s": r, "n": n, "v": v} for v in vs]
    if t == "f":
        return [{"o": "enable", "d": r, "s": r}]
    if t == "mv":
        return [{"o": "mvset", "d": r, "s": r, "n": n, "e": e} for e in (ev if small else ev + STRUCT_VALS)]
    if t == "s":
        return [{"o": "add", "d": r, "s": r, "n": n, "e": e} for e in ev] + [{"o": "rem", "d": r, "s": r, "e": e} for e in ev]
    raise ValueError(t)


def gen_random_prog(pid, t, rng, nops, R=3, S=3, lww_unique=True, with_delta=True, with_compact=True, laws=4):
    """random program for type t with R replicas and S snapshot slots, ending with `laws` ops"""
    ops = []
    tt = t
    for i in range(R + S):
        ops.append({"o": "new", "d": i, "t": tt})
    lww_clock = {}
    vslots = []
    if t in ("m", "mm"):
        inner = rng.choice(["g", "g", "s", "pn", "f", "mv"]) if t == "m" else "m"
        for k in range(4):
            ops.append({"o": "new", "d": 10 + k, "t": inner})
        vslots = [10, 11, 12, 13]
        inner2 = rng.choice(["g", "s"])
    used_ts = set()
    for _ in range(nops):
        r = rng.randrange(R)
        n = REPL_NODE[r]
        x = rng.random()
        if x < 0.45:  # local op
            if t == "l":
                if lww_unique:
                    ts = rng.choice([-5, 0, 1, 7, 7, 100, 2 ** 62]) + rng.randrange(3)
                    while (ts, n) in used_ts:
                        ts += 1
                    used_ts.add((ts, n))
                else:
                    ts = rng.choice([0, 5, 5, 7])
                ops.append({"o": "lset", "d": r, "s": r, "n": n, "e": rng.randrange(0, NVALS), "ts": ts})
            elif t == "m":
                y = rng.random()
                k = rng.choice([1, 2, 4])
                if y < 0.35:  # change a nested value then set
                    vs = rng.choice(vslots)
                    if inner in ("g", "pn"):
                        ops.append({"o": rng.choice(["inc", "inc", "dec"]) if inner == "pn" else "inc", "d": vs, "s": vs, "n": n, "v": rng.choice([1, 2, 5, 2 ** 63])})
                    elif inner == "s":
                        ops.append({"o": rng.choice(["add", "add", "rem"]), "d": vs, "s": vs, "n": n, "e": rng.choice([1, 2, 5])})
                    elif inner == "f":
                        ops.append({"o": "enable", "d": vs, "s": vs})
                    elif inner == "mv":
                        ops.append({"o": "mvset", "d": vs, "s": vs, "n": n, "e": rng.choice([1, 2, 5, 12])})
                    ops.append({"o": "mset", "d": r, "s": r, "n": n, "e": k, "a": vs})
                elif y < 0.55:  # read-modify-write of the nested value (the usual usage)
                    ops.append({"o": "mget", "d": 14, "s": r, "e": k})
                    if inner == "g":
                        ops.append({"o": "inc", "d": 14, "s": 14, "n": n, "v": rng.choice([1, 2, 7])})
                    ops.append({"o": "mset", "d": r, "s": r, "n": n, "e": k, "a": 14})
                elif y < 0.8:
                    ops.append({"o": "mset", "d": r, "s": r, "n": n, "e": k, "a": rng.choice(vslots)})
                else:
                    ops.append({"o": "mrem", "d": r, "s": r, "e": k})
            elif t == "mm":
                y = rng.random()
                k = rng.choice([1, 2])
                vs = rng.choice(vslots)
                if y < 0.4:
                    # build a leaf, put it into an inner map, put the inner map into the outer
                    ops.append({"o": "new", "d": 14, "t": inner2})
                    if inner2 == "g":
                        ops.append({"o": "inc", "d": 14, "s": 14, "n": n, "v": rng.choice([1, 4])})
                    else:
                        ops.append({"o": "add", "d": 14, "s": 14, "n": n, "e": rng.choice([1, 2])})
                    ops.append({"o": "mset", "d": vs, "s": vs, "n": n, "e": rng.choice([4, 5]), "a": 14})
                    ops.append({"o": "mset", "d": r, "s": r, "n": n, "e": k, "a": vs})
                elif y < 0.6:
                    ops.append({"o": "mrem", "d": vs, "s": vs, "e": rng.choice([4, 5])})
                elif y < 0.85:
                    ops.append({"o": "mset", "d": r, "s": r, "n": n, "e": k, "a": vs})
                else:
                    ops.append({"o": "mrem", "d": r, "s": r, "e": k})
            else:
                ops.append(dict(rng.choice(local_ops(t, r, rng))))
        elif x < 0.60:  # snapshot (a message in flight / an old copy)
            ops.append({"o": "clone", "d": R + rng.randrange(S), "s": r})
        elif x < 0.80:  # receive a full state: another replica's current state or an old snapshot
            src = rng.randrange(R + S)
            ops.append({"o": "merge", "d": r, "a": r, "b": src})
        elif x < 0.90 and with_delta:
            ops.append({"o": "delta", "d": R + rng.randrange(S), "s": r})
            if rng.random() < 0.7:
                ops.append({"o": "reset", "s": r})
        elif x < 0.94 and with_compact and t in ("s", "m", "mm"):
            ops.append({"o": "compact", "d": r, "s": r})
        else:
            ops.append({"o": "clone", "d": r, "s": r})
    if t != "mm":
        for _ in range(laws):
            a, b, c = (rng.randrange(R + S) for _ in range(3))
            ops.append({"o": "laws", "a": a, "b": b, "c": c})
    return {"id": pid, "t": t, "kind": "random", "ops": ops}


def exhaustive_progs(t, L, R, rng=None, small=True):
    """all op sequences of length exactly L over R replicas (local ops + pairwise full-state syncs)
    for type t, each followed by the three rotations of `laws` over replicas (0,1,2 mod R)."""
    import itertools
    alpha = []
    for r in range(R):
        if t == "m":
            for k in ([1] if small else [1, 2]):
                alpha.append([{"o": "mset", "d": r, "s": r, "n": REPL_NODE[r], "e": k, "a": 10 + r}])
                alpha.append([{"o": "mrem", "d": r, "s": r, "e": k}])
        elif t == "l":
            for ts in (5, 6):
                alpha.append([{"o": "lset", "d": r, "s": r, "n": REPL_NODE[r], "e": 1 + r, "ts": ts}])
        else:
            alpha += [[o] for o in local_ops(t, r, None, small=True)]
        for q in range(R):
            if q != r:
                alpha.append([{"o": "merge", "d": r, "a": r, "b": q}])
    pre = [{"o": "new", "d": i, "t": t} for i in range(3)]
    if t == "m":
        for r in range(3):
            pre.append({"o": "new", "d": 10 + r, "t": "g"})
            pre.append({"o": "inc", "d": 10 + r, "s": 10 + r, "n": REPL_NODE[r], "v": 1 + r})
    post = [{"o": "laws", "a": 0, "b": 1, "c": 2}, {"o": "laws", "a": 1, "b": 2, "c": 0}, {"o": "laws", "a": 2, "b": 0, "c": 1}]
    for seq in itertools.product(alpha, repeat=L):
        ops = list(pre)
        for s in seq:
            ops += [dict(o) for o in s]
        yield ops + post


def gen_common_then_diverge(pid, t, rng, R=3):
    """replicas reach a COMMON state (several adds, full sync), then each one only removes (and sometimes re-adds)
    elements on its own — equal clocks / equal cardinalities with different contents — then the join laws.
    t in ("s", "m")."""
    ops = [{"o": "new", "d": i, "t": t} for i in range(R)]
    elems = rng.sample([1, 2, 4, 5, 10], rng.choice([2, 3, 4]))
    if t == "m":
        for r in range(R):
            ops.append({"o": "new", "d": 10 + r, "t": "g"})
            ops.append({"o": "inc", "d": 10 + r, "s": 10 + r, "n": REPL_NODE[r], "v": 1 + r})
    for e in elems:
        r = rng.randrange(R) if rng.random() < 0.5 else 0
        if t == "s":
            ops.append({"o": "add", "d": r, "s": r, "n": REPL_NODE[r], "e": e})
        else:
            ops.append({"o": "mset", "d": r, "s": r, "n": REPL_NODE[r], "e": e, "a": 10 + r})
    for _round in range(2):                       # everybody ends with the same state
        for a in range(R):
            for b in range(R):
                if a != b:
                    ops.append({"o": "merge", "d": a, "a": a, "b": b})
    nrem = rng.choice([1, 1, 2])
    for r in range(R):
        k = nrem if rng.random() < 0.8 else rng.randrange(0, len(elems) + 1)
        for e in rng.sample(elems, min(k, len(elems))):
            ops.append({"o": "rem" if t == "s" else "mrem", "d": r, "s": r, "e": e})
        if rng.random() < 0.2:
            e = rng.choice(elems)
            if t == "s":
                ops.append({"o": "add", "d": r, "s": r, "n": REPL_NODE[r], "e": e})
            else:
                ops.append({"o": "mset", "d": r, "s": r, "n": REPL_NODE[r], "e": e, "a": 10 + r})
    for (a, b, c) in ((0, 1, 2 % R), (1, 2 % R, 0), (2 % R, 0, 1)):
        ops.append({"o": "laws", "a": a, "b": b, "c": c})
    return {"id": pid, "t": t, "kind": "common-then-diverge-" + t, "ops": ops}
