"""Helpers of checks/C17.py: Python mirror of C17/Model.v's driver level (generation and expectations)."""
import random

from c09_util import StopSim


class Sim:
    def __init__(self, n, k, ws=True, gated=()):
        self.n, self.k = n, k
        self.tree = StopSim(n, list(gated), ws)
        self.sd = False
        self.phase = 0
        self.active = [False] * k
        self.nact = [0] * k
        self.ndeact = [0] * k

    def finish_stop(self):
        t = self.tree
        t.quiesce()
        if self.phase != 1:
            return
        x = t.A[0]
        if not (x.sp == "idle" and not x.running):
            return
        for g in range(self.k):
            if self.active[g]:
                self.active[g] = False
                self.ndeact[g] += 1
        self.phase = 3
        self.sd = False      # reset(): the gate reopens, sends to stopped actors fail with ErrDead

    def drive(self, d):
        t = self.tree
        kind = d[0]
        if kind == "spawn":
            ok = t.step(("SpawnCheck", d[1], d[2])) and t.step(("SpawnInit", d[2])) and t.step(("SpawnAdd", d[2]))
            return 0 if ok else 1
        if kind == "spawn_gated":
            return 0 if t.step(("SpawnCheck", d[1], d[2])) else 1
        if kind == "spawn_release":
            ok = t.step(("SpawnInit", d[1])) and t.step(("SpawnAdd", d[1]))
            if ok:
                self.finish_stop()
            return 0 if ok else 1
        if kind == "activate":
            g = d[1]
            if self.phase != 0 or self.active[g]:
                return 1
            self.active[g] = True
            self.nact[g] += 1
            return 0
        if kind in ("grain_pill", "grain_pill2"):
            g = d[1]
            if self.phase != 0 or not self.active[g]:
                return 1
            self.active[g] = False
            self.ndeact[g] += 1
            return 0
        if kind in ("tell", "tell_hold", "backlog"):
            if self.sd:
                return 2
            return 0 if t.is_running(d[1]) else 1
        if kind == "kill":
            if d[1] == 0:
                return 1
            t.step(("StopBegin", d[1]))
            self.finish_stop()
            return 0
        if kind == "release_post":
            if not t.step(("PostEnd", d[1])):
                return 1
            self.finish_stop()
            return 0
        if kind == "stop":
            if self.phase != 0:
                return 1
            self.sd = True
            self.phase = 1
            t.step(("StopBegin", 0))
            self.finish_stop()
            return 0
        raise ValueError(d)

    def observe(self):
        t = self.tree
        out = [[sum(1 for (e, b) in t.trace if e == "PostE" and b == a), int(t.is_running(a))] for a in range(1, self.n)]
        out += [[self.nact[g], self.ndeact[g], int(self.active[g])] for g in range(self.k)]
        out.append([self.phase])
        return out


COQ = {"kill": "DKill %d", "release_post": "DRelease %d", "backlog": "DTell %d", "spawn": "DSpawn %d %d", "spawn_gated": "DSpawnGated %d %d", "spawn_release": "DSpawnRelease %d", "activate": "DActivate %d",
       "grain_pill": "DUserPill %d", "grain_pill2": "DUserPill2 %d", "tell": "DTell %d", "tell_hold": "DTell %d", "stop": "DStop"}


def coq_action(d):
    if d[0] == "backlog":
        return "DTell %d" % d[1]
    return COQ[d[0]] % tuple(d[1:])


CORPUS = [
    # three-level tree, two grains (one poisoned by user code before), sends before and after the gate
    (5, 2, [], [], [["spawn", 0, 1], ["spawn", 1, 2], ["spawn", 1, 3], ["spawn", 3, 4], ["activate", 0], ["activate", 1], ["grain_pill2", 1],
                    ["tell", 4], ["stop"], ["tell", 4], ["tell", 1], ["activate", 0], ["grain_pill", 0]], "plain"),
    # a handler is still running, with a backlog queued behind it, when Stop is called and when it returns
    (3, 1, [], [], [["spawn", 0, 1], ["spawn", 1, 2], ["activate", 0], ["tell_hold", 2], ["backlog", 2, 4], ["stop"], ["tell", 2]], "handler-held-backlog"),
    # a SpawnChild is in flight (PreStart blocked) while the system stops
    (4, 0, [], [], [["spawn", 0, 1], ["spawn", 1, 2], ["spawn_gated", 2, 3], ["stop"], ["spawn_release", 3], ["tell", 3]], "spawn-in-flight"),
    # stop of an empty system, twice
    (1, 1, [], [], [["stop"], ["stop"], ["activate", 0]], "empty"),
    # an individual stop is inside the actor's PostStop when the system is stopped
    (4, 1, [2], [], [["spawn", 0, 1], ["spawn", 1, 2], ["spawn", 2, 3], ["activate", 0], ["kill", 2], ["stop"], ["release_post", 2], ["tell", 1]], "kill-in-flight"),
    # the same with the PoisonPill-less variant: the parent is killed, its child's PostStop is held
    (4, 0, [3], [], [["spawn", 0, 1], ["spawn", 1, 2], ["spawn", 2, 3], ["kill", 1], ["stop"], ["release_post", 3]], "parent-kill-in-flight"),
    # a grain's passivation-driven OnDeactivate is still executing when Stop is called
    (2, 2, [], [1], [["spawn", 0, 1], ["activate", 0], ["activate", 1], ["stop"]], "grain-passivating"),
]


def gen_scenarios(ctx, ws=True):
    rng = random.Random(ctx.seed * 6151 + 17)
    n_sc = 200 if ctx.thorough else 26
    out = []

    def build(n, k, gated, passg, script, tag):
        sim = Sim(n, k, ws, gated)
        acts, expect = [], []
        for d in script:
            sim.drive(d)
            acts.append(d)
            expect.append(sim.observe())
        return {"n": n, "k": k, "gated": gated, "pass_grains": passg, "actions": acts, "expect": expect, "tag": tag}
    for n, k, gated, passg, script, tag in CORPUS:
        out.append(build(n, k, gated, passg, script, tag))
    while len(out) < n_sc:
        n = rng.choice([2, 4, 6, 9, 12])
        k = rng.choice([0, 1, 3, 5])
        gated = [a for a in range(1, n) if rng.random() < 0.25] if rng.random() < 0.5 else []
        # at most one grain is caught inside its passivation-driven OnDeactivate (the manager is one goroutine),
        # and only when no PostStop gate can hold Stop back before it reaches the grains
        passg = [rng.randrange(k)] if (k and not gated and rng.random() < 0.5) else []
        sim = Sim(n, k, ws, gated)
        acts, expect = [], []

        def do(d):
            sim.drive(d)
            acts.append(d)
            expect.append(sim.observe())
        shape = rng.choice(["random", "chain", "star", "wide"])
        for c in range(1, n):
            p = {"random": rng.randrange(c), "chain": c - 1, "star": 0 if c == 1 else 1, "wide": 0}[shape]
            do(["spawn", p, c])
        for g in range(k):
            if g in passg or rng.random() < 0.8:
                do(["activate", g])
        for _ in range(rng.choice([0, 2, 5])):
            r = rng.random()
            if r < 0.35 and n > 1:
                do(["tell", rng.randrange(1, n)])
            elif r < 0.5 and n > 1:
                do(["kill", rng.randrange(1, n)])
            elif r < 0.7 and k:
                g = rng.randrange(k)
                if g not in passg:
                    do([rng.choice(["grain_pill", "grain_pill2"]), g])
            elif k:
                g = rng.randrange(k)
                if g not in passg:
                    do(["activate", g])
        if n > 1 and rng.random() < 0.4:
            a = rng.randrange(1, n)
            if sim.tree.is_running(a):
                do(["tell_hold", a])
                do(["backlog", a, rng.choice([2, 3, 5])])
        do(["stop"])
        # release what holds the stop (random order), until it is through
        for _ in range(2 * n):
            blocked = [a for a in range(n) if sim.tree.A[a].sp == "post" and a in sim.tree.gated]
            if not blocked:
                break
            do(["release_post", rng.choice(blocked)])
        for _ in range(rng.choice([1, 3])):
            r = rng.random()
            if r < 0.6 and n > 1:
                do(["tell", rng.randrange(1, n)])
            elif r < 0.8 and k:
                do(["activate", rng.randrange(k)])
            elif k:
                do(["grain_pill", rng.randrange(k)])
            else:
                do(["stop"])
        out.append({"n": n, "k": k, "gated": gated, "pass_grains": passg, "actions": acts, "expect": expect, "tag": "gen"})
    return out
