"""Helpers of checks/C17.py: Python mirror of C17/Model.v's driver level (generation and expectations)."""
import random

from c09_util import StopSim


class Sim:
    def __init__(self, n, k, ws=True):
        self.n, self.k = n, k
        self.tree = StopSim(n, [], ws)
        self.sd = False
        self.phase = 0
        self.active = [False] * k
        self.nact = [0] * k
        self.ndeact = [0] * k

    def drive(self, d):
        t = self.tree
        kind = d[0]
        if kind == "spawn":
            ok = t.step(("SpawnCheck", d[1], d[2])) and t.step(("SpawnInit", d[2])) and t.step(("SpawnAdd", d[2]))
            return 0 if ok else 1
        if kind == "spawn_gated":
            return 0 if t.step(("SpawnCheck", d[1], d[2])) else 1
        if kind == "spawn_release":
            ok = t.step(("SpawnInit", d[1])) and t.step(("SpawnAdd", d[1]))
            return 0 if ok else 1
        if kind == "activate":
            g = d[1]
            if self.phase != 0 or self.active[g]:
                return 1
            self.active[g] = True
            self.nact[g] += 1
            return 0
        if kind in ("grain_pill", "grain_pill2"):
            g = d[1]
            if self.phase != 0 or not self.active[g]:
                return 1
            self.active[g] = False
            self.ndeact[g] += 1
            return 0
        if kind in ("tell", "tell_hold"):
            if self.sd:
                return 2
            return 0 if t.is_running(d[1]) else 1
        if kind == "stop":
            if self.phase != 0:
                return 1
            self.sd = True
            t.step(("StopBegin", 0))
            t.quiesce()
            x = t.A[0]
            if not (x.sp == "idle" and not x.running):
                self.phase = 1
                return 3
            for g in range(self.k):
                if self.active[g]:
                    self.active[g] = False
                    self.ndeact[g] += 1
            self.phase = 3
            self.sd = False      # reset(): the gate reopens, sends to stopped actors fail with ErrDead
            return 0
        raise ValueError(d)

    def observe(self):
        t = self.tree
        done = {a for (e, a) in t.trace if e == "PostE"}
        out = [[int(a in done), int(t.is_running(a))] for a in range(1, self.n)]
        out += [[self.nact[g], self.ndeact[g], int(self.active[g])] for g in range(self.k)]
        out.append([self.phase])
        return out


COQ = {"spawn": "DSpawn %d %d", "spawn_gated": "DSpawnGated %d %d", "spawn_release": "DSpawnRelease %d", "activate": "DActivate %d",
       "grain_pill": "DUserPill %d", "grain_pill2": "DUserPill2 %d", "tell": "DTell %d", "tell_hold": "DTell %d", "stop": "DStop"}


def coq_action(d):
    return COQ[d[0]] % tuple(d[1:])


CORPUS = [
    # three-level tree, two grains (one poisoned by user code before), sends before and after the gate
    (5, 2, [["spawn", 0, 1], ["spawn", 1, 2], ["spawn", 1, 3], ["spawn", 3, 4], ["activate", 0], ["activate", 1], ["grain_pill2", 1],
            ["tell", 4], ["stop"], ["tell", 4], ["tell", 1], ["activate", 0], ["grain_pill", 0]], "plain"),
    # a handler is still running when Stop is called and when it returns
    (3, 1, [["spawn", 0, 1], ["spawn", 1, 2], ["activate", 0], ["tell_hold", 2], ["stop"], ["tell", 2]], "handler-held"),
    # a SpawnChild is in flight (PreStart blocked) while the system stops
    (4, 0, [["spawn", 0, 1], ["spawn", 1, 2], ["spawn_gated", 2, 3], ["stop"], ["spawn_release", 3], ["tell", 3]], "spawn-in-flight"),
    # stop of an empty system, twice
    (1, 1, [["stop"], ["stop"], ["activate", 0]], "empty"),
]


def gen_scenarios(ctx, ws=True):
    rng = random.Random(ctx.seed * 6151 + 17)
    n_sc = 200 if ctx.thorough else 24
    out = []

    def build(n, k, script, tag):
        sim = Sim(n, k, ws)
        acts, expect = [], []
        for d in script:
            sim.drive(d)
            acts.append(d)
            expect.append(sim.observe())
        return {"n": n, "k": k, "actions": acts, "expect": expect, "tag": tag}
    for n, k, script, tag in CORPUS:
        out.append(build(n, k, script, tag))
    while len(out) < n_sc:
        n = rng.choice([2, 4, 6, 9, 12])
        k = rng.choice([0, 1, 3, 5])
        script = []
        shape = rng.choice(["random", "chain", "star", "wide"])
        for c in range(1, n):
            p = {"random": rng.randrange(c), "chain": c - 1, "star": 0 if c == 1 else 1, "wide": 0}[shape]
            script.append(["spawn", p, c])
        for g in range(k):
            if rng.random() < 0.8:
                script.append(["activate", g])
        extra = []
        for _ in range(rng.choice([0, 2, 5])):
            r = rng.random()
            if r < 0.5 and n > 1:
                extra.append(["tell", rng.randrange(1, n)])
            elif r < 0.7 and k:
                extra.append([rng.choice(["grain_pill", "grain_pill2"]), rng.randrange(k)])
            elif k:
                extra.append(["activate", rng.randrange(k)])
        script += extra
        if n > 1 and rng.random() < 0.3:
            script.append(["tell_hold", rng.randrange(1, n)])
        script.append(["stop"])
        for _ in range(rng.choice([1, 3])):
            r = rng.random()
            if r < 0.6 and n > 1:
                script.append(["tell", rng.randrange(1, n)])
            elif r < 0.8 and k:
                script.append(["activate", rng.randrange(k)])
            elif k:
                script.append(["grain_pill", rng.randrange(k)])
            else:
                script.append(["stop"])
        out.append(build(n, k, script, "gen"))
    return out
