"""Helpers of checks/C11.py: Python mirror of C11/Model.v's driver level (scenario generation and the
expectations the Go harness waits for only; the comparison is made by the Coq model)."""
import random


class Name:
    def __init__(self):
        self.node = None
        self.next = 0
        self.runs = []
        self.flight = None      # None | "start" | "make" | ("created", p) | ("counted", p)
        self.fid = 0
        self.waiters = 0
        self.handed = []
        self.term = []
        self.cnt = 0
        self.gaveup = 0


class Sim:
    def __init__(self, k, kids=()):
        self.k = k
        self.kids = set(kids)
        self.N = [Name() for _ in range(k)]
        self.held = False
        self.gated = []
        self.fail = []

    def finish(self, x, r, node, cnt):
        x.handed = [(x.fid, r)] * x.waiters + x.handed
        x.node, x.cnt = node, cnt
        x.flight, x.fid, x.waiters = None, x.fid + 1, 0

    def step(self, l):
        k, n = l[0], l[1]
        x = self.N[n]
        if k == "Call":
            if x.flight is None:
                x.flight, x.waiters = "start", 1
            else:
                x.waiters += 1
            return True
        if k == "Lookup":
            if x.flight != "start":
                return False
            if x.node is not None and x.node in x.runs:
                self.finish(x, x.node + 1, x.node, x.cnt)
            else:
                x.flight = "make"
            return True
        if k == "Create":
            if x.flight != "make":
                return False
            p = x.next
            x.next += 1
            x.runs = [p] + x.runs
            x.flight = ("created", p)
            return True
        if k == "Count":
            if not (isinstance(x.flight, tuple) and x.flight[0] == "created"):
                return False
            x.cnt += 1
            x.flight = ("counted", x.flight[1])
            return True
        if k == "Add":
            if not (isinstance(x.flight, tuple) and x.flight[0] == "counted"):
                return False
            p = x.flight[1]
            if x.node is None:
                self.finish(x, p + 1, p, x.cnt)
            else:
                self.finish(x, (p if n in self.kids else x.node) + 1, x.node, x.cnt - 1)
            return True
        if k == "Cancel":
            if x.flight != "make" or x.waiters < 1:
                return False
            x.handed = [(x.fid, 0)] + x.handed
            x.waiters -= 1
            x.fid += 1
            x.flight = "start" if x.waiters else None
            return True
        if k == "Abandon":
            if x.flight is None or x.waiters < 2:
                return False
            x.waiters -= 1
            x.gaveup += 1
            return True
        if k == "AddFail":
            if not (isinstance(x.flight, tuple) and x.flight[0] == "counted") or x.node is not None:
                return False
            p = x.flight[1]
            x.runs = [q for q in x.runs if q != p]
            x.term = x.term + [p]
            self.finish(x, 0, p, x.cnt)
            return True
        if k == "Stop":
            p = l[2]
            if p not in x.runs:
                return False
            x.runs = [q for q in x.runs if q != p]
            if x.node is not None:
                x.term = x.term + [p]
            return True
        if k == "Reap":
            if not x.term:
                return False
            x.term = x.term[1:]
            if x.node is not None:
                x.cnt -= 1
            x.node = None
            return True
        raise ValueError(l)

    def internal_label(self, n):
        x = self.N[n]
        if x.flight == "start":
            return ("Lookup", n)
        if x.flight == "make":
            return None if n in self.gated else ("Create", n)
        if isinstance(x.flight, tuple):
            if x.flight[0] == "created":
                return ("Count", n)
            return ("AddFail", n) if n in self.fail else ("Add", n)
        return None

    def quiesce(self):
        for _ in range(16 * (self.k + 1)):
            l = None
            for n in range(self.k):
                l = self.internal_label(n)
                if l:
                    break
            if l is None and not self.held:
                for n in range(self.k):
                    if self.N[n].term:
                        l = ("Reap", n)
                        break
            if l is None or not self.step(l):
                return
            if l[0] == "AddFail":
                self.fail = [m for m in self.fail if m != l[1]]

    def drive(self, a):
        k = a[0]
        if k == "call":
            n, g = a[1], a[2]
            x = self.N[n]
            winner = x.flight is None
            found = x.node is not None and x.node in x.runs
            self.step(("Call", n))
            if winner and g and not found:
                self.gated = [n] + self.gated
        elif k == "release_pre":
            n = a[1]
            if n not in self.gated or not self.step(("Create", n)):
                return 1
            self.gated = [m for m in self.gated if m != n]
        elif k == "stop":
            x = self.N[a[1]]
            if x.node is None:
                return 1
            self.step(("Stop", a[1], x.node))
        elif k == "cancel":
            n = a[1]
            if n not in self.gated or not self.step(("Cancel", n)):
                return 1
            self.gated = [m for m in self.gated if m != n]
        elif k == "call_deadline":
            n = a[1]
            if n not in self.gated:
                return 1
            self.step(("Call", n))
            self.step(("Abandon", n))
        elif k == "set_fail":
            self.fail = [a[1]] + self.fail
        elif k == "hold_dw":
            self.held = True
        elif k == "release_dw":
            self.held = False
        self.quiesce()
        return 0

    def observe(self):
        out = []
        for x in self.N:
            out.append([0 if x.node is None else x.node + 1, len(x.runs)])
            out.append(sorted([0] * x.gaveup + [r for (_, r) in x.handed]))
        tot = sum(x.cnt for x in self.N)
        out.append([4999 if tot < 0 else tot])
        return out


CORPUS = [
    # many concurrent callers of one name coalesce on the winner's (gated) PreStart
    (2, ["spawn", "func"], [["call", 0, True], ["call", 0, False], ["call", 0, False], ["call", 1, False], ["call", 0, False], ["release_pre", 0], ["call", 0, False]], "coalesce"),
    # Kill then Spawn twice before the death watch handled Terminated: stopped PID handed out, duplicates leak
    (1, ["spawn"], [["call", 0, False], ["hold_dw"], ["stop", 0], ["call", 0, False], ["call", 0, False], ["release_dw"], ["call", 0, False]], "respawn-before-reap"),
    # the same through SpawnChild
    (1, ["child"], [["call", 0, False], ["hold_dw"], ["stop", 0], ["call", 0, False], ["release_dw"], ["call", 0, False]], "respawn-before-reap-child"),
    # stop while a flight for the same name is blocked in PreStart (nothing registered yet)
    (1, ["spawn"], [["call", 0, True], ["stop", 0], ["release_pre", 0], ["stop", 0], ["call", 0, False]], "stop-during-flight"),
    # the winner's own context is cancelled inside its PreStart: the coalesced waiters start ONE new flight
    (1, ["spawn"], [["call", 0, True], ["call", 0, False], ["call", 0, False], ["call", 0, False], ["cancel", 0], ["call", 0, False]], "winner-cancelled"),
    (2, ["child", "func"], [["call", 0, True], ["call", 0, False], ["call", 0, False], ["call", 1, True], ["call", 1, False], ["call", 1, False], ["cancel", 0], ["cancel", 1]], "winner-cancelled-child-func"),
    # a waiter gives up (own deadline) while the flight is blocked; a later caller still joins that flight
    (1, ["spawn"], [["call", 0, True], ["call_deadline", 0], ["call", 0, False], ["call", 0, False], ["release_pre", 0], ["call", 0, False]], "waiter-gives-up"),
    (1, ["child"], [["call", 0, True], ["call", 0, False], ["call_deadline", 0], ["call", 0, False], ["release_pre", 0]], "waiter-gives-up-child"),
    # reap in time: respawn is clean
    (2, ["spawn", "child"], [["call", 0, False], ["call", 1, False], ["stop", 0], ["call", 0, False], ["stop", 1], ["stop", 0], ["call", 1, False]], "respawn-after-reap"),
]


CORPUS_CLUSTER = [
    # the registry publication of a coalesced flight fails after the tree insertion: rolled back, reaped, counted 0;
    # the registry recovers and the name is spawned again
    (1, [["set_fail", 0], ["call", 0, True], ["call", 0, False], ["call", 0, False], ["release_pre", 0], ["call", 0, False], ["stop", 0], ["call", 0, False]], "publication-fails"),
    (2, [["call", 1, False], ["set_fail", 0], ["call", 0, False], ["call", 0, False], ["set_fail", 1], ["stop", 1], ["call", 1, False], ["call", 1, False]], "publication-fails-2"),
]


def gen_scenarios(ctx):
    rng = random.Random(ctx.seed * 7727 + 3)
    n_sc = 300 if ctx.thorough else 44
    out = []

    def build(k, kinds, script, tag, cluster=False):
        sim = Sim(k, [n for n in range(k) if kinds[n] == "child"])
        acts, expect = [], []
        for a in script:
            sim.drive(a)
            acts.append(a)
            expect.append(sim.observe())
        return {"k": k, "kinds": kinds, "actions": acts, "expect": expect, "tag": tag, "cluster": cluster}
    for k, kinds, script, tag in CORPUS:
        out.append(build(k, kinds, script, tag))
    for k, script, tag in CORPUS_CLUSTER:
        out.append(build(k, ["spawn"] * k, script, tag, True))
    while len(out) < n_sc:
        k = rng.choice([1, 2, 3])
        fl = rng.random()
        # flavours: "dw" may hold the death watch (the family of the open finding); "ctx" cancels the
        # winner's context / lets waiters give up; "cluster" makes registry publications fail
        flavour = "dw" if fl < 0.45 else ("ctx" if fl < 0.8 else "cluster")
        if flavour == "cluster":
            kinds = ["spawn"] * k
        else:
            kinds = [rng.choice(["spawn", "func", "child", "mixed"]) for _ in range(k)]
        sim = Sim(k, [n for n in range(k) if kinds[n] == "child"])
        acts, expect = [], []

        def do(a):
            sim.drive(a)
            acts.append(a)
            expect.append(sim.observe())
        guarded = flavour != "dw" or rng.random() < 0.6     # most scenarios keep the death watch running
        for _ in range(rng.choice([5, 9, 14])):
            r = rng.random()
            n = rng.randrange(k)
            if r < 0.45:
                winner = sim.N[n].flight is None
                do(["call", n, winner and rng.random() < (0.6 if flavour == "ctx" else 0.35)])
            elif r < 0.60 and sim.gated:
                g = rng.choice(sim.gated)
                r2 = rng.random()
                if flavour == "ctx" and r2 < 0.35:
                    do(["cancel", g])
                elif flavour == "ctx" and r2 < 0.7:
                    do(["call_deadline", g])
                else:
                    do(["release_pre", g])
            elif r < 0.70 and flavour == "cluster" and sim.N[n].flight is None and n not in sim.fail:
                do(["set_fail", n])
            elif r < 0.82:
                do(["stop", n])
            elif r < 0.90 and not guarded and not sim.held:
                do(["hold_dw"])
            elif sim.held:
                do(["release_dw"])
            else:
                do(["call", n, False])
        for _ in range(8):
            if not sim.gated:
                break
            do(["release_pre", sim.gated[0]])
        if sim.held:
            do(["release_dw"])
        out.append({"k": k, "kinds": kinds, "actions": acts, "expect": expect, "tag": "gen-" + flavour, "cluster": flavour == "cluster"})
    return out


def coq_action(a):
    k = a[0]
    if k == "call":
        return "DCall %d %s" % (a[1], "true" if a[2] else "false")
    if k == "release_pre":
        return "DReleasePre %d" % a[1]
    if k == "stop":
        return "DStop %d" % a[1]
    if k == "cancel":
        return "DCancel %d" % a[1]
    if k == "call_deadline":
        return "DCallDeadline %d" % a[1]
    if k == "set_fail":
        return "DSetFail %d" % a[1]
    return {"hold_dw": "DHoldDW", "release_dw": "DReleaseDW"}[k]
