"""C44 (work-pulling producer controller): plans, cases.v generation for coq/theories/C44/Model.v, decoding, oracle."""
import re

from vlib import zlit
from rd_util import b, row_hash, parse_summary  # noqa: F401


def op_to_coq(o):
    g = lambda n: zlit(int(o.get(n, 0)))
    k = o["op"]
    if k == "Register":
        return "WRegister %s %s %s" % (b(o.get("auth", False)), g("ctrl"), g("n"))
    if k == "Request":
        return "WRequest %s %s %s %s %s %s" % (g("ctrl"), g("s"), g("n"), g("c"), g("u"), b(o.get("v", False)))
    if k == "Ack":
        return "WAck %s %s %s %s" % (g("ctrl"), g("s"), g("n"), g("c"))
    if k == "Produced":
        return "WProduced %s %s %s %s" % (b(o.get("auth", False)), g("s"), g("t"), g("m"))
    if k == "StoredAck":
        return "WStoredAck %s %s %s %s" % (b(o.get("auth", False)), g("s"), g("t"), g("m"))
    if k == "Tick":
        return "WTick %s" % b(o.get("stale", False))
    if k == "Terminated":
        return "WTerminated %s" % g("ctrl")
    if k in ("QueueResult", "Restart"):
        raise ValueError("durable-lane cases are oracle only")
    raise ValueError(o)


def cases_v(cases):
    out = ["From Coq Require Import ZArith List Bool Uint63. Import ListNotations.",
           "From GV Require Import C42.Model C44.Model C44.Tie.", "Open Scope Z_scope."]
    names = []
    for k, c in enumerate(cases):
        ins = "[" + "; ".join("([%s], %s)" % ("; ".join(str(x) for x in o.get("alive", [])), op_to_coq(o)) for o in c["ops"]) + "]"
        dig = "[" + "; ".join("%d%%uint63" % row_hash(r) for r in c["obs"]) + "]"
        out.append("Definition r%d := wcheck_case 1 %s %s %s." % (k, b(c["notify"]), ins, dig))
        names.append("(%d%%nat, r%d)" % (k, k))
    out.append("Definition results : list (nat * option (nat * list Z)) := [%s]." % "; ".join(names))
    out.append("Definition bad := filter (fun r => match snd r with Some _ => true | None => false end) results.")
    out.append("Definition summary := (length results, length bad, firstn 3 bad).")
    out.append("Eval vm_compute in summary.")
    return "\n".join(out) + "\n"


ARITY = {1: 4, 2: 4, 3: 3, 4: 5, 5: 4, 99: 1}


def decode(row):
    """observation row -> dict(to={ctrl:[msgs]}, toProd=[msgs], shut, state)"""
    pos = 0
    to = {}

    def msgs(stop):
        nonlocal pos
        out = []
        while row[pos] not in stop:
            a = ARITY[row[pos]]
            out.append(tuple(row[pos:pos + a]))
            pos += a
        return out
    while row[pos] == 120:
        c = row[pos + 1]
        pos += 2
        to[c] = msgs((120, 121))
    assert row[pos] == 121
    pos += 1
    to_prod = msgs((122,))
    shut = row[pos + 1]
    pos += 2
    assert row[pos] == 300
    sseq, n = row[pos + 1], row[pos + 2]
    pos += 3
    pending = [(row[pos + 2 * k], row[pos + 2 * k + 1]) for k in range(n)]
    pos += 2 * n
    assert row[pos] == 301
    nb, no, nxt = row[pos + 1:pos + 4]
    pos += 4
    binds = []
    for _ in range(no):
        if row[pos] == -1:
            binds.append(None)
            pos += 2
            continue
        name, ctrl, nonce, cur, conf, dem, k = row[pos:pos + 7]
        pos += 7
        un = [tuple(row[pos + 3 * j:pos + 3 * j + 3]) for j in range(k)]
        pos += 3 * k
        binds.append({"name": name, "ctrl": ctrl, "nonce": nonce, "cur": cur, "conf": conf, "demand": dem, "unconf": un})
    assert row[pos] == 302
    hs, tok, pmid, psseq, stored, ltok, lmid, failed = row[pos + 1:pos + 9]
    return {"to": to, "toProd": to_prod, "shut": shut,
            "S": {"sseq": sseq, "pending": pending, "n_bindings": nb, "n_order": no, "next": nxt, "bindings": binds,
                  "hs": hs, "tok": tok, "pmid": pmid, "psseq": psseq, "stored": stored, "ltok": ltok, "lmid": lmid, "failed": failed}}


def oracle_c44(c):
    """Conservation, exactly-once confirmation, hand-over before confirmation, requeue, no stuck work, cursor range.
    Works on the real traffic and the controller's observable fields; independent of the Coq model."""
    from collections import Counter
    bad = []
    accepted = Counter()       # jobs (mid, storeSeq) whose Stored the producer endpoint acknowledged
    stored = {}                # token -> (mid, storeSeq) from Stored replies
    confirmed = Counter()      # DeliveryConfirmed notices
    handed = {}                # mid -> set of companions it was sent to
    acked_tokens = set()
    prev = None
    reported = {}              # companion -> highest confirmation it ever reported (Request/Ack it sent)
    restarted = False
    all_notices = set()        # every job number ever confirmed to the producer (across controller restarts)
    if c.get("panic"):
        k = len(c["ops"])
        return [("panic:controller-receive", "the controller's Receive panicked (%s) on %s: the supervisor restarts it and a volatile flow loses its pending and unconfirmed jobs" %
                 (c["panic"], c["ops"][-1]), k)]
    for k in range(len(c["obs"])):
        g = decode(c["obs"][k])
        op = c["ops"][k - 1] if k > 0 else None
        S = g["S"]
        if op is not None and op["op"] == "Restart":
            # a supervised restart: the durable queue is the source of truth; re-base the bookkeeping on what was reloaded
            accepted = Counter(S["pending"])
            confirmed = Counter()
            stored, acked_tokens, reported = {}, set(), {}
            all_notices = set()   # confirmations not yet persisted at a restart are redelivered and confirmed again (documented at-least-once)
            restarted = True
            if S["n_bindings"] != 0 or S["n_order"] != 0:
                bad.append(("restart:bindings-survive", "after a restart the controller still holds %d bindings / %d order entries: a re-registering worker is taken for a known one and never enters the rotation" % (S["n_bindings"], S["n_order"]), k))
        if op is not None and op["op"] in ("Request", "Ack") and op.get("s", 0) == 1:
            reported[op.get("ctrl")] = max(reported.get(op.get("ctrl"), 0), op.get("c", 0))
        for ctrl, ms in g["to"].items():
            for m in ms:
                if m[0] == 1 and m[2] - 1 > reported.get(ctrl, 0):
                    bad.append(("regack:next-seq-skips-unconfirmed-jobs", "RegistrationAck tells companion %d to resume at seq %d although it only ever confirmed up to %d: the jobs in between are skipped and its next Request confirms jobs no worker processed" %
                                (ctrl, m[2], reported.get(ctrl, 0)), k))
        for m in g["toProd"]:
            if m[0] == 4:
                stored[m[2]] = (m[3], m[4])
        # a job is accepted when the handshake that stored it completes (StoredAck seen, and with a durable queue
        # the Accept recorded): the controller's handshake returns to idle/credit with that token as last completed
        if prev is not None and prev["S"]["hs"] in (3, 4) and S["hs"] in (0, 1) and S["ltok"] == prev["S"]["tok"] \
                and S["lmid"] == prev["S"]["pmid"] and prev["S"]["tok"] not in acked_tokens:
            acked_tokens.add(prev["S"]["tok"])
            accepted[(prev["S"]["pmid"], prev["S"]["psseq"])] += 1
        for ctrl, ms in g["to"].items():
            for m in ms:
                if m[0] == 2:
                    handed.setdefault(m[2], set()).add(ctrl)
        for m in g["toProd"]:
            if m[0] == 5:
                job = (m[2], m[3])
                all_notices.add(m[2])
                confirmed[job] += 1
                if confirmed[job] > 1:
                    bad.append(("confirm:more-than-once", "job %s confirmed to the producer %d times" % (job, confirmed[job]), k))
                if job not in accepted:
                    bad.append(("confirm:unknown-job", "DeliveryConfirmed for %s which was never accepted" % (job,), k))
                if job[0] not in handed:
                    bad.append(("confirm:never-handed-to-a-worker", "job %s confirmed although no worker was ever sent it" % (job,), k))
        held = Counter(S["pending"])
        names = []
        for bnd in S["bindings"]:
            if bnd is None:
                bad.append(("bindings:order-without-entry", "bindingOrder names a worker without a binding", k))
                continue
            names.append(bnd["name"])
            for (mid, wseq, sseq) in bnd["unconf"]:
                held[(mid, sseq)] += 1
            if [d[1] for d in bnd["unconf"]] != list(range(bnd["conf"] + 1, bnd["cur"] + 1)) and \
                    [d[1] for d in bnd["unconf"]] != list(range(bnd["cur"] - len(bnd["unconf"]) + 1, bnd["cur"] + 1)):
                bad.append(("binding:unconfirmed-not-contiguous", "worker %d unconfirmed %s with confirmed %d current %d" % (bnd["name"], bnd["unconf"], bnd["conf"], bnd["cur"]), k))
        if len(set(names)) != len(names) or S["n_bindings"] != S["n_order"]:
            bad.append(("bindings:map-and-order-diverge", "bindings=%d order=%d names=%s" % (S["n_bindings"], S["n_order"], names), k))
        if not (0 <= S["next"] <= S["n_order"]):
            bad.append(("cursor:out-of-range", "nextWorker=%d with %d bindings" % (S["next"], S["n_order"]), k))
        if c["notify"]:
            total = held + confirmed
            if total != accepted:
                lost = accepted - total
                extra = total - accepted
                bad.append(("conservation:job-lost-or-duplicated", "accepted jobs not in exactly one of pending/unconfirmed/confirmed: missing %s, surplus %s" % (dict(lost), dict(extra)), k))
        else:
            if any(v > 1 for v in held.values()) or any(j not in accepted for j in held):
                bad.append(("conservation:job-duplicated", "held jobs %s vs accepted %s" % (dict(held), dict(accepted)), k))
            if sum(held.values()) > sum(accepted.values()):
                bad.append(("conservation:more-held-than-accepted", "", k))
        if not S["failed"] and S["pending"] and op is not None and op["op"] not in ("Tick",):
            free = [bnd["name"] for bnd in S["bindings"] if bnd and bnd["demand"] > bnd["cur"]]
            if free:
                bad.append(("progress:pending-while-worker-has-demand", "pending %s although workers %s have free demand" % (S["pending"], free), k))
        if op is not None and op["op"] == "Terminated" and prev is not None:
            gone = [bnd for bnd in prev["S"]["bindings"] if bnd and bnd["ctrl"] == op.get("ctrl")]
            if gone:
                want = [(d[0], d[2]) for d in gone[0]["unconf"]] + prev["S"]["pending"]
                # everything the stopped worker held is pending again (front, original order) or already with another worker
                still = [j for j in want if j in S["pending"]]
                if still != S["pending"][:len(still)] and still != S["pending"]:
                    bad.append(("requeue:not-at-front-in-order", "after worker %s stopped: pending %s, expected order %s" % (op.get("ctrl"), S["pending"], want), k))
                if any(bnd and bnd["ctrl"] == op.get("ctrl") for bnd in S["bindings"]):
                    bad.append(("requeue:binding-survives-termination", "binding of stopped companion %s still present" % op.get("ctrl"), k))
        prev = g
        if bad:
            break
    if not bad and c.get("durable") and not c.get("failed"):
        notices = sorted(all_notices)
        qc = sorted(c.get("queue_confirmed") or [])
        if c["notify"] and (notices != qc if not restarted else not set(notices) <= set(qc)):
            bad.append(("durable:confirmation-not-persisted", "jobs confirmed to the producer %s, jobs the durable work queue holds as confirmed %s" % (notices, qc), len(c["obs"]) - 1))
        held_now = sorted(j[0] for j in (Counter(prev["S"]["pending"]) + Counter((d[0], d[2]) for b_ in prev["S"]["bindings"] if b_ for d in b_["unconf"])).elements())
        left = sorted(c.get("queue_left") or [])
        pend_hs = [prev["S"]["pmid"]] if prev["S"]["hs"] in (3, 4) else []
        if sorted(held_now + pend_hs) != left and sorted(held_now) != left:
            bad.append(("durable:queue-and-controller-diverge", "queue still stores %s, controller holds %s (+ handshake %s)" % (left, held_now, pend_hs), len(c["obs"]) - 1))
    return bad
