"""Helpers shared by the atomic-step checks (C15, C20): building tools/vinstr, instrumenting files of the
CURRENT repo tree, and running `go test` with an overlay that replaces repo files by their
instrumented copies and adds in-package harness files (nothing is written into the repo)."""
import json
import os

import vlib
from vlib import sh, go_env, Lock, VERIF, REPO, BUILD, GOBIN


def build_vinstr():
    src_dir = os.path.join(VERIF, "tools", "vinstr")
    binp = os.path.join(BUILD, "vinstr")
    src_m = max(os.path.getmtime(os.path.join(src_dir, f)) for f in os.listdir(src_dir) if f.endswith(".go"))
    with Lock("vinstr-build"):
        if not os.path.exists(binp) or os.path.getmtime(binp) < src_m:
            rc, out = sh([GOBIN, "build", "-o", binp, "."], cwd=src_dir, env=go_env(), timeout=300)
            if rc != 0:
                return None, "vinstr build failed: " + out
    return binp, ""


def instrument(ctx, rel, out_name, rules, fields="", chan=False, funcs="", hook=""):
    """instrument REPO/<rel> into ctx.work/<out_name>; returns (path or None, message)"""
    binp, msg = build_vinstr()
    if binp is None:
        return None, msg
    outp = os.path.join(ctx.work, out_name)
    cmd = [binp, "-in", os.path.join(REPO, rel), "-out", outp, "-rules", rules]
    if fields:
        cmd += ["-fields", fields]
    if chan:
        cmd += ["-chan"]
    if funcs:
        cmd += ["-funcs", funcs]
    if hook:
        cmd += ["-hook", hook]
    rc, out = sh(cmd, timeout=60)
    if rc != 0:
        return None, out
    return outp, out


def go_test_overlay(ctx, pkgs, run, inpkg_files, replaced, env=None, timeout=900, race=False, name="overlay_x.json"):
    """pkgs: list of repo-relative package dirs to test.
    inpkg_files: {pkg dir: [file names under /verif/go/inpkg/<dir with / -> _>/]}  (added to the package)
    replaced:    {repo-relative file: absolute path of its replacement}"""
    repl = {}
    for pkg, files in inpkg_files.items():
        src_dir = os.path.join(VERIF, "go", "inpkg", pkg.replace("/", "_"))
        fl = list(files)
        if os.path.exists(os.path.join(src_dir, "zz_verif_common_test.go")) and "zz_verif_common_test.go" not in fl:
            fl.append("zz_verif_common_test.go")
        for f in fl:
            repl[os.path.join(REPO, pkg, f)] = os.path.join(src_dir, f)
    for rel, p in replaced.items():
        repl[os.path.join(REPO, rel)] = p
    ov = os.path.join(ctx.work, name)
    json.dump({"Replace": repl}, open(ov, "w"), indent=1)
    e = go_env()
    e.update({"VERIF_SEED": str(ctx.seed), "VERIF_TIER": ctx.tier, "VERIF_OUT": ctx.work})
    e.update(env or {})
    cmd = [GOBIN, "test", "-tags", "verif", "-overlay", ov, "-vet=off", "-count=1", "-run", run,
           "-timeout", "%ds" % max(60, timeout - 30)]
    if race:
        cmd.append("-race")
    cmd += ["./" + p + "/" for p in pkgs]
    return sh(cmd, cwd=REPO, env=e, timeout=timeout)
