"""Helpers shared by checks/C04.py and checks/C03.py (mailbox properties).

  * build_overlay: instruments the mailbox files of the CURRENT working tree with tools/mbinstr
    (yield points before every atomic operation), adds the hook + harness files and removes the
    repository's own *_test.go files of the package from the build (they are not needed and
    double the build time). Nothing is written into the repository.
  * go_test: `go test -tags verif -overlay ...` with that overlay.
  * the sequential oracles (pure Python, written from the documentation, independent of the Coq model).
"""
import glob
import json
import os

import vlib
from vlib import sh, go_env, Lock, VERIF, REPO, BUILD, GOBIN

MAILBOX_FILES = ["unbounded_mailbox.go", "unbounded_segmented_mailbox.go", "unbounded_fair_mailbox.go",
                 "non_blocking_bounded_mailbox.go", "priority_intake.go", "unbounded_priority_mailbox.go",
                 "unbounded_stable_priority_mailbox.go", "bounded_priority_mailbox.go",
                 "bounded_stable_priority_mailbox.go"]

KINDS = ["unbounded", "segmented", "fair", "bounded", "nbbounded", "uprio", "ustable", "bprio", "bstable"]
KIND_NO = {k: i for i, k in enumerate(KINDS)}
FIFO = {"unbounded", "segmented", "bounded", "nbbounded"}
PRIO = {"uprio", "ustable", "bprio", "bstable"}
STABLE = {"ustable", "bstable"}
BOUNDED = {"bounded", "nbbounded", "bprio", "bstable"}


def next_pow2(n):
    if n <= 2:
        return 2
    p = 1
    while p < n:
        p *= 2
    return p


def eff_cap(kind, cap):
    """capacity the documentation promises for a requested capacity (0 = unbounded)"""
    if kind in ("nbbounded", "bounded"):
        return next_pow2(cap)
    if kind in ("bprio", "bstable"):
        return cap
    return 0


def pkey(pf, p):
    if pf == 1:
        return -p
    if pf == 2:
        return p % 3
    if pf == 3:
        return 0
    if pf == 4:
        return abs(p - 5)
    return p


def build_overlay(ctx, test_files, instrument=True):
    """returns (overlay_path, notes). test_files: names under go/inpkg/actor/."""
    notes = {}
    repl = {}
    src_dir = os.path.join(VERIF, "go", "inpkg", "actor")
    for f in glob.glob(os.path.join(REPO, "actor", "*_test.go")):
        repl[f] = ""
    for f in list(test_files) + ["zz_verif_common_test.go", "zz_verif_C04_hook.go"]:
        repl[os.path.join(REPO, "actor", f)] = os.path.join(src_dir, f)
    instr_ok = False
    if instrument:
        tool_dir = os.path.join(VERIF, "tools", "mbinstr")
        binp = os.path.join(BUILD, "mbinstr")
        with Lock("mbinstr-build"):
            src_m = max(os.path.getmtime(os.path.join(tool_dir, f)) for f in os.listdir(tool_dir) if f.endswith(".go"))
            if not os.path.exists(binp) or os.path.getmtime(binp) < src_m:
                rc, out = sh([GOBIN, "build", "-o", binp, "."], cwd=tool_dir, env=go_env(), timeout=300)
                if rc != 0:
                    notes["mbinstr_build"] = out[-2000:]
        d = os.path.join(ctx.work, "instr")
        os.makedirs(d, exist_ok=True)
        files = [os.path.join(REPO, "actor", f) for f in MAILBOX_FILES if os.path.exists(os.path.join(REPO, "actor", f))]
        missing = [f for f in MAILBOX_FILES if not os.path.exists(os.path.join(REPO, "actor", f))]
        if missing:
            notes["missing_files"] = missing
        if os.path.exists(binp) and files:
            rc, out = sh([binp, "-out", d] + files, timeout=120)
            if rc == 0:
                instr_ok = True
                pts = 0
                for line in out.splitlines():
                    a = line.split()
                    if len(a) == 3:
                        repl[a[0]] = a[1]
                        pts += int(a[2])
                notes["yield_points"] = pts
            else:
                notes["mbinstr"] = out[-2000:]
    notes["instrumented"] = instr_ok
    p = os.path.join(ctx.work, "overlay.json")
    json.dump({"Replace": repl}, open(p, "w"), indent=1)
    return p, notes


def go_test(ctx, overlay, run, env=None, timeout=900, race=False):
    e = go_env()
    e.update({"VERIF_SEED": str(ctx.seed), "VERIF_TIER": ctx.tier, "VERIF_OUT": ctx.work})
    e.update(env or {})
    cmd = [GOBIN, "test", "-tags", "verif", "-overlay", overlay, "-vet=off", "-count=1", "-run", run,
           "-timeout", "%ds" % max(60, timeout - 30)]
    if race:
        cmd.append("-race")
    cmd.append("./actor/")
    return sh(cmd, cwd=REPO, env=e, timeout=timeout)


# ------------------------------------------------------------------------------------------------
# sequential oracle: the documented behaviour, op by op. Returns None or (class, text).

class SeqOracle:
    def __init__(self, kind, cap, pf):
        self.kind, self.cap, self.pf = kind, cap, pf
        self.eff = eff_cap(kind, cap)
        self.held = []          # accepted, not yet delivered, arrival order: (id, sender, prio)
        self.rr = []            # fair: [sender, [msgs]] in service order
        self.pend = None        # bounded: message of a blocked Enqueue
        self.seen = set()

    def n(self):
        return len(self.held)

    def step(self, op, res):
        """op = [code, id, sender, prio]; res = [out, len_after, empty_after]"""
        code, out = op[0], res[0]
        k = self.kind
        if out == -6:
            return ("panic", "operation %s panicked (%d messages held)" % ({0: "Enqueue", 4: "Enqueue", 1: "Dequeue", 2: "Len", 3: "IsEmpty"}[code], self.n()))
        if out == -2 and code != 1:
            return ("hang", "operation %s does not return (%d messages held)" % ({0: "Enqueue", 4: "Enqueue", 2: "Len", 3: "IsEmpty"}[code], self.n()))
        if code in (0, 4):
            m = (op[1], op[2], op[3])
            full = self.eff > 0 and self.n() >= self.eff
            if out == 1:
                if full:
                    return ("capacity", "Enqueue accepted message %d although %d messages are held (capacity %d, effective %d)" % (m[0], self.n(), self.cap, self.eff))
                self._add(m)
            elif out == 0:
                if k == "bounded" or self.eff == 0:
                    return ("reject", "Enqueue refused message %d on a mailbox that never refuses" % m[0])
                if not full:
                    return ("reject-not-full", "Enqueue refused message %d with %d of %d held" % (m[0], self.n(), self.eff))
            elif out == 2:
                if not (k == "bounded" and full):
                    return ("blocks", "Enqueue of message %d does not return with %d of %d held" % (m[0], self.n(), self.eff or -1))
                self.pend = m
            else:
                return ("enqueue-error", "Enqueue returned an unexpected error for message %d (code %d)" % (m[0], out))
        elif code == 1:
            if out == -2:
                return ("hang", "Dequeue does not return (%d messages held)" % self.n())
            if out == -5:
                return ("hang", "a blocked Enqueue did not resume after a Dequeue made room")
            if out == -1:
                if self.n() > 0:
                    return ("empty-report", "Dequeue returned nil with %d messages held" % self.n())
            else:
                want = self._next()
                if out == -4 or all(m[0] != out for m in self.held):
                    return ("invented", "Dequeue returned id %d which is not held (held %s)" % (out, [m[0] for m in self.held][:8]))
                got = next(m for m in self.held if m[0] == out)
                ok = True
                why = ""
                if k in FIFO:
                    ok = got == want
                    why = "FIFO order: expected id %d" % want[0]
                elif k == "fair":
                    ok = got == want
                    why = "round-robin over per-sender FIFO: expected id %d" % want[0]
                elif k in PRIO:
                    kg = pkey(self.pf, got[2])
                    if any(pkey(self.pf, m[2]) < kg for m in self.held):
                        ok, why = False, "a held message has strictly higher priority (key %d < %d)" % (min(pkey(self.pf, m[2]) for m in self.held), kg)
                    elif k in STABLE and got != want:
                        ok, why = False, "equal priority must keep arrival order: expected id %d" % want[0]
                if not ok:
                    return ("order", "Dequeue returned id %d; %s" % (out, why))
                self._remove(got)
                if self.pend is not None:
                    self._add(self.pend)
                    self.pend = None
        elif code == 2:
            if out != self.n():
                return ("len", "Len returned %d with %d messages held" % (out, self.n()))
        elif code == 3:
            if out != (1 if self.n() == 0 else 0):
                return ("isempty", "IsEmpty returned %d with %d messages held" % (out, self.n()))
        if len(res) > 2 and res[1] != -9:
            if res[1] != self.n():
                return ("len", "Len is %d after the operation, %d messages are held" % (res[1], self.n()))
            if res[2] != (1 if self.n() == 0 else 0):
                return ("isempty", "IsEmpty is %d after the operation, %d messages are held" % (res[2], self.n()))
        return None

    def _add(self, m):
        self.held.append(m)
        if self.kind == "fair":
            for e in self.rr:
                if e[0] == m[1]:
                    e[1].append(m)
                    return
            self.rr.append([m[1], [m]])

    def _next(self):
        if not self.held:
            return None
        if self.kind == "fair":
            return self.rr[0][1][0]
        if self.kind in PRIO:
            best = self.held[0]
            for m in self.held[1:]:
                if pkey(self.pf, m[2]) < pkey(self.pf, best[2]):
                    best = m
            return best
        return self.held[0]

    def _remove(self, m):
        self.held.remove(m)
        if self.kind == "fair":
            for i, e in enumerate(self.rr):
                if e[0] == m[1]:
                    e[1].remove(m)
                    del self.rr[i]
                    if e[1]:
                        self.rr.append(e)
                    return


def coq_ops(ops):
    out = []
    for o in ops:
        if o[0] == 0:
            out.append("Enq (mkMsg %s %s %s)" % (vlib.zlit(o[1]), vlib.zlit(o[2]), vlib.zlit(o[3])))
        elif o[0] == 4:
            out.append("EnqB (mkMsg %s %s %s)" % (vlib.zlit(o[1]), vlib.zlit(o[2]), vlib.zlit(o[3])))
        else:
            out.append({1: "Deq", 2: "Len", 3: "IsEmpty"}[o[0]])
    return "[" + "; ".join(out) + "]"
