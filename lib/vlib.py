"""Common machinery for /verif checks.

A check is a python module checks/<ID>.py exposing `run(ctx)`. It uses the helpers here to
  * regenerate Gallina from /repo sources (goq), build the Coq closure of the property and read
    `Print Assumptions`,
  * build and run Go harnesses against /repo's CURRENT working tree (in-package files are injected
    with `go test -overlay`, nothing is written into /repo),
  * evaluate the Coq model on the cases the implementation ran (cases.v + vm_compute),
  * report findings; the verdict logic (known findings, VIOLATION lines, evidence file) lives here.
"""
import fcntl
import hashlib
import json
import os
import random
import re
import shutil
import subprocess
import sys
import time

VERIF = os.path.dirname(os.path.dirname(os.path.abspath(__file__)))
REPO = os.environ.get("VERIF_REPO", "/repo")
BUILD = os.path.join(VERIF, ".build")
COQ = os.path.join(VERIF, "coq")
GOBIN = "go1.26"

ALLOWED_AXIOMS = {
    # standard-library axioms that may appear (each is reported in the evidence when it does)
    "functional_extensionality_dep", "FunctionalExtensionality.functional_extensionality_dep",
    "Coq.Logic.FunctionalExtensionality.functional_extensionality_dep",
    "proof_irrelevance", "ProofIrrelevance.proof_irrelevance",
    "classic", "Classical_Prop.classic", "Eqdep.Eq_rect_eq.eq_rect_eq", "JMeq_eq", "JMeq.JMeq_eq",
}

FORBIDDEN = re.compile(
    r"\b(Admitted|admit|Axiom|Axioms|Parameter|Parameters|Conjecture|Conjectures|Abort All)\b"
    r"|Unset\s+Guard|Unset\s+Positivity|Unset\s+Universe|bypass_check|type-in-type|impredicative-set"
    r"|Admit\s+Obligations|\bnative_compute\b")


def go_env():
    env = dict(os.environ)
    env.update({"GOFLAGS": "-mod=mod", "GOPROXY": "off", "GOTOOLCHAIN": "local", "CGO_ENABLED": env.get("CGO_ENABLED", "1")})
    env.pop("GOSUMDB", None)
    return env


def sh(cmd, cwd=None, env=None, timeout=None, input=None):
    """run a command, return (rc, combined output)"""
    try:
        p = subprocess.run(cmd, cwd=cwd, env=env, timeout=timeout, input=input, shell=isinstance(cmd, str),
                           stdout=subprocess.PIPE, stderr=subprocess.STDOUT, text=True, errors="replace")
        return p.returncode, p.stdout
    except subprocess.TimeoutExpired as e:
        out = e.stdout if isinstance(e.stdout, str) else (e.stdout or b"").decode("utf8", "replace")
        return 124, (out or "") + "\n[timeout after %ss]" % timeout


class Finding:
    """Something a check wants to report.

    kind: 'violation'      a concrete input/history/schedule on which the property fails on the real code
          'proof_broken'   a Coq obligation no longer checks (no failing input found)
          'tie_broken'     model and implementation disagree / harness no longer builds (no failing input found)
    signature: short stable string identifying WHAT fails (matched against known_findings.json)
    """

    def __init__(self, kind, signature, what, replay=None):
        self.kind, self.signature, self.what, self.replay = kind, signature, what, replay or {}


class Ctx:
    def __init__(self, pid, tier, seed, replay_path=None):
        self.pid, self.tier, self.seed = pid, tier, seed
        self.replay_path = replay_path
        self.t0 = time.time()
        self.rng = random.Random(seed)
        self.findings = []
        self.coverage = {}
        self.assumptions = []
        self.trusted = []
        self.obligations = 0
        self.discharged = 0
        self.axioms = set()
        self.notes = []
        self.work = os.path.join(BUILD, pid + ("-alt" if os.environ.get("VERIF_REPO") else ""))
        os.makedirs(self.work, exist_ok=True)

    @property
    def thorough(self):
        return self.tier == "thorough"

    def log(self, *a):
        print("[%s %6.1fs]" % (self.pid, time.time() - self.t0), *a, flush=True)

    def add(self, finding):
        self.findings.append(finding)

    def violation(self, signature, what, replay=None):
        self.add(Finding("violation", signature, what, replay))

    def proof_broken(self, theorem, log_tail):
        self.add(Finding("proof_broken", "proof:" + theorem, "Coq obligation no longer checks: " + theorem,
                         {"theorem_or_file": theorem, "coq_output_tail": log_tail[-3000:]}))

    def tie_broken(self, name, detail):
        self.add(Finding("tie_broken", "tie:" + name, "correspondence no longer checks: " + name,
                         {"correspondence": name, "detail": detail if isinstance(detail, (dict, list)) else str(detail)[-4000:]}))

    # ------------------------------------------------------------------ goq
    def goq(self, spec_name, out_module):
        """translate per checks/specs/<spec_name>.goq.json into coq/theories/Gen/<out_module>.v.
        returns (ok, message)"""
        goq_dir = os.path.join(VERIF, "tools", "goq")
        binp = os.path.join(BUILD, "goq")
        src_m = max(os.path.getmtime(os.path.join(goq_dir, f)) for f in os.listdir(goq_dir) if f.endswith(".go"))
        with Lock("goq-build"):
            if not os.path.exists(binp) or os.path.getmtime(binp) < src_m:
                rc, out = sh([GOBIN, "build", "-o", binp, "."], cwd=goq_dir, env=go_env(), timeout=300)
                if rc != 0:
                    return False, "goq build failed: " + out
        spec = os.path.join(VERIF, "checks", "specs", spec_name + ".goq.json")
        outv = os.path.join(COQ, "theories", "Gen", out_module + ".v")
        os.makedirs(os.path.dirname(outv), exist_ok=True)  # Gen/*.v is git-ignored: the directory may not exist in a fresh checkout
        tmp = outv + ".tmp.%d" % os.getpid()
        rc, out = sh([binp, "-repo", REPO, "-spec", spec, "-out", tmp], timeout=60)
        if rc != 0:
            if os.path.exists(tmp):
                os.remove(tmp)
            return False, out
        with Lock("coq"):
            old = open(outv).read() if os.path.exists(outv) else None
            new = open(tmp).read()
            if old != new:
                os.replace(tmp, outv)
            else:
                os.remove(tmp)
        return True, new

    # ------------------------------------------------------------------ coq
    def coq_gate(self, files):
        """forbidden-vernacular gate over the given project-relative .v files (comments stripped)."""
        bad = []
        for rel in files:
            p = os.path.join(COQ, rel)
            if not os.path.exists(p):
                continue
            txt = open(p, errors="replace").read()
            # strip (possibly nested) comments
            out, depth, i = [], 0, 0
            while i < len(txt):
                if txt.startswith("(*", i):
                    depth += 1
                    i += 2
                elif txt.startswith("*)", i) and depth > 0:
                    depth -= 1
                    i += 2
                else:
                    if depth == 0 or txt[i] == "\n":
                        out.append(txt[i])
                    i += 1
            for n, line in enumerate("".join(out).splitlines(), 1):
                if FORBIDDEN.search(line):
                    bad.append("%s:%d: %s" % (rel, n, line.strip()))
        return bad

    def coq_build(self, targets, timeout=1500):
        """make the given .vo targets (paths relative to coq/, e.g. theories/Properties/C08.vo).
        returns (ok, output)"""
        with Lock("coq"):
            ensure_coq_makefile()
            rc, out = sh(["make", "-j16"] + list(targets), cwd=COQ, timeout=timeout)
        return rc == 0, out

    def coq_property(self, pid=None, extra_targets=(), sources=None, timeout=1500):
        """Gate + build Properties/<pid>.vo (forcing its Print Assumptions to be re-printed),
        parse the assumptions, count obligations. Records proof_broken findings. returns ok."""
        pid = pid or self.pid
        prop_v = "theories/Properties/%s.v" % pid
        prop_vo = prop_v + "o"
        with Lock("coq"):
            ensure_coq_makefile()
        closure = self.coq_closure(prop_v)
        bad = self.coq_gate(closure)
        if bad:
            self.coq_log = "\n".join(bad)
            self.failed_at = "forbidden-vernacular-gate"
            return False
        ok, out = self.coq_build(list(extra_targets) + [prop_vo], timeout=timeout)
        if not ok:
            m = re.findall(r'File "\./(theories/[^"]+)", line (\d+)', out)
            where = "%s:%s" % m[-1] if m else prop_v
            self.coq_log = out
            self.failed_at = where
            return False
        # re-run coqc on the property file alone to get its Print Assumptions output deterministically
        with Lock("coq"):
            rc, pout = sh(["coqc", "-Q", "theories", "GV", prop_v], cwd=COQ, timeout=timeout)
        if rc != 0:
            self.coq_log = pout
            self.failed_at = prop_v
            return False
        n_print = len(re.findall(r"^\s*Print Assumptions", open(os.path.join(COQ, prop_v)).read(), re.M))
        closed = len(re.findall(r"Closed under the global context", pout))
        axioms = set()
        if "Axioms:" in pout:
            for blk in pout.split("Axioms:")[1:]:
                for line in blk.splitlines():
                    m = re.match(r"^([A-Za-z_][\w\.']*)\s*:", line)
                    if m:
                        axioms.add(m.group(1))
                    elif line.startswith("Closed under"):
                        break
        self.axioms = axioms
        unknown = {a for a in axioms if a not in ALLOWED_AXIOMS and a.split(".")[-1] not in ALLOWED_AXIOMS}
        if unknown:
            self.proof_broken("Print Assumptions: non-allow-listed axioms %s" % sorted(unknown), pout)
            return False
        self.n_theorems = n_print
        self.closed_theorems = closed
        srcs = sources or closure
        nq = 0
        for s in srcs:
            txt = open(os.path.join(COQ, s), errors="replace").read()
            nq += len(re.findall(r"\b(Qed|Defined)\.", txt))
        self.obligations = nq
        self.discharged = nq
        self.coq_sources = srcs
        if self.thorough and not os.environ.get("VERIF_NO_COQCHK"):
            # independent re-check of the compiled property file and everything it depends on
            with Lock("coq"):
                rc, cout = sh(["coqchk", "-silent", "-o", "-Q", "theories", "GV", "GV.Properties.%s" % pid], cwd=COQ, timeout=2400)
            summ = cout[cout.find("CONTEXT SUMMARY"):] if "CONTEXT SUMMARY" in cout else cout[-1500:]
            self.coverage["coqchk"] = {"rc": rc, "summary": " ".join(summ.split())[:1500]}
            if rc != 0:
                self.coq_log = cout
                self.failed_at = "coqchk GV.Properties.%s" % pid
                return False
        return True

    def coq_closure(self, prop_v):
        """project-local .v files the property file transitively depends on (from coqdep)."""
        rc, out = sh("coqdep -Q theories GV $(find theories -name '*.v')", cwd=COQ, timeout=120)
        deps = {}
        for line in out.splitlines():
            if ":" not in line:
                continue
            lhs, rhs = line.split(":", 1)
            tgt = [x for x in lhs.split() if x.endswith(".vo")]
            if not tgt:
                continue
            deps[tgt[0][:-1]] = [x[:-1] for x in rhs.split() if x.endswith(".vo") and x.startswith("theories/")]
        seen, todo = [], [prop_v]
        while todo:
            x = todo.pop()
            if x in seen:
                continue
            seen.append(x)
            todo.extend(deps.get(x, []))
        return sorted(seen)

    def coq_eval(self, name, body, timeout=900):
        """compile a scratch .v (e.g. generated cases) against the project; returns (rc, output)."""
        d = os.path.join(self.work, "coq")
        os.makedirs(d, exist_ok=True)
        p = os.path.join(d, name + ".v")
        open(p, "w").write(body)
        return sh(["coqc", "-Q", os.path.join(COQ, "theories"), "GV", "-Q", d, "Scratch", p], cwd=d, timeout=timeout)

    # ------------------------------------------------------------------ go
    def overlay(self, pkg_files):
        """pkg_files: {repo-relative package dir: [file names under /verif/go/inpkg/<dir with / -> _>/]}
        returns the path of an overlay json mapping them into /repo (nothing is written to /repo)."""
        repl = {}
        for pkg, files in pkg_files.items():
            src_dir = os.path.join(VERIF, "go", "inpkg", pkg.replace("/", "_"))
            for f in files:
                repl[os.path.join(REPO, pkg, f)] = os.path.join(src_dir, f)
        p = os.path.join(self.work, "overlay.json")
        json.dump({"Replace": repl}, open(p, "w"), indent=1)
        return p

    def go_test(self, pkg, run, files, env=None, timeout=900, race=False, extra_pkgs=None, count=1):
        """run in-package verif tests: `go test -tags verif -overlay ... -run <run> ./<pkg>/`.
        files: list of file names in go/inpkg/<pkg>/ (the common helper is added automatically when present).
        returns (rc, output)"""
        src_dir = os.path.join(VERIF, "go", "inpkg", pkg.replace("/", "_"))
        fl = list(files)
        if os.path.exists(os.path.join(src_dir, "zz_verif_common_test.go")) and "zz_verif_common_test.go" not in fl:
            fl.append("zz_verif_common_test.go")
        pf = {pkg: fl}
        for k, v in (extra_pkgs or {}).items():
            pf[k] = v
        ov = self.overlay(pf)
        e = go_env()
        e.update({"VERIF_SEED": str(self.seed), "VERIF_TIER": self.tier, "VERIF_OUT": self.work})
        e.update(env or {})
        cmd = [GOBIN, "test", "-tags", "verif", "-overlay", ov, "-vet=off", "-count=%d" % count, "-run", run,
               "-timeout", "%ds" % max(60, timeout - 30)]
        if race:
            cmd.append("-race")
        cmd.append("./" + pkg + "/")
        return sh(cmd, cwd=REPO, env=e, timeout=timeout)

    def go_run_module(self, mod_dir, args, env=None, timeout=900):
        """run an external harness module under /verif/go/<mod_dir> (go.mod replaces goakt => /repo)."""
        d = os.path.join(VERIF, "go", mod_dir)
        e = go_env()
        e.update({"VERIF_SEED": str(self.seed), "VERIF_TIER": self.tier, "VERIF_OUT": self.work})
        e.update(env or {})
        shutil.copyfile(os.path.join(REPO, "go.sum"), os.path.join(d, "go.sum"))
        return sh([GOBIN, "run", "-tags", "verif", "."] + list(args), cwd=d, env=e, timeout=timeout)

    # ------------------------------------------------------------------ verdict
    def finish(self, level="proof", checker_cmd=None, extra=None):
        known = load_known()
        wall = time.time() - self.t0
        viol_lines, known_lines = [], []
        n_viol = 0
        for f in self.findings:
            k = match_known(known, self.pid, f)
            if k is not None and f.kind == "violation":
                known_lines.append("KNOWN-FINDING: property=%s %s [%s]" % (self.pid, k.get("what", f.what), k["signature"]))
                continue
            n_viol += 1
            rp = os.path.join("replays", "%s-%d-%d.json" % (self.pid, self.seed, n_viol))
            json.dump({"property": self.pid, "kind": f.kind, "signature": f.signature, "what": f.what, "seed": self.seed,
                       "tier": self.tier, "replay": f.replay,
                       "rerun": "cd /verif && VERIF_SEED=%d bin/check %s %s" % (self.seed, self.pid, self.tier)},
                      open(os.path.join(VERIF, rp), "w"), indent=1, default=str)
            line = "VIOLATION property=%s replay=%s" % (self.pid, rp)
            if f.kind != "violation":
                line += " no-failing-input-found"
            viol_lines.append((line, f))
        cov = dict(self.coverage)
        cov.setdefault("obligations", self.obligations)
        cov.setdefault("discharged", self.discharged if not any(f.kind == "proof_broken" for f in self.findings) else 0)
        cov.setdefault("checker_cmd", checker_cmd or "make -C /verif/coq theories/Properties/%s.vo (coqc 8.16.1, full .vo build) + Print Assumptions" % self.pid)
        tb = ["Coq 8.16.1 kernel incl. vm_compute (no native_compute)",
              "axioms reported by Print Assumptions: %s" % (", ".join(sorted(self.axioms)) if self.axioms else "none (closed under the global context)")]
        tb += self.trusted
        cov.setdefault("trusted_base", tb)
        cov.setdefault("evaluations", 0)
        cov.setdefault("distinct_nontrivial", 0)
        cov.setdefault("samples", [])
        if extra:
            cov.update(extra)
        ev = {"property_id": self.pid, "tier": self.tier, "seed": self.seed, "level": level, "coverage": cov,
              "assumptions": self.assumptions, "wall_s": round(wall, 2), "violations": n_viol,
              "known_findings_seen": known_lines, "notes": self.notes}
        os.makedirs(os.path.join(VERIF, "evidence"), exist_ok=True)
        json.dump(ev, open(os.path.join(VERIF, "evidence", self.pid + ".json"), "w"), indent=1, default=str)
        for l in known_lines:
            print(l)
        for l, f in viol_lines:
            print("  what: " + f.what)
            print(l)
        sys.stdout.flush()
        if viol_lines:
            sys.exit(1)
        print("OK property=%s tier=%s seed=%d wall=%.1fs obligations=%d evaluations=%s" %
              (self.pid, self.tier, self.seed, wall, self.obligations, cov.get("evaluations")))
        sys.exit(0)


class Lock:
    def __init__(self, name):
        os.makedirs(BUILD, exist_ok=True)
        self.path = os.path.join(BUILD, name + ".lock")

    def __enter__(self):
        self.f = open(self.path, "w")
        fcntl.flock(self.f, fcntl.LOCK_EX)

    def __exit__(self, *a):
        fcntl.flock(self.f, fcntl.LOCK_UN)
        self.f.close()


def ensure_coq_makefile():
    files = []
    for root, _, fs in os.walk(os.path.join(COQ, "theories")):
        for f in fs:
            if f.endswith(".v"):
                files.append(os.path.relpath(os.path.join(root, f), COQ))
    files.sort()
    want = "-Q theories GV\n" + "\n".join(files) + "\n"
    cp = os.path.join(COQ, "_CoqProject")
    cur = open(cp).read() if os.path.exists(cp) else None
    if cur != want or not os.path.exists(os.path.join(COQ, "Makefile")):
        open(cp, "w").write(want)
        rc, out = sh(["coq_makefile", "-f", "_CoqProject", "-o", "Makefile"], cwd=COQ)
        if rc != 0:
            raise RuntimeError("coq_makefile failed: " + out)


def load_known():
    p = os.path.join(VERIF, "known_findings.json")
    if not os.path.exists(p):
        return []
    return json.load(open(p)).get("findings", [])


def match_known(known, pid, f):
    for k in known:
        if k.get("property") == pid and k.get("status", "open") == "open" and k.get("signature") == f.signature:
            return k
    return None


def canon_hash(obj):
    return hashlib.sha1(json.dumps(obj, sort_keys=True, default=str).encode()).hexdigest()


def read_jsonl(path):
    out = []
    if not os.path.exists(path):
        return out
    for line in open(path, errors="replace"):
        line = line.strip()
        if line:
            out.append(json.loads(line))
    return out


def zlit(n):
    """a Z literal for Coq"""
    return "(%d)" % n if n < 0 else "%d" % n


def coq_list(items):
    return "[" + "; ".join(items) + "]"


def coq_string(s):
    return '"' + s.replace('"', '""') + '"'
