"""Helpers of checks/C09.py (tree differential + stop scenarios)."""
import json
import os
import re

from vlib import read_jsonl, canon_hash

THEOREMS = ["C09_tree_consistent", "C09_tree_watch_inverse", "C09_tree_count", "C09_events_at_most_once",
            "C09_stopped_had_poststop", "C09_children_first_partial", "C09_children_first_order_partial",
            "C09_stopped_on_return_partial", "C09_concurrent_stop_refuted", "C09_children_first_repaired",
            "C09_stopped_on_return_repaired", "C09_spawn_race_refuted", "C09_all_descendants_stopped_partial",
            "C09_all_descendants_stopped_repaired", "C09_driver_within_model"]

# ---------------------------------------------------------------------------------------------
# (S) tree ops
# ---------------------------------------------------------------------------------------------


def gen_tree_cases(ctx):
    rng = ctx.rng
    n_cases = 600 if ctx.thorough else 60
    cases = []
    # corpus: hand-written shapes first (each documents why it is there)
    corpus = [
        # disown (removeWatcher+removeDescendant) then delete parent before child: orphan keeps a dangling parent pointer
        (4, [0, 1, 2, 3], [["addroot", 0], ["add", 0, 1], ["add", 1, 2], ["rmw", 2, 1], ["rmd", 1, 2], ["del", 1], ["add", 0, 1], ["del", 2], ["del", 0]]),
        # equal names at different positions overwrite each other's name-index entry
        (4, [0, 1, 1, 1], [["addroot", 0], ["add", 0, 1], ["add", 0, 2], ["del", 2], ["add", 0, 3], ["del", 1], ["del", 3]]),
        # watcher outside the deleted subtree, watchee inside and vice versa
        (5, [0, 1, 2, 3, 4], [["addroot", 0], ["add", 0, 1], ["add", 0, 2], ["add", 1, 3], ["addw", 3, 2], ["addw", 2, 3], ["addw", 1, 1], ["del", 1], ["add", 0, 1], ["add", 1, 3], ["del", 0]]),
        # re-attach under another parent leaves a stale descendants entry in the old parent
        (5, [0, 1, 2, 3, 4], [["addroot", 0], ["add", 0, 1], ["add", 0, 2], ["add", 1, 3], ["attach", 2, 3], ["del", 3], ["add", 1, 3], ["del", 1], ["del", 2]]),
        # reset then a new root
        (3, [0, 1, 2], [["addroot", 0], ["add", 0, 1], ["reset"], ["addroot", 1], ["add", 1, 0], ["add", 0, 2], ["del", 1]]),
    ]
    for k, names, ops in corpus:
        cases.append({"k": k, "names": names, "ops": ops})
    while len(cases) < n_cases:
        k = rng.choice([3, 4, 5, 6, 7, 8])
        n_names = rng.choice([k, k, max(1, k // 2), 2])
        names = [rng.randrange(n_names) for _ in range(k)]
        n_ops = rng.choice([8, 16, 24, 40]) if not ctx.thorough else rng.choice([8, 24, 40, 80])
        malformed = rng.random() < 0.2   # malformed stream: uniformly random ops, most of them hit error paths
        ops = []
        reg = set()     # rough tracking only to bias towards valid ops
        have_root = False
        for _ in range(n_ops):
            r = rng.random()
            pick = lambda s: rng.choice(sorted(s)) if s and rng.random() < 0.85 else rng.randrange(k)
            if malformed:
                r2 = rng.randrange(8)
                a, b = rng.randrange(k), rng.randrange(k)
                op = [["addroot", a], ["add", a, b], ["attach", a, b], ["rmw", a, b], ["rmd", a, b], ["addw", a, b], ["del", a], ["add", a, b]][r2]
            elif not have_root and r < 0.9:
                op = ["addroot", rng.randrange(k)]
            elif r < 0.40:
                unreg = set(range(k)) - reg
                c = rng.choice(sorted(unreg)) if unreg and rng.random() < 0.9 else rng.randrange(k)
                op = ["add", pick(reg), c]
            elif r < 0.50:
                op = ["attach", pick(reg), pick(reg)]
            elif r < 0.62:
                op = ["addw", pick(reg), pick(reg)]
            elif r < 0.70:
                op = ["rmw", pick(reg), pick(reg)]
            elif r < 0.78:
                op = ["rmd", pick(reg), pick(reg)]
            elif r < 0.97:
                op = ["del", pick(reg)]
            elif r < 0.985:
                op = ["reset"]
            else:
                op = ["addroot", rng.randrange(k)]
            ops.append(op)
            if op[0] == "addroot" and not have_root:
                have_root = True
                reg.add(op[1])
            elif op[0] in ("add",) and op[1] in reg:
                reg.add(op[2])
            elif op[0] == "del":
                reg.discard(op[1])
            elif op[0] == "reset":
                reg.clear()
                have_root = False
        cases.append({"k": k, "names": names, "ops": ops})
    return cases


def coq_op(op, names):
    k = op[0]
    if k == "addroot":
        return "OAddRoot %d %d" % (op[1], names[op[1]])
    if k == "add":
        return "OAddNode %d %d %d" % (op[1], op[2], names[op[2]])
    if k == "attach":
        return "OAddOrAttach %d %d %d" % (op[1], op[2], names[op[2]])
    if k == "rmw":
        return "ORemoveWatcher %d %d" % (op[1], op[2])
    if k == "rmd":
        return "ORemoveDescendant %d %d" % (op[1], op[2])
    if k == "addw":
        return "OAddWatcher %d %d" % (op[1], op[2])
    if k == "del":
        return "ODelete %d" % op[1]
    if k == "reset":
        return "OReset"
    raise ValueError(op)


HMOD = 2305843009213693951


def hstep(h, x):
    return (h * 1000003 + x + 1) % HMOD


def hash_obs(r, o):
    h = hstep(hstep(7, r), len(o))
    for l in o:
        h = hstep(h, len(l))
        for x in l:
            h = hstep(h, x)
    return h


def nl(l):
    return "[" + ";".join(str(x) for x in l) + "]"


def nll(ll):
    return "[" + ";".join(nl(l) for l in ll) + "]"


def tree_oracle(case, steps):
    """the property's own predicate on what the real tree showed (independent of the model).
    returns (step index, message) of the first inconsistency or None"""
    k = case["k"]
    for si, st in enumerate(steps):
        o = st["o"]
        count, root = o[0]
        per = [o[1 + 6 * i: 1 + 6 * (i + 1)] for i in range(k)]
        names = o[1 + 6 * k]
        reg = {i for i in range(k) if per[i][0][0] == 1}
        if count != len(reg):
            return si, "count()=%d but %d nodes are registered" % (count, len(reg))
        if root and (root - 1) not in reg:
            return si, "root() returns unregistered node %d" % (root - 1)
        for i in range(k):
            (r, par), ch, de, wr, we, sib = per[i]
            if not r:
                if par or ch or de or wr or we or sib:
                    return si, "unregistered node %d still has relations %s" % (i, per[i])
                continue
            if par and (par - 1) not in reg:
                return si, "node %d: parent %d not registered" % (i, par - 1)
            for c in ch + de + sib:
                if c not in reg:
                    return si, "node %d lists unregistered node %d as child/descendant/sibling" % (i, c)
            for w in wr:
                if w not in reg:
                    return si, "node %d has unregistered watcher %d (stopped actor remains referenced)" % (i, w)
                if i not in per[w][4]:
                    return si, "node %d watched by %d but %d's watchees lack it" % (i, w, w)
            for e in we:
                if e not in reg:
                    return si, "node %d watches unregistered node %d" % (i, e)
                if i not in per[e][3]:
                    return si, "node %d watches %d but %d's watchers lack it" % (i, e, e)
        for nm, v in enumerate(names):
            if v:
                if (v - 1) not in reg:
                    return si, "name n%d resolves to unregistered node %d" % (nm, v - 1)
                if case["names"][v - 1] != nm:
                    return si, "name n%d resolves to node %d whose name is n%d" % (nm, v - 1, case["names"][v - 1])
    return None


def go_run(ctx):
    """one `go test` for both harness parts; returns (rc, output)"""
    for fn in ("c09_tree_out.jsonl", "c09_stop_out.jsonl"):
        pth = os.path.join(ctx.work, fn)
        if os.path.exists(pth):
            os.remove(pth)
    return ctx.go_test("actor", "^TestVerifC09", ["zz_verif_C09_test.go", "zz_verif_C09_stop_test.go"])


def write_inputs(ctx, cases, scs):
    with open(os.path.join(ctx.work, "c09_tree_in.jsonl"), "w") as f:
        for c in cases:
            f.write(json.dumps(c) + "\n")
    with open(os.path.join(ctx.work, "c09_stop_in.jsonl"), "w") as f:
        for c in scs:
            f.write(json.dumps({k: c[k] for k in ("n", "gated", "actions", "expect")}) + "\n")


def both_ties(ctx, stats):
    cases = gen_tree_cases(ctx)
    # expectations (what the harness waits for) are generated for the repaired disown test first;
    # stop_tie regenerates them if the tree under check behaves like the unrepaired code
    scs = gen_scenarios(ctx, True)
    write_inputs(ctx, cases, scs)
    ctx.log("generated %d tree cases, %d scenarios" % (len(cases), len(scs)))
    rc, out = go_run(ctx)
    ctx.log("go harness done rc=%s" % rc)
    touts = read_jsonl(os.path.join(ctx.work, "c09_tree_out.jsonl"))
    souts = read_jsonl(os.path.join(ctx.work, "c09_stop_out.jsonl"))
    if rc != 0 or len(touts) != len(cases) or len(souts) != len(scs):
        ctx.tie_broken("go-harness (tree ops + stop scenarios)", out)
    if len(touts) == len(cases):
        tree_tie(ctx, stats, cases, touts)
        ctx.log("tree tie evaluated")
    if len(souts) == len(scs):
        stop_tie(ctx, stats, scs, souts)
        ctx.log("stop tie evaluated")


def tree_tie(ctx, stats, cases, outs):
    # ---- property oracle on the implementation
    n_bad = 0
    hist = {}
    codes = {}
    nontrivial = set()
    n_steps = 0
    for c, o in zip(cases, outs):
        steps = o["steps"]
        n_steps += len(steps)
        for op, st in zip(c["ops"], steps):
            hist[op[0]] = hist.get(op[0], 0) + 1
            codes[st["r"]] = codes.get(st["r"], 0) + 1
        bad = tree_oracle(c, steps)
        if bad and n_bad < 3:
            n_bad += 1
            si, msg = bad
            ctx.violation("tree-consistency", "actor tree inconsistent after op %d %s: %s" % (si, c["ops"][si], msg),
                          {"object": "actor.tree", "k": c["k"], "names": c["names"], "ops": c["ops"][:si + 1], "observed": steps[si]["o"]})
        # non-triviality
        big = any(sum(1 for i in range(c["k"]) if st["o"][1 + 6 * i][0] == 1) >= 3 for st in steps)
        deep_del = False
        for idx, (op, st) in enumerate(zip(c["ops"], steps)):
            if op[0] == "del" and idx > 0:
                prev = steps[idx - 1]["o"]
                if prev[1 + 6 * op[1]][0] == 1 and prev[1 + 6 * op[1] + 1]:
                    deep_del = True
        if big and deep_del:
            nontrivial.add(canon_hash(c))
    # ---- the Coq model on the same cases
    items = []
    for c, o in zip(cases, outs):
        ops = ";".join(coq_op(op, c["names"]) for op in c["ops"])
        exp = ";".join("%d%%N" % hash_obs(st["r"], st["o"]) for st in o["steps"])
        items.append("(%d,[%s],[%s])" % (c["k"], ops, exp))
    body = """From stdpp Require Import gmap list.
From GV Require Import C09.Model.
Definition cases : list (nat * list op * list N) := [
%s
].
Definition diffs := imap (fun i c => (i, case_diff c)) cases.
Definition bad := List.filter (fun x => match snd x with Some _ => true | None => false end) diffs.
Definition summary := (length cases, length bad, map (fun x => (fst x, match snd x with Some s => s | None => 0 end)) (firstn 3 bad)).
Eval vm_compute in summary.
""" % ";\n".join(items)
    rc2, o2 = ctx.coq_eval("cases_C09_tree", body)
    flat = " ".join(o2.split())
    m = re.search(r"= \((\d+), (\d+), (\[.*?\])\)", flat)
    mism = None
    if rc2 != 0 or not m:
        ctx.tie_broken("tree model evaluation (cases.v did not evaluate)", o2)
    else:
        mism = int(m.group(2))
        if mism:
            firsts = re.findall(r"\((\d+), (\d+)\)", m.group(3))
            detail = []
            for ci, si in firsts:
                ci, si = int(ci), int(si)
                detail.append({"case": cases[ci], "first_diverging_op_index": si,
                               "implementation_showed": outs[ci]["steps"][si] if si < len(outs[ci]["steps"]) else None})
            ctx.tie_broken("M-TREE model vs real actor.tree (state after every op)", {"mismatching_cases": mism, "first": detail})
    stats.update({"tree_cases": len(cases), "tree_steps": n_steps, "tree_op_histogram": hist, "tree_result_codes": codes,
                  "tree_distinct_nontrivial": len(nontrivial), "tree_model_mismatches": mism,
                  "samples": [{"tree_case": cases[5]}] if len(cases) > 5 else []})




# ---------------------------------------------------------------------------------------------
# (A) stop scenarios: Python mirror of C09/StopModel.v's driver level. It is used ONLY to generate
# scenarios (which gates can be released next) and to tell the Go harness what to wait for; the
# comparison with the implementation is done by the Coq model itself (cases.v).
# ---------------------------------------------------------------------------------------------
class Act:
    __slots__ = ("running", "stopping", "started", "sp", "pend", "par", "ph", "reg", "kids", "snap")

    def __init__(self):
        self.running = self.stopping = self.started = False
        self.sp = "idle"
        self.pend = []
        self.par = None
        self.ph = None
        self.reg = False
        self.kids = []
        self.snap = []


class StopSim:
    def __init__(self, n, gated, ws=False):
        self.n, self.gated, self.ws = n, set(gated), ws
        self.A = [Act() for _ in range(n + 1)]
        r = self.A[0]
        r.running = r.started = r.reg = True
        self.trace = []
        self.term = []
        self.suspended = set()     # generator bookkeeping only (the model has no such state)

    def is_running(self, a):
        x = self.A[a]
        return x.running and not x.stopping

    def children(self, a):
        return [c for c in self.A[a].kids if self.A[c].reg]

    def subtree(self, a, fuel):
        out = [a]
        if fuel > 0:
            for c in self.children(a):
                out += self.subtree(c, fuel - 1)
        return out

    def step(self, l):
        k = l[0]
        A = self.A
        if k == "StopBegin":
            x = A[l[1]]
            if x.sp == "idle" and x.running:
                x.stopping = True
                x.sp = "locked"
                return True
            return False
        if k == "Snapshot":
            x = A[l[1]]
            if x.sp != "locked":
                return False
            cs = self.children(l[1])
            x.sp, x.pend, x.snap = "kids", [[c, "todo"] for c in cs], list(cs)
            return True
        if k == "DisownTest":
            x, c = A[l[1]], l[2]
            if x.sp != "kids":
                return False
            for e in x.pend:
                if e[0] == c:
                    if e[1] != "todo":
                        return False
                    call = self.is_running(c) or (self.ws and A[c].stopping)
                    x.kids = [y for y in x.kids if y != c]
                    if call:
                        for e2 in x.pend:
                            if e2[0] == c:
                                e2[1] = "wait"
                    else:
                        x.pend = [e2 for e2 in x.pend if e2[0] != c]
                    return True
            return False
        if k == "DisownDone":
            x, c = A[l[1]], l[2]
            if x.sp != "kids":
                return False
            for e in x.pend:
                if e[0] == c:
                    if e[1] == "wait" and A[c].sp == "idle" and not A[c].running:
                        x.pend = [e2 for e2 in x.pend if e2[0] != c]
                        return True
                    return False
            return False
        if k == "PostBegin":
            x = A[l[1]]
            if x.sp == "kids" and not x.pend:
                x.sp = "post"
                self.trace.append(("PostB", l[1]))
                return True
            return False
        if k == "PostEnd":
            x = A[l[1]]
            if x.sp != "post":
                return False
            x.running = x.stopping = False
            x.sp = "idle"
            self.trace.append(("PostE", l[1]))
            self.term.append(l[1])
            return True
        if k == "SpawnCheck":
            p, c = l[1], l[2]
            x = A[c]
            if x.par is None and x.ph is None and self.is_running(p) and not x.started and c != 0 and c != p and self.A[p].ph is None:
                x.par, x.ph = p, "checked"
                return True
            return False
        if k == "SpawnInit":
            x = A[l[1]]
            if x.ph != "checked":
                return False
            x.running, x.started, x.ph = True, True, "inited"
            self.trace.append(("Pre", l[1]))
            return True
        if k == "SpawnAdd":
            x = A[l[1]]
            if x.ph != "inited" or x.par is None:
                return False
            p = A[x.par]
            x.ph = None
            x.reg = p.reg
            if p.reg:
                p.kids = p.kids + [l[1]]
            return True
        if k == "Reap":
            if not self.term or self.term[0] != l[1]:
                return False
            a = self.term.pop(0)
            if A[a].reg:
                for i in self.subtree(a, len(A[a].kids) + 64):
                    A[i].reg = False
                    A[i].kids = []
                if A[a].par is not None:
                    pp = A[A[a].par]
                    pp.kids = [y for y in pp.kids if y != a]
            return True
        raise ValueError(l)

    def internal_labels(self, a):
        x = self.A[a]
        if x.sp == "locked":
            return [("Snapshot", a)]
        if x.sp == "kids":
            if not x.pend:
                return [("PostBegin", a)]
            out = []
            for c, pd in x.pend:
                out += [("DisownTest", a, c)] if pd == "todo" else [("DisownDone", a, c), ("StopBegin", c)]
            return out
        if x.sp == "post":
            return [] if a in self.gated else [("PostEnd", a)]
        return []

    def quiesce(self):
        for _ in range(64 * (self.n + 1)):
            progressed = False
            for a in range(self.n):
                for l in self.internal_labels(a):
                    if self.step(l):
                        progressed = True
                        break
                if progressed:
                    break
            if not progressed:
                if self.term:
                    self.step(("Reap", self.term[0]))
                    continue
                return

    def live_suspended(self):
        return {a for a in self.suspended if self.is_running(a)}

    def restart_ok(self, a):
        if not (self.is_running(a) and self.A[a].reg) or self.term or self.live_suspended():
            return False
        for b in range(self.n):
            x = self.A[b]
            if x.sp != "idle" or x.stopping or x.ph is not None:
                return False
            if self.is_running(b) and b in self.gated:
                return False
        return True

    def drive(self, d):
        k = d[0]
        ok = True
        if k == "suspend":
            x = self.A[d[1]]
            if self.is_running(d[1]) and x.sp == "idle" and not x.stopping and not any(y.ph is not None and y.par == d[1] for y in self.A):
                self.suspended.add(d[1])
                return 0
            return 1
        if k == "restart":
            # at a quiet point a restart is not observable: same identities, running, registered
            return 0 if self.restart_ok(d[1]) else 1
        if k == "spawn":
            ok = self.step(("SpawnCheck", d[1], d[2])) and self.step(("SpawnInit", d[2])) and self.step(("SpawnAdd", d[2]))
        elif k == "spawn_gated":
            ok = self.step(("SpawnCheck", d[1], d[2]))
        elif k == "spawn_release":
            ok = self.step(("SpawnInit", d[1])) and self.step(("SpawnAdd", d[1]))
        elif k == "stop":
            self.step(("StopBegin", d[1]))
        elif k == "release":
            ok = self.step(("PostEnd", d[1]))
        if not ok:
            return 1
        self.quiesce()
        return 0

    def observe(self):
        out = []
        done = {a for (e, a) in self.trace if e == "PostE"}
        for a in range(self.n):
            x = self.A[a]
            out.append([int(x.sp == "post"), int(self.is_running(a)), int(a in done), int(x.reg)])
            out.append(sorted(self.children(a)))
        return out


# ---- scenario generation
CORPUS_SCENARIOS = [
    # concurrent stop of overlapping subtrees: Kill(child) sits in the child's PostStop while the parent is shut down
    {"n": 3, "gated": [2], "actions": [["spawn", 0, 1], ["spawn", 1, 2], ["stop", 2], ["stop", 1], ["release", 2]], "tag": "concurrent-stop"},
    # SpawnChild in flight (child PreStart blocked) while the parent is shut down
    {"n": 3, "gated": [], "actions": [["spawn", 0, 1], ["spawn_gated", 1, 2], ["stop", 1], ["spawn_release", 2]], "tag": "spawn-race"},
    # plain three-level stop, every PostStop gated: children strictly first
    {"n": 5, "gated": [1, 2, 3, 4], "actions": [["spawn", 0, 1], ["spawn", 1, 2], ["spawn", 1, 3], ["spawn", 3, 4], ["stop", 1],
                                               ["release", 2], ["release", 4], ["release", 3], ["release", 1]], "tag": "three-level"},
    # stop of an already stopped actor, then of its parent
    {"n": 3, "gated": [1], "actions": [["spawn", 0, 1], ["spawn", 1, 2], ["stop", 2], ["stop", 2], ["stop", 1], ["release", 1], ["stop", 1]], "tag": "restop"},
    # a running subtree is restarted, later stopped: the restarted actors stop and leave the tree like first incarnations
    {"n": 4, "gated": [], "actions": [["spawn", 0, 1], ["spawn", 1, 2], ["spawn", 2, 3], ["restart", 1], ["stop", 2], ["restart", 1], ["stop", 1]], "tag": "restart-then-stop"},
    {"n": 3, "gated": [], "actions": [["spawn", 0, 1], ["spawn", 0, 2], ["restart", 0], ["stop", 2], ["restart", 1], ["stop", 0]], "tag": "restart-root-then-stop"},
    # suspended descendants (a fault without directive) are stopped with the subtree like running ones
    {"n": 5, "gated": [2, 4], "actions": [["spawn", 0, 1], ["spawn", 1, 2], ["spawn", 2, 3], ["spawn", 1, 4], ["suspend", 2], ["suspend", 4], ["stop", 1],
                                          ["release", 2], ["release", 4]], "tag": "suspended-descendants"},
    {"n": 3, "gated": [], "actions": [["spawn", 0, 1], ["spawn", 1, 2], ["suspend", 1], ["stop", 0]], "tag": "suspended-child-of-root"},
    # two stoppers on the same actor
    {"n": 4, "gated": [1, 3], "actions": [["spawn", 0, 1], ["spawn", 1, 2], ["spawn", 2, 3], ["stop", 1], ["stop", 1], ["release", 3], ["release", 1]], "tag": "double-stop"},
]


def finish_scenario(sim, actions, expect):
    """release everything so that the scenario ends quiescent with all gates used up"""
    for _ in range(4 * sim.n + 8):
        blocked = [a for a in range(sim.n) if sim.A[a].sp == "post" and a in sim.gated]
        checked = [c for c in range(sim.n) if sim.A[c].ph == "checked"]
        if blocked:
            d = ["release", blocked[0]]
        elif checked:
            d = ["spawn_release", checked[0]]
        else:
            break
        sim.drive(d)
        actions.append(d)
        expect.append(sim.observe())


def gen_scenarios(ctx, ws=False):
    import random
    rng = random.Random(ctx.seed * 7919 + 13)
    n_sc = 400 if ctx.thorough else 30
    out = []
    for c in CORPUS_SCENARIOS:
        sim = StopSim(c["n"], c["gated"], ws)
        actions, expect = [], []
        for d in c["actions"]:
            sim.drive(d)
            actions.append(d)
            expect.append(sim.observe())
        finish_scenario(sim, actions, expect)
        out.append({"n": c["n"], "gated": c["gated"], "actions": actions, "expect": expect, "tag": c["tag"]})
    while len(out) < n_sc:
        n = rng.choice([3, 4, 5, 6, 7, 8])
        m = rng.randint(2, n - 1) if n > 3 else 2      # ids 1..m-1 built up front, the rest spawned later
        gated = [a for a in range(n) if rng.random() < 0.6]
        rflav = rng.random() < 0.3       # restart flavour: only actors spawned later have a gated PostStop
        if rflav:
            gated = [a for a in gated if a >= m]
        sim = StopSim(n, gated, ws)
        actions, expect = [], []

        def do(d):
            sim.drive(d)
            actions.append(d)
            expect.append(sim.observe())
        shape = rng.choice(["random", "chain", "star"])
        for c in range(1, m):
            p = {"random": rng.randrange(c), "chain": c - 1, "star": 0 if c == 1 else 1}[shape]
            do(["spawn", p, c])
        fresh = list(range(m, n))
        for _ in range(rng.choice([3, 6, 10, 14])):
            started = [a for a in range(n) if sim.A[a].started]
            running = [a for a in started if sim.is_running(a)]
            blocked = [a for a in range(n) if sim.A[a].sp == "post" and a in sim.gated]
            checked = [c for c in range(n) if sim.A[c].ph == "checked"]
            r = rng.random()
            susp = sim.live_suspended()
            running = [a for a in running if a not in susp] or running
            can_suspend = [a for a in range(1, n) if sim.is_running(a) and a not in sim.suspended and sim.A[a].sp == "idle"
                           and not any(y.ph is not None and y.par == a for y in sim.A)]
            if can_suspend and rng.random() < 0.1:
                do(["suspend", rng.choice(can_suspend)])
                continue
            restartable = [a for a in running if sim.restart_ok(a)]
            if restartable and rng.random() < (0.3 if rflav else 0.1):
                do(["restart", rng.choice(restartable)])
                continue
            if r < 0.35:
                pool = running if running and rng.random() < 0.8 else started
                do(["stop", rng.choice(pool)])
            elif r < 0.65 and blocked:
                do(["release", rng.choice(blocked)])
            elif r < 0.78 and fresh:
                pool = running if running and rng.random() < 0.85 else started
                pool = [a for a in pool if a not in susp] or [0]
                do(["spawn_gated", rng.choice(pool), fresh.pop(0)])
            elif r < 0.88 and checked:
                do(["spawn_release", rng.choice(checked)])
            elif r < 0.95 and fresh:
                pool = running if running and rng.random() < 0.85 else started
                pool = [a for a in pool if a not in susp] or [0]
                do(["spawn", rng.choice(pool), fresh.pop(0)])
            elif blocked:
                do(["release", rng.choice(blocked)])
        finish_scenario(sim, actions, expect)
        if rng.random() < 0.7:
            do(["stop", 0])
            finish_scenario(sim, actions, expect)
        out.append({"n": n, "gated": gated, "actions": actions, "expect": expect, "tag": "gen"})
    return out


def coq_daction(d):
    k = d[0]
    return {"spawn": "DSpawn %d %d", "spawn_gated": "DSpawnGated %d %d", "spawn_release": "DSpawnRelease %d",
            "stop": "DStop %d", "release": "DRelease %d", "restart": "DRestart %d", "suspend": "DSuspend %d"}[k] % tuple(d[1:])


def scenario_oracle(sc, out):
    """C09's own predicate on one real run; returns list of (signature, what, detail)."""
    ev = out["events"]
    n = sc["n"]
    t = {}          # (kind, actor) -> seq of first occurrence
    counts = {}
    for e in ev:
        key = (e["kind"], e["a"])
        counts[key] = counts.get(key, 0) + 1
        t.setdefault(key, e["seq"])
    found = []
    # exactly once
    for (kind, a), c in counts.items():
        if kind in ("pre", "postb", "poste") and c > 1:
            found.append(("lifecycle-event-twice", "actor a%d: %s happened %d times" % (a, kind, c), {"actor": a, "kind": kind}))
    # parent relation from the script, spawn interval from the events
    par = {}
    for d in sc["actions"]:
        if d[0] in ("spawn", "spawn_gated"):
            par[d[2]] = d[1]
    spawn_ok = {c for c in par if any(e["kind"] == "spawnret" and e["a"] == c and not e.get("err") for e in ev)}

    def ancestors(c):
        while c in par:
            c = par[c]
            yield c
    sysstop = t.get(("sysstop", -1), 10 ** 18)

    def stop_start(x, pb):
        """when the stop that ran x's PostStop (begun at pb) was requested: the earliest Shutdown call on x
        or on one of its ancestors before pb (the children snapshot is taken somewhere after it)"""
        cands = [e["seq"] for e in ev if e["kind"] == "call" and e["seq"] < pb and (e["a"] == x or e["a"] in list(ancestors(x)))]
        if sysstop < pb:
            cands.append(sysstop)
        return min(cands) if cands else pb

    def leaked(d):
        """d, or an actor between d and the root, was being spawned (SpawnChild between its call and its
        return) while one of its ancestors was being stopped (between the stop request and the beginning
        of that ancestor's PostStop, which is where the children snapshot is taken): the spawn race"""
        chain_up = [d] + [x for x in ancestors(d)]
        for i_, y in enumerate(chain_up[:-1]):
            sc_y, sr_y = t.get(("spawncall", y)), t.get(("spawnret", y), 10 ** 18)
            for x in chain_up[i_ + 1:]:
                pb = t.get(("postb", x))
                if sc_y is not None and pb is not None and sc_y < pb and sr_y > stop_start(x, pb):
                    return True
        return False
    for d in sorted(spawn_ok):
        for a in ancestors(d):
            tb = t.get(("postb", a))
            if tb is None:
                continue
            te_d = t.get(("poste", d))
            spawn_call = t.get(("spawncall", d), 0)
            spawn_ret = t.get(("spawnret", d), 10 ** 18)
            if te_d is not None and te_d < tb:
                continue
            # descendant's PostStop did not complete before the ancestor's PostStop began
            stop_calls_a = [e["seq"] for e in ev if e["kind"] == "call" and e["a"] == a]
            first_stop_a = min(stop_calls_a) if stop_calls_a else sysstop
            in_flight_spawn = spawn_call < tb and spawn_ret > first_stop_a
            # a stop of d, or of an actor between a and d, requested elsewhere and not finished when a's PostStop began
            between = [d] + [x for x in ancestors(d)]
            between = between[:between.index(a)]
            d_stop_in_flight = any(e["kind"] == "call" and e["a"] in between and e["seq"] < tb and
                                   (t.get(("poste", e["a"])) is None or t.get(("poste", e["a"])) > tb) for e in ev)
            if in_flight_spawn or leaked(d):
                sig = "running-child-under-stopped-parent:spawnchild-in-flight"
            elif d_stop_in_flight:
                sig = "children-first:descendant-stop-already-in-flight"
            else:
                sig = "children-first"
            found.append((sig, "PostStop of a%d began (seq %d) before PostStop of its descendant a%d completed (%s)" %
                          (a, tb, d, "seq %d" % te_d if te_d is not None else "never"), {"ancestor": a, "descendant": d}))
            break
    # stopped on return: when Shutdown(a) returned nil, every descendant spawned before the stop was
    # requested has completed its PostStop
    reported = {(f[2]["ancestor"], f[2]["descendant"]) for f in found if "ancestor" in f[2]}
    for e in ev:
        if e["kind"] != "ret" or e.get("err"):
            continue
        a, r = e["a"], e["seq"]
        calls = [x["seq"] for x in ev if x["kind"] == "call" and x["a"] == a and x["seq"] < r]
        if not calls:
            continue
        # the call this return belongs to started at or after the first call; use the latest call before r
        call_seq = max(calls)
        if t.get(("poste", a)) is None or t.get(("poste", a)) > r:
            # Shutdown(a) returned although a's own PostStop has not completed: only legitimate when a was not running
            if t.get(("pre", a)) is not None and t.get(("postb", a)) is not None and t.get(("postb", a)) < r:
                found.append(("stop-returned-before-poststop-completed", "Shutdown(a%d) returned (seq %d) while its PostStop was still running" % (a, r), {"actor": a}))
            continue
        for d in sorted(spawn_ok):
            if a not in list(ancestors(d)) or (a, d) in reported:
                continue
            if t.get(("spawnret", d), 10 ** 18) > call_seq:
                continue
            te_d = t.get(("poste", d))
            if te_d is not None and te_d < r:
                continue
            between = [d] + [x for x in ancestors(d)]
            between = between[:between.index(a)]
            in_flight = any(x["kind"] == "call" and x["a"] in between and x["seq"] < r and
                            (t.get(("poste", x["a"])) is None or t.get(("poste", x["a"])) > r) for x in ev)
            if leaked(d):
                sig = "running-child-under-stopped-parent:spawnchild-in-flight"
            elif in_flight:
                sig = "children-first:descendant-stop-already-in-flight"
            else:
                sig = "stopped-on-return"
            found.append((sig, "Shutdown(a%d) returned nil (seq %d) while its descendant a%d had not completed PostStop (%s)" %
                          (a, r, d, "seq %d" % te_d if te_d is not None else "never"), {"ancestor": a, "descendant": d}))
            reported.add((a, d))
    # a stopped actor leaves the tree: at the end of the script (every gate released, the harness waited
    # for the death watch) no actor whose PostStop completed is still registered
    steps = out.get("steps") or []
    if steps:
        o = steps[-1]["o"]
        restarted = sorted({d[1] for d in sc["actions"] if d[0] == "restart"})
        for a in range(min(n, len(o) // 2)):
            inpost, running, poste, reg = o[2 * a]
            if poste and not running and reg:
                found.append(("stopped-actor-still-registered", "a%d completed PostStop and is not running but is still registered in the actor tree at the end of the script%s" %
                              (a, " (actors restarted earlier in the script: %s)" % restarted if restarted else ""), {"actor": a}))
                break
    return found


def stop_tie(ctx, stats, scs, outs):
    # which disown test does the tree under check have?  Decided by BEHAVIOUR on the corpus scenario
    # 'concurrent-stop': after `stop 1` either the parent's PostStop completed while the child sits in
    # its PostStop gate (code as it is) or the parent waits (repaired freeChildren).
    st3 = outs[0]["steps"][3]["o"]
    variant = not (st3[2 * 1][2] == 1 and st3[2 * 2][0] == 1)
    ctx.c09_ws = variant
    if not variant:
        # the tree behaves like the unrepaired freeChildren: regenerate the expectations for it
        scs = gen_scenarios(ctx, False)
        write_inputs(ctx, [], scs)
        rc, out = go_run(ctx)
        outs = read_jsonl(os.path.join(ctx.work, "c09_stop_out.jsonl"))
        if rc != 0 or len(outs) != len(scs):
            ctx.tie_broken("go-harness stop scenarios (second pass)", out)
            return
    n_steps = 0
    hist = {}
    nontrivial = set()
    seen_sigs = {}
    timeouts = 0
    for sc, o in zip(scs, outs):
        n_steps += len(o["steps"])
        timeouts += sum(1 for s_ in o["steps"] if s_["timeout"])
        for d in sc["actions"]:
            hist[d[0]] = hist.get(d[0], 0) + 1
        for sig, what, detail in scenario_oracle(sc, o):
            if seen_sigs.get(sig, 0) < 2:
                seen_sigs[sig] = seen_sigs.get(sig, 0) + 1
                ctx.violation(sig, what, {"scenario": {k: sc[k] for k in ("n", "gated", "actions")}, "detail": detail,
                                          "events": o["events"], "how": "TestVerifC09Stop scenario (PostStop/PreStart gated by the harness)"})
        # non-trivial: a stop of an actor that has a running descendant at that time (per expectations)
        sim = StopSim(sc["n"], sc["gated"], getattr(ctx, "c09_ws", False))
        for d in sc["actions"]:
            if d[0] == "stop" and sim.is_running(d[1]) and any(sim.is_running(c) for c in sim.children(d[1])):
                nontrivial.add(canon_hash({k: sc[k] for k in ("n", "gated", "actions")}))
            sim.drive(d)
    # ---- the Coq model on the same scenarios, compared with what the implementation showed
    items = []
    for sc, o in zip(scs, outs):
        ds = ";".join(coq_daction(d) for d in sc["actions"])
        exp = ";".join("(%d,%s)" % (st["f"], nll(st["o"])) for st in o["steps"])
        items.append("(%s,%d,[%s],[%s])" % (nl(sc["gated"]), sc["n"], ds, exp))
    body = """From Coq Require Import List. Import ListNotations.
From GV Require Import C09.StopModel.
Definition cases : list (list nat * nat * list daction * list (nat * list (list nat))) := [
%s
].
Definition diffs := combine (seq 0 (length cases)) (map (scenario_diff %s) cases).
Definition bad := filter (fun x => match snd x with Some _ => true | None => false end) diffs.
Definition summary := (length cases, length bad, map (fun x => (fst x, match snd x with Some s => s | None => 0 end)) (firstn 3 bad)).
Eval vm_compute in summary.
""" % (";\n".join(items), "WS")
    variant = stop_variant(ctx)
    body = body.replace("WS", "true" if variant else "false")
    rc2, o2 = ctx.coq_eval("cases_C09_stop", body)
    flat = " ".join(o2.split())
    m = re.search(r"= \((\d+), (\d+), (\[.*?\])\)", flat)
    mism = None
    if rc2 != 0 or not m:
        ctx.tie_broken("stop model evaluation (cases.v did not evaluate)", o2)
    else:
        mism = int(m.group(2))
        if mism:
            firsts = re.findall(r"\((\d+), (\d+)\)", m.group(3))
            detail = []
            for ci, si in firsts:
                ci, si = int(ci), int(si)
                detail.append({"scenario": {k: scs[ci][k] for k in ("n", "gated", "actions")}, "first_diverging_action_index": si,
                               "implementation_showed": outs[ci]["steps"][si] if si < len(outs[ci]["steps"]) else None,
                               "generator_expected": scs[ci]["expect"][si] if si < len(scs[ci]["expect"]) else None})
            ctx.tie_broken("stop-protocol model vs real actor system (observation after every driver action)",
                           {"variant": "repaired disown test" if variant else "code as it is", "mismatching_scenarios": mism, "first": detail})
    stats.update({"stop_scenarios": len(scs), "stop_steps": n_steps, "stop_action_histogram": hist, "stop_wait_timeouts": timeouts,
                  "stop_distinct_nontrivial": len(nontrivial), "stop_model_mismatches": mism,
                  "stop_model_variant": "ws=true (repaired freeChildren)" if variant else "ws=false (code as it is)"})
    stats.setdefault("samples", []).append({"stop_scenario": {k: scs[2][k] for k in ("n", "gated", "actions")}})


def stop_variant(ctx):
    """which disown test does the tree under check have?  Decided by BEHAVIOUR: the corpus scenario
    'concurrent-stop' run on the real system either lets the parent finish while the child sits in
    PostStop (code as it is) or not (repaired).  Set by stop_probe()."""
    return getattr(ctx, "c09_ws", False)
