"""Helpers of checks/C09.py (tree differential + stop scenarios)."""
import json
import os
import re

from vlib import read_jsonl, canon_hash

THEOREMS = []

# ---------------------------------------------------------------------------------------------
# (S) tree ops
# ---------------------------------------------------------------------------------------------


def gen_tree_cases(ctx):
    rng = ctx.rng
    n_cases = 600 if ctx.thorough else 90
    cases = []
    # corpus: hand-written shapes first (each documents why it is there)
    corpus = [
        # disown (removeWatcher+removeDescendant) then delete parent before child: orphan keeps a dangling parent pointer
        (4, [0, 1, 2, 3], [["addroot", 0], ["add", 0, 1], ["add", 1, 2], ["rmw", 2, 1], ["rmd", 1, 2], ["del", 1], ["add", 0, 1], ["del", 2], ["del", 0]]),
        # equal names at different positions overwrite each other's name-index entry
        (4, [0, 1, 1, 1], [["addroot", 0], ["add", 0, 1], ["add", 0, 2], ["del", 2], ["add", 0, 3], ["del", 1], ["del", 3]]),
        # watcher outside the deleted subtree, watchee inside and vice versa
        (5, [0, 1, 2, 3, 4], [["addroot", 0], ["add", 0, 1], ["add", 0, 2], ["add", 1, 3], ["addw", 3, 2], ["addw", 2, 3], ["addw", 1, 1], ["del", 1], ["add", 0, 1], ["add", 1, 3], ["del", 0]]),
        # re-attach under another parent leaves a stale descendants entry in the old parent
        (5, [0, 1, 2, 3, 4], [["addroot", 0], ["add", 0, 1], ["add", 0, 2], ["add", 1, 3], ["attach", 2, 3], ["del", 3], ["add", 1, 3], ["del", 1], ["del", 2]]),
        # reset then a new root
        (3, [0, 1, 2], [["addroot", 0], ["add", 0, 1], ["reset"], ["addroot", 1], ["add", 1, 0], ["add", 0, 2], ["del", 1]]),
    ]
    for k, names, ops in corpus:
        cases.append({"k": k, "names": names, "ops": ops})
    while len(cases) < n_cases:
        k = rng.choice([3, 4, 5, 6, 7, 8])
        n_names = rng.choice([k, k, max(1, k // 2), 2])
        names = [rng.randrange(n_names) for _ in range(k)]
        n_ops = rng.choice([8, 16, 24, 40]) if not ctx.thorough else rng.choice([8, 24, 40, 80])
        malformed = rng.random() < 0.2   # malformed stream: uniformly random ops, most of them hit error paths
        ops = []
        reg = set()     # rough tracking only to bias towards valid ops
        have_root = False
        for _ in range(n_ops):
            r = rng.random()
            pick = lambda s: rng.choice(sorted(s)) if s and rng.random() < 0.85 else rng.randrange(k)
            if malformed:
                r2 = rng.randrange(8)
                a, b = rng.randrange(k), rng.randrange(k)
                op = [["addroot", a], ["add", a, b], ["attach", a, b], ["rmw", a, b], ["rmd", a, b], ["addw", a, b], ["del", a], ["add", a, b]][r2]
            elif not have_root and r < 0.9:
                op = ["addroot", rng.randrange(k)]
            elif r < 0.40:
                unreg = set(range(k)) - reg
                c = rng.choice(sorted(unreg)) if unreg and rng.random() < 0.9 else rng.randrange(k)
                op = ["add", pick(reg), c]
            elif r < 0.50:
                op = ["attach", pick(reg), pick(reg)]
            elif r < 0.62:
                op = ["addw", pick(reg), pick(reg)]
            elif r < 0.70:
                op = ["rmw", pick(reg), pick(reg)]
            elif r < 0.78:
                op = ["rmd", pick(reg), pick(reg)]
            elif r < 0.97:
                op = ["del", pick(reg)]
            elif r < 0.985:
                op = ["reset"]
            else:
                op = ["addroot", rng.randrange(k)]
            ops.append(op)
            if op[0] == "addroot" and not have_root:
                have_root = True
                reg.add(op[1])
            elif op[0] in ("add",) and op[1] in reg:
                reg.add(op[2])
            elif op[0] == "del":
                reg.discard(op[1])
            elif op[0] == "reset":
                reg.clear()
                have_root = False
        cases.append({"k": k, "names": names, "ops": ops})
    return cases


def coq_op(op, names):
    k = op[0]
    if k == "addroot":
        return "OAddRoot %d %d" % (op[1], names[op[1]])
    if k == "add":
        return "OAddNode %d %d %d" % (op[1], op[2], names[op[2]])
    if k == "attach":
        return "OAddOrAttach %d %d %d" % (op[1], op[2], names[op[2]])
    if k == "rmw":
        return "ORemoveWatcher %d %d" % (op[1], op[2])
    if k == "rmd":
        return "ORemoveDescendant %d %d" % (op[1], op[2])
    if k == "addw":
        return "OAddWatcher %d %d" % (op[1], op[2])
    if k == "del":
        return "ODelete %d" % op[1]
    if k == "reset":
        return "OReset"
    raise ValueError(op)


HMOD = 2305843009213693951


def hstep(h, x):
    return (h * 1000003 + x + 1) % HMOD


def hash_obs(r, o):
    h = hstep(hstep(7, r), len(o))
    for l in o:
        h = hstep(h, len(l))
        for x in l:
            h = hstep(h, x)
    return h


def nl(l):
    return "[" + ";".join(str(x) for x in l) + "]"


def nll(ll):
    return "[" + ";".join(nl(l) for l in ll) + "]"


def tree_oracle(case, steps):
    """the property's own predicate on what the real tree showed (independent of the model).
    returns (step index, message) of the first inconsistency or None"""
    k = case["k"]
    for si, st in enumerate(steps):
        o = st["o"]
        count, root = o[0]
        per = [o[1 + 6 * i: 1 + 6 * (i + 1)] for i in range(k)]
        names = o[1 + 6 * k]
        reg = {i for i in range(k) if per[i][0][0] == 1}
        if count != len(reg):
            return si, "count()=%d but %d nodes are registered" % (count, len(reg))
        if root and (root - 1) not in reg:
            return si, "root() returns unregistered node %d" % (root - 1)
        for i in range(k):
            (r, par), ch, de, wr, we, sib = per[i]
            if not r:
                if par or ch or de or wr or we or sib:
                    return si, "unregistered node %d still has relations %s" % (i, per[i])
                continue
            if par and (par - 1) not in reg:
                return si, "node %d: parent %d not registered" % (i, par - 1)
            for c in ch + de + sib:
                if c not in reg:
                    return si, "node %d lists unregistered node %d as child/descendant/sibling" % (i, c)
            for w in wr:
                if w not in reg:
                    return si, "node %d has unregistered watcher %d (stopped actor remains referenced)" % (i, w)
                if i not in per[w][4]:
                    return si, "node %d watched by %d but %d's watchees lack it" % (i, w, w)
            for e in we:
                if e not in reg:
                    return si, "node %d watches unregistered node %d" % (i, e)
                if i not in per[e][3]:
                    return si, "node %d watches %d but %d's watchers lack it" % (i, e, e)
        for nm, v in enumerate(names):
            if v:
                if (v - 1) not in reg:
                    return si, "name n%d resolves to unregistered node %d" % (nm, v - 1)
                if case["names"][v - 1] != nm:
                    return si, "name n%d resolves to node %d whose name is n%d" % (nm, v - 1, case["names"][v - 1])
    return None


def tree_tie(ctx, stats):
    cases = gen_tree_cases(ctx)
    with open(os.path.join(ctx.work, "c09_tree_in.jsonl"), "w") as f:
        for c in cases:
            f.write(json.dumps(c) + "\n")
    outp = os.path.join(ctx.work, "c09_tree_out.jsonl")
    if os.path.exists(outp):
        os.remove(outp)
    rc, out = ctx.go_test("actor", "^TestVerifC09Tree$", ["zz_verif_C09_test.go", "zz_verif_C09_stop_test.go"])
    outs = read_jsonl(outp)
    if rc != 0 or len(outs) != len(cases):
        ctx.tie_broken("go-harness actor.tree op sequences", out)
        if len(outs) != len(cases):
            return
    # ---- property oracle on the implementation
    n_bad = 0
    hist = {}
    codes = {}
    nontrivial = set()
    n_steps = 0
    for c, o in zip(cases, outs):
        steps = o["steps"]
        n_steps += len(steps)
        for op, st in zip(c["ops"], steps):
            hist[op[0]] = hist.get(op[0], 0) + 1
            codes[st["r"]] = codes.get(st["r"], 0) + 1
        bad = tree_oracle(c, steps)
        if bad and n_bad < 3:
            n_bad += 1
            si, msg = bad
            ctx.violation("tree-consistency", "actor tree inconsistent after op %d %s: %s" % (si, c["ops"][si], msg),
                          {"object": "actor.tree", "k": c["k"], "names": c["names"], "ops": c["ops"][:si + 1], "observed": steps[si]["o"]})
        # non-triviality
        big = any(sum(1 for i in range(c["k"]) if st["o"][1 + 6 * i][0] == 1) >= 3 for st in steps)
        deep_del = False
        for idx, (op, st) in enumerate(zip(c["ops"], steps)):
            if op[0] == "del" and idx > 0:
                prev = steps[idx - 1]["o"]
                if prev[1 + 6 * op[1]][0] == 1 and prev[1 + 6 * op[1] + 1]:
                    deep_del = True
        if big and deep_del:
            nontrivial.add(canon_hash(c))
    # ---- the Coq model on the same cases
    items = []
    for c, o in zip(cases, outs):
        ops = ";".join(coq_op(op, c["names"]) for op in c["ops"])
        exp = ";".join("%d%%N" % hash_obs(st["r"], st["o"]) for st in o["steps"])
        items.append("(%d,[%s],[%s])" % (c["k"], ops, exp))
    body = """From stdpp Require Import gmap list.
From GV Require Import C09.Model.
Definition cases : list (nat * list op * list N) := [
%s
].
Definition diffs := imap (fun i c => (i, case_diff c)) cases.
Definition bad := List.filter (fun x => match snd x with Some _ => true | None => false end) diffs.
Definition summary := (length cases, length bad, map (fun x => (fst x, match snd x with Some s => s | None => 0 end)) (firstn 3 bad)).
Eval vm_compute in summary.
""" % ";\n".join(items)
    rc2, o2 = ctx.coq_eval("cases_C09_tree", body)
    flat = " ".join(o2.split())
    m = re.search(r"= \((\d+), (\d+), (\[.*?\])\)", flat)
    mism = None
    if rc2 != 0 or not m:
        ctx.tie_broken("tree model evaluation (cases.v did not evaluate)", o2)
    else:
        mism = int(m.group(2))
        if mism:
            firsts = re.findall(r"\((\d+), (\d+)\)", m.group(3))
            detail = []
            for ci, si in firsts:
                ci, si = int(ci), int(si)
                detail.append({"case": cases[ci], "first_diverging_op_index": si,
                               "implementation_showed": outs[ci]["steps"][si] if si < len(outs[ci]["steps"]) else None})
            ctx.tie_broken("M-TREE model vs real actor.tree (state after every op)", {"mismatching_cases": mism, "first": detail})
    stats.update({"tree_cases": len(cases), "tree_steps": n_steps, "tree_op_histogram": hist, "tree_result_codes": codes,
                  "tree_distinct_nontrivial": len(nontrivial), "tree_model_mismatches": mism,
                  "samples": [{"tree_case": cases[5]}] if len(cases) > 5 else []})


def stop_tie(ctx, stats):
    pass
