"""Helpers shared by checks/C45.py and checks/C46.py (stream pipelines and junctions).

  * the pipeline description language (JSON on the Go side, Gallina [op] on the Coq side),
  * an independent Python list semantics used as the property oracle,
  * Coq literal printers.
"""
I64 = 2 ** 62


def zl(n):
    return "(%d)" % n if n < 0 else "%d" % n


def coq_zlist(xs):
    return "[" + "; ".join(zl(x) for x in xs) + "]"


def coq_val(v):
    if isinstance(v, list):
        return "VL " + coq_zlist(v)
    return "VZ " + zl(v)


def coq_vals(vs):
    return "[" + "; ".join(coq_val(v) for v in vs) + "]"


def coq_op(o):
    k = o["k"]
    if k == "map":
        return "OMap %s %s" % (zl(o["a"]), zl(o["b"]))
    if k == "trymap":
        return "OTryMap %s %s %s %s %s %s" % (zl(o["a"]), zl(o["b"]), zl(o["m"]), zl(o["r"]), zl(o["code"]),
                                                "SResume" if o.get("resume") else "SFailFast")
    if k == "filter":
        return "OFilter %s %s" % (zl(o["m"]), zl(o["r"]))
    if k == "flatmap":
        return "OFlatMap %s" % zl(o["kk"])
    if k == "flatten":
        return "OFlatten"
    if k == "scan":
        return "OScan %s" % zl(o.get("z", 0))
    if k == "dedup":
        return "ODedup"
    if k == "batch":
        return "OBatch %d%%nat" % o["n"]
    if k == "buffer":
        return "OBuffer %d%%nat" % o["n"]
    if k == "parmap":
        return "OParMap %s %d%%nat %s %s" % ("true" if o.get("ordered") else "false", o["w"], zl(o["a"]), zl(o["b"]))
    if k == "suml":
        return "OSumL"
    raise ValueError(k)


def coq_ops(ops):
    return "[" + "; ".join(coq_op(o) for o in ops) + "]"


FUSABLE = ("map", "trymap", "filter")
TYPE_ERR = -1


def py_elem(o, v):
    """one element through a stateless operator: ('out', [..]) or ('err', code)"""
    k = o["k"]
    isl = isinstance(v, list)
    if k == "map" and not isl:
        return "out", [o["a"] * v + o["b"]]
    if k == "trymap" and not isl:
        if v % o["m"] == o["r"]:
            return "err", o["code"]
        return "out", [o["a"] * v + o["b"]]
    if k == "filter" and not isl:
        return "out", ([] if v % o["m"] == o["r"] else [v])
    if k == "flatmap" and not isl:
        return "out", [10 * v + i for i in range(v % o["kk"])]
    if k == "flatten" and isl:
        return "out", list(v)
    if k == "buffer":
        return "out", [v]
    if k == "parmap" and not isl:
        return "out", [o["a"] * v + o["b"]]
    if k == "suml" and isl:
        return "out", [1000 * sum(v) + len(v)]
    return "err", TYPE_ERR


def py_sem_op(o, xs):
    """list semantics of one operator: (outputs before the first failure, failure or None)"""
    k = o["k"]
    out = []
    if k == "scan":
        acc = o.get("z", 0)
        for x in xs:
            if isinstance(x, list):
                return out, TYPE_ERR
            acc += x
            out.append(acc)
        return out, None
    if k == "dedup":
        last = None
        has = False
        for x in xs:
            if has and last == x:
                continue
            last, has = x, True
            out.append(x)
        return out, None
    if k == "batch":
        w = []
        for x in xs:
            if isinstance(x, list):
                return out, TYPE_ERR
            w.append(x)
            if len(w) >= o["n"]:
                out.append(w)
                w = []
        if w:
            out.append(w)
        return out, None
    for x in xs:
        t, r = py_elem(o, x)
        if t == "err":
            if o.get("resume"):
                continue
            return out, r
        out.extend(r)
    return out, None


def py_sem(ops, xs):
    """(outputs, [errors raised by the stages, in stage order])"""
    errs = []
    cur = list(xs)
    for o in ops:
        cur, e = py_sem_op(o, cur)
        if e is not None:
            errs.append(e)
    return cur, errs


def key(v):
    return tuple(v) if isinstance(v, list) else v


def submultiset(a, b):
    from collections import Counter
    ca, cb = Counter(key(x) for x in a), Counter(key(x) for x in b)
    return all(cb[k] >= n for k, n in ca.items())


def py_accept(ops, xs, items, err, terminals, done):
    """None when the observed outcome is allowed by the list semantics, else a short reason"""
    ys, errs = py_sem(ops, xs)
    unordered = any(o["k"] == "parmap" and not o.get("ordered") for o in ops)
    if not done:
        return "stall: the stream did not terminate (%d of %d expected elements delivered)" % (len(items), len(ys))
    if terminals != 1:
        return "terminal-count: the live sink handled %d terminal signals" % terminals
    if not errs:
        if err is not None:
            return "wrong-terminal: stream failed with error %s but no stage fails" % err
        if unordered:
            if len(items) != len(ys) or not submultiset(items, ys):
                return "elements: multiset of delivered elements differs (got %d, want %d)" % (len(items), len(ys))
        elif items != ys:
            if sorted(map(key, items), key=repr) == sorted(map(key, ys), key=repr):
                return "order: delivered elements are a reordering of the list semantics"
            return "elements: delivered %d elements, list semantics gives %d (first difference at %s)" % (
                len(items), len(ys), next((i for i, (a, b) in enumerate(zip(items, ys)) if a != b), min(len(items), len(ys))))
        return None
    if err is None:
        return "wrong-terminal: stream completed normally but a stage fails with %s" % errs
    if err not in errs:
        return "wrong-terminal: stream failed with %s, stages fail with %s" % (err, errs)
    if unordered:
        if not submultiset(items, ys):
            return "elements: delivered elements are not among the outputs before the failure"
    elif items != ys[:len(items)]:
        return "elements: delivered elements are not a prefix of the outputs before the failure"
    return None


def parse_coq_value(s):
    """parse the value printed by `Eval vm_compute in (...)`: nested tuples/lists of numbers/bools."""
    import re
    s = s.replace("%nat", "").replace("%Z", "")
    toks = re.findall(r"\(|\)|\[|\]|;|,|-?\d+|true|false", s)
    pos = [0]

    def val():
        t = toks[pos[0]]
        pos[0] += 1
        if t == "[":
            out = []
            if toks[pos[0]] == "]":
                pos[0] += 1
                return out
            while True:
                out.append(val())
                t2 = toks[pos[0]]
                pos[0] += 1
                if t2 == "]":
                    return out
        if t == "(":
            out = [val()]
            while toks[pos[0]] == ",":
                pos[0] += 1
                out.append(val())
            assert toks[pos[0]] == ")", toks[pos[0] - 3:pos[0] + 3]
            pos[0] += 1
            return out[0] if len(out) == 1 else tuple(out)
        if t == "true":
            return True
        if t == "false":
            return False
        return int(t)

    return val()
