"""Helpers shared by the dispatch-protocol checks (C01, C02, C05): the source-order tie
(tools/protoorder) and small Coq-literal helpers."""
import json
import os
import re

from vlib import BUILD, REPO, VERIF, Lock, go_env, sh, GOBIN

ACTOR_FILES = ["actor/pid.go", "actor/grain_pid.go", "actor/dispatch_state.go", "actor/worker.go",
               "actor/dispatcher.go", "actor/ready_queue.go"]


def protoorder(ctx, spec, tag):
    """run tools/protoorder on the CURRENT tree; returns (ok, dict-or-message)"""
    src = os.path.join(VERIF, "tools", "protoorder")
    binp = os.path.join(BUILD, "protoorder")
    with Lock("protoorder-build"):
        src_m = max(os.path.getmtime(os.path.join(src, f)) for f in os.listdir(src) if f.endswith(".go"))
        if not os.path.exists(binp) or os.path.getmtime(binp) < src_m:
            rc, out = sh([GOBIN, "build", "-o", binp, "."], cwd=src, env=go_env(), timeout=300)
            if rc != 0:
                return False, "protoorder build failed: " + out
    sp = os.path.join(ctx.work, "po_%s.json" % tag)
    json.dump(spec, open(sp, "w"))
    rc, out = sh([binp, "-repo", REPO, "-spec", sp], timeout=60)
    if rc != 0:
        return False, out
    try:
        return True, json.loads(out)
    except ValueError as e:
        return False, "protoorder output: %s" % e


def flatten(seq, unroll=1):
    """tokens of a protoorder sequence in syntactic order, loop bodies repeated `unroll` times"""
    out = []
    for it in seq or []:
        if isinstance(it, str):
            out.append(it)
        elif isinstance(it, dict) and "loop" in it:
            body = flatten(it["loop"], unroll)
            for _ in range(unroll):
                out.extend(body)
    return out


def embed(path, tokens):
    """is `path` (list of sets of acceptable tokens) a subsequence of tokens? returns (ok, index of first unmatched path element)"""
    i = 0
    for t in tokens:
        if i < len(path) and t in path[i]:
            i += 1
    return i == len(path), i


# model operation kind -> acceptable source tokens (after inlining the dispatchState methods)
CAS_IS = "v.CompareAndSwap(dispatchIdle,dispatchScheduled)"
CAS_SP = "v.CompareAndSwap(dispatchScheduled,dispatchProcessing)"
ST_IDLE = "v.Store(dispatchIdle)"
ST_SCHED = "v.Store(dispatchScheduled)"
OP_TOKENS = {
    "KEnqReserve": None,  # reserve+publish are the two halves of one Enqueue call
    "KEnqPublish": {"mailbox.Enqueue", "systemMailbox.Enqueue", "queue.Enqueue", "responses.Enqueue"},
    "KStLoad": {"v.Load"},
    "KCasIdleSched": {CAS_IS},
    "KPushTicket": {"readyQueue.push"},
    "KTake": {"readyQueue.take"},
    "KCasSchedProc": {CAS_SP},
    "KDeqSys": {"systemMailbox.Dequeue", "responses.Dequeue"},
    "KDeqUsr": {"mailbox.Dequeue"},
    "KHandlerExit": {"PID.dispatchOne", "grainPID.dispatchOne"},
    "KStoreIdle": {ST_IDLE},
    "KEmptyUsr": {"mailbox.IsEmpty"},
    "KEmptySys": {"systemMailbox.IsEmpty", "responses.IsEmpty"},
    "KRdPaused": {"blockingCount.Load"},
    "KStoreSched": {ST_SCHED},
    "KRepush": {"readyQueue.pushLocal"},
    "KSpinLoad": {"v.Load"},
    "KInit": {"PID.init"},
    "KOffTurnStoreIdle": {ST_IDLE},
    "KNone": None,
}
# tokens whose number of syntactic occurrences is compared with the model's program inventory
COUNTED = ["v.Load", CAS_IS, CAS_SP, ST_IDLE, ST_SCHED, "readyQueue.push", "readyQueue.pushLocal", "readyQueue.take",
           "mailbox.Dequeue", "systemMailbox.Dequeue", "responses.Dequeue", "mailbox.IsEmpty", "systemMailbox.IsEmpty",
           "responses.IsEmpty"]
STATE_WRITES = [CAS_IS, CAS_SP, ST_IDLE, ST_SCHED]


def ops_to_path(ops, sys_first=False):
    p = []
    for o in ops:
        t = OP_TOKENS[o]
        if t:
            p.append(t)
    return p


def parse_opk_lists(text):
    """parse `= [[KTake; KCas...]; [...]]` printed by coq into python lists"""
    flat = " ".join(text.split())
    m = re.search(r"= (\[.*\])\s*:", flat)
    if not m:
        return None
    body = m.group(1)
    out, cur, depth, tok = [], None, 0, ""
    for ch in body:
        if ch == "[":
            depth += 1
            if depth == 2:
                cur = []
        elif ch == "]":
            if depth == 2:
                if tok.strip():
                    cur.append(tok.strip())
                out.append(cur)
                cur, tok = None, ""
            depth -= 1
        elif ch == ";":
            if depth == 2 and tok.strip():
                cur.append(tok.strip())
            tok = ""
        else:
            if depth == 2:
                tok += ch
    return out
