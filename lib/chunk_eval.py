"""Evaluate generated cases.v files in chunks (helper for C34/C47/C48; owner: builder of those checks).

body_fn(pairs) must return a Coq file whose last command is `Eval vm_compute in summary.` with
summary = (number of cases, number of mismatching cases, first few (case id, step index))."""
import re


def coq_eval_chunks(ctx, name, pairs, body_fn, chunk=250):
    """returns (ok, total_cases, total_bad, [(case id, step index)...], raw output of the failing chunk)"""
    total, bad, first = 0, 0, []
    for i in range(0, len(pairs), chunk):
        rc, out = ctx.coq_eval("%s_%d" % (name, i // chunk), body_fn(pairs[i:i + chunk]))
        flat = " ".join(out.split())
        m = re.search(r"= \((\d+)%nat, (\d+)%nat, (\[.*?\])\)", flat)
        if rc != 0 or not m:
            return False, total, bad, first, out
        total += int(m.group(1))
        bad += int(m.group(2))
        first += [(int(a), int(b)) for a, b in re.findall(r"\((\d+)%nat, (\d+)%nat\)", m.group(3))]
    return True, total, bad, first, ""
