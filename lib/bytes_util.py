"""Helpers shared by the byte-level checks (C23, C24, C25): compact Coq literals for byte strings
(see coq/theories/Lib/BytesPack.v)."""


def pack(b):
    """bytes -> Coq `list seg` literal (uint63 words of 7 bytes, runs of >= 24 equal bytes compressed)"""
    segs = []
    i, n = 0, len(b)
    lit_start = 0

    def flush(lo, hi):
        if hi <= lo:
            return
        chunk = b[lo:hi]
        ws = []
        for j in range(0, len(chunk), 7):
            c = chunk[j:j + 7]
            ws.append(str(int.from_bytes(c + b"\0" * (7 - len(c)), "big")))
        segs.append("W %d [%s]" % (len(chunk), ";".join(ws)))

    while i < n:
        j = i
        while j < n and b[j] == b[i]:
            j += 1
        if j - i >= 24:
            flush(lit_start, i)
            segs.append("R %d %d" % (b[i], j - i))
            lit_start = j
        i = j
    flush(lit_start, n)
    return "[" + ";".join(segs) + "]"
