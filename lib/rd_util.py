"""Shared machinery of the reliable-delivery checks C42 / C43 (point-to-point controllers).

* plans for the Go harness (go/inpkg/actor/zz_verif_C42_test.go),
* translation of the recorded schedules into a cases.v that evaluates the Coq model
  (coq/theories/C42/Model.v: check_case) on exactly the ops the real controllers ran,
* decoding of the canonical observation encoding for the independent oracles.
"""
import json
import os
import re

from vlib import zlit


def b(x):
    return "true" if x else "false"


def op_to_coq(o):
    k = o["op"]
    g = lambda n: zlit(int(o.get(n, 0)))
    if k == "DeliverPC":
        return "DeliverPC %d" % o.get("i", 0)
    if k == "DeliverCC":
        return "DeliverCC %d %s" % (o.get("i", 0), b(o.get("g", False)))
    if k == "TickPC":
        return "TickPC"
    if k == "TickCC":
        return "TickCC %s" % b(o.get("g", False))
    if k == "Produced":
        return "Produced %s %s %s" % (g("s"), g("t"), g("m"))
    if k == "StoredAck":
        return "StoredAck %s %s %s" % (g("s"), g("t"), g("m"))
    if k == "Confirmed":
        return "Confirmed %s %s %s" % (g("s"), g("m"), g("q"))
    auth = b(o.get("auth", False))
    kind = o.get("kind")
    if k == "RawPC":
        if kind == "Register":
            return "RawPC (PFromCC %s (Register %s))" % (auth, g("n"))
        if kind == "Request":
            return "RawPC (PFromCC %s (Request %s %s %s %s %s))" % (auth, g("s"), g("n"), g("c"), g("u"), b(o.get("v", False)))
        if kind == "Ack":
            return "RawPC (PFromCC %s (AckM %s %s %s))" % (auth, g("s"), g("n"), g("c"))
        if kind == "Produced":
            return "RawPC (PProduced %s %s %s %s)" % (auth, g("s"), g("t"), g("m"))
        if kind == "StoredAck":
            return "RawPC (PStoredAck %s %s %s %s)" % (auth, g("s"), g("t"), g("m"))
        if kind == "Tick":
            return "RawPC (PTick true)"
    if k == "RawCC":
        gap = b(o.get("g", False))
        if kind == "RegAck":
            return "RawCC (CFromPC %s %s (RegAck %s %s %s))" % (auth, gap, g("s"), g("q"), g("n"))
        if kind == "SeqMsg":
            return "RawCC (CFromPC %s %s (SeqMsg %s %s %s))" % (auth, gap, g("s"), g("m"), g("q"))
        if kind == "Confirmed":
            return "RawCC (CConfirmed %s %s %s %s)" % (auth, g("s"), g("m"), g("q"))
        if kind == "Tick":
            return "RawCC (CTick true %s)" % gap
    raise ValueError("unknown op %r" % (o,))


def row_hash(row):
    """mirror of row_hash in coq/theories/C42/Tie.v (arithmetic modulo 2^63)"""
    acc = 7
    for x in row:
        acc = (acc * 1000003 + x + 17) % (1 << 63)
    return acc


def cases_v(cases, fx=False):
    """cases.v body: one definition per case (keeps each term small), summary = mismatching cases."""
    out = ["From Coq Require Import ZArith List Bool Uint63. Import ListNotations.",
           "From GV Require Import C42.Model C42.Tie.", "Open Scope Z_scope."]
    names = []
    for k, c in enumerate(cases):
        ops = "[" + "; ".join(op_to_coq(o) for o in c["ops"]) + "]"
        obs = "[" + "; ".join("%d%%uint63" % row_hash(row) for row in c["obs"]) + "]"
        out.append("Definition r%d := check_case_h 1 %s %d %s %s %s." % (k, b(c["notify"]), c["window"], b(fx), ops, obs))
        names.append("(%d%%nat, r%d)" % (k, k))
    out.append("Definition results : list (nat * option (nat * list Z)) := [%s]." % "; ".join(names))
    out.append("Definition bad := filter (fun r => match snd r with Some _ => true | None => false end) results.")
    out.append("Definition summary := (length results, length bad, firstn 3 bad).")
    out.append("Eval vm_compute in summary.")
    return "\n".join(out) + "\n"


def parse_summary(txt):
    """returns (n_cases, n_bad, [(case, step, model_obs)]) or None"""
    flat = " ".join(txt.split())
    m = re.search(r"= \((\d+)%nat, (\d+)%nat, (\[.*\])\) : ", flat)
    if not m:
        return None
    bad = []
    for mm in re.finditer(r"\((\d+)%nat, Some \((\d+)%nat, \[([^\]]*)\]\)\)", m.group(3)):
        obs = [int(x.strip().strip("()")) for x in mm.group(3).split(";") if x.strip()]
        bad.append((int(mm.group(1)), int(mm.group(2)), obs))
    return int(m.group(1)), int(m.group(2)), bad


# ------------------------------------------------------------------ decoding of an observation row
def split_groups(row):
    """row -> dict with the messages per recipient and both state vectors"""
    def cut(lst, a, bmark):
        i, j = lst.index(a), None
        return i, j
    # markers appear in fixed order: 100 .. 101 .. 102 s 110 .. 111 .. 112 s 200 ... 210 ...
    i100 = 0
    assert row[0] == 100
    # scan message groups by known arities
    arity = {1: 4, 2: 4, 3: 3, 4: 5, 5: 4, 11: 2, 12: 6, 13: 4, 14: 4, 99: 1}
    pos = 1

    def read_group(endmark):
        nonlocal pos
        msgs = []
        while row[pos] != endmark:
            a = arity[row[pos]]
            msgs.append(tuple(row[pos:pos + a]))
            pos += a
        pos += 1
        return msgs
    toCC = read_group(101)
    toProd = read_group(102)
    pshut = row[pos]
    pos += 1
    assert row[pos] == 110
    pos += 1
    toPC = read_group(111)
    toCons = read_group(112)
    cshut = row[pos]
    pos += 1
    assert row[pos] == 200
    p = {}
    p["cur"], p["conf"], n = row[pos + 1], row[pos + 2], row[pos + 3]
    pos += 4
    p["unconf"] = [(row[pos + 2 * k], row[pos + 2 * k + 1]) for k in range(n)]
    pos += 2 * n
    (p["reg"], p["nonce"], p["demand"], p["span"], p["hs"], p["tok"], p["pmid"], p["pseq"], p["stored"],
     p["ltok"], p["lmid"], p["failed"]) = row[pos:pos + 12]
    pos += 12
    assert row[pos] == 210
    c = {}
    c["res"], c["sess"], c["nonce"], c["exp"], c["conf"], c["upto"], n = row[pos + 1:pos + 8]
    pos += 8
    c["buf"] = [(row[pos + 2 * k], row[pos + 2 * k + 1]) for k in range(n)]
    pos += 2 * n
    c["infl"] = (row[pos + 1], row[pos + 2]) if row[pos] == 1 else None
    pos += 3
    c["saw"], c["failed"] = row[pos], row[pos + 1]
    return {"toCC": toCC, "toProd": toProd, "pshut": pshut, "toPC": toPC, "toCons": toCons, "cshut": cshut, "P": p, "C": c}


def make_plans(ctx, prefix, mix, n_cases, steps_lo, steps_hi, windows, n_chunked=0, n_durable=0):
    """mix: list of (mode, weight); the last n_chunked plans run a chunked flow (oracle only, see run_rd_check)"""
    rng = ctx.rng
    plans = []
    modes = [m for m, w in mix for _ in range(w)]
    for k in range(n_cases):
        plans.append({"id": "%s%d" % (prefix, k), "mode": rng.choice(modes), "window": rng.choice(windows),
                      "notify": rng.random() < 0.7, "steps": rng.randint(steps_lo, steps_hi),
                      "seed": rng.randrange(1, 2 ** 62)})
    for k in range(n_chunked):
        plans.append({"id": "%sk%d" % (prefix, k), "mode": rng.choice(["smooth", "lossy", "lossy", "slowcons"]), "window": rng.choice([4, 5, 8]),
                      "notify": True, "chunk": rng.choice([40, 64]), "steps": rng.randint(steps_lo, steps_hi),
                      "seed": rng.randrange(1, 2 ** 62)})
    for k in range(n_durable):
        plans.append({"id": "%sd%d" % (prefix, k), "mode": rng.choice(["smooth", "lossy", "lossy", "slowcons"]), "window": rng.choice([2, 3, 5, 8]),
                      "notify": True, "durable": True, "steps": rng.randint(steps_lo, steps_hi),
                      "seed": rng.randrange(1, 2 ** 62)})
    return plans


def load_corpus(path):
    out = []
    if os.path.isdir(path):
        for fn in sorted(os.listdir(path)):
            if fn.endswith(".json"):
                out.append(json.load(open(os.path.join(path, fn))))
    return out


def is_legit(o):
    return o["op"] not in ("RawPC", "RawCC")


# ------------------------------------------------------------------ independent oracles on the implementation runs
def oracle_c42(c):
    """Ordered, gap-free, re-presented only while unconfirmed, chain, confirmations once, liveness after a fair tail.
    Uses only the traffic the real controllers produced (plus the watermarks for the chain clause). Works for chunked
    flows too: a message is identified by the (message, last sequence) pair of its Stored reply, production order is the
    order of first Stored replies.
    returns list of (signature, what, step)"""
    bad = []
    order = []           # produced messages in production order: (message number, sequence carried by Stored)
    index = {}
    last = None          # index in order of the last Delivery told
    confirmed_upto = -1  # index of the last message the consumer endpoint effectively confirmed
    next_notice = 0
    chunked = c.get("chunk", 0) > 0
    for k in range(len(c["obs"])):
        g = split_groups(c["obs"][k])
        op = c["ops"][k - 1] if k > 0 else None
        if op is not None and op["op"] == "Confirmed" and last is not None:
            if op.get("s", 0) == 1 and (op.get("m", 0), op.get("q", 0)) == order[last] and last > confirmed_upto:
                confirmed_upto = last
        for m in g["toProd"]:
            if m[0] == 4:
                _, s_, t_, mid, q = m
                if (mid, q) not in index:
                    prev_q = order[-1][1] if order else 0
                    if any(q == q0 for (_, q0) in order):
                        bad.append(("store:seq-reassigned", "seq %d stored for two different messages" % q, k))
                    if (not chunked and q != prev_q + 1) or (chunked and q <= prev_q):
                        bad.append(("store:seq-gap", "stored seq %d after seq %d" % (q, prev_q), k))
                    index[(mid, q)] = len(order)
                    order.append((mid, q))
            if m[0] == 5:
                _, s_, mid, q = m
                if next_notice >= len(order) or order[next_notice] != (mid, q):
                    bad.append(("confirm:not-exactly-once-in-order", "DeliveryConfirmed (message %d, seq %d), expected %s" %
                                (mid, q, order[next_notice] if next_notice < len(order) else "none"), k))
                elif next_notice > confirmed_upto:
                    bad.append(("confirm:before-consumer-confirmed", "DeliveryConfirmed seq %d before the consumer confirmed it" % q, k))
                next_notice += 1
        for d in g["toCons"]:
            _, s_, mid, q = d
            i = index.get((mid, q))
            if i is None:
                bad.append(("delivery:not-production-order", "Delivery (message %d, seq %d) is not a stored message; stored so far %s" % (mid, q, order[-4:]), k))
                continue
            prev = last if last is not None else -1
            if i == prev + 1 or (i == prev and last is not None):
                pass
            else:
                bad.append(("delivery:gap-or-reorder", "Delivery of produced message #%d (seq %d) after #%d" % (i + 1, q, prev + 1), k))
            if i <= confirmed_upto:
                bad.append(("delivery:re-presented-after-confirmation", "Delivery seq %d although the consumer already confirmed it" % q, k))
            last = i
        P, C = g["P"], g["C"]
        if not (P["conf"] <= C["conf"] <= P["cur"]):
            bad.append(("chain:confirmed<=delivered<=stored", "producer confirmed %d, consumer confirmed %d, stored %d" % (P["conf"], C["conf"], P["cur"]), k))
        if [q for (_, q) in P["unconf"]] != list(range(P["conf"] + 1, P["cur"] + 1)):
            bad.append(("chain:unconfirmed-not-contiguous", "unconfirmed %s with confirmed %d stored %d" % (P["unconf"], P["conf"], P["cur"]), k))
        if bad:
            break
    if not bad:
        if c.get("failed") and c.get("mode") in ("smooth", "lossy", "slowcons"):
            g = split_groups(c["obs"][-1])
            bad.append(("liveness:flow-terminated-under-legitimate-faults",
                        "a controller published a terminal failure although both endpoints kept the contract and the network only lost/duplicated/reordered (producer failed=%d, consumer failed=%d)" % (g["P"]["failed"], g["C"]["failed"]),
                        len(c["obs"]) - 1))
        if c.get("durable") and not c.get("failed"):
            g = split_groups(c["obs"][-1])
            if c.get("queue_seq") != g["P"]["cur"] or c.get("queue_confirmed", 0) > g["P"]["conf"]:
                bad.append(("durable:queue-and-controller-diverge", "queue stored %s / confirmed %s, controller stored %d / confirmed %d" %
                            (c.get("queue_seq"), c.get("queue_confirmed"), g["P"]["cur"], g["P"]["conf"]), len(c["obs"]) - 1))
            if c.get("drained") == 1 and c.get("queue_confirmed") != g["P"]["conf"]:
                bad.append(("durable:confirmation-not-persisted", "after the fair tail the queue persisted confirmation %s, the controller confirmed %d" %
                            (c.get("queue_confirmed"), g["P"]["conf"]), len(c["obs"]) - 1))
        if c.get("drained") == 1:
            g = split_groups(c["obs"][-1])
            if g["P"]["hs"] not in (0, 1):
                bad.append(("liveness:handshake-stuck", "after the fair tail the producer handshake is still in phase %d for message %d: a message handed over by the producer endpoint was never stored/accepted" %
                            (g["P"]["hs"], g["P"]["pmid"]), len(c["obs"]) - 1))
        if c.get("payload_bad", 0):
            bad.append(("delivery:payload-corrupted", "%d deliveries carried a payload that is not the produced one" % c["payload_bad"], len(c["obs"]) - 1))
        if c.get("drained") == 0:
            g = split_groups(c["obs"][-1])
            bad.append(("liveness:not-confirmed-after-fair-tail", "after a loss-free fair tail (14 timer rounds%s) producer confirmed %d of %d stored" %
                        (", cut at the step budget: traffic never became quiescent" if c.get("runaway") else "", g["P"]["conf"], g["P"]["cur"]), len(c["obs"]) - 1))
    return bad


KNOWN_C43_CHUNKED = "chunked-flow:re-registration-lifts-demandUpTo-to-currentSeq-beyond-highest-request"


def oracle_c43(c):
    """every SequencedMessage within the highest request the consumer controller ever sent (and within the highest the
    producer controller received), demandUpTo within it, receive buffer within the window.
    In a chunked flow a (re-)registration that sets demandUpTo := currentSeq above the highest request, and what is
    emitted under that demand until the next Request, is reported under the narrow signature KNOWN_C43_CHUNKED."""
    bad = []
    max_sent = 0       # highest request-up-to the consumer controller ever sent
    max_deliv = 0      # highest request-up-to that reached the producer controller
    net_pc = []
    w = c["window"]
    chunked = c.get("chunk", 0) > 0
    taint = False
    known = None
    first_demand = None
    for k in range(len(c["obs"])):
        g = split_groups(c["obs"][k])
        op = c["ops"][k - 1] if k > 0 else None
        reg = False
        if op is not None and op["op"] == "DeliverPC" and op.get("i", 0) < len(net_pc):
            m = net_pc[op.get("i", 0)]
            if m[0] == 12:
                max_deliv = max(max_deliv, m[4])
            reg = m[0] == 11
        P, C = g["P"], g["C"]
        if P["demand"] > max_sent:
            if chunked and first_demand is None and (taint or (reg and P["demand"] == P["cur"])):
                if not taint:
                    known = (KNOWN_C43_CHUNKED, "chunked flow: the registration delivered at step %d set demandUpTo to currentSeq=%d, the consumer controller never requested beyond %d" % (k, P["demand"], max_sent), k)
                taint = True
            elif first_demand is None:
                # keep scanning: if a message is actually emitted under this demand, that step is the better witness
                first_demand = ("demand:beyond-requested", "demandUpTo %d, highest request ever sent %d" % (P["demand"], max_sent), k)
        else:
            taint = False
        for m in g["toCC"]:
            if m[0] == 2:
                q = m[3]
                if q > max_sent:
                    if chunked and taint and first_demand is None and q <= P["demand"]:
                        known = (KNOWN_C43_CHUNKED, "chunked flow: SequencedMessage seq %d sent after a re-registration lifted demandUpTo to currentSeq=%d; the consumer controller never requested beyond %d" % (q, P["demand"], max_sent), k)
                    else:
                        bad.append(("emit:beyond-requested", "SequencedMessage seq %d sent, highest request so far %d%s" %
                                    (q, max_sent, " (demandUpTo was lifted to %d at step %d)" % (P["demand"], first_demand[2]) if first_demand else ""), k))
                elif q > max_deliv and not (chunked and taint):
                    bad.append(("emit:beyond-received-demand", "SequencedMessage seq %d sent, highest request received by the producer controller %d" % (q, max_deliv), k))
        for m in g["toPC"]:
            net_pc.append(m)
            if m[0] == 12:
                max_sent = max(max_sent, m[4])
        if len(C["buf"]) > w:
            bad.append(("buffer:exceeds-window", "receive buffer holds %d entries, window %d" % (len(C["buf"]), w), k))
        if bad:
            break
        if first_demand is not None and k - first_demand[2] > 40:
            break
    if not bad and first_demand is not None:
        bad.append(first_demand)
    return bad + ([known] if known else [])


def fault_stats(c):
    """drop/dup/reorder statistics of the schedule, per direction"""
    st = {"dup": 0, "reorder": 0, "never": 0, "ticks": 0, "raw": 0}
    for d, key, net in (("DeliverPC", "toPC", "netPC"), ("DeliverCC", "toCC", "netCC")):
        seen, hi, total = set(), -1, 0
        for k in range(len(c["obs"])):
            total += len(split_groups(c["obs"][k])[key])
        for o in c["ops"]:
            if o["op"] == d:
                i = o.get("i", 0)
                if i in seen:
                    st["dup"] += 1
                elif i < hi:
                    st["reorder"] += 1
                seen.add(i)
                hi = max(hi, i)
        st["never"] += len([i for i in range(total) if i not in seen])
    for o in c["ops"]:
        if o["op"].startswith("Tick"):
            st["ticks"] += 1
        if o["op"].startswith("Raw"):
            st["raw"] += 1
    return st


# ------------------------------------------------------------------ the pipeline shared by C42 and C43
def run_rd_check(ctx, pid, test_name, files, mix, oracle, theorems, quick_n, thorough_n):
    import time
    from vlib import read_jsonl, canon_hash
    ctx.trusted += [
        "Go harness drives the real controllers' Receive directly (shell actor hosts lifecycle + PostStart); peers, endpoints, timers and the network are played by the harness",
        "consumer gap-request rate limit (time.Now) is replaced by a per-step oracle bit by presetting lastGapRequest in-package",
        "identifier numbering: real uuids are numbered by first appearance (the model's counters issue them in that order)"]
    ctx.assumptions += [
        "no controller restart (one incarnation of each controller, one session) — as in the property statement",
        "the Coq model and the theorems cover the volatile, whole-payload core; chunked flows (split/assembly) and the durable-queue lane (asynchronous store/accept/confirm with delayed results, in-memory contract-conforming queue) are a second layer: the real controllers run them under the same fault schedules and the property oracle checks them, but they are not modelled in Coq",
        "sequence numbers stay below 2^63-1 (the controller's own exhaustion guard is modelled; Z arithmetic otherwise unbounded)",
        "controller traffic faults = loss, duplication, reordering, delay of messages actually sent (no forgery); endpoint messages arbitrary"]
    low = pid.lower()
    plans = []
    if ctx.replay_path:
        rp = json.load(open(ctx.replay_path))
        plans = [rp["replay"]["plan"]] if "plan" in rp.get("replay", {}) else []
    else:
        for k, cc in enumerate(load_corpus(os.path.join(os.path.dirname(os.path.dirname(os.path.abspath(__file__))), "corpus", pid))):
            cc = dict(cc)
            cc["id"] = "%sc%d" % (low, k)
            plans.append(cc)
        n = thorough_n if ctx.thorough else quick_n
        plans += make_plans(ctx, low + "g", mix, n, 120, 420 if ctx.thorough else 300, [1, 2, 2, 3, 3, 4, 5, 8, 16],
                            n_chunked=(60 if ctx.thorough else 8), n_durable=(60 if ctx.thorough else 8))
    pin, pout = os.path.join(ctx.work, low + "_plans.jsonl"), os.path.join(ctx.work, low + "_cases.jsonl")
    with open(pin, "w") as f:
        for p in plans:
            f.write(json.dumps(p) + "\n")
    if os.path.exists(pout):
        os.remove(pout)
    ctx.log("running %d plans on the real controllers" % len(plans))
    rc, out = ctx.go_test("actor", "^%s$" % test_name, files, timeout=1500)
    ctx.log("go harness done rc=%d" % rc)
    cases = read_jsonl(pout)
    errs = [c for c in cases if c.get("error")]
    if rc != 0 or len(cases) != len(plans) or errs:
        ctx.tie_broken("go-harness actor reliable-delivery controllers (%s)" % test_name,
                       {"rc": rc, "cases": len(cases), "plans": len(plans), "errors": [c["error"] for c in errs][:3], "tail": out[-2500:]})
    cases = [c for c in cases if not c.get("error")]
    plan_by_id = {p["id"]: p for p in plans}

    def replay_of(c, upto):
        p = dict(plan_by_id.get(c["id"], {}))
        p.update({"id": c["id"] + "r", "mode": c["mode"], "window": c["window"], "notify": c["notify"], "chunk": c.get("chunk", 0), "ops": c["ops"][:upto]})
        return {"plan": p, "how": "ops are executed verbatim on the real controllers: DeliverPC/DeliverCC i = deliver the i-th message ever sent in that direction; Tick*; Produced/StoredAck/Confirmed = endpoint messages",
                "test": test_name}

    # ---- independent oracle on the implementation runs
    n_viol = 0
    seen_known = set()
    for c in cases:
        if any(not is_legit(o) for o in c["ops"]):
            continue  # forged controller traffic is outside the property's fault model (tie only)
        for (sig, what, step) in oracle(c)[:2]:
            if sig in seen_known:
                continue
            if sig.startswith("chunked-flow:"):
                seen_known.add(sig)   # a narrow, listable finding: one report per run is enough
            if n_viol < 4 or sig in seen_known:
                ctx.violation(sig, "%s (case %s, mode %s, window %d, step %d of %d)" % (what, c["id"], c["mode"], c["window"], step, len(c["ops"])),
                              replay_of(c, step))
            n_viol += 1
        if c.get("chunked_seen") and not c.get("chunk"):
            ctx.tie_broken("chunked traffic on a flow with chunking disabled", {"case": c["id"]})

    # ---- model vs implementation: the Coq model evaluated on the same schedules
    ok_model, mo = ctx.coq_build(["theories/C42/Tie.vo"])
    mism = None
    all_cases = None
    if not ok_model:
        ctx.tie_broken("C42/Model.v does not compile", mo)
    elif cases:
        t0 = time.time()
        all_cases = cases
        # the model covers volatile whole-payload flows; chunked flows and the durable-queue lane: oracle only
        cases = [c for c in all_cases if not c.get("chunk") and not c.get("durable")]
        # the model carries both registration rules of the producer controller (both proved): the repaired one
        # (fix 22a84ff, fixes/C43-registration-demand.diff) is tried first, the earlier one is accepted as well
        rc2, o2 = ctx.coq_eval("cases_" + pid, cases_v(cases, True))
        res = parse_summary(o2)
        variant = "demandUpTo := min(demandUpTo, currentSeq)"
        if rc2 == 0 and res is not None and res[1] > 0:
            rc3, o3 = ctx.coq_eval("cases_" + pid + "_old", cases_v(cases, False))
            res3 = parse_summary(o3)
            if rc3 == 0 and res3 is not None and res3[1] == 0:
                rc2, o2, res, variant = rc3, o3, res3, "demandUpTo := currentSeq"
        ctx.coverage["registration_demand_rule_observed"] = variant
        ctx.log("coq model evaluated on %d cases in %.1fs (%s)" % (len(cases), time.time() - t0, variant))
        if rc2 != 0 or res is None or res[0] != len(cases):
            ctx.tie_broken("model evaluation (cases.v did not evaluate)", o2)
        else:
            mism = res[1]
            for (ci, step, mobs) in res[2][:2]:
                c = cases[ci]
                iobs = c["obs"][step] if step < len(c["obs"]) else None
                ctx.tie_broken("model-vs-implementation %s step" % pid,
                               {"case": c["id"], "mode": c["mode"], "window": c["window"], "step": step,
                                "op": c["ops"][step - 1] if step > 0 else "init",
                                "model_obs": mobs, "impl_obs": iobs,
                                "model": split_groups(mobs) if mobs else None, "impl": split_groups(iobs) if iobs else None,
                                "mismatching_cases": res[1], "replay": replay_of(c, step)})

    if ok_model and all_cases is not None:
        cases = all_cases

    # ---- theorems
    ctx.log("building the Coq closure of Properties/%s.v" % pid)
    if not ctx.coq_property():
        if not any(f.kind == "violation" for f in ctx.findings):
            ctx.proof_broken("Properties/%s.v (%s)" % (pid, getattr(ctx, "failed_at", "?")), getattr(ctx, "coq_log", ""))
        else:
            ctx.notes.append("Coq obligation broken at %s; concrete failing input reported" % getattr(ctx, "failed_at", "?"))

    # ---- coverage
    steps = sum(len(c["ops"]) for c in cases if not c.get("chunk") and not c.get("durable"))
    oracle_only_steps = sum(len(c["ops"]) for c in cases if c.get("chunk") or c.get("durable"))
    hist, modes = {}, {}
    agg = {"dup": 0, "reorder": 0, "never": 0, "ticks": 0, "raw": 0}
    nontriv = set()
    maxseq = 0
    for c in cases:
        modes[c["mode"]] = modes.get(c["mode"], 0) + 1
        for o in c["ops"]:
            key = o["op"] + (":" + o["kind"] if o.get("kind") else "")
            hist[key] = hist.get(key, 0) + 1
        st = fault_stats(c)
        for k in agg:
            agg[k] += st[k]
        last = split_groups(c["obs"][-1])
        maxseq = max(maxseq, last["P"]["cur"])
        if last["C"]["conf"] >= 3 and (st["dup"] + st["reorder"] + st["never"]) >= 3:
            nontriv.add(canon_hash([c["window"], c["notify"], c["ops"]]))
    ctx.coverage.update({
        "evaluations": steps,
        "distinct_nontrivial": len(nontriv),
        "rule": "one evaluation = one step of a real controller's Receive compared with the Coq model (outgoing traffic per recipient + 30 state fields); "
                "a case is non-trivial when the consumer confirmed >= 3 messages and the schedule contains >= 3 faults (duplicate / out-of-order / never delivered); distinct by (window, notify, ops)",
        "oracle_only_steps_chunked_and_durable": oracle_only_steps,
        "cases": len(cases), "modes": modes, "op_histogram": hist, "faults": agg, "max_seq_reached": maxseq,
        "chunked_flow_cases_oracle_only": sum(1 for c in cases if c.get("chunk")),
        "durable_queue_cases_oracle_only": sum(1 for c in cases if c.get("durable")),
        "failed_flows": sum(1 for c in cases if c.get("failed")), "fair_tails_checked": sum(1 for c in cases if c.get("drained", -1) >= 0),
        "model_mismatching_cases": mism,
        "samples": [{"id": c["id"], "mode": c["mode"], "window": c["window"], "ops": c["ops"][:12], "last_obs": c["obs"][-1]} for c in cases[:2]],
        "theorems": theorems,
    })
