"""Shared machinery of the reliable-delivery checks C42 / C43 (point-to-point controllers).

* plans for the Go harness (go/inpkg/actor/zz_verif_C42_test.go),
* translation of the recorded schedules into a cases.v that evaluates the Coq model
  (coq/theories/C42/Model.v: check_case) on exactly the ops the real controllers ran,
* decoding of the canonical observation encoding for the independent oracles.
"""
import json
import os
import re

from vlib import zlit


def b(x):
    return "true" if x else "false"


def op_to_coq(o):
    k = o["op"]
    g = lambda n: zlit(int(o.get(n, 0)))
    if k == "DeliverPC":
        return "DeliverPC %d" % o.get("i", 0)
    if k == "DeliverCC":
        return "DeliverCC %d %s" % (o.get("i", 0), b(o.get("g", False)))
    if k == "TickPC":
        return "TickPC"
    if k == "TickCC":
        return "TickCC %s" % b(o.get("g", False))
    if k == "Produced":
        return "Produced %s %s %s" % (g("s"), g("t"), g("m"))
    if k == "StoredAck":
        return "StoredAck %s %s %s" % (g("s"), g("t"), g("m"))
    if k == "Confirmed":
        return "Confirmed %s %s %s" % (g("s"), g("m"), g("q"))
    auth = b(o.get("auth", False))
    kind = o.get("kind")
    if k == "RawPC":
        if kind == "Register":
            return "RawPC (PFromCC %s (Register %s))" % (auth, g("n"))
        if kind == "Request":
            return "RawPC (PFromCC %s (Request %s %s %s %s %s))" % (auth, g("s"), g("n"), g("c"), g("u"), b(o.get("v", False)))
        if kind == "Ack":
            return "RawPC (PFromCC %s (AckM %s %s %s))" % (auth, g("s"), g("n"), g("c"))
        if kind == "Produced":
            return "RawPC (PProduced %s %s %s %s)" % (auth, g("s"), g("t"), g("m"))
        if kind == "StoredAck":
            return "RawPC (PStoredAck %s %s %s %s)" % (auth, g("s"), g("t"), g("m"))
        if kind == "Tick":
            return "RawPC (PTick true)"
    if k == "RawCC":
        gap = b(o.get("g", False))
        if kind == "RegAck":
            return "RawCC (CFromPC %s %s (RegAck %s %s %s))" % (auth, gap, g("s"), g("q"), g("n"))
        if kind == "SeqMsg":
            return "RawCC (CFromPC %s %s (SeqMsg %s %s %s))" % (auth, gap, g("s"), g("m"), g("q"))
        if kind == "Confirmed":
            return "RawCC (CConfirmed %s %s %s %s)" % (auth, g("s"), g("m"), g("q"))
        if kind == "Tick":
            return "RawCC (CTick true %s)" % gap
    raise ValueError("unknown op %r" % (o,))


HASH_P = 2305843009213693951


def row_hash(row):
    acc = 7
    for x in row:
        acc = (acc * 1000003 + x + 17) % HASH_P
    return acc


def cases_v(cases):
    """cases.v body: one definition per case (keeps each term small), summary = mismatching cases."""
    out = ["From Coq Require Import ZArith List Bool. Import ListNotations.",
           "From GV Require Import C42.Model.", "Open Scope Z_scope."]
    names = []
    for k, c in enumerate(cases):
        ops = "[" + "; ".join(op_to_coq(o) for o in c["ops"]) + "]"
        obs = "[" + "; ".join(str(row_hash(row)) for row in c["obs"]) + "]"
        out.append("Definition r%d := check_case_h 1 %s %d %s %s." % (k, b(c["notify"]), c["window"], ops, obs))
        names.append("(%d%%nat, r%d)" % (k, k))
    out.append("Definition results : list (nat * option (nat * list Z)) := [%s]." % "; ".join(names))
    out.append("Definition bad := filter (fun r => match snd r with Some _ => true | None => false end) results.")
    out.append("Definition summary := (length results, length bad, firstn 3 bad).")
    out.append("Eval vm_compute in summary.")
    return "\n".join(out) + "\n"


def parse_summary(txt):
    """returns (n_cases, n_bad, [(case, step, model_obs)]) or None"""
    flat = " ".join(txt.split())
    m = re.search(r"= \((\d+)%nat, (\d+)%nat, (\[.*\])\) : ", flat)
    if not m:
        return None
    bad = []
    for mm in re.finditer(r"\((\d+)%nat, Some \((\d+)%nat, \[([^\]]*)\]\)\)", m.group(3)):
        obs = [int(x.strip().strip("()")) for x in mm.group(3).split(";") if x.strip()]
        bad.append((int(mm.group(1)), int(mm.group(2)), obs))
    return int(m.group(1)), int(m.group(2)), bad


# ------------------------------------------------------------------ decoding of an observation row
def split_groups(row):
    """row -> dict with the messages per recipient and both state vectors"""
    def cut(lst, a, bmark):
        i, j = lst.index(a), None
        return i, j
    # markers appear in fixed order: 100 .. 101 .. 102 s 110 .. 111 .. 112 s 200 ... 210 ...
    i100 = 0
    assert row[0] == 100
    # scan message groups by known arities
    arity = {1: 4, 2: 4, 3: 3, 4: 5, 5: 4, 11: 2, 12: 6, 13: 4, 14: 4, 99: 1}
    pos = 1

    def read_group(endmark):
        nonlocal pos
        msgs = []
        while row[pos] != endmark:
            a = arity[row[pos]]
            msgs.append(tuple(row[pos:pos + a]))
            pos += a
        pos += 1
        return msgs
    toCC = read_group(101)
    toProd = read_group(102)
    pshut = row[pos]
    pos += 1
    assert row[pos] == 110
    pos += 1
    toPC = read_group(111)
    toCons = read_group(112)
    cshut = row[pos]
    pos += 1
    assert row[pos] == 200
    p = {}
    p["cur"], p["conf"], n = row[pos + 1], row[pos + 2], row[pos + 3]
    pos += 4
    p["unconf"] = [(row[pos + 2 * k], row[pos + 2 * k + 1]) for k in range(n)]
    pos += 2 * n
    (p["reg"], p["nonce"], p["demand"], p["span"], p["hs"], p["tok"], p["pmid"], p["pseq"], p["stored"],
     p["ltok"], p["lmid"], p["failed"]) = row[pos:pos + 12]
    pos += 12
    assert row[pos] == 210
    c = {}
    c["res"], c["sess"], c["nonce"], c["exp"], c["conf"], c["upto"], n = row[pos + 1:pos + 8]
    pos += 8
    c["buf"] = [(row[pos + 2 * k], row[pos + 2 * k + 1]) for k in range(n)]
    pos += 2 * n
    c["infl"] = (row[pos + 1], row[pos + 2]) if row[pos] == 1 else None
    pos += 3
    c["saw"], c["failed"] = row[pos], row[pos + 1]
    return {"toCC": toCC, "toProd": toProd, "pshut": pshut, "toPC": toPC, "toCons": toCons, "cshut": cshut, "P": p, "C": c}


def make_plans(ctx, prefix, mix, n_cases, steps_lo, steps_hi, windows):
    """mix: list of (mode, weight)"""
    rng = ctx.rng
    plans = []
    modes = [m for m, w in mix for _ in range(w)]
    for k in range(n_cases):
        plans.append({"id": "%s%d" % (prefix, k), "mode": rng.choice(modes), "window": rng.choice(windows),
                      "notify": rng.random() < 0.7, "steps": rng.randint(steps_lo, steps_hi),
                      "seed": rng.randrange(1, 2 ** 62)})
    return plans


def load_corpus(path):
    out = []
    if os.path.isdir(path):
        for fn in sorted(os.listdir(path)):
            if fn.endswith(".json"):
                out.append(json.load(open(os.path.join(path, fn))))
    return out


def is_legit(o):
    return o["op"] not in ("RawPC", "RawCC")
