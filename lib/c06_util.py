"""Helpers of checks/C06.py: Python mirror of C06/Model.v's driver level (used only to generate
scenarios and expectations the Go harness waits for), the clause oracle on recorded events."""
import json
import os
import random
import re

from vlib import read_jsonl, canon_hash


class Sim:
    def __init__(self, fp=False, gate_recv=False):
        self.fp, self.gate_recv = fp, gate_recv
        self.inc = 0
        self.running = self.stopping = self.passivating = self.initing = False
        self.pre_done = self.post_begun = self.beh = False
        self.mbox = self.pills = self.inflight = self.inflight_p = 0
        self.w = "idle"
        self.cs = None
        self.pass_wait = False
        self.trace = []
        assert self.step("InitBegin") and self.step("InitEnd")

    def is_running(self):
        return self.running and not self.stopping and not self.passivating

    def step(self, l):
        if l == "InitBegin":
            if (not self.running) and (not self.initing) and self.cs is None and self.w == "idle":
                self.inc += 1
                self.initing, self.pre_done, self.post_begun, self.beh = True, False, False, True
                return True
            return False
        if l == "InitEnd":
            if not self.initing:
                return False
            self.running, self.initing, self.pre_done = True, False, True
            self.trace.append("pre")
            return True
        if l in ("TellCheck", "PillCheck"):
            if not self.is_running():
                return False
            if l == "TellCheck":
                self.inflight += 1
            else:
                self.inflight_p += 1
            return True
        if l == "TellEnq":
            if self.inflight == 0:
                return False
            self.inflight -= 1
            self.mbox += 1
            return True
        if l == "PillEnq":
            if self.inflight_p == 0:
                return False
            self.inflight_p -= 1
            self.pills += 1
            return True
        if l == "TurnBegin":
            if self.w == "idle" and (self.mbox > 0 or self.pills > 0):
                self.w = "turn"
                return True
            return False
        if l == "Take":
            if self.w != "turn":
                return False
            if self.pills > 0:
                self.pills -= 1
                self.w = "pill"
            elif self.mbox > 0:
                self.mbox -= 1
                if self.beh:
                    self.w = "recv"
                    self.trace.append("recvB")
            else:
                self.w = "idle"
            return True
        if l == "RecvEnd":
            if self.w != "recv":
                return False
            self.w = "turn"
            self.trace.append("recvE")
            return True
        if l == "PillLock":
            if self.w != "pill" or self.cs is not None:
                return False
            if self.running:
                self.stopping = True
                self.cs = ("on", "locked")
            else:
                self.w = "turn"
            return True
        if l == "OffStop":
            if self.cs is not None:
                return False
            if self.running:
                self.stopping = True
                self.cs = ("off", "locked")
            return True
        if l == "PassCheck":
            if self.stopping or self.pass_wait:
                return False
            self.passivating = True
            self.pass_wait = True
            return True
        if l == "PassLock":
            if self.cs is not None or not self.pass_wait:
                return False
            self.pass_wait = False
            if self.fp and not self.running:
                self.passivating = False
            else:
                self.cs = ("pass", "locked")
            return True
        if l == "PostBegin":
            if self.cs and self.cs[1] == "locked":
                self.cs = (self.cs[0], "post")
                self.post_begun = True
                self.trace.append("postB")
                return True
            return False
        if l == "PostEnd":
            if self.cs and self.cs[1] == "post":
                o = self.cs[0]
                self.running = self.stopping = self.passivating = False
                self.beh = False
                self.cs = None
                if o == "on":
                    self.w = "turn"
                self.trace.append("postE")
                return True
            return False
        raise ValueError(l)

    def internal_label(self):
        if self.cs and self.cs[1] == "locked":
            return "PostBegin"
        pl = "PassLock" if (self.pass_wait and self.cs is None) else None
        if self.w == "pill":
            return "PillLock" if self.cs is None else None
        if self.w == "recv":
            return pl if self.gate_recv else "RecvEnd"
        if self.w == "turn":
            return "Take"
        if self.mbox > 0 or self.pills > 0:
            return "TurnBegin"
        return pl

    def quiesce(self):
        for _ in range(200):
            l = self.internal_label()
            if l is None or not self.step(l):
                return

    def drive(self, d):
        ok = True
        if d == "tell":
            ok = self.step("TellCheck") and self.step("TellEnq")
        elif d == "pill":
            ok = self.step("PillCheck") and self.step("PillEnq")
        elif d == "check":
            ok = self.step("TellCheck")
        elif d == "enq":
            ok = self.step("TellEnq")
        elif d == "stop_off":
            self.step("OffStop")
        elif d == "passivate":
            ok = self.step("PassCheck")
        elif d == "release_recv":
            ok = self.step("RecvEnd")
        elif d == "release_post":
            ok = self.step("PostEnd")
        if not ok:
            return 1
        self.quiesce()
        return 0

    def in_post(self):
        return bool(self.cs and self.cs[1] == "post")

    def observe(self):
        c = lambda k: sum(1 for e in self.trace if e == k)
        return [int(self.w == "recv"), int(self.in_post()), int(self.is_running()), c("pre"), c("recvB"), c("recvE"), c("postB"), c("postE")]


COQ_ACTION = {"tell": "DTell", "pill": "DPill", "check": "DCheck", "enq": "DEnq", "stop_off": "DStopOff",
              "passivate": "DPassivate", "release_recv": "DReleaseRecv", "release_post": "DReleasePost"}

CORPUS = [
    # Shutdown from another goroutine while the handler is blocked: overlap (clause 4)
    (True, ["tell", "stop_off", "release_post", "release_recv"], "offturn-during-receive"),
    # send in flight across the stop lands while PostStop runs: Receive starts after PostStop began (clause 3)
    (False, ["check", "stop_off", "enq", "release_post"], "inflight-during-poststop"),
    # PoisonPill behind a blocked handler, with more traffic: on-turn stop
    (True, ["tell", "tell", "pill", "release_recv", "release_recv", "release_post", "tell"], "poisonpill"),
    # passivation entry fires, the actor is stopped first, then tryPassivation gets the lock (clause 2)
    (False, ["passivate", "release_post", "stop_off"], "passivation-then-stop"),
    (False, ["stop_off", "passivate", "release_post", "release_post"], "stop-then-passivation"),
    # two stoppers
    (False, ["stop_off", "stop_off", "release_post", "stop_off", "tell"], "double-stop"),
    # send in flight lands after the stop completed: dropped, no Receive
    (False, ["check", "stop_off", "release_post", "enq"], "inflight-after-stop"),
]


def gen_scenarios(ctx, fp):
    rng = random.Random(ctx.seed * 104729 + 7)
    n_sc = 300 if ctx.thorough else 40
    out = []

    def build(gate_recv, script, tag):
        sim = Sim(fp, gate_recv)
        actions, expect = [], []
        for d in script:
            sim.drive(d)
            actions.append(d)
            expect.append(sim.observe())
        return {"gate_recv": gate_recv, "actions": actions, "expect": expect, "tag": tag}
    for gr, script, tag in CORPUS:
        out.append(build(gr, script, tag))
    while len(out) < n_sc:
        gate_recv = rng.random() < 0.6
        sim = Sim(fp, gate_recv)
        actions, expect = [], []

        def do(d):
            sim.drive(d)
            actions.append(d)
            expect.append(sim.observe())
        for _ in range(rng.choice([4, 8, 12, 16])):
            r = rng.random()
            if r < 0.25:
                do("tell")
            elif r < 0.32:
                do("pill")
            elif r < 0.42:
                do("check")
            elif r < 0.52 and sim.inflight > 0:
                do("enq")
            elif r < 0.62:
                do("stop_off")
            elif r < 0.70 and not sim.pass_wait and sim.inc == 1:
                do("passivate")
            elif r < 0.85 and sim.w == "recv" and gate_recv:
                do("release_recv")
            elif sim.in_post():
                do("release_post")
            else:
                do("tell")
        # drain: release whatever is blocked so the run ends quiescent
        for _ in range(40):
            if sim.in_post():
                do("release_post")
            elif sim.w == "recv" and gate_recv:
                do("release_recv")
            else:
                break
        out.append({"gate_recv": gate_recv, "actions": actions, "expect": expect, "tag": "gen"})
    return out


# ---------------------------------------------------------------------------------------------
# the property's own predicate on recorded events of ONE actor ("C")
# ---------------------------------------------------------------------------------------------
def clause_oracle(events, who="C"):
    """returns list of (clause, message, detail).  Incarnation = from a preB to the next preB."""
    ev = [e for e in events if e["who"] == who]
    out = []
    inc = 0
    pre_done = post_begun = False
    post_count = 0
    in_recv = 0
    in_post = 0
    recv_g = None
    post_g = None
    for e in ev:
        k = e["kind"]
        if k == "preB":
            inc += 1
            pre_done = post_begun = False
            post_count = 0
            if in_recv:
                out.append(("prestart-during-receive", "PreStart of incarnation %d began while a Receive was running (seq %d)" % (inc, e["seq"]), {"seq": e["seq"]}))
        elif k == "preE":
            pre_done = True
        elif k == "recvB":
            in_recv += 1
            recv_g = e["g"]
            if not pre_done:
                out.append(("receive-before-prestart-completed", "Receive started (seq %d) before PreStart of incarnation %d completed" % (e["seq"], inc), {"seq": e["seq"]}))
            if post_begun:
                out.append(("receive-after-poststop-began", "Receive started (seq %d) after PostStop of incarnation %d had begun" % (e["seq"], inc), {"seq": e["seq"]}))
            if in_post and post_g != e["g"]:
                out.append(("overlap", "Receive started (seq %d, goroutine %d) while PostStop was running on goroutine %d" % (e["seq"], e["g"], post_g), {"seq": e["seq"]}))
        elif k == "recvE":
            in_recv -= 1
        elif k == "postB":
            post_count += 1
            post_g = e["g"]
            if post_count > 1:
                out.append(("poststop-twice", "PostStop ran %d times for incarnation %d (seq %d)" % (post_count, inc, e["seq"]), {"seq": e["seq"]}))
            post_begun = True
            in_post += 1
            if in_recv and recv_g != e["g"]:
                out.append(("overlap", "PostStop began (seq %d, goroutine %d) while Receive was running on goroutine %d" % (e["seq"], e["g"], recv_g), {"seq": e["seq"]}))
        elif k == "postE":
            in_post -= 1
    return out
