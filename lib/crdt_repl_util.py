"""C39, replicator level: the real replicatorActor handlers (handleUpdate / handleProtoDelta+handleDelta /
handleFullState) on 3 replicas; convergence oracle at quiescence + comparison with the Coq model of the replicator step
(C41/Model.v) on the same histories."""
import os
import random

from vlib import read_jsonl, canon_hash, zlit
import crdt_util as cu

HOUR = 3600 * 10 ** 9


def gen(rng, kind):
    nrepl = 3
    msgs = []
    if kind == "gcounter-deltas":
        keys = [0, 1]
        nupd = rng.choice([3, 6, 10])
        sums = {0: 0, 1: 0}
        n_out = 0
        for _ in range(nupd):
            r, k, v = rng.randrange(nrepl), rng.choice(keys), rng.choice([0, 1, 2, 5, 2 ** 32])
            msgs.append({"m": "update", "r": r, "k": k, "op": "inc", "v": v, "sender": rng.random() < 0.3})
            sums[k] += v
            n_out += 1
            for _j in range(rng.randrange(0, 3)):     # some early, possibly repeated, out-of-order deliveries
                msgs.append({"m": "deliver", "r": rng.randrange(nrepl), "out": rng.randrange(n_out)})
            if rng.random() < 0.35:                   # a coordinated read pulls the peers' states into a replica (maybe one that never saw the key)
                rr = rng.randrange(nrepl)
                msgs.append({"m": "getc", "r": rr, "k": rng.choice(keys), "peers": [p for p in range(nrepl) if p != rr and rng.random() < 0.8]})
                if rng.random() < 0.7 and n_out:
                    msgs.append({"m": "deliver", "r": rr, "out": rng.randrange(n_out)})
        # quiescence: every delta reaches every replica at least once, in a shuffled order, some twice
        todo = [(r, i) for r in range(nrepl) for i in range(n_out)]
        todo += [rng.choice(todo) for _ in range(rng.randrange(0, 5))]
        rng.shuffle(todo)
        for r, i in todo:
            msgs.append({"m": "deliver", "r": r, "out": i})
        final = len(msgs)
        for r in range(nrepl):
            for k in keys:
                msgs.append({"m": "get", "r": r, "k": k})
        return {"ttl": HOUR, "nrepl": nrepl, "kind": kind, "msgs": msgs, "final": final, "keys": keys, "sums": sums}
    # ORSet keys replicated by anti-entropy full states only
    keys = [2, 3]
    for _ in range(rng.choice([3, 6, 10])):
        r, k = rng.randrange(nrepl), rng.choice(keys)
        msgs.append({"m": "update", "r": r, "k": k, "op": rng.choice(["add", "add", "rem"]), "e": rng.choice([1, 2, 3])})
        if rng.random() < 0.3:
            rr = rng.randrange(nrepl)
            msgs.append({"m": "getc", "r": rr, "k": rng.choice(keys), "peers": [p for p in range(nrepl) if p != rr and rng.random() < 0.8]})
        if rng.random() < 0.5:
            src = rng.randrange(nrepl)
            msgs.append({"m": "full", "r": rng.randrange(nrepl), "entries": [{"k": kk, "from": src, "bad": ""} for kk in keys if rng.random() < 0.8]})
    pre = len(msgs)
    for k in keys:      # oracle reference: the join of all replicas' values before the exchange rounds
        msgs.append({"m": "mergeall", "r": 0, "k": k})
    for _round in range(2):
        pairs = [(a, b) for a in range(nrepl) for b in range(nrepl) if a != b]
        rng.shuffle(pairs)
        for a, b in pairs:
            msgs.append({"m": "full", "r": a, "entries": [{"k": kk, "from": b, "bad": ""} for kk in keys]})
    final = len(msgs)
    for r in range(nrepl):
        for k in keys:
            msgs.append({"m": "get", "r": r, "k": k})
    return {"ttl": HOUR, "nrepl": nrepl, "kind": kind, "msgs": msgs, "final": final, "keys": keys, "sums": None, "pre": pre}


def run(ctx, viol):
    from checks import C41 as c41
    rng = random.Random(ctx.seed * 101 + 9)
    n = 400 if ctx.thorough else 40
    hs = [gen(rng, "gcounter-deltas" if i % 2 == 0 else "orset-full-states") for i in range(n)]
    for i, h in enumerate(hs):
        h["id"] = i
    cu.write_progs(os.path.join(ctx.work, "c39_hist.jsonl"), hs)
    outp = os.path.join(ctx.work, "c39_hist_out.jsonl")
    if os.path.exists(outp):
        os.remove(outp)
    rc, out = ctx.go_test("actor", "^TestVerifC39", ["zz_verif_C39_test.go", "zz_verif_C41_test.go"], timeout=1500)
    outs = read_jsonl(outp)
    if rc != 0 or len(outs) != len(hs):
        ctx.tie_broken("go-harness actor.replicatorActor (C39)", out)
        return {"status": "harness-failed"}
    by_id = {o["id"]: o for o in outs}
    steps, distinct, cases = 0, set(), []
    for h in hs:
        o = by_id[h["id"]]
        if o.get("panic"):
            viol("replicator:panic", "replicator panicked: %s" % o["panic"], {"history": h})
            continue
        steps += len(o["steps"])
        # what a replica has learnt is never lost again: per key, per node, counts / clock entries never decrease
        # (these histories contain no Delete)
        lastc = {}
        for i, (m, st) in enumerate(zip(h["msgs"], o["steps"])):
            if m["m"] == "mergeall":
                continue
            r = m["r"]
            cur = {}
            for k, v in st["state"][0]:
                if v and v[0] == 1:
                    cur[k] = dict((n, c) for n, c in v[2])
                elif v and v[0] == 6:
                    cur[k] = dict((n, c) for n, c in v[2][1])
            for k, before in lastc.get(r, {}).items():
                after = cur.get(k)
                if after is None or any(after.get(n, 0) < c for n, c in before.items()):
                    viol("replicator:%s:learnt-state-lost" % h["kind"],
                         "replica %d, key k%d: per-node counts went from %s to %s while processing %s" % (r, k, before, after, m["m"]),
                         {"history": {"ttl": h["ttl"], "nrepl": h["nrepl"], "msgs": h["msgs"][:i + 1]}, "step": i})
                    break
            lastc[r] = cur
        finals = {}
        for m, st in list(zip(h["msgs"], o["steps"]))[h["final"]:]:
            finals.setdefault(m["k"], []).append((m["r"], st["resp"]))
        rep = {"history": {"ttl": h["ttl"], "nrepl": h["nrepl"], "msgs": h["msgs"]}}
        want = {}
        if h.get("pre") is not None:
            for j, k in enumerate(h["keys"]):
                want[k] = o["steps"][h["pre"] + j]["resp"]
        for k, rs in finals.items():
            vals = [r[1] for r in rs]
            if k in want and any(v[1][:2] != want[k][1][:2] if v != [3, []] and want[k] != [3, []] else v != want[k] for v in vals):
                viol("replicator:%s:differs-from-merge-of-full-states" % h["kind"],
                     "k%d: after the full-state exchange replicas expose %s, the merge of the replicas' states before the exchange exposes %s" % (k, [v[1][1] if v != [3, []] else None for v in vals], want[k][1][1] if want[k] != [3, []] else None), rep)
                continue
            if any(v != vals[0] for v in vals):
                viol("replicator:%s:replicas-diverge" % h["kind"], "after every update reached every replica, replicas expose different values for k%d: %s" % (k, vals), rep)
            elif h["sums"] is not None and vals[0] != [3, []] and vals[0][1][1] != h["sums"][k] % 2 ** 64:
                viol("replicator:gcounter-increment-lost", "k%d: replicas expose %s, the increments sum to %d" % (k, vals[0][1][1], h["sums"][k]), rep)
            elif h["sums"] is not None and vals[0] == [3, []] and any(m["m"] == "update" and m["k"] == k for m in h["msgs"]):
                viol("replicator:gcounter-increment-lost", "k%d updated but absent on every replica" % k, rep)
        distinct.add(canon_hash([h["kind"], [st["state"] for st in o["steps"][h["final"]:]]]))
        items, wants, n_outs = [], [], 0
        for m, st in zip(h["msgs"], o["steps"]):
            if m["m"] == "mergeall":
                continue
            items.append(c41.hmsg_coq(m, st, n_outs, h["ttl"]))
            wants.append([st["state"], st["out"], st["resp"]])
            n_outs += len(st["out"])
        cases.append((h, items, wants))
    # model tie on a sample
    budget = 6000 if ctx.thorough else 500
    random.Random(ctx.seed + 77).shuffle(cases)
    sel, tot = [], 0
    for c in cases:
        if tot + len(c[1]) <= budget:
            sel.append(c)
            tot += len(c[1])
    its = []
    for (h, items, wants) in sel:
        its.append("(%d%%nat, %s%%Z, %d%%nat, [%s], [%s])" % (h["id"], zlit(h["ttl"]), h["nrepl"], "; ".join(items), "; ".join(cu.tree(w) for w in wants)))
    body = """From stdpp Require Import gmap.
From Coq Require Import ZArith.
From GV Require Import C38.Model C38.Exec C41.Model C41.Exec.
Definition cases : list (nat * Z * nat * list hmsg * list tree) := [%s].
Definition bad := omap (fun c => match c with (i, ttl, n, p, w) => match check_hist ttl n p w with Some k => Some (i, k) | None => None end end) cases.
Definition summary := (length cases, length bad, firstn 5 bad).
Eval vm_compute in summary.
""" % ";\n ".join(its)
    mism = None
    ok_model, mout = ctx.coq_build(["theories/C41/Exec.vo"])
    if not ok_model:
        ctx.tie_broken("C41/Exec.v (replicator model) does not compile", mout)
    else:
        rc2, o2 = ctx.coq_eval("cases_C39_repl", body, timeout=1500)
        s = cu.parse_summary(o2)
        if rc2 != 0 or s is None:
            ctx.tie_broken("model evaluation (cases_C39_repl.v did not evaluate)", o2)
        else:
            mism = s[1]
            if s[2]:
                hid, si = s[2][0]
                h = [x for x in hs if x["id"] == hid][0]
                ctx.tie_broken("model-vs-implementation replicator step (C39)", {"mismatching_histories": s[1], "first": {"nrepl": h["nrepl"], "msgs": h["msgs"][:si + 1], "step": si,
                               "implementation": by_id[hid]["steps"][si]}})
    return {"status": "ran", "histories": len(hs), "steps": steps, "distinct": len(distinct), "model_compared_steps": tot, "model_mismatches": mism}
