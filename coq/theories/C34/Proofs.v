(* C34 — proofs about the membership event tracker model (C34/Model.v).

   Each clause of the property is a monitor automaton reading the flattened trace (notifications and
   emitted events in order); a theorem says the monitor never rejects, for every history.  The proofs
   link the monitor's state to the tracker's state ([Lk]) and show every building block of [step]
   preserves the link ([good]). *)
From Coq Require Import ZArith Lia.
From stdpp Require Import gmap.
From GV Require Import C34.Model.
Open Scope Z_scope.

(* ---------------------------------------------------------------- monitors over emitted lists *)
Section Mon.
  Context {A : Type} (mon : A -> emitted -> option A) (Lk : A -> st -> Prop).

  Fixpoint runm (a : A) (outs : list emitted) : option A :=
    match outs with
    | [] => Some a
    | o :: r => match mon a o with Some a1 => runm a1 r | None => None end
    end.

  Lemma runm_app a o1 o2 :
    runm a (o1 ++ o2) = match runm a o1 with Some a1 => runm a1 o2 | None => None end.
  Proof. revert a. induction o1 as [|o o1 IH]; intros a; simpl; [done|]. destruct (mon a o); [apply IH|done]. Qed.

  Definition good (f : st -> st * list emitted) : Prop :=
    forall s a, Lk a s -> exists a', runm a (f s).2 = Some a' /\ Lk a' (f s).1.

  Lemma good_loop f l : (forall p, good (fun s => f s p)) -> good (loop f l).
  Proof.
    intros Hf. induction l as [|p l IH]; intros s a Hl; simpl; [eauto|].
    destruct (Hf p s a Hl) as (a1 & Hr1 & Hl1). destruct (f s p) as [s1 o1] eqn:Hfp. simpl in *.
    destruct (IH s1 a1 Hl1) as (a2 & Hr2 & Hl2). destruct (loop f l s1) as [s2 o2]. simpl in *.
    exists a2. split; [|done]. by rewrite runm_app, Hr1.
  Qed.

  Lemma good_seq f g :
    good f -> good g ->
    good (fun s => let '(s1, o1) := f s in let '(s2, o2) := g s1 in (s2, o1 ++ o2)).
  Proof.
    intros Hf Hg s a Hl. destruct (Hf s a Hl) as (a1 & Hr1 & Hl1). destruct (f s) as [s1 o1]. simpl in *.
    destruct (Hg s1 a1 Hl1) as (a2 & Hr2 & Hl2). destruct (g s1) as [s2 o2]. simpl in *.
    exists a2. split; [|done]. by rewrite runm_app, Hr1.
  Qed.
End Mon.

(* ---------------------------------------------------------------- shared state invariant *)
(* a node with a pending departure has not been reported as left *)
Definition Disj (s : st) : Prop := forall n, is_Some (LT s !! n) -> n ∉ LF s.

Lemma Disj_init : Disj init.
Proof. intros n [x Hx]. simpl in Hx. by rewrite lookup_empty in Hx. Qed.

(* ---------------------------------------------------------------- clause 1: NodeJoined at most once *)
Section Joined.
  Variable n : node.

  Definition mon1 (a : bool) (o : emitted) : option bool :=
    match o with
    | EJoined m _ => if Pos.eqb m n then (if a then None else Some true) else Some a
    | ELeft m _ => if Pos.eqb m n then Some false else Some a
    end.

  Definition in1 (a : bool) (x : ev) : bool :=
    match x with Left m _ => if Pos.eqb m n then false else a | _ => a end.

  Definition Lk1 (a : bool) (s : st) : Prop := Disj s /\ (a = true -> n ∈ JF s).

  Lemma Lk1_same a s s' :
    Lk1 a s -> JF s' = JF s -> LF s' = LF s -> LT s' = LT s -> Lk1 a s'.
  Proof. intros [Hd Ha] H1 H2 H3. split; [|by rewrite H1]. intros k. rewrite H2, H3. apply Hd. Qed.

  Lemma g1_settle_left m t s a :
    LT s !! m = Some t -> Lk1 a s ->
    exists a', runm mon1 a (settle_left m t s).2 = Some a' /\ Lk1 a' (settle_left m t s).1.
  Proof.
    intros Hm [Hd Ha]. unfold settle_left, emit_left. simpl.
    destruct (decide (m ∈ LF s)) as [Hin|Hnin]; [exfalso; by apply (Hd m)|]. simpl.
    assert (Hd' : Disj (set_LE (delete m (LE s)) (set_LT (delete m (LT s))
                    (set_LF (LF s ∪ {[m]}) (set_JF (JF s ∖ {[m]}) s))))).
    { intros k [x Hk]. simpl in *. apply lookup_delete_Some in Hk as [Hne Hk].
      intros Hin. apply elem_of_union in Hin as [Hin|Hin]; [by apply (Hd k)|]. set_solver. }
    destruct (Pos.eqb_spec m n) as [->|Hne].
    - exists false. split; [done|]. split; [done|]. done.
    - exists a. split; [done|]. split; [done|]. simpl. intros Ht. specialize (Ha Ht). set_solver.
  Qed.

  Lemma g1_settle_join m t s a :
    Lk1 a s ->
    exists a', runm mon1 a (settle_join m t s).2 = Some a' /\ Lk1 a' (settle_join m t s).1.
  Proof.
    intros [Hd Ha]. unfold settle_join, emit_joined.
    destruct (decide (m ∈ JF s)) as [Hin|Hnin]; simpl.
    - exists a. split; [done|]. split; [done|]. done.
    - destruct (Pos.eqb_spec m n) as [->|Hne].
      + destruct a; [exfalso; by apply Hnin, Ha|]. exists true. split; [done|]. split; [done|]. simpl. set_solver.
      + exists a. split; [done|]. split; [done|]. simpl. intros Ht. specialize (Ha Ht). set_solver.
  Qed.

  Lemma g1_pending_left e : good mon1 Lk1 (emit_pending_left e).
  Proof.
    intros s. apply good_loop. clear s. intros p s a Hl. unfold pending_left_one.
    destruct (N.eqb p.2 e); [|eauto].
    destruct (LT s !! p.1) as [t|] eqn:Ht; [by apply g1_settle_left|].
    exists a. split; [done|]. by eapply Lk1_same.
  Qed.

  Lemma g1_pending_join e : good mon1 Lk1 (emit_pending_join e).
  Proof.
    intros s. apply good_loop. clear s. intros p s a Hl. unfold pending_join_one.
    destruct (N.eqb p.2 e); [|eauto].
    destruct (JT s !! p.1) as [t|] eqn:Ht; [by apply g1_settle_join|].
    exists a. split; [done|]. by eapply Lk1_same.
  Qed.

  Lemma Disj_insert_LT m t s :
    Disj s -> m ∉ LF s -> forall k, is_Some (<[m := t]> (LT s) !! k) -> k ∉ LF s.
  Proof.
    intros Hd Hm k [x Hk]. destruct (decide (k = m)) as [->|Hne]; [done|].
    rewrite lookup_insert_ne in Hk by done. apply Hd. eauto.
  Qed.

  Lemma step_Lk1 self filt s a x :
    Lk1 a s ->
    exists a', runm mon1 (in1 a x) (step self filt s x).2 = Some a' /\ Lk1 a' (step self filt s x).1.
  Proof.
    intros Hl. destruct x as [m t|m t|e r m|e|m]; simpl.
    - (* Join *) unfold track_join.
      destruct (Pos.eqb m self); [eauto|]. destruct (decide (m ∈ JF s)); [eauto|].
      destruct (JT s !! m); [eauto|].
      set (s1 := set_JT (<[m:=t]> (JT s)) s). assert (Hl1 : Lk1 a s1) by (by eapply Lk1_same).
      destruct (N.eqb (jl s1) 0); [eauto|].
      set (s2 := set_JE (<[m:=jl s1]> (JE s1)) s1). assert (Hl2 : Lk1 a s2) by (by eapply Lk1_same).
      destruct (decide (jl s2 ∈ CS s2)); [by apply g1_pending_join|eauto].
    - (* Left *) unfold track_left.
      assert (Hl0 : Lk1 (if Pos.eqb m n then false else a) s).
      { destruct (Pos.eqb m n); [|done]. split; [apply Hl|done]. }
      destruct (filt && Pos.eqb m self); [eauto|].
      set (s0 := set_JF (JF s ∖ {[m]}) s).
      assert (Hl0' : Lk1 (if Pos.eqb m n then false else a) s0).
      { destruct Hl as [Hd Ha]. split; [done|]. destruct (Pos.eqb_spec m n) as [->|Hne]; [done|].
        intros Ht. specialize (Ha Ht). simpl. set_solver. }
      destruct (decide (m ∈ LF s0)) as [|Hnin]; [eauto|].
      destruct (LT s0 !! m); [eauto|].
      set (s1 := set_LT (<[m:=t]> (LT s0)) s0).
      assert (Hl1 : Lk1 (if Pos.eqb m n then false else a) s1).
      { destruct Hl0' as [Hd Ha]. split; [|done]. intros k Hk. by eapply (Disj_insert_LT m t s0). }
      destruct (N.eqb (ll s1) 0); [eauto|].
      set (s2 := set_LE (<[m:=ll s1]> (LE s1)) s1).
      assert (Hl2 : Lk1 (if Pos.eqb m n then false else a) s2) by (by eapply Lk1_same).
      destruct (decide (ll s2 ∈ CS s2)); [by apply g1_pending_left|eauto].
    - (* RebStart *) unfold reb_start. destruct r; [| |eauto].
      + destruct (decide (e ∈ SS s)); [eauto|].
        set (s3 := set_LE _ _). assert (Hl3 : Lk1 a s3) by (by eapply Lk1_same).
        destruct (decide (e ∈ CS s3)); [by apply g1_pending_left|eauto].
      + destruct (Pos.eqb m self); [eauto|]. destruct (decide (e ∈ SS s)); [eauto|].
        set (s3 := set_JE _ _). assert (Hl3 : Lk1 a s3) by (by eapply Lk1_same).
        destruct (decide (e ∈ CS s3)); [by apply g1_pending_join|eauto].
    - (* RebComplete *) unfold reb_complete. destruct (decide (e ∈ CS s)); [eauto|].
      set (s1 := set_CS _ s). assert (Hl1 : Lk1 a s1) by (by eapply Lk1_same).
      apply (good_seq mon1 Lk1 _ _ (g1_pending_left e) (g1_pending_join e) s1 a Hl1).
    - (* LeftTimeout *) unfold left_timeout. destruct (LT s !! m) eqn:Hm; [by apply g1_settle_left|eauto].
  Qed.

  (* the monitor over a whole flattened trace *)
  Fixpoint monitor1 (a : bool) (items : list (item)) : option bool :=
    match items with
    | [] => Some a
    | In x :: r => monitor1 (in1 a x) r
    | Out o :: r => match mon1 a o with Some a1 => monitor1 a1 r | None => None end
    end.

  Lemma monitor1_app_outs a outs r :
    monitor1 a (map Out outs ++ r) = match runm mon1 a outs with Some a1 => monitor1 a1 r | None => None end.
  Proof. revert a. induction outs as [|o outs IH]; intros a; simpl; [done|]. destruct (mon1 a o); [apply IH|done]. Qed.

  Theorem joined_at_most_once self filt : forall h s a,
    Lk1 a s -> exists a', monitor1 a (flat self filt h s) = Some a'.
  Proof.
    induction h as [|x h IH]; intros s a Hl; simpl; [eauto|].
    destruct (step_Lk1 self filt s a x Hl) as (a1 & Hr & Hl1).
    destruct (step self filt s x) as [s' o]. simpl in *.
    rewrite monitor1_app_outs, Hr. by apply IH.
  Qed.
End Joined.

(* ---------------------------------------------------------------- clause 2: NodeLeft at most once (ever) *)
Section LeftOnce.
  Variable n : node.

  Definition mon2 (a : bool) (o : emitted) : option bool :=
    match o with
    | ELeft m _ => if Pos.eqb m n then (if a then None else Some true) else Some a
    | EJoined _ _ => Some a
    end.

  Definition Lk2 (a : bool) (s : st) : Prop := Disj s /\ (a = true -> n ∈ LF s).

  Lemma Lk2_same a s s' :
    Lk2 a s -> LF s' = LF s -> LT s' = LT s -> Lk2 a s'.
  Proof. intros [Hd Ha] H2 H3. split; [|by rewrite H2]. intros k. rewrite H2, H3. apply Hd. Qed.

  Lemma g2_settle_left m t s a :
    LT s !! m = Some t -> Lk2 a s ->
    exists a', runm mon2 a (settle_left m t s).2 = Some a' /\ Lk2 a' (settle_left m t s).1.
  Proof.
    intros Hm [Hd Ha]. unfold settle_left, emit_left. simpl.
    destruct (decide (m ∈ LF s)) as [Hin|Hnin]; [exfalso; by apply (Hd m)|]. simpl.
    assert (Hd' : Disj (set_LE (delete m (LE s)) (set_LT (delete m (LT s))
                    (set_LF (LF s ∪ {[m]}) (set_JF (JF s ∖ {[m]}) s))))).
    { intros k [x Hk]. simpl in *. apply lookup_delete_Some in Hk as [Hne Hk].
      intros Hin. apply elem_of_union in Hin as [Hin|Hin]; [by apply (Hd k)|]. set_solver. }
    destruct (Pos.eqb_spec m n) as [->|Hne].
    - destruct a; [exfalso; by apply Hnin, Ha|]. exists true. split; [done|]. split; [done|]. simpl. set_solver.
    - exists a. split; [done|]. split; [done|]. simpl. intros Ht. specialize (Ha Ht). set_solver.
  Qed.

  Lemma g2_settle_join m t s a :
    Lk2 a s ->
    exists a', runm mon2 a (settle_join m t s).2 = Some a' /\ Lk2 a' (settle_join m t s).1.
  Proof.
    intros Hl. unfold settle_join, emit_joined.
    destruct (decide (m ∈ JF s)); simpl; exists a; (split; [done|]); by eapply Lk2_same.
  Qed.

  Lemma g2_pending_left e : good mon2 Lk2 (emit_pending_left e).
  Proof.
    intros s. apply good_loop. clear s. intros p s a Hl. unfold pending_left_one.
    destruct (N.eqb p.2 e); [|eauto].
    destruct (LT s !! p.1) as [t|] eqn:Ht; [by apply g2_settle_left|].
    exists a. split; [done|]. by eapply Lk2_same.
  Qed.

  Lemma g2_pending_join e : good mon2 Lk2 (emit_pending_join e).
  Proof.
    intros s. apply good_loop. clear s. intros p s a Hl. unfold pending_join_one.
    destruct (N.eqb p.2 e); [|eauto].
    destruct (JT s !! p.1) as [t|] eqn:Ht; [by apply g2_settle_join|].
    exists a. split; [done|]. by eapply Lk2_same.
  Qed.

  Lemma step_Lk2 self filt s a x :
    Lk2 a s ->
    exists a', runm mon2 a (step self filt s x).2 = Some a' /\ Lk2 a' (step self filt s x).1.
  Proof.
    intros Hl. destruct x as [m t|m t|e r m|e|m]; simpl.
    - unfold track_join.
      destruct (Pos.eqb m self); [eauto|]. destruct (decide (m ∈ JF s)); [eauto|].
      destruct (JT s !! m); [eauto|].
      set (s1 := set_JT (<[m:=t]> (JT s)) s). assert (Hl1 : Lk2 a s1) by (by eapply Lk2_same).
      destruct (N.eqb (jl s1) 0); [eauto|].
      set (s2 := set_JE (<[m:=jl s1]> (JE s1)) s1). assert (Hl2 : Lk2 a s2) by (by eapply Lk2_same).
      destruct (decide (jl s2 ∈ CS s2)); [by apply g2_pending_join|eauto].
    - unfold track_left. destruct (filt && Pos.eqb m self); [eauto|].
      set (s0 := set_JF (JF s ∖ {[m]}) s). assert (Hl0 : Lk2 a s0) by (by eapply Lk2_same).
      destruct (decide (m ∈ LF s0)) as [|Hnin]; [eauto|].
      destruct (LT s0 !! m); [eauto|].
      set (s1 := set_LT (<[m:=t]> (LT s0)) s0).
      assert (Hl1 : Lk2 a s1).
      { destruct Hl0 as [Hd Ha]. split; [|done]. intros k Hk. by eapply (Disj_insert_LT m t s0). }
      destruct (N.eqb (ll s1) 0); [eauto|].
      set (s2 := set_LE (<[m:=ll s1]> (LE s1)) s1). assert (Hl2 : Lk2 a s2) by (by eapply Lk2_same).
      destruct (decide (ll s2 ∈ CS s2)); [by apply g2_pending_left|eauto].
    - unfold reb_start. destruct r; [| |eauto].
      + destruct (decide (e ∈ SS s)); [eauto|].
        set (s3 := set_LE _ _). assert (Hl3 : Lk2 a s3) by (by eapply Lk2_same).
        destruct (decide (e ∈ CS s3)); [by apply g2_pending_left|eauto].
      + destruct (Pos.eqb m self); [eauto|]. destruct (decide (e ∈ SS s)); [eauto|].
        set (s3 := set_JE _ _). assert (Hl3 : Lk2 a s3) by (by eapply Lk2_same).
        destruct (decide (e ∈ CS s3)); [by apply g2_pending_join|eauto].
    - unfold reb_complete. destruct (decide (e ∈ CS s)); [eauto|].
      set (s1 := set_CS _ s). assert (Hl1 : Lk2 a s1) by (by eapply Lk2_same).
      apply (good_seq mon2 Lk2 _ _ (g2_pending_left e) (g2_pending_join e) s1 a Hl1).
    - unfold left_timeout. destruct (LT s !! m) eqn:Hm; [by apply g2_settle_left|eauto].
  Qed.

  (* strict monitor: a second NodeLeft n anywhere in the trace is rejected *)
  Fixpoint monitor2 (a : bool) (items : list item) : option bool :=
    match items with
    | [] => Some a
    | In _ :: r => monitor2 a r
    | Out o :: r => match mon2 a o with Some a1 => monitor2 a1 r | None => None end
    end.

  (* the property's own wording: a second NodeLeft n is allowed again after an arrival notification or
     a NodeJoined for n *)
  Fixpoint monitor2_literal (a : bool) (items : list item) : option bool :=
    match items with
    | [] => Some a
    | In (Join m _) :: r => monitor2_literal (if Pos.eqb m n then false else a) r
    | In _ :: r => monitor2_literal a r
    | Out (EJoined m _) :: r => monitor2_literal (if Pos.eqb m n then false else a) r
    | Out (ELeft m _) :: r =>
        if Pos.eqb m n then (if a then None else monitor2_literal true r) else monitor2_literal a r
    end.

  Lemma monitor2_app_outs a outs r :
    monitor2 a (map Out outs ++ r) = match runm mon2 a outs with Some a1 => monitor2 a1 r | None => None end.
  Proof. revert a. induction outs as [|o outs IH]; intros a; simpl; [done|]. destruct (mon2 a o); [apply IH|done]. Qed.

  Theorem left_at_most_once_ever self filt : forall h s a,
    Lk2 a s -> exists a', monitor2 a (flat self filt h s) = Some a'.
  Proof.
    induction h as [|x h IH]; intros s a Hl; simpl; [eauto|].
    destruct (step_Lk2 self filt s a x Hl) as (a1 & Hr & Hl1).
    destruct (step self filt s x) as [s' o]. simpl in *.
    rewrite monitor2_app_outs, Hr. by apply IH.
  Qed.

  Lemma strict_implies_literal : forall items a b a',
    (b = true -> a = true) -> monitor2 a items = Some a' -> exists b', monitor2_literal b items = Some b'.
  Proof.
    induction items as [|it items IH]; intros a b a' Hba Hm; simpl in *; [eauto|].
    destruct it as [x|o].
    - destruct x; try (by eapply IH). eapply IH; [|done]. destruct (Pos.eqb n0 n); [done|done].
    - destruct o as [m t|m t]; simpl in Hm.
      + eapply IH; [|done]. destruct (Pos.eqb m n); done.
      + destruct (Pos.eqb m n).
        * destruct a; [done|]. destruct b; [by specialize (Hba eq_refl)|]. eapply IH; [|done]. done.
        * by eapply IH.
  Qed.
End LeftOnce.

(* ---------------------------------------------------------------- clause 3: the local node *)
Section Self.
  Variable self : node.
  Variable filt : bool.

  Definition mon3 (a : unit) (o : emitted) : option unit :=
    match o with
    | EJoined m _ => if Pos.eqb m self then None else Some tt
    | ELeft m _ => if filt && Pos.eqb m self then None else Some tt
    end.

  Definition Lk3 (a : unit) (s : st) : Prop :=
    JT s !! self = None /\ (filt = true -> LT s !! self = None).

  Lemma Lk3_same a s s' : Lk3 a s -> JT s' = JT s -> LT s' = LT s -> Lk3 a s'.
  Proof. intros [H1 H2] E1 E2. split; [by rewrite E1|by rewrite E2]. Qed.

  Lemma g3_settle_left m t s a :
    LT s !! m = Some t -> Lk3 a s ->
    exists a', runm mon3 a (settle_left m t s).2 = Some a' /\ Lk3 a' (settle_left m t s).1.
  Proof.
    intros Hm [H1 H2]. destruct a. unfold settle_left, emit_left. simpl.
    assert (Hns : filt && Pos.eqb m self = false).
    { destruct filt; [|done]. simpl. destruct (Pos.eqb_spec m self) as [->|]; [|done].
      rewrite H2 in Hm by done. done. }
    destruct (decide (m ∈ LF s)); simpl; rewrite ?Hns; exists tt; (split; [done|]); (split; simpl; [done|]);
      intros Hf; rewrite lookup_delete_None; right; by apply H2.
  Qed.

  Lemma g3_settle_join m t s a :
    JT s !! m = Some t -> Lk3 a s ->
    exists a', runm mon3 a (settle_join m t s).2 = Some a' /\ Lk3 a' (settle_join m t s).1.
  Proof.
    intros Hm [H1 H2]. destruct a. unfold settle_join, emit_joined.
    assert (Hns : Pos.eqb m self = false).
    { destruct (Pos.eqb_spec m self) as [->|]; [|done]. by rewrite H1 in Hm. }
    destruct (decide (m ∈ JF s)); simpl; rewrite ?Hns; exists tt; (split; [done|]); (split; simpl; [|done]);
      rewrite lookup_delete_None; by right.
  Qed.

  Lemma g3_pending_left e : good mon3 Lk3 (emit_pending_left e).
  Proof.
    intros s. apply good_loop. clear s. intros p s a Hl. unfold pending_left_one.
    destruct (N.eqb p.2 e); [|eauto].
    destruct (LT s !! p.1) as [t|] eqn:Ht; [by apply g3_settle_left|].
    exists a. split; [done|]. by eapply Lk3_same.
  Qed.

  Lemma g3_pending_join e : good mon3 Lk3 (emit_pending_join e).
  Proof.
    intros s. apply good_loop. clear s. intros p s a Hl. unfold pending_join_one.
    destruct (N.eqb p.2 e); [|eauto].
    destruct (JT s !! p.1) as [t|] eqn:Ht; [by apply g3_settle_join|].
    exists a. split; [done|]. by eapply Lk3_same.
  Qed.

  Lemma step_Lk3 s a x :
    Lk3 a s ->
    exists a', runm mon3 a (step self filt s x).2 = Some a' /\ Lk3 a' (step self filt s x).1.
  Proof.
    intros Hl. destruct x as [m t|m t|e r m|e|m]; simpl.
    - unfold track_join.
      destruct (Pos.eqb_spec m self) as [->|Hne]; [eauto|]. destruct (decide (m ∈ JF s)); [eauto|].
      destruct (JT s !! m); [eauto|].
      set (s1 := set_JT (<[m:=t]> (JT s)) s).
      assert (Hl1 : Lk3 a s1).
      { destruct Hl as [H1 H2]. split; [|done]. simpl. by rewrite lookup_insert_ne. }
      destruct (N.eqb (jl s1) 0); [eauto|].
      set (s2 := set_JE (<[m:=jl s1]> (JE s1)) s1). assert (Hl2 : Lk3 a s2) by (by eapply Lk3_same).
      destruct (decide (jl s2 ∈ CS s2)); [by apply g3_pending_join|eauto].
    - unfold track_left. destruct (filt && Pos.eqb m self) eqn:Hf; [eauto|].
      set (s0 := set_JF (JF s ∖ {[m]}) s). assert (Hl0 : Lk3 a s0) by (by eapply Lk3_same).
      destruct (decide (m ∈ LF s0)) as [|Hnin]; [eauto|].
      destruct (LT s0 !! m); [eauto|].
      set (s1 := set_LT (<[m:=t]> (LT s0)) s0).
      assert (Hl1 : Lk3 a s1).
      { destruct Hl0 as [H1 H2]. split; [done|]. intros Hft. simpl. rewrite Hft in Hf. simpl in Hf.
        destruct (Pos.eqb_spec m self); [done|]. rewrite lookup_insert_ne by done. by apply H2. }
      destruct (N.eqb (ll s1) 0); [eauto|].
      set (s2 := set_LE (<[m:=ll s1]> (LE s1)) s1). assert (Hl2 : Lk3 a s2) by (by eapply Lk3_same).
      destruct (decide (ll s2 ∈ CS s2)); [by apply g3_pending_left|eauto].
    - unfold reb_start. destruct r; [| |eauto].
      + destruct (decide (e ∈ SS s)); [eauto|].
        set (s3 := set_LE _ _). assert (Hl3 : Lk3 a s3) by (by eapply Lk3_same).
        destruct (decide (e ∈ CS s3)); [by apply g3_pending_left|eauto].
      + destruct (Pos.eqb m self); [eauto|]. destruct (decide (e ∈ SS s)); [eauto|].
        set (s3 := set_JE _ _). assert (Hl3 : Lk3 a s3) by (by eapply Lk3_same).
        destruct (decide (e ∈ CS s3)); [by apply g3_pending_join|eauto].
    - unfold reb_complete. destruct (decide (e ∈ CS s)); [eauto|].
      set (s1 := set_CS _ s). assert (Hl1 : Lk3 a s1) by (by eapply Lk3_same).
      apply (good_seq mon3 Lk3 _ _ (g3_pending_left e) (g3_pending_join e) s1 a Hl1).
    - unfold left_timeout. destruct (LT s !! m) eqn:Hm; [by apply g3_settle_left|eauto].
  Qed.

  Fixpoint monitor3 (items : list item) : bool :=
    match items with
    | [] => true
    | In _ :: r => monitor3 r
    | Out o :: r => match mon3 tt o with Some _ => monitor3 r | None => false end
    end.

  Lemma monitor3_app_outs outs r :
    monitor3 (map Out outs ++ r) = match runm mon3 tt outs with Some _ => monitor3 r | None => false end.
  Proof. induction outs as [|o outs IH]; simpl; [done|]. destruct (mon3 tt o) as [[]|]; [apply IH|done]. Qed.

  Theorem never_reports_self : forall h s,
    Lk3 tt s -> monitor3 (flat self filt h s) = true.
  Proof.
    induction h as [|x h IH]; intros s Hl; simpl; [done|].
    destruct (step_Lk3 s tt x Hl) as (a1 & Hr & Hl1).
    destruct (step self filt s x) as [s' o]. simpl in *.
    rewrite monitor3_app_outs, Hr. destruct a1. by apply IH.
  Qed.
End Self.

Lemma Lk1_init n : Lk1 n false init.
Proof. split; [apply Disj_init|done]. Qed.
Lemma Lk2_init n : Lk2 n false init.
Proof. split; [apply Disj_init|done]. Qed.
Lemma Lk3_init self filt : Lk3 self filt tt init.
Proof. split; [done|]. intros _. done. Qed.

(* without the self filter on departure notifications the local node's own departure IS reported *)
Lemma left_self_refuted :
  flat 1%positive false [Left 1%positive 5000000; LeftTimeout 1%positive] init =
  [In (Left 1%positive 5000000); In (LeftTimeout 1%positive); Out (ELeft 1%positive 5000000)].
Proof. vm_compute. reflexivity. Qed.
