(* C34 — executable model of the membership event tracker in internal/cluster/cluster.go
   (handleClusterEvent -> trackNodeJoinEvent / trackNodeLeftEvent / processRebalanceStart /
   processRebalanceComplete, emitOverdueNodeLeft, assign*EpochLocked, emitPending*ForEpochLocked,
   emitNodeLeftLocked / emitNodeJoinedLocked).  All of it runs under eventsLock: one notification is one
   atomic step.

   Fields exactly as in the struct:
     nodeJoinedEventsFilter / nodeLeftEventsFilter     -> JF LF : gset node
     nodeJoinTimestamps / nodeLeftTimestamps           -> JT LT : gmap node Z
     rebalanceJoinNodeEpochs / rebalanceLeftNodeEpochs -> JE LE : gmap node N
     rebalanceJoinLatestEpoch / rebalanceLeftLatestEpoch -> jl ll : N
     rebalanceStartSeen / rebalanceCompleteSeen        -> SS CS : gset N
   Nodes are positive numbers (peers addresses), [self] is the local node.  The 30 s safety-net timer
   armed by trackNodeLeftEvent is the event [LeftTimeout n] (= emitOverdueNodeLeft n), delivered at
   any later point of the history.

   Go ranges over maps in an unspecified order; the loops here touch disjoint per-node state, so only the
   ORDER of the events emitted by one step depends on it.  The model emits in key order; comparisons with
   the implementation are up to a permutation within one step.

   [filt] selects the variant: false = trackNodeLeftEvent as it stands (no self filter), true = with the
   proposed `if ev.NodeLeft == self { return }`.  No proofs here. *)
From Coq Require Import ZArith.
From stdpp Require Import gmap.
Open Scope Z_scope.

Notation node := positive.

Inductive reason := RLeft | RJoin | ROther.

Inductive ev :=
| Join (n : node) (t : Z)
| Left (n : node) (t : Z)
| RebStart (e : N) (r : reason) (n : node)
| RebComplete (e : N)
| LeftTimeout (n : node).

Inductive emitted :=
| EJoined (n : node) (t : Z)
| ELeft (n : node) (t : Z).

Record st := ST {
  JF : gset node; LF : gset node;
  JT : gmap node Z; LT : gmap node Z;
  JE : gmap node N; LE : gmap node N;
  jl : N; ll : N;
  SS : gset N; CS : gset N }.

Definition init : st := ST ∅ ∅ ∅ ∅ ∅ ∅ 0 0 ∅ ∅.

Definition set_JF v s := ST v (LF s) (JT s) (LT s) (JE s) (LE s) (jl s) (ll s) (SS s) (CS s).
Definition set_LF v s := ST (JF s) v (JT s) (LT s) (JE s) (LE s) (jl s) (ll s) (SS s) (CS s).
Definition set_JT v s := ST (JF s) (LF s) v (LT s) (JE s) (LE s) (jl s) (ll s) (SS s) (CS s).
Definition set_LT v s := ST (JF s) (LF s) (JT s) v (JE s) (LE s) (jl s) (ll s) (SS s) (CS s).
Definition set_JE v s := ST (JF s) (LF s) (JT s) (LT s) v (LE s) (jl s) (ll s) (SS s) (CS s).
Definition set_LE v s := ST (JF s) (LF s) (JT s) (LT s) (JE s) v (jl s) (ll s) (SS s) (CS s).
Definition set_jl v s := ST (JF s) (LF s) (JT s) (LT s) (JE s) (LE s) v (ll s) (SS s) (CS s).
Definition set_ll v s := ST (JF s) (LF s) (JT s) (LT s) (JE s) (LE s) (jl s) v (SS s) (CS s).
Definition set_SS v s := ST (JF s) (LF s) (JT s) (LT s) (JE s) (LE s) (jl s) (ll s) v (CS s).
Definition set_CS v s := ST (JF s) (LF s) (JT s) (LT s) (JE s) (LE s) (jl s) (ll s) (SS s) v.

(* emitNodeLeftLocked *)
Definition emit_left (n : node) (t : Z) (s : st) : st * list emitted :=
  let s1 := set_JF (JF s ∖ {[n]}) s in
  if decide (n ∈ LF s1) then (s1, [])
  else (set_LF (LF s1 ∪ {[n]}) s1, [ELeft n t]).

(* emitNodeJoinedLocked *)
Definition emit_joined (n : node) (t : Z) (s : st) : st * list emitted :=
  if decide (n ∈ JF s) then (s, [])
  else (set_JF (JF s ∪ {[n]}) s, [EJoined n t]).

(* emit, then forget the pending departure / arrival (the three lines shared by the epoch loops and the
   overdue emitter) *)
Definition settle_left (n : node) (t : Z) (s : st) : st * list emitted :=
  let '(s1, out) := emit_left n t s in
  (set_LE (delete n (LE s1)) (set_LT (delete n (LT s1)) s1), out).

Definition settle_join (n : node) (t : Z) (s : st) : st * list emitted :=
  let '(s1, out) := emit_joined n t s in
  (set_JE (delete n (JE s1)) (set_JT (delete n (JT s1)) s1), out).

(* body of the loop of emitPendingLeftForEpochLocked for one map entry *)
Definition pending_left_one (e : N) (s : st) (p : node * N) : st * list emitted :=
  if N.eqb p.2 e then
    match LT s !! p.1 with
    | None => (set_LE (delete p.1 (LE s)) s, [])
    | Some t => settle_left p.1 t s
    end
  else (s, []).

Definition pending_join_one (e : N) (s : st) (p : node * N) : st * list emitted :=
  if N.eqb p.2 e then
    match JT s !! p.1 with
    | None => (set_JE (delete p.1 (JE s)) s, [])
    | Some t => settle_join p.1 t s
    end
  else (s, []).

Fixpoint loop (f : st -> node * N -> st * list emitted) (l : list (node * N)) (s : st) : st * list emitted :=
  match l with
  | [] => (s, [])
  | p :: rest => let '(s1, o1) := f s p in let '(s2, o2) := loop f rest s1 in (s2, o1 ++ o2)
  end.

Definition emit_pending_left (e : N) (s : st) : st * list emitted :=
  loop (pending_left_one e) (map_to_list (LE s)) s.

Definition emit_pending_join (e : N) (s : st) : st * list emitted :=
  loop (pending_join_one e) (map_to_list (JE s)) s.

(* assign*EpochLocked: `for node := range timestamps { epochs[node] = epoch }` — every node with a
   pending timestamp gets the epoch, the other entries stay *)
Definition assign (e : N) (ts : gmap node Z) (ep : gmap node N) : gmap node N :=
  ((fun _ => e) <$> ts) ∪ ep.

Section Tracker.
  Variable self : node.
  Variable filt : bool.

  Definition track_join (n : node) (t : Z) (s : st) : st * list emitted :=
    if Pos.eqb n self then (s, [])
    else if decide (n ∈ JF s) then (s, [])
    else match JT s !! n with
         | Some _ => (s, [])
         | None =>
             let s1 := set_JT (<[n := t]> (JT s)) s in
             if N.eqb (jl s1) 0 then (s1, [])
             else
               let s2 := set_JE (<[n := jl s1]> (JE s1)) s1 in
               if decide (jl s2 ∈ CS s2) then emit_pending_join (jl s2) s2 else (s2, [])
         end.

  Definition track_left (n : node) (t : Z) (s : st) : st * list emitted :=
    if filt && Pos.eqb n self then (s, [])
    else
      let s0 := set_JF (JF s ∖ {[n]}) s in
      if decide (n ∈ LF s0) then (s0, [])
      else match LT s0 !! n with
           | Some _ => (s0, [])
           | None =>
               let s1 := set_LT (<[n := t]> (LT s0)) s0 in
               if N.eqb (ll s1) 0 then (s1, [])
               else
                 let s2 := set_LE (<[n := ll s1]> (LE s1)) s1 in
                 if decide (ll s2 ∈ CS s2) then emit_pending_left (ll s2) s2 else (s2, [])
           end.

  (* emitOverdueNodeLeft *)
  Definition left_timeout (n : node) (s : st) : st * list emitted :=
    match LT s !! n with
    | None => (s, [])
    | Some t => settle_left n t s
    end.

  Definition reb_start (e : N) (r : reason) (n : node) (s : st) : st * list emitted :=
    match r with
    | ROther => (s, [])
    | RJoin =>
        if Pos.eqb n self then (s, [])
        else if decide (e ∈ SS s) then (s, [])
        else
          let s1 := set_SS (SS s ∪ {[e]}) s in
          let s2 := set_jl e s1 in
          let s3 := set_JE (assign e (JT s2) (JE s2)) s2 in
          if decide (e ∈ CS s3) then emit_pending_join e s3 else (s3, [])
    | RLeft =>
        if decide (e ∈ SS s) then (s, [])
        else
          let s1 := set_SS (SS s ∪ {[e]}) s in
          let s2 := set_ll e s1 in
          let s3 := set_LE (assign e (LT s2) (LE s2)) s2 in
          if decide (e ∈ CS s3) then emit_pending_left e s3 else (s3, [])
    end.

  Definition reb_complete (e : N) (s : st) : st * list emitted :=
    if decide (e ∈ CS s) then (s, [])
    else
      let s1 := set_CS (CS s ∪ {[e]}) s in
      let '(s2, o1) := emit_pending_left e s1 in
      let '(s3, o2) := emit_pending_join e s2 in
      (s3, o1 ++ o2).

  Definition step (s : st) (x : ev) : st * list emitted :=
    match x with
    | Join n t => track_join n t s
    | Left n t => track_left n t s
    | RebStart e r n => reb_start e r n s
    | RebComplete e => reb_complete e s
    | LeftTimeout n => left_timeout n s
    end.

  Fixpoint run (h : list ev) (s : st) : st :=
    match h with [] => s | x :: rest => run rest (fst (step s x)) end.

  (* the flattened trace: every notification followed by what its step emitted *)
  Inductive item := In (x : ev) | Out (o : emitted).

  Fixpoint flat (h : list ev) (s : st) : list item :=
    match h with
    | [] => []
    | x :: rest => let '(s', o) := step s x in In x :: map Out o ++ flat rest s'
    end.
End Tracker.

(* ---------------------------------------------------------------- observation for the tie *)
Definition set_digest (X : gset node) : Z :=
  set_fold (fun n acc => acc + Zpos n * Zpos n * 31 + 7) 0 X.
Definition eset_digest (X : gset N) : Z :=
  set_fold (fun e acc => acc + (Z.of_N e + 3) * (Z.of_N e + 5)) 0 X.
Definition tmap_digest (m : gmap node Z) : Z :=
  map_fold (fun n t acc => acc + (Zpos n * 1009 + 1) * (t mod 1000003 + 11)) 0 m.
Definition emap_digest (m : gmap node N) : Z :=
  map_fold (fun n e acc => acc + (Zpos n * 1013 + 1) * (Z.of_N e + 13)) 0 m.

(* emitted events, order-insensitive *)
Definition out_digest (o : list emitted) : Z :=
  fold_left (fun acc x => match x with
                          | EJoined n t => acc + (Zpos n * 2 + 1) * (t / 1000000 + 17)
                          | ELeft n t => acc + (Zpos n * 2 + 2) * (t / 1000000 + 19)
                          end) o 0.

Definition M61 : Z := 2305843009213693951.

Definition observe (s : st) (o : list emitted) : list Z :=
  [ Z.land (set_digest (JF s) + 1000003 * set_digest (LF s)) M61;
    Z.land (tmap_digest (JT s) + 7 * tmap_digest (LT s)) M61;
    Z.land (emap_digest (JE s) + 7 * emap_digest (LE s)) M61;
    Z.of_N (jl s) + 65536 * Z.of_N (ll s);
    Z.land (eset_digest (SS s) + 1000003 * eset_digest (CS s)) M61;
    Z.of_nat (length o) + 16 * Z.land (out_digest o) 1152921504606846975 ].

Fixpoint list_eqb (a b : list Z) : bool :=
  match a, b with
  | [], [] => true
  | x :: a', y :: b' => (x =? y) && list_eqb a' b'
  | _, _ => false
  end.

(* packed notification: code + 8 * (node + 64 * (epoch + 64 * (reason + 4 * t)))
   code 0=Join 1=Left 2=RebStart 3=RebComplete 4=LeftTimeout; node 1..63; epoch 0..63;
   reason 0=left 1=join 2=other; t = timestamp in ns *)
Definition decode_ev (z : Z) : ev :=
  let c := z mod 8 in
  let z1 := z / 8 in
  let n := Z.to_pos (z1 mod 64) in
  let z2 := z1 / 64 in
  let e := Z.to_N (z2 mod 64) in
  let z3 := z2 / 64 in
  let r := z3 mod 4 in
  let t := z3 / 4 in
  if c =? 0 then Join n t
  else if c =? 1 then Left n t
  else if c =? 2 then RebStart e (if r =? 0 then RLeft else if r =? 1 then RJoin else ROther) n
  else if c =? 3 then RebComplete e
  else LeftTimeout n.

Fixpoint first_mismatch (self : node) (filt : bool) (i : nat) (h : list Z) (obs : list Z) (s : st) : option nat :=
  match h with
  | z :: rest =>
      let '(s', o) := step self filt s (decode_ev z) in
      if list_eqb (observe s' o) (take 6 obs) then first_mismatch self filt (S i) rest (drop 6 obs) s' else Some i
  | [] => match obs with [] => None | _ => Some i end
  end.
