(* C34 — clause 4: a NodeLeft is emitted only in a step that completes (or finds already complete) the
   rebalance epoch covering the departure, or by the departure's timeout.

   The epoch covering a pending departure is the latest left-reason rebalance start accepted so far
   ([ll]); invariants tie the tracker's fields to the history:
     (a) every epoch in CS was announced complete by a RebComplete in the history,
     (b) every pending departure's assigned epoch is the latest one,
     (c) ... and that epoch was started by a RebStart with reason node-left in the history,
     (d) a non-zero latest epoch was started in the history,
     (e) only nodes with a pending departure have an assigned epoch. *)
From Coq Require Import ZArith Lia.
From stdpp Require Import gmap.
From GV Require Import C34.Model.
Open Scope Z_scope.

(* ---------------------------------------------------------------- where emitted events come from *)
Lemma loop_out f : forall l s o,
  o ∈ (loop f l s).2 -> exists p s0, p ∈ l /\ o ∈ (f s0 p).2.
Proof.
  induction l as [|p l IH]; intros s o Ho; simpl in Ho; [by apply elem_of_nil in Ho|].
  destruct (f s p) as [s1 o1] eqn:Hf. destruct (loop f l s1) as [s2 o2] eqn:Hl. simpl in Ho.
  apply elem_of_app in Ho as [Ho|Ho].
  - exists p, s. split; [by left|]. by rewrite Hf.
  - destruct (IH s1 o) as (p' & s0 & Hp & Hin); [by rewrite Hl|]. exists p', s0. split; [by right|done].
Qed.

Lemma emit_left_out n t s o : o ∈ (emit_left n t s).2 -> o = ELeft n t.
Proof. unfold emit_left. destruct (decide _); simpl; intros H; [by apply elem_of_nil in H|]. by apply elem_of_list_singleton in H. Qed.

Lemma emit_joined_out n t s o : o ∈ (emit_joined n t s).2 -> o = EJoined n t.
Proof. unfold emit_joined. destruct (decide _); simpl; intros H; [by apply elem_of_nil in H|]. by apply elem_of_list_singleton in H. Qed.

Lemma settle_left_out n t s o : o ∈ (settle_left n t s).2 -> o = ELeft n t.
Proof. unfold settle_left. pose proof (emit_left_out n t s o). destruct (emit_left n t s). simpl in *. done. Qed.

Lemma settle_join_out n t s o : o ∈ (settle_join n t s).2 -> o = EJoined n t.
Proof. unfold settle_join. pose proof (emit_joined_out n t s o). destruct (emit_joined n t s). simpl in *. done. Qed.

Lemma pending_left_out e s n t :
  ELeft n t ∈ (emit_pending_left e s).2 -> LE s !! n = Some e.
Proof.
  unfold emit_pending_left. intros Ho. apply loop_out in Ho as (p & s0 & Hp & Ho).
  unfold pending_left_one in Ho. destruct (N.eqb_spec p.2 e) as [He|]; [|by apply elem_of_nil in Ho].
  destruct (LT s0 !! p.1); [|by apply elem_of_nil in Ho].
  apply settle_left_out in Ho. inversion Ho; subst. destruct p as [m e']. simpl in *.
  by apply elem_of_map_to_list in Hp.
Qed.

Lemma pending_join_no_left e s n t : ELeft n t ∉ (emit_pending_join e s).2.
Proof.
  unfold emit_pending_join. intros Ho. apply loop_out in Ho as (p & s0 & Hp & Ho).
  unfold pending_join_one in Ho. destruct (N.eqb p.2 e); [|by apply elem_of_nil in Ho].
  destruct (JT s0 !! p.1); [|by apply elem_of_nil in Ho].
  apply settle_join_out in Ho. done.
Qed.

(* ---------------------------------------------------------------- the LE/LT part of the invariant *)
Section Hist.
  Variable h : list ev.

  Definition Kl (s : st) : Prop :=
    (forall n e, LE s !! n = Some e -> e = ll s) /\
    (forall n e, LE s !! n = Some e -> exists m, RebStart e RLeft m ∈ h) /\
    (forall n, is_Some (LE s !! n) -> is_Some (LT s !! n)).

  Definition same_lc (s s' : st) : Prop := ll s' = ll s /\ CS s' = CS s.

  Definition op_ok (f : st -> st * list emitted) : Prop :=
    forall s, Kl s -> Kl (f s).1 /\ same_lc s (f s).1.

  Lemma Kl_sub s s' :
    Kl s -> ll s' = ll s ->
    (forall n e, LE s' !! n = Some e -> LE s !! n = Some e) ->
    (forall n, is_Some (LE s' !! n) -> is_Some (LT s' !! n)) -> Kl s'.
  Proof.
    intros (Hb & Hc & He) Hll Hsub Hdom. split; [|split; [|done]].
    - intros n e Hn. rewrite Hll. eapply Hb. by apply Hsub.
    - intros n e Hn. eapply Hc. by apply Hsub.
  Qed.

  Lemma ok_settle_left n t : op_ok (settle_left n t).
  Proof.
    intros s HK. unfold settle_left, emit_left. destruct (decide _) as [Hd|Hd]; simpl; (split; [|done]);
      (eapply Kl_sub; [exact HK|done| |]); simpl.
    - intros k ee Hk. by apply lookup_delete_Some in Hk as [_ Hk].
    - intros k [ee Hk]. apply lookup_delete_Some in Hk as [Hne Hk].
      destruct HK as (_ & _ & He). destruct (He k) as [x Hx]; [eauto|]. exists x. by rewrite lookup_delete_ne.
    - intros k ee Hk. by apply lookup_delete_Some in Hk as [_ Hk].
    - intros k [ee Hk]. apply lookup_delete_Some in Hk as [Hne Hk].
      destruct HK as (_ & _ & He). destruct (He k) as [x Hx]; [eauto|]. exists x. by rewrite lookup_delete_ne.
  Qed.

  Lemma ok_settle_join n t : op_ok (settle_join n t).
  Proof.
    intros s HK. unfold settle_join, emit_joined. destruct (decide _) as [Hd|Hd]; simpl; (split; [|done]);
      (eapply Kl_sub; [exact HK|done|done|]); apply HK.
  Qed.

  Lemma ok_loop f l : (forall p, op_ok (fun s => f s p)) -> op_ok (loop f l).
  Proof.
    intros Hf. induction l as [|p l IH]; intros s HK; simpl; [done|].
    destruct (Hf p s HK) as [HK1 [Hl1 Hc1]]. destruct (f s p) as [s1 o1]. simpl in *.
    destruct (IH s1 HK1) as [HK2 [Hl2 Hc2]]. destruct (loop f l s1) as [s2 o2]. simpl in *.
    split; [done|]. split; congruence.
  Qed.

  Lemma ok_pending_left e : op_ok (emit_pending_left e).
  Proof.
    intros s. apply ok_loop. clear s. intros p s HK. unfold pending_left_one.
    destruct (N.eqb p.2 e); [|done].
    destruct (LT s !! p.1); [by apply ok_settle_left|]. simpl. split; [|done].
    eapply Kl_sub; [exact HK|done| |]; simpl.
    - intros k e' Hk. by apply lookup_delete_Some in Hk as [_ Hk].
    - intros k [e' Hk]. apply lookup_delete_Some in Hk as [Hne Hk]. destruct HK as (_ & _ & He). eauto.
  Qed.

  Lemma ok_pending_join e : op_ok (emit_pending_join e).
  Proof.
    intros s. apply ok_loop. clear s. intros p s HK. unfold pending_join_one.
    destruct (N.eqb p.2 e); [|done].
    destruct (JT s !! p.1); [by apply ok_settle_join|]. simpl. split; [|done].
    eapply Kl_sub; [exact HK|done|done|]. apply HK.
  Qed.
End Hist.

Lemma Kl_mono h h' s : (forall x, x ∈ h -> x ∈ h') -> Kl h s -> Kl h' s.
Proof.
  intros Hsub (Hb & Hc & He). split; [done|]. split; [|done].
  intros n e Hn. destruct (Hc n e Hn) as [m Hm]. eauto.
Qed.

(* ---------------------------------------------------------------- the whole invariant *)
Definition K (h : list ev) (s : st) : Prop :=
  (forall e, e ∈ CS s -> RebComplete e ∈ h) /\
  (ll s <> 0%N -> exists m, RebStart (ll s) RLeft m ∈ h) /\
  Kl h s.

Lemma K_init : K [] init.
Proof.
  split; [|split; [|split; [|split]]]; simpl.
  - intros e He. set_solver.
  - done.
  - intros n e. by rewrite lookup_empty.
  - intros n e. by rewrite lookup_empty.
  - intros n [e He]. by rewrite lookup_empty in He.
Qed.

Lemma assign_lookup e (ts : gmap node Z) (ep : gmap node N) n :
  assign e ts ep !! n = match ts !! n with Some _ => Some e | None => ep !! n end.
Proof.
  unfold assign. rewrite lookup_union, lookup_fmap. destruct (ts !! n); simpl.
  - by destruct (ep !! n).
  - by destruct (ep !! n).
Qed.

Section Step.
  Variable self : node.
  Variable filt : bool.

  (* what a step that emits NodeLeft n must be *)
  Definition settled (h : list ev) (x : ev) (s' : st) (n : node) : Prop :=
    x = LeftTimeout n \/
    ((exists m, RebStart (ll s') RLeft m ∈ h ++ [x]) /\ RebComplete (ll s') ∈ h ++ [x]).

  Lemma in_snoc_l {A} (h : list A) x y : y ∈ h -> y ∈ h ++ [x].
  Proof. intros. apply elem_of_app. by left. Qed.
  Lemma in_snoc_r {A} (h : list A) x : x ∈ h ++ [x].
  Proof. apply elem_of_app. right. by apply elem_of_list_singleton. Qed.

  Lemma K_step h s x :
    K h s ->
    K (h ++ [x]) (step self filt s x).1 /\
    forall n t, ELeft n t ∈ (step self filt s x).2 -> settled h x (step self filt s x).1 n.
  Proof.
    intros (Ha & Hd & HK).
    assert (HK' : Kl (h ++ [x]) s) by (eapply Kl_mono; [|exact HK]; intros; by apply in_snoc_l).
    assert (Ha' : forall e, e ∈ CS s -> RebComplete e ∈ h ++ [x]) by (intros; by apply in_snoc_l, Ha).
    assert (Hd' : ll s <> 0%N -> exists m, RebStart (ll s) RLeft m ∈ h ++ [x]).
    { intros Hne. destruct (Hd Hne) as [m Hm]. exists m. by apply in_snoc_l. }
    assert (Hbase : K (h ++ [x]) s) by done.
    destruct x as [m t|m t|e r m|e|m]; simpl.
    - (* Join: only NodeJoined can be emitted; LE/LT/ll/CS untouched except through the join loop *)
      unfold track_join.
      destruct (Pos.eqb m self); [split; [done|]; intros ? ? HH; by apply elem_of_nil in HH|].
      destruct (decide (m ∈ JF s)); [split; [done|]; intros ? ? HH; by apply elem_of_nil in HH|].
      destruct (JT s !! m); [split; [done|]; intros ? ? HH; by apply elem_of_nil in HH|].
      set (s1 := set_JT (<[m:=t]> (JT s)) s).
      assert (HK1 : Kl (h ++ [Join m t]) s1) by (eapply Kl_sub; [exact HK'|done|done|]; apply HK').
      destruct (N.eqb (jl s1) 0); [split; [done|]; intros ? ? HH; by apply elem_of_nil in HH|].
      set (s2 := set_JE (<[m:=jl s1]> (JE s1)) s1).
      assert (HK2 : Kl (h ++ [Join m t]) s2) by (eapply Kl_sub; [exact HK1|done|done|]; apply HK1).
      destruct (decide (jl s2 ∈ CS s2)); [|split; [done|]; intros ? ? HH; by apply elem_of_nil in HH].
      destruct (ok_pending_join _ (jl s2) s2 HK2) as [HK3 [Hl3 Hc3]].
      split; [|intros ? ? HH; by apply pending_join_no_left in HH].
      split; [rewrite Hc3; exact Ha'|]. split; [rewrite Hl3; exact Hd'|done].
    - (* Left *)
      unfold track_left.
      destruct (filt && Pos.eqb m self); [split; [done|]; intros ? ? HH; by apply elem_of_nil in HH|].
      set (s0 := set_JF (JF s ∖ {[m]}) s).
      assert (HK0 : Kl (h ++ [Left m t]) s0) by (eapply Kl_sub; [exact HK'|done|done|]; apply HK').
      destruct (decide (m ∈ LF s0)); [split; [done|]; intros ? ? HH; by apply elem_of_nil in HH|].
      destruct (LT s0 !! m) eqn:Hm; [split; [done|]; intros ? ? HH; by apply elem_of_nil in HH|].
      set (s1 := set_LT (<[m:=t]> (LT s0)) s0).
      assert (HK1 : Kl (h ++ [Left m t]) s1).
      { eapply Kl_sub; [exact HK0|done|done|]. simpl. intros k Hk.
        destruct (decide (k = m)) as [->|Hne]; [rewrite lookup_insert; eauto|].
        rewrite lookup_insert_ne by done. by apply HK0. }
      destruct (N.eqb_spec (ll s1) 0) as [|Hll]; [split; [done|]; intros ? ? HH; by apply elem_of_nil in HH|].
      set (s2 := set_LE (<[m:=ll s1]> (LE s1)) s1).
      assert (HK2 : Kl (h ++ [Left m t]) s2).
      { destruct HK1 as (Hb1 & Hc1 & He1). split; [|split]; simpl.
        - intros k e Hk. destruct (decide (k = m)) as [->|Hne].
          + rewrite lookup_insert in Hk. by inversion Hk.
          + rewrite lookup_insert_ne in Hk by done. by apply (Hb1 k).
        - intros k e Hk. destruct (decide (k = m)) as [->|Hne].
          + rewrite lookup_insert in Hk. inversion Hk; subst. by apply Hd'.
          + rewrite lookup_insert_ne in Hk by done. by apply (Hc1 k).
        - intros k Hk. destruct (decide (k = m)) as [->|Hne]; [rewrite lookup_insert; eauto|].
          rewrite lookup_insert_ne in Hk by done. exact (He1 k Hk). }
      destruct (decide (ll s2 ∈ CS s2)) as [Hin|]; [|split; [done|]; intros ? ? HH; by apply elem_of_nil in HH].
      destruct (ok_pending_left _ (ll s2) s2 HK2) as [HK3 [Hl3 Hc3]].
      split; [split; [rewrite Hc3; exact Ha'|]; split; [rewrite Hl3; exact Hd'|done]|].
      intros ? ? _. right. rewrite Hl3. split; [by apply Hd'|by apply Ha'].
    - (* RebStart *)
      unfold reb_start. destruct r.
      + destruct (decide (e ∈ SS s)); [split; [done|]; intros ? ? HH; by apply elem_of_nil in HH|].
        set (s3 := set_LE _ _).
        assert (Hst : RebStart e RLeft m ∈ h ++ [RebStart e RLeft m]) by apply in_snoc_r.
        assert (HK3 : Kl (h ++ [RebStart e RLeft m]) s3).
        { destruct HK' as (Hb1 & Hc1 & He1). split; [|split]; simpl.
          - intros k e' Hk. rewrite assign_lookup in Hk. destruct (LT s !! k) eqn:Hlt; [by inversion Hk|].
            destruct (He1 k) as [x Hx]; [eauto|]. congruence.
          - intros k e' Hk. rewrite assign_lookup in Hk. destruct (LT s !! k) eqn:Hlt; [inversion Hk; subst; eauto|].
            destruct (He1 k) as [x Hx]; [eauto|]. congruence.
          - intros k [e' Hk]. rewrite assign_lookup in Hk. destruct (LT s !! k) eqn:Hlt; [eauto|].
            destruct (He1 k) as [x Hx]; [eauto|]. congruence. }
        assert (Hd3 : ll s3 <> 0%N -> exists m0, RebStart (ll s3) RLeft m0 ∈ h ++ [RebStart e RLeft m]) by (intros _; eauto).
        destruct (decide (e ∈ CS s3)) as [Hin|]; [|split; [done|]; intros ? ? HH; by apply elem_of_nil in HH].
        destruct (ok_pending_left _ e s3 HK3) as [HK4 [Hl4 Hc4]].
        split; [split; [rewrite Hc4; exact Ha'|]; split; [rewrite Hl4; exact Hd3|done]|].
        intros ? ? _. right. rewrite Hl4. simpl. split; [eauto|by apply Ha'].
      + destruct (Pos.eqb m self); [split; [done|]; intros ? ? HH; by apply elem_of_nil in HH|].
        destruct (decide (e ∈ SS s)); [split; [done|]; intros ? ? HH; by apply elem_of_nil in HH|].
        set (s3 := set_JE _ _).
        assert (HK3 : Kl (h ++ [RebStart e RJoin m]) s3) by (eapply Kl_sub; [exact HK'|done|done|]; apply HK').
        destruct (decide (e ∈ CS s3)); [|split; [done|]; intros ? ? HH; by apply elem_of_nil in HH].
        destruct (ok_pending_join _ e s3 HK3) as [HK4 [Hl4 Hc4]].
        split; [|intros ? ? HH; by apply pending_join_no_left in HH].
        split; [rewrite Hc4; exact Ha'|]. split; [rewrite Hl4; exact Hd'|done].
      + split; [done|]. intros n t' H. by apply elem_of_nil in H.
    - (* RebComplete *)
      unfold reb_complete.
      destruct (decide (e ∈ CS s)); [split; [done|]; intros ? ? HH; by apply elem_of_nil in HH|].
      set (s1 := set_CS (CS s ∪ {[e]}) s).
      assert (HK1 : Kl (h ++ [RebComplete e]) s1) by (eapply Kl_sub; [exact HK'|done|done|]; apply HK').
      assert (Ha1 : forall e', e' ∈ CS s1 -> RebComplete e' ∈ h ++ [RebComplete e]).
      { intros e' He'. simpl in He'. apply elem_of_union in He' as [He'|He']; [by apply Ha'|].
        apply elem_of_singleton in He'. subst. apply in_snoc_r. }
      destruct (ok_pending_left _ e s1 HK1) as [HK2 [Hl2 Hc2]].
      pose proof (pending_left_out e s1) as Hout.
      destruct (emit_pending_left e s1) as [s2 o1] eqn:E1. simpl in *.
      destruct (ok_pending_join _ e s2 HK2) as [HK3 [Hl3 Hc3]].
      pose proof (pending_join_no_left e s2) as Hno.
      destruct (emit_pending_join e s2) as [s3 o2] eqn:E2. simpl in *.
      split; [split; [rewrite Hc3, Hc2; exact Ha1|]; split; [rewrite Hl3, Hl2; exact Hd'|done]|].
      intros nn tt' Hin. apply elem_of_app in Hin as [Hin|Hin]; [|by apply Hno in Hin].
      specialize (Hout nn tt' Hin). right. rewrite Hl3, Hl2.
      destruct HK1 as (Hb1 & Hc1 & _). assert (Hel : e = ll s) by exact (Hb1 nn e Hout). rewrite <-Hel.
      split; [exact (Hc1 nn e Hout)|]. apply in_snoc_r.
    - (* LeftTimeout *)
      unfold left_timeout. destruct (LT s !! m) eqn:Hm; [|split; [done|]; intros ? ? HH; by apply elem_of_nil in HH].
      destruct (ok_settle_left _ m z s HK') as [HK1 [Hl1 Hc1]].
      split; [split; [rewrite Hc1; exact Ha'|]; split; [rewrite Hl1; exact Hd'|done]|].
      intros nn tt' Hin. apply settle_left_out in Hin. inversion Hin; subst. by left.
  Qed.

  (* every NodeLeft in every history is emitted by a settled step *)
  Theorem left_only_when_settled : forall h2 h1 s,
    K h1 s ->
    forall pre x post n t,
      h2 = pre ++ x :: post ->
      ELeft n t ∈ (step self filt (run self filt pre s) x).2 ->
      settled (h1 ++ pre) x (step self filt (run self filt pre s) x).1 n.
  Proof.
    induction h2 as [|y h2 IH]; intros h1 s HK pre x post n t Heq Hin.
    - by destruct pre.
    - destruct pre as [|y' pre]; simpl in *.
      + inversion Heq; subst. rewrite app_nil_r. by eapply K_step.
      + inversion Heq; subst. destruct (K_step h1 s y' HK) as [HK1 _].
        specialize (IH (h1 ++ [y']) _ HK1 pre x post n t eq_refl Hin).
        by rewrite <-app_assoc in IH.
  Qed.
End Step.

(* ---------------------------------------------------------------- a concrete walk through the tracker *)
(* peer 2 joins (epoch 1), leaves (epoch 2), peer 3's departure is covered by the superseding epoch 3,
   peer 2 re-joins (reported at once: the latest join epoch, 1, is already complete) and leaves again
   (never reported: the left filter is not cleared); local node = 1 *)
Definition example_history : list ev :=
  [Join 2 1000000; RebStart 1 RJoin 2; RebComplete 1; Left 2 4000000; RebStart 2 RLeft 2; Left 3 5000000;
   RebStart 3 RLeft 3; RebComplete 2; RebComplete 3; Join 2 9000000; RebStart 4 RJoin 2; RebComplete 4;
   Left 2 12000000; LeftTimeout 2].

Example example_trace :
  flat 1%positive true example_history init =
  [In (Join 2 1000000); In (RebStart 1 RJoin 2); In (RebComplete 1); Out (EJoined 2 1000000);
   In (Left 2 4000000); In (RebStart 2 RLeft 2); In (Left 3 5000000); In (RebStart 3 RLeft 3);
   In (RebComplete 2); In (RebComplete 3); Out (ELeft 2 4000000); Out (ELeft 3 5000000);
   In (Join 2 9000000); Out (EJoined 2 9000000); In (RebStart 4 RJoin 2); In (RebComplete 4);
   In (Left 2 12000000); In (LeftTimeout 2)].
Proof. vm_compute. reflexivity. Qed.
