(* C37 — executable model of the spawn-configuration wire codec.
   Mirrors supervisor/supervisor.go (NewSupervisor and its options, SetDirectiveByType, the lookups the
   PID performs), internal/codec/codec.go (Encode/DecodeSupervisor, Encode/DecodePassivationStrategy,
   Encode/DecodeReentrancy, Encode/DecodeDependencies), reentrancy.New, durationpb.New/AsDuration,
   actor/spawn_option.go (newSpawnConfig and the options), the three senders
   (Spawn+WithHostAndPort, SpawnOn placement, PID.toSerialize) and the three receivers
   (remote_server RemoteSpawn, actorSystem.wireSpawnOptions, configPID).

   Error types are nats: 0 is the empty type name "", 1 errors.AnyError, 2 errors.PanicError,
   3 runtime.PanicNilError, >= 4 user error types.  Role names are nats, 0 is "". Durations are
   int64 nanoseconds as Z. *)
From Coq Require Import List ZArith Bool Arith.
Import ListNotations.
Open Scope Z_scope.

Inductive strategy := OneForOne | OneForAll.
Inductive directive := Stop | Resume | Restart | Escalate.

Definition etype := nat.
Definition k_empty : etype := 0%nat.
Definition k_any : etype := 1%nat.
Definition k_panic : etype := 2%nat.
Definition k_panicnil : etype := 3%nat.

(* the directives map (xsync.Map[string, Directive]) as an association list with unique keys *)
Definition dmap := list (etype * directive).

Fixpoint dget (k : etype) (m : dmap) : option directive :=
  match m with
  | [] => None
  | (k', v) :: r => if (k =? k')%nat then Some v else dget k r
  end.

Fixpoint dset (k : etype) (v : directive) (m : dmap) : dmap :=
  match m with
  | [] => [(k, v)]
  | (k', v') :: r => if (k =? k')%nat then (k, v) :: r else (k', v') :: dset k v r
  end.

Record supervisor := mkSup {
  s_strategy : strategy;
  s_maxRetries : Z;        (* uint32 *)
  s_timeout : Z;           (* time.Duration *)
  s_initialDelay : Z;
  s_maxDelay : Z;
  s_resetAfter : Z;
  s_dirs : dmap
}.

Definition with_dirs (s : supervisor) (d : dmap) : supervisor :=
  mkSup (s_strategy s) (s_maxRetries s) (s_timeout s) (s_initialDelay s) (s_maxDelay s) (s_resetAfter s) d.

Inductive sup_option :=
| OStrategy (s : strategy)
| ODirective (k : etype) (d : directive)       (* WithDirective(err, d): k = errorType(err) *)
| ORetry (n t : Z)
| OBackoff (initial maximum resetAfter : Z)
| OAny (d : directive).

Definition apply_opt (s : supervisor) (o : sup_option) : supervisor :=
  match o with
  | OStrategy st => mkSup st (s_maxRetries s) (s_timeout s) (s_initialDelay s) (s_maxDelay s) (s_resetAfter s) (s_dirs s)
  | ODirective k d => with_dirs s (dset k d (s_dirs s))
  | ORetry n t => mkSup (s_strategy s) n t (s_initialDelay s) (s_maxDelay s) (s_resetAfter s) (s_dirs s)
  | OBackoff i m r =>
      if i <=? 0 then s
      else let m' := if m <? i then i else m in
           let r' := if r <=? 0 then m' else r in
           mkSup (s_strategy s) (s_maxRetries s) (s_timeout s) i m' r' (s_dirs s)
  | OAny d => with_dirs s (dset k_any d (s_dirs s))
  end.

Definition sup_defaults : supervisor :=
  mkSup OneForOne 0 (-1) 0 0 0 [(k_panic, Stop); (k_panicnil, Restart)].

Definition newSupervisor (opts : list sup_option) : supervisor :=
  let s := fold_left apply_opt opts sup_defaults in
  match dget k_any (s_dirs s) with
  | Some d => with_dirs s [(k_any, d)]
  | None => s
  end.

Definition setDirectiveByType (s : supervisor) (k : etype) (d : directive) : supervisor :=
  if (k =? k_empty)%nat then s else with_dirs s (dset k d (s_dirs s)).

(* ---- what the PID does with a supervisor (actor/pid.go notifyParent, handleRestartDirective, restartChild) *)
Definition directive_of (s : supervisor) (e : etype) : option directive :=
  match dget e (s_dirs s) with
  | Some d => Some d
  | None => dget k_any (s_dirs s)
  end.

Definition fault_window (s : supervisor) : Z :=
  if s_resetAfter s <=? 0 then s_timeout s else s_resetAfter s.

Definition budget_exhausted (s : supervisor) (faults : Z) : bool :=
  (s_maxRetries s >? 0) && (fault_window s >? 0) && (faults >? s_maxRetries s).

(* backoffDelay in the closed form proved for the real function by C08 *)
Definition restart_delay (s : supervisor) (faults : Z) : Z :=
  if (s_initialDelay s <=? 0) || (faults <? 1) then 0
  else Z.min (s_initialDelay s * 2 ^ (faults - 1)) (s_maxDelay s).

(* restartChild: None = a single Restart, Some (attempts, initial, maximum) = bounded retrier *)
Definition restart_pacing (s : supervisor) : option (Z * Z * Z) :=
  if (s_maxRetries s =? 0) || (s_timeout s <=? 0) then None
  else if s_initialDelay s >? 0 then Some (s_maxRetries s, s_initialDelay s, s_maxDelay s)
       else Some (s_maxRetries s, s_timeout s, s_timeout s).

(* ---- wire *)
Inductive wstrategy := W_ONE_FOR_ONE | W_ONE_FOR_ALL.
Inductive wdirective := W_STOP | W_RESUME | W_RESTART | W_ESCALATE.
Record wduration := mkDur { d_secs : Z; d_nanos : Z }.

Definition second : Z := 1000000000.
(* durationpb.New / AsDuration (no saturation can occur on values produced by New) *)
Definition dur_new (d : Z) : wduration := mkDur (Z.quot d second) (d - Z.quot d second * second).
Definition dur_as (w : wduration) : Z := d_secs w * second + d_nanos w.

Record wspec := mkSpec {
  w_strategy : wstrategy;
  w_maxRetries : Z;
  w_timeout : option wduration;
  w_directives : list (etype * wdirective);
  w_any : option wdirective
}.

Definition enc_strategy (s : strategy) : wstrategy := match s with OneForAll => W_ONE_FOR_ALL | _ => W_ONE_FOR_ONE end.
Definition dec_strategy (s : wstrategy) : strategy := match s with W_ONE_FOR_ALL => OneForAll | _ => OneForOne end.
Definition enc_directive (d : directive) : wdirective :=
  match d with Resume => W_RESUME | Restart => W_RESTART | Escalate => W_ESCALATE | _ => W_STOP end.
Definition dec_directive (d : wdirective) : directive :=
  match d with W_RESUME => Resume | W_RESTART => Restart | W_ESCALATE => Escalate | _ => Stop end.

(* sort.Slice by error type *)
Fixpoint insert_rule (r : etype * wdirective) (l : list (etype * wdirective)) : list (etype * wdirective) :=
  match l with
  | [] => [r]
  | x :: t => if (fst r <=? fst x)%nat then r :: l else x :: insert_rule r t
  end.
Definition sort_rules (l : list (etype * wdirective)) : list (etype * wdirective) := fold_right insert_rule [] l.

Definition encodeSupervisor (s : supervisor) : wspec :=
  let spec := mkSpec (enc_strategy (s_strategy s)) (s_maxRetries s) (Some (dur_new (s_timeout s))) [] None in
  match dget k_any (s_dirs s) with
  | Some d => mkSpec (w_strategy spec) (w_maxRetries spec) (w_timeout spec) [] (Some (enc_directive d))
  | None =>
      let rules := filter (fun r => negb (fst r =? k_empty)%nat) (s_dirs s) in
      mkSpec (w_strategy spec) (w_maxRetries spec) (w_timeout spec)
             (sort_rules (map (fun r => (fst r, enc_directive (snd r))) rules)) None
  end.

Definition decodeSupervisor (w : wspec) : supervisor :=
  let timeout := match w_timeout w with Some d => dur_as d | None => 0 end in
  let retry := match w_timeout w with
               | Some _ => [ORetry (w_maxRetries w) timeout]
               | None => if w_maxRetries w =? 0 then [] else [ORetry (w_maxRetries w) timeout]
               end in
  let opts := OStrategy (dec_strategy (w_strategy w)) :: retry in
  match w_any w with
  | Some d => newSupervisor (opts ++ [OAny (dec_directive d)])
  | None => fold_left (fun s r => setDirectiveByType s (fst r) (dec_directive (snd r)))
                      (w_directives w) (newSupervisor opts)
  end.

(* ---- passivation *)
Inductive pstrategy := PNil | PTime (t : Z) | PCount (n : Z) | PLongLived | PCustom (tag : nat).
Inductive wpassivation := WPTime (d : wduration) | WPCount (n : Z) | WPLong.

Definition encodePassivation (p : pstrategy) : option wpassivation :=
  match p with
  | PTime t => Some (WPTime (dur_new t))
  | PCount n => Some (WPCount n)
  | PLongLived => Some WPLong
  | _ => None
  end.

Definition decodePassivation (w : option wpassivation) : pstrategy :=
  match w with
  | Some (WPTime d) => PTime (dur_as d)
  | Some (WPCount n) => PCount n
  | Some WPLong => PLongLived
  | None => PNil
  end.

(* ---- reentrancy *)
Inductive rmode := ROff | RAllowAll | RStash.
Record reentrancy := mkReent { r_mode : rmode; r_max : Z }.
Record wreentrancy := mkWReent { wr_mode : rmode; wr_max : Z }.    (* max_in_flight: uint32 *)
Definition max_u32 : Z := 4294967295.

Definition newReentrancy (m : rmode) (maxInFlight : Z) : reentrancy :=
  mkReent m (if maxInFlight <=? 0 then 0 else maxInFlight).

Definition encodeReentrancy (r : reentrancy) : wreentrancy :=
  let m := Z.max (r_max r) 0 in
  mkWReent (r_mode r) (if m <=? 0 then 0 else if m >? max_u32 then max_u32 else m).

Definition decodeReentrancy (w : wreentrancy) : reentrancy := newReentrancy (wr_mode w) (wr_max w).

(* ---- dependencies: (id, registered type, MarshalBinary bytes); the user's Marshal/Unmarshal pair is a
   contract of the dependency type, modelled as the identity on the carried triple *)
Record dep := mkDep { dep_id : nat; dep_type : nat; dep_bytes : list Z }.
Definition encodeDeps (ds : list dep) : list dep := ds.
Definition decodeDeps (registered : nat -> bool) (ds : list dep) : option (list dep) :=
  if forallb (fun d => registered (dep_type d)) ds then Some ds else None.

(* ---- spawn configuration *)
Record config := mkCfg {
  c_supervisor : option supervisor;
  c_passivation : pstrategy;
  c_reentrancy : option reentrancy;
  c_stash : bool;
  c_role : option nat;
  c_deps : list dep;
  c_initTimeout : option Z;
  c_relocatable : bool
}.

Definition default_config : config := mkCfg None PNil None false None [] None true.

Inductive spawn_option :=
| WithSupervisor (s : supervisor)
| WithPassivationStrategy (p : pstrategy)
| WithLongLived
| WithReentrancy (r : reentrancy)
| WithStashing
| WithRole (r : nat)
| WithDependencies (ds : list dep)
| WithInitTimeout (t : Z)
| WithRelocationDisabled.

Definition apply_spawn (c : config) (o : spawn_option) : config :=
  match o with
  | WithSupervisor s => mkCfg (Some s) (c_passivation c) (c_reentrancy c) (c_stash c) (c_role c) (c_deps c) (c_initTimeout c) (c_relocatable c)
  | WithPassivationStrategy p => mkCfg (c_supervisor c) p (c_reentrancy c) (c_stash c) (c_role c) (c_deps c) (c_initTimeout c) (c_relocatable c)
  | WithLongLived => mkCfg (c_supervisor c) PLongLived (c_reentrancy c) (c_stash c) (c_role c) (c_deps c) (c_initTimeout c) (c_relocatable c)
  | WithReentrancy r => mkCfg (c_supervisor c) (c_passivation c) (Some r) (c_stash c) (c_role c) (c_deps c) (c_initTimeout c) (c_relocatable c)
  | WithStashing => mkCfg (c_supervisor c) (c_passivation c) (c_reentrancy c) true (c_role c) (c_deps c) (c_initTimeout c) (c_relocatable c)
  | WithRole r => mkCfg (c_supervisor c) (c_passivation c) (c_reentrancy c) (c_stash c) (Some r) (c_deps c) (c_initTimeout c) (c_relocatable c)
  | WithDependencies ds => mkCfg (c_supervisor c) (c_passivation c) (c_reentrancy c) (c_stash c) (c_role c) ds (c_initTimeout c) (c_relocatable c)
  | WithInitTimeout t => (* if timeout > 0 { config.initTimeout = &timeout } *)
      mkCfg (c_supervisor c) (c_passivation c) (c_reentrancy c) (c_stash c) (c_role c) (c_deps c)
            (if t >? 0 then Some t else c_initTimeout c) (c_relocatable c)
  | WithRelocationDisabled => mkCfg (c_supervisor c) (c_passivation c) (c_reentrancy c) (c_stash c) (c_role c) (c_deps c) (c_initTimeout c) false
  end.

Definition newSpawnConfig (opts : list spawn_option) : config := fold_left apply_spawn opts default_config.

(* internalpb.RemoteSpawnRequest / internalpb.Actor: the configuration-carrying fields *)
Record wire := mkWire {
  q_relocatable : bool;
  q_passivation : option wpassivation;
  q_deps : list dep;
  q_stash : bool;
  q_role : option nat;
  q_supervisor : option wspec;
  q_reentrancy : option wreentrancy;
  q_initTimeout : option wduration
}.

(* Spawn with WithHostAndPort -> remoteclient.RemoteSpawn *)
Definition request_hostport (c : config) : wire :=
  mkWire (c_relocatable c) (encodePassivation (c_passivation c)) (encodeDeps (c_deps c)) (c_stash c) (c_role c)
         (option_map encodeSupervisor (c_supervisor c)) (option_map encodeReentrancy (c_reentrancy c))
         (match c_initTimeout c with Some t => if t >? 0 then Some (dur_new t) else None | None => None end).

(* SpawnOn cluster placement -> remoteclient.RemoteSpawn; `carry_role` says whether the request built by
   SpawnOn sets Role (the current source does not) *)
Definition request_placement (carry_role : bool) (c : config) : wire :=
  let q := request_hostport c in
  mkWire (q_relocatable q) (q_passivation q) (q_deps q) (q_stash q) (if carry_role then q_role q else None)
         (q_supervisor q) (q_reentrancy q) (q_initTimeout q).

(* remote_server.go RemoteSpawn (non-singleton branch): request -> spawn options -> config *)
Definition server_options (q : wire) : list spawn_option :=
  [WithPassivationStrategy (decodePassivation (q_passivation q))] ++
  (match q_initTimeout q with Some d => [WithInitTimeout (dur_as d)] | None => [] end) ++
  (if q_relocatable q then [] else [WithRelocationDisabled]) ++
  (if q_stash q then [WithStashing] else []) ++
  (match q_reentrancy q with Some r => [WithReentrancy (decodeReentrancy r)] | None => [] end) ++
  (match q_role q with Some r => if (r =? 0)%nat then [] else [WithRole r] | None => [] end) ++
  (match q_supervisor q with Some s => [WithSupervisor (decodeSupervisor s)] | None => [] end) ++
  (match q_deps q with [] => [] | ds => [WithDependencies ds] end).

Definition server_config (q : wire) : config := newSpawnConfig (server_options q).

(* ---- what a PID ends up with (configPID), given the node defaults *)
Record pidcfg := mkPid {
  p_supervisor : supervisor;
  p_passivation : pstrategy;
  p_reentrancy : option reentrancy;
  p_stash : bool;
  p_role : nat;                 (* "" when unset *)
  p_deps : list dep;
  p_initTimeout : option Z;     (* explicit override only *)
  p_relocatable : bool
}.

Definition configPID (defSup : supervisor) (defPass : pstrategy) (c : config) : pidcfg :=
  mkPid (match c_supervisor c with Some s => s | None => defSup end)
        (match c_passivation c with PNil => defPass | p => p end)
        (c_reentrancy c) (c_stash c)
        (match c_role c with Some r => r | None => 0%nat end)
        (c_deps c) (c_initTimeout c) (c_relocatable c).

(* PID.toSerialize: reentrancyState.toProto re-normalises through reentrancy.New *)
Definition toSerialize (p : pidcfg) : wire :=
  mkWire (p_relocatable p) (encodePassivation (p_passivation p)) (encodeDeps (p_deps p)) (p_stash p)
         (Some (p_role p)) (Some (encodeSupervisor (p_supervisor p)))
         (option_map (fun r => encodeReentrancy (newReentrancy (r_mode r) (r_max r))) (p_reentrancy p))
         (option_map dur_new (p_initTimeout p)).

(* actorSystem.wireSpawnOptions *)
Definition wire_options (q : wire) : list spawn_option :=
  [WithPassivationStrategy (decodePassivation (q_passivation q))] ++
  (match q_initTimeout q with Some d => [WithInitTimeout (dur_as d)] | None => [] end) ++
  (if q_stash q then [WithStashing] else []) ++
  (match q_role q with Some r => if (r =? 0)%nat then [] else [WithRole r] | None => [] end) ++
  (match q_reentrancy q with Some r => [WithReentrancy (decodeReentrancy r)] | None => [] end) ++
  (match q_supervisor q with Some s => [WithSupervisor (decodeSupervisor s)] | None => [] end) ++
  (match q_deps q with [] => [] | ds => [WithDependencies ds] end).

Definition relocated (defSup : supervisor) (defPass : pstrategy) (p : pidcfg) : pidcfg :=
  configPID defSup defPass (newSpawnConfig (wire_options (toSerialize p))).
