(* C37 — flattening of a model configuration into the probe vector the Go harness records, so the
   check can compare model and implementation with one list equality per (case, path). *)
From Coq Require Import List ZArith Bool Arith.
From GV Require Import C37.Model.
Import ListNotations.
Open Scope Z_scope.

Definition b2z (b : bool) : Z := if b then 1 else 0.
Definition strategy_z (s : strategy) : Z := match s with OneForOne => 0 | OneForAll => 1 end.
Definition directive_z (d : directive) : Z := match d with Stop => 0 | Resume => 1 | Restart => 2 | Escalate => 3 end.
Definition z_directive (z : Z) : directive := if z =? 1 then Resume else if z =? 2 then Restart else if z =? 3 then Escalate else Stop.
Definition z_strategy (z : Z) : strategy := if z =? 1 then OneForAll else OneForOne.
Definition mode_z (m : rmode) : Z := match m with ROff => 0 | RAllowAll => 1 | RStash => 2 end.
Definition z_mode (z : Z) : rmode := if z =? 1 then RAllowAll else if z =? 2 then RStash else ROff.

(* probe error types, in the harness' order: A B C D Z panic panicnil any str internal *)
Definition probe_types : list etype := [4; 5; 6; 7; 8; 2; 3; 1; 9; 10]%nat.
Definition probe_faults : list Z := [1; 2; 3; 4; 5; 6; 10; 20; 33; 34; 35; 40; 62; 63; 64; 65; 70].

Definition flat_sup (s : supervisor) : list Z :=
  [strategy_z (s_strategy s); s_maxRetries s; s_timeout s; s_initialDelay s; s_maxDelay s; s_resetAfter s; fault_window s] ++
  flat_map (fun e => match directive_of s e with Some d => [1; directive_z d] | None => [0; 0] end) probe_types ++
  map (restart_delay s) probe_faults.

Definition flat_pass (p : pstrategy) : list Z :=
  match p with PNil => [0; 0] | PTime t => [1; t] | PCount n => [2; n] | PLongLived => [3; 0] | PCustom _ => [4; 0] end.

Definition flat_reent (r : option reentrancy) : list Z :=
  match r with Some x => [1; mode_z (r_mode x); r_max x] | None => [0; 0; 0] end.

Definition flat_deps (ds : list dep) : list Z :=
  Z.of_nat (length ds) :: flat_map (fun d => [Z.of_nat (dep_id d); Z.of_nat (dep_type d)] ++ dep_bytes d) ds.

Definition flat_pid (p : pidcfg) : list Z :=
  flat_sup (p_supervisor p) ++ flat_pass (p_passivation p) ++ flat_reent (p_reentrancy p) ++
  [b2z (p_stash p); Z.of_nat (p_role p)] ++ flat_deps (p_deps p) ++
  (match p_initTimeout p with Some t => [1; t] | None => [0; 0] end) ++ [b2z (p_relocatable p)].

(* the codec-only probe: Decode(Encode(x)) of the three codec'd parts *)
Definition flat_codec (s : option supervisor) (p : pstrategy) (r : option reentrancy) : list Z :=
  (match s with Some x => 1 :: flat_sup x | None => [0] end) ++ flat_pass p ++ flat_reent r.

Definition codec_roundtrip (s : option supervisor) (p : pstrategy) (r : option reentrancy) : list Z :=
  flat_codec (option_map (fun x => decodeSupervisor (encodeSupervisor x)) s)
             (decodePassivation (encodePassivation p))
             (option_map (fun x => decodeReentrancy (encodeReentrancy x)) r).

(* node defaults of a freshly created actor system *)
Definition node_sup : supervisor := newSupervisor [].
Definition node_pass : pstrategy := PTime 120000000000.

Definition path_local (c : config) : list Z := flat_pid (configPID node_sup node_pass c).
Definition path_hostport (c : config) : list Z := flat_pid (configPID node_sup node_pass (server_config (request_hostport c))).
Definition path_placement (carry_role : bool) (c : config) : list Z :=
  flat_pid (configPID node_sup node_pass (server_config (request_placement carry_role c))).
Definition path_reloc (c : config) : list Z :=
  flat_pid (relocated node_sup node_pass (configPID node_sup node_pass c)).
