(* C37 — proofs: the supervisor codec round trip (everything except the backoff triple, which the
   wire schema does not carry), passivation, reentrancy, durations. *)
From Coq Require Import List ZArith Bool Arith Lia Permutation.
From GV Require Import C37.Model.
Import ListNotations.
Open Scope Z_scope.

(* ------------------------------------------------------------------ durations *)
Lemma dur_roundtrip d : dur_as (dur_new d) = d.
Proof. unfold dur_as, dur_new. simpl. ring. Qed.

(* the encoded pair is what durationpb.New produces: |nanos| < 1s with the sign of d *)
Lemma dur_new_nanos d : d_nanos (dur_new d) = Z.rem d second.
Proof.
  unfold dur_new. simpl. pose proof (Z.quot_rem' d second). unfold second in *. lia.
Qed.

(* ------------------------------------------------------------------ enums *)
Lemma dec_enc_strategy s : dec_strategy (enc_strategy s) = s.
Proof. destruct s; reflexivity. Qed.
Lemma dec_enc_directive d : dec_directive (enc_directive d) = d.
Proof. destruct d; reflexivity. Qed.

(* ------------------------------------------------------------------ the directive map *)
Lemma dget_dset k k' v m : dget k (dset k' v m) = if (k =? k')%nat then Some v else dget k m.
Proof.
  induction m as [|[k0 v0] r IH]; simpl.
  - destruct (k =? k')%nat; reflexivity.
  - destruct (Nat.eqb_spec k' k0) as [->|Hne]; simpl.
    + destruct (Nat.eqb_spec k k0); reflexivity.
    + rewrite IH. destruct (Nat.eqb_spec k k0) as [->|]; auto.
      destruct (Nat.eqb_spec k0 k'); [congruence|reflexivity].
Qed.

Lemma dset_keys k v m x : In x (map fst (dset k v m)) <-> x = k \/ In x (map fst m).
Proof.
  induction m as [|[k0 v0] r IH]; simpl.
  - intuition congruence.
  - destruct (Nat.eqb_spec k k0) as [->|Hne]; simpl; [intuition congruence|]. rewrite IH. intuition congruence.
Qed.

Lemma dset_NoDup k v m : NoDup (map fst m) -> NoDup (map fst (dset k v m)).
Proof.
  induction m as [|[k0 v0] r IH]; simpl; intros H.
  - repeat constructor; auto.
  - inversion H; subst. destruct (Nat.eqb_spec k k0) as [->|Hne]; simpl.
    + constructor; auto.
    + constructor; auto. rewrite dset_keys. intros [->|Hin]; auto.
Qed.

Lemma dget_In k v m : NoDup (map fst m) -> (dget k m = Some v <-> In (k, v) m).
Proof.
  induction m as [|[k0 v0] r IH]; simpl; intros H.
  - split; [discriminate|tauto].
  - inversion H; subst. destruct (Nat.eqb_spec k k0) as [->|Hne].
    + split; [intros [= ->]; auto|]. intros [[= ->]|Hin]; auto.
      exfalso. apply H2. apply (in_map fst) in Hin. exact Hin.
    + rewrite IH by assumption. split; auto. intros [[= -> ->]|Hin]; [congruence|auto].
Qed.

Lemma dget_None_notin k m : dget k m = None <-> ~ In k (map fst m).
Proof.
  induction m as [|[k0 v0] r IH]; simpl; [tauto|].
  destruct (Nat.eqb_spec k k0) as [->|Hne].
  - split; [discriminate|]. intros H. exfalso. auto.
  - rewrite IH. intuition.
Qed.

(* ------------------------------------------------------------------ options fold: invariants *)
Definition opt_ok (o : sup_option) : Prop :=
  match o with ODirective k _ => k <> k_empty | _ => True end.

Record dirs_inv (m : dmap) : Prop := {
  di_nodup : NoDup (map fst m);
  di_panic : dget k_panic m <> None;
  di_panicnil : dget k_panicnil m <> None;
  di_nonempty : dget k_empty m = None
}.

Lemma dirs_inv_defaults : dirs_inv (s_dirs sup_defaults).
Proof.
  constructor; simpl; try discriminate; auto.
  repeat constructor; simpl; intuition; discriminate.
Qed.

Lemma dirs_inv_dset k v m : k <> k_empty -> dirs_inv m -> dirs_inv (dset k v m).
Proof.
  intros Hk [H1 H2 H3 H4]. constructor.
  - apply dset_NoDup, H1.
  - rewrite dget_dset. destruct (_ =? _)%nat; [discriminate|exact H2].
  - rewrite dget_dset. destruct (_ =? _)%nat; [discriminate|exact H3].
  - rewrite dget_dset. destruct (Nat.eqb_spec k_empty k); [congruence|exact H4].
Qed.

Lemma apply_opt_inv s o : opt_ok o -> dirs_inv (s_dirs s) -> dirs_inv (s_dirs (apply_opt s o)).
Proof.
  intros Ho I. destruct o; simpl; auto.
  - apply dirs_inv_dset; auto.
  - destruct (_ <=? 0); simpl; auto.
  - apply dirs_inv_dset; auto. discriminate.
Qed.

Lemma fold_opts_inv : forall opts s, Forall opt_ok opts -> dirs_inv (s_dirs s) ->
  dirs_inv (s_dirs (fold_left apply_opt opts s)).
Proof.
  induction opts as [|o r IH]; intros s Ho I; simpl; auto.
  inversion Ho; subst. apply IH; auto. apply apply_opt_inv; auto.
Qed.

(* ------------------------------------------------------------------ decoding the rules *)
Fixpoint wget (k : etype) (l : list (etype * wdirective)) : option wdirective :=
  match l with
  | [] => None
  | (k', v) :: r => if (k =? k')%nat then Some v else wget k r
  end.

Definition rules_apply (l : list (etype * wdirective)) (s : supervisor) : supervisor :=
  fold_left (fun s r => setDirectiveByType s (fst r) (dec_directive (snd r))) l s.

Lemma setDirective_fields s k d :
  s_strategy (setDirectiveByType s k d) = s_strategy s /\ s_maxRetries (setDirectiveByType s k d) = s_maxRetries s /\
  s_timeout (setDirectiveByType s k d) = s_timeout s /\ s_initialDelay (setDirectiveByType s k d) = s_initialDelay s /\
  s_maxDelay (setDirectiveByType s k d) = s_maxDelay s /\ s_resetAfter (setDirectiveByType s k d) = s_resetAfter s.
Proof. unfold setDirectiveByType. destruct (_ =? _)%nat; simpl; auto 10. Qed.

Lemma rules_apply_fields : forall l s,
  s_strategy (rules_apply l s) = s_strategy s /\ s_maxRetries (rules_apply l s) = s_maxRetries s /\
  s_timeout (rules_apply l s) = s_timeout s /\ s_initialDelay (rules_apply l s) = s_initialDelay s /\
  s_maxDelay (rules_apply l s) = s_maxDelay s /\ s_resetAfter (rules_apply l s) = s_resetAfter s.
Proof.
  induction l as [|r l IH]; intros s; simpl; auto 10.
  destruct (IH (setDirectiveByType s (fst r) (dec_directive (snd r)))) as (A & B & C & D & E & F).
  destruct (setDirective_fields s (fst r) (dec_directive (snd r))) as (A' & B' & C' & D' & E' & F').
  unfold rules_apply in *. simpl. repeat split; congruence.
Qed.

Lemma rules_apply_get : forall l s k, NoDup (map fst l) -> ~ In k_empty (map fst l) ->
  dget k (s_dirs (rules_apply l s)) =
  match wget k l with Some d => Some (dec_directive d) | None => dget k (s_dirs s) end.
Proof.
  induction l as [|[k0 v0] l IH]; intros s k Hn He; simpl; auto.
  inversion Hn; subst. simpl in He.
  unfold rules_apply in *. simpl. rewrite IH by intuition.
  destruct (Nat.eqb_spec k k0) as [->|Hne].
  - assert (Hw : wget k0 l = None).
    { clear -H1. induction l as [|[a b] l IHl]; simpl in *; auto.
      destruct (Nat.eqb_spec k0 a); [subst; intuition|]. apply IHl. intuition. }
    rewrite Hw. unfold setDirectiveByType. destruct (Nat.eqb_spec k0 k_empty); [intuition|].
    simpl. rewrite dget_dset, Nat.eqb_refl. reflexivity.
  - destruct (wget k l); auto.
    unfold setDirectiveByType. destruct (_ =? k_empty)%nat; auto.
    simpl. rewrite dget_dset. destruct (Nat.eqb_spec k k0); [congruence|reflexivity].
Qed.

Lemma wget_In k v l : NoDup (map fst l) -> (wget k l = Some v <-> In (k, v) l).
Proof.
  induction l as [|[k0 v0] r IH]; simpl; intros H.
  - split; [discriminate|tauto].
  - inversion H; subst. destruct (Nat.eqb_spec k k0) as [->|Hne].
    + split; [intros [= ->]; auto|]. intros [[= ->]|Hin]; auto.
      exfalso. apply H2. apply (in_map fst) in Hin. exact Hin.
    + rewrite IH by assumption. split; auto. intros [[= -> ->]|Hin]; [congruence|auto].
Qed.

Lemma wget_perm k l1 l2 : NoDup (map fst l1) -> Permutation l1 l2 -> wget k l1 = wget k l2.
Proof.
  intros Hn Hp.
  assert (Hn2 : NoDup (map fst l2)) by (eapply Permutation_NoDup; [apply Permutation_map; exact Hp|exact Hn]).
  destruct (wget k l1) as [v|] eqn:E1.
  - symmetry. apply wget_In; auto. apply (Permutation_in _ Hp). apply wget_In in E1; auto.
  - destruct (wget k l2) as [v|] eqn:E2; auto.
    apply wget_In in E2; auto. apply (Permutation_in _ (Permutation_sym Hp)) in E2.
    apply wget_In in E2; auto. congruence.
Qed.

Lemma insert_rule_perm r l : Permutation (insert_rule r l) (r :: l).
Proof.
  induction l as [|x t IH]; simpl; auto.
  destruct (_ <=? _)%nat; auto. rewrite IH. apply perm_swap.
Qed.

Lemma sort_rules_perm l : Permutation (sort_rules l) l.
Proof.
  induction l as [|x t IH]; simpl; auto. rewrite insert_rule_perm. auto.
Qed.

Lemma wget_encoded k m : k <> k_empty ->
  wget k (map (fun r => (fst r, enc_directive (snd r))) (filter (fun r => negb (fst r =? k_empty)%nat) m)) =
  option_map enc_directive (dget k m).
Proof.
  intros Hk. induction m as [|[k0 v0] r IH]; simpl; auto.
  destruct (Nat.eqb_spec k0 k_empty) as [->|Hne]; simpl.
  - destruct (Nat.eqb_spec k k_empty); [congruence|exact IH].
  - destruct (Nat.eqb_spec k k0); auto.
Qed.

Lemma encoded_keys m :
  map fst (map (fun r : etype * directive => (fst r, enc_directive (snd r))) (filter (fun r => negb (fst r =? k_empty)%nat) m)) =
  filter (fun k => negb (k =? k_empty)%nat) (map fst m).
Proof.
  induction m as [|[k0 v0] r IH]; [reflexivity|].
  cbn [filter map fst]. destruct (k0 =? k_empty)%nat; cbn [negb map fst snd]; [exact IH|f_equal; exact IH].
Qed.

(* ------------------------------------------------------------------ newSupervisor *)
Definition lookup_eq (a b : supervisor) : Prop := forall k, dget k (s_dirs a) = dget k (s_dirs b).

Lemma with_dirs_fields s d :
  s_strategy (with_dirs s d) = s_strategy s /\ s_maxRetries (with_dirs s d) = s_maxRetries s /\
  s_timeout (with_dirs s d) = s_timeout s /\ s_initialDelay (with_dirs s d) = s_initialDelay s /\
  s_maxDelay (with_dirs s d) = s_maxDelay s /\ s_resetAfter (with_dirs s d) = s_resetAfter s /\
  s_dirs (with_dirs s d) = d.
Proof. simpl. auto 10. Qed.

(* shape of a constructed supervisor: either any-error only, or defaults ∪ rules without any-error *)
Lemma newSupervisor_shape opts : Forall opt_ok opts ->
  let s := newSupervisor opts in
  (exists d, s_dirs s = [(k_any, d)]) \/ (dget k_any (s_dirs s) = None /\ dirs_inv (s_dirs s)).
Proof.
  intros Ho. unfold newSupervisor.
  pose proof (fold_opts_inv opts sup_defaults Ho dirs_inv_defaults) as I.
  destruct (dget k_any (s_dirs (fold_left apply_opt opts sup_defaults))) as [d|] eqn:E.
  - left. exists d. reflexivity.
  - right. split; assumption.
Qed.

(* what decoding an encoded constructed supervisor yields, field by field *)
Theorem roundtrip_core opts : Forall opt_ok opts ->
  let s := newSupervisor opts in
  let s' := decodeSupervisor (encodeSupervisor s) in
  s_strategy s' = s_strategy s /\ s_maxRetries s' = s_maxRetries s /\ s_timeout s' = s_timeout s /\
  lookup_eq s' s /\
  s_initialDelay s' = 0 /\ s_maxDelay s' = 0 /\ s_resetAfter s' = 0.
Proof.
  intros Ho s s'. destruct (newSupervisor_shape opts Ho) as [(d & Hd)|(Hany & I)]; fold s in Hd || fold s in Hany, I.
  - (* any-error supervisor *)
    subst s'. unfold encodeSupervisor. rewrite Hd. change (dget k_any [(k_any, d)]) with (Some d). cbv iota.
    unfold decodeSupervisor. cbn [w_any w_timeout w_maxRetries w_strategy w_directives].
    rewrite dur_roundtrip, dec_enc_strategy, dec_enc_directive.
    unfold newSupervisor. simpl. repeat split; auto.
    intros k. rewrite Hd. reflexivity.
  - subst s'. unfold encodeSupervisor. rewrite Hany.
    unfold decodeSupervisor. cbn [w_any w_timeout w_maxRetries w_strategy w_directives].
    rewrite dur_roundtrip, dec_enc_strategy.
    set (base := newSupervisor [OStrategy (s_strategy s); ORetry (s_maxRetries s) (s_timeout s)]).
    assert (Hb : base = mkSup (s_strategy s) (s_maxRetries s) (s_timeout s) 0 0 0 [(k_panic, Stop); (k_panicnil, Restart)])
      by reflexivity.
    set (rules := sort_rules _).
    fold (rules_apply rules base).
    destruct (rules_apply_fields rules base) as (A & B & C & D & E & F).
    rewrite A, B, C, D, E, F, Hb. simpl. repeat split; auto.
    intros k.
    assert (Hperm : Permutation rules (map (fun r => (fst r, enc_directive (snd r)))
                                          (filter (fun r => negb (fst r =? k_empty)%nat) (s_dirs s))))
      by apply sort_rules_perm.
    assert (Hnd0 : NoDup (map fst (map (fun r : etype * directive => (fst r, enc_directive (snd r)))
                                       (filter (fun r => negb (fst r =? k_empty)%nat) (s_dirs s))))).
    { rewrite encoded_keys. apply NoDup_filter. apply I. }
    assert (Hnd : NoDup (map fst rules)).
    { eapply Permutation_NoDup; [apply Permutation_map, Permutation_sym, Hperm|exact Hnd0]. }
    assert (Hne : ~ In k_empty (map fst rules)).
    { intros Hin. apply (Permutation_in _ (Permutation_map fst Hperm)) in Hin.
      rewrite encoded_keys in Hin. apply filter_In in Hin. destruct Hin as (_ & Hx).
      rewrite Nat.eqb_refl in Hx. discriminate. }
    rewrite rules_apply_get by assumption.
    rewrite (wget_perm k _ _ Hnd Hperm).
    destruct (Nat.eq_dec k k_empty) as [->|Hk].
    + (* the empty type name is on neither side *)
      rewrite (di_nonempty _ I).
      match goal with |- context [wget k_empty ?l] => assert (Hw : wget k_empty l = None) end.
      { destruct (wget _ _) as [v|] eqn:Ew; auto. apply wget_In in Ew; auto.
        apply (in_map fst) in Ew. rewrite encoded_keys in Ew. apply filter_In in Ew.
        destruct Ew as (_ & Hx). simpl in Hx. discriminate. }
      rewrite Hw. reflexivity.
    + rewrite wget_encoded by exact Hk.
      destruct (dget k (s_dirs s)) as [v|] eqn:Eg; simpl.
      * now rewrite dec_enc_directive.
      * (* not configured: then it is not one of the two defaults either *)
        simpl.
        destruct (Nat.eqb_spec k k_panic) as [->|]; [exfalso; apply (di_panic _ I); exact Eg|].
        destruct (Nat.eqb_spec k k_panicnil) as [->|]; [exfalso; apply (di_panicnil _ I); exact Eg|].
        reflexivity.
Qed.

(* ------------------------------------------------------------------ observational equality *)
Definition sup_equiv (a b : supervisor) : Prop :=
  s_strategy a = s_strategy b /\ s_maxRetries a = s_maxRetries b /\ s_timeout a = s_timeout b /\
  (forall e, directive_of a e = directive_of b e) /\
  (forall f, budget_exhausted a f = budget_exhausted b f) /\
  (forall f, restart_delay a f = restart_delay b f) /\
  restart_pacing a = restart_pacing b.

Lemma sup_equiv_refl a : sup_equiv a a.
Proof. repeat split; auto. Qed.

Lemma sup_equiv_of_fields a b :
  s_strategy a = s_strategy b -> s_maxRetries a = s_maxRetries b -> s_timeout a = s_timeout b ->
  lookup_eq a b -> s_initialDelay a = s_initialDelay b -> s_maxDelay a = s_maxDelay b ->
  s_resetAfter a = s_resetAfter b -> sup_equiv a b.
Proof.
  intros H1 H2 H3 H4 H5 H6 H7. repeat split; auto.
  - intros e. unfold directive_of. rewrite !H4. reflexivity.
  - intros f. unfold budget_exhausted, fault_window. now rewrite H2, H3, H7.
  - intros f. unfold restart_delay. now rewrite H5, H6.
  - unfold restart_pacing. now rewrite H2, H3, H5, H6.
Qed.

Definition no_backoff (s : supervisor) : Prop :=
  s_initialDelay s = 0 /\ s_maxDelay s = 0 /\ s_resetAfter s = 0.

Theorem supervisor_roundtrip_partial opts : Forall opt_ok opts -> no_backoff (newSupervisor opts) ->
  sup_equiv (decodeSupervisor (encodeSupervisor (newSupervisor opts))) (newSupervisor opts).
Proof.
  intros Ho (B1 & B2 & B3). destruct (roundtrip_core opts Ho) as (A & B & C & D & E & F & G).
  apply sup_equiv_of_fields; auto; congruence.
Qed.

(* with backoff configured, everything that IS on the wire still survives *)
Theorem supervisor_roundtrip_wire_fields opts : Forall opt_ok opts ->
  let s := newSupervisor opts in
  let s' := decodeSupervisor (encodeSupervisor s) in
  s_strategy s' = s_strategy s /\ s_maxRetries s' = s_maxRetries s /\ s_timeout s' = s_timeout s /\
  forall e, directive_of s' e = directive_of s e.
Proof.
  intros Ho s s'. destruct (roundtrip_core opts Ho) as (A & B & C & D & _).
  repeat split; auto. intros e. unfold directive_of. fold s. fold s'. rewrite !D. reflexivity.
Qed.

(* the backoff triple is lost: WithExponentialBackoff(100ms, 2s, 0) restarts after 100ms locally, at once remotely *)
Definition backoff_witness : list sup_option := [OBackoff 100000000 2000000000 0].

Theorem supervisor_backoff_refuted :
  exists opts, Forall opt_ok opts /\
    ~ sup_equiv (decodeSupervisor (encodeSupervisor (newSupervisor opts))) (newSupervisor opts).
Proof.
  exists backoff_witness. split; [repeat constructor|].
  intros (_ & _ & _ & _ & _ & Hd & _). specialize (Hd 1). vm_compute in Hd. discriminate.
Qed.

(* decoded supervisors never have backoff, whatever was encoded *)
Theorem decoded_has_no_backoff opts : Forall opt_ok opts ->
  no_backoff (decodeSupervisor (encodeSupervisor (newSupervisor opts))).
Proof. intros Ho. destruct (roundtrip_core opts Ho) as (_ & _ & _ & _ & E & F & G). repeat split; auto. Qed.

(* ------------------------------------------------------------------ passivation, reentrancy *)
Definition pass_wire_ok (p : pstrategy) : Prop := match p with PCustom _ => False | _ => True end.

Lemma passivation_roundtrip p : pass_wire_ok p -> decodePassivation (encodePassivation p) = p.
Proof. destruct p; simpl; intros H; try reflexivity; [now rewrite dur_roundtrip|destruct H]. Qed.

Definition reent_wf (r : reentrancy) : Prop := 0 <= r_max r.

Lemma reentrancy_roundtrip r : reent_wf r -> r_max r <= max_u32 -> decodeReentrancy (encodeReentrancy r) = r.
Proof.
  unfold reent_wf, decodeReentrancy, encodeReentrancy, newReentrancy, max_u32. destruct r as [m x]. simpl.
  intros H0 H1. f_equal.
  rewrite Z.max_l by lia.
  destruct (Z.leb_spec x 0); simpl.
  - replace x with 0 by lia. reflexivity.
  - destruct (Z.gtb_spec x 4294967295); [lia|].
    destruct (Z.leb_spec x 0); [lia|reflexivity].
Qed.

(* the wire field is a uint32: larger limits saturate *)
Lemma reentrancy_saturates r : max_u32 < r_max r ->
  decodeReentrancy (encodeReentrancy r) = mkReent (r_mode r) max_u32.
Proof.
  unfold decodeReentrancy, encodeReentrancy, newReentrancy, max_u32. destruct r as [m x]. simpl.
  intros H. rewrite Z.max_l by lia.
  destruct (Z.leb_spec x 0); [lia|]. destruct (Z.gtb_spec x 4294967295); [|lia]. reflexivity.
Qed.

Lemma newReentrancy_wf m n : reent_wf (newReentrancy m n).
Proof. unfold reent_wf, newReentrancy. simpl. destruct (Z.leb_spec n 0); lia. Qed.

Lemma newReentrancy_idem r : reent_wf r -> newReentrancy (r_mode r) (r_max r) = r.
Proof.
  unfold reent_wf, newReentrancy. destruct r as [m x]. simpl. intros H.
  destruct (Z.leb_spec x 0); f_equal; lia.
Qed.
