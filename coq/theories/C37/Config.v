(* C37 — the three wire paths of a spawn configuration: Spawn+WithHostAndPort, SpawnOn placement,
   relocation (toSerialize / wireSpawnOptions), compared observationally with the local configuration. *)
From Coq Require Import List ZArith Bool Arith Lia Permutation.
From GV Require Import C37.Model C37.Proofs.
Import ListNotations.
Open Scope Z_scope.

Definition osup_equiv (a b : option supervisor) : Prop :=
  match a, b with
  | Some x, Some y => sup_equiv x y
  | None, None => True
  | _, _ => False
  end.

Definition role_of (c : config) : nat := match c_role c with Some r => r | None => 0%nat end.

Definition cfg_equiv (a b : config) : Prop :=
  osup_equiv (c_supervisor a) (c_supervisor b) /\ c_passivation a = c_passivation b /\
  c_reentrancy a = c_reentrancy b /\ c_stash a = c_stash b /\ role_of a = role_of b /\
  c_deps a = c_deps b /\ c_initTimeout a = c_initTimeout b /\ c_relocatable a = c_relocatable b.

(* a configuration as the public API can produce it and Validate accepts it *)
Record cfg_wf (c : config) : Prop := {
  wf_sup : match c_supervisor c with Some s => exists opts, Forall opt_ok opts /\ s = newSupervisor opts | None => True end;
  wf_pass : pass_wire_ok (c_passivation c);
  wf_reent : match c_reentrancy c with Some r => reent_wf r /\ r_max r <= max_u32 | None => True end;
  wf_init : match c_initTimeout c with Some t => 0 < t | None => True end
}.

Definition cfg_no_backoff (c : config) : Prop :=
  match c_supervisor c with Some s => no_backoff s | None => True end.

(* ------------------------------------------------------------------ the receivers in closed form *)
Definition init_of (d : option wduration) : option Z :=
  match d with Some w => if dur_as w >? 0 then Some (dur_as w) else None | None => None end.
Definition role_in (r : option nat) : option nat :=
  match r with Some x => if (x =? 0)%nat then None else Some x | None => None end.

Ltac crunch :=
  repeat match goal with
         | |- context [if ?b then _ else _] => destruct b eqn:?
         | |- context [match ?x with Some _ => _ | None => _ end] => destruct x eqn:?
         | |- context [match ?x with [] => _ | _ :: _ => _ end] => destruct x eqn:?
         end.

Local Opaque decodeSupervisor decodePassivation decodeReentrancy dur_as Z.gtb.

Lemma server_config_fields q :
  c_supervisor (server_config q) = option_map decodeSupervisor (q_supervisor q) /\
  c_passivation (server_config q) = decodePassivation (q_passivation q) /\
  c_reentrancy (server_config q) = option_map decodeReentrancy (q_reentrancy q) /\
  c_stash (server_config q) = q_stash q /\
  c_role (server_config q) = role_in (q_role q) /\
  c_deps (server_config q) = q_deps q /\
  c_initTimeout (server_config q) = init_of (q_initTimeout q) /\
  c_relocatable (server_config q) = q_relocatable q.
Proof.
  destruct q as [rel pas deps st role sup re ini].
  unfold server_config, server_options, newSpawnConfig, init_of, role_in. cbn [q_relocatable q_passivation q_deps q_stash q_role q_supervisor q_reentrancy q_initTimeout].
  destruct ini as [w|]; destruct rel; destruct st; destruct re as [r|]; destruct role as [x|]; destruct sup as [s|]; destruct deps as [|d0 ds];
    try destruct (x =? 0)%nat;
    lazy beta iota zeta delta [app fold_left apply_spawn option_map default_config c_supervisor c_passivation c_reentrancy c_stash c_role c_deps c_initTimeout c_relocatable];
    repeat split; reflexivity.
Qed.

Lemma wire_config_fields q :
  let c := newSpawnConfig (wire_options q) in
  c_supervisor c = option_map decodeSupervisor (q_supervisor q) /\
  c_passivation c = decodePassivation (q_passivation q) /\
  c_reentrancy c = option_map decodeReentrancy (q_reentrancy q) /\
  c_stash c = q_stash q /\
  c_role c = role_in (q_role q) /\
  c_deps c = q_deps q /\
  c_initTimeout c = init_of (q_initTimeout q) /\
  c_relocatable c = true.
Proof.
  destruct q as [rel pas deps st role sup re ini].
  unfold wire_options, newSpawnConfig, init_of, role_in. cbn [q_relocatable q_passivation q_deps q_stash q_role q_supervisor q_reentrancy q_initTimeout].
  destruct ini as [w|]; destruct st; destruct re as [r|]; destruct role as [x|]; destruct sup as [s|]; destruct deps as [|d0 ds];
    try destruct (x =? 0)%nat;
    lazy beta iota zeta delta [app fold_left apply_spawn option_map default_config c_supervisor c_passivation c_reentrancy c_stash c_role c_deps c_initTimeout c_relocatable];
    repeat split; reflexivity.
Qed.

Local Transparent decodeSupervisor decodePassivation decodeReentrancy dur_as Z.gtb.

(* ------------------------------------------------------------------ Spawn + WithHostAndPort *)
Lemma osup_roundtrip (s : option supervisor) :
  match s with Some x => (exists opts, Forall opt_ok opts /\ x = newSupervisor opts) /\ no_backoff x | None => True end ->
  osup_equiv (option_map decodeSupervisor (option_map encodeSupervisor s)) s.
Proof.
  destruct s as [x|]; simpl; auto. intros ((opts & Ho & ->) & Hb).
  apply supervisor_roundtrip_partial; auto.
Qed.

Lemma init_roundtrip t : 0 < t -> init_of (Some (dur_new t)) = Some t.
Proof. intros H. unfold init_of. rewrite dur_roundtrip. destruct (Z.gtb_spec t 0); [reflexivity|lia]. Qed.

Theorem hostport_roundtrip_partial c : cfg_wf c -> cfg_no_backoff c ->
  cfg_equiv (server_config (request_hostport c)) c.
Proof.
  intros [Ws Wp Wr Wi] Hb.
  destruct (server_config_fields (request_hostport c)) as (A & B & C & D & E & F & G & H).
  unfold cfg_equiv, role_of. rewrite A, B, C, D, E, F, G, H. clear A B C D E F G H.
  unfold request_hostport. cbn [q_relocatable q_passivation q_deps q_stash q_role q_supervisor q_reentrancy q_initTimeout].
  refine (conj _ (conj _ (conj _ (conj _ (conj _ (conj _ (conj _ _))))))); auto.
  - apply osup_roundtrip. unfold cfg_no_backoff in Hb. destruct (c_supervisor c); auto.
  - apply passivation_roundtrip, Wp.
  - destruct (c_reentrancy c) as [r|]; simpl; auto. f_equal. apply reentrancy_roundtrip; tauto.
  - unfold role_in. destruct (c_role c) as [x|]; auto. destruct (Nat.eqb_spec x 0); auto.
  - destruct (c_initTimeout c) as [t|]; auto.
    destruct (Z.gtb_spec t 0); [|lia]. apply init_roundtrip. lia.
Qed.

(* ------------------------------------------------------------------ SpawnOn placement *)
Theorem placement_with_role_is_hostport c : request_placement true c = request_hostport c.
Proof. unfold request_placement. destruct (request_hostport c); reflexivity. Qed.

Theorem placement_roundtrip_partial carry c : cfg_wf c -> cfg_no_backoff c ->
  carry = true \/ role_of c = 0%nat ->
  cfg_equiv (server_config (request_placement carry c)) c.
Proof.
  intros W Hb Hc. destruct carry.
  - rewrite placement_with_role_is_hostport. apply hostport_roundtrip_partial; auto.
  - destruct Hc as [Hc|Hc]; [discriminate|].
    pose proof (hostport_roundtrip_partial c W Hb) as He.
    destruct (server_config_fields (request_hostport c)) as (A & B & C & D & E & F & G & H).
    destruct (server_config_fields (request_placement false c)) as (A' & B' & C' & D' & E' & F' & G' & H').
    unfold cfg_equiv, role_of in *. rewrite A', B', C', D', E', F', G', H'.
    rewrite A, B, C, D, E, F, G, H in He.
    unfold request_placement. cbn [q_relocatable q_passivation q_deps q_stash q_role q_supervisor q_reentrancy q_initTimeout].
    destruct He as (e1 & e2 & e3 & e4 & e5 & e6 & e7 & e8). repeat split; auto.
Qed.

(* a request that does not set Role loses a configured role *)
Definition role_witness : config := newSpawnConfig [WithRole 5%nat].

Theorem placement_role_refuted :
  cfg_wf role_witness /\ cfg_no_backoff role_witness /\
  ~ cfg_equiv (server_config (request_placement false role_witness)) role_witness.
Proof.
  split; [|split].
  - constructor; simpl; auto.
  - exact I.
  - intros (_ & _ & _ & _ & Hr & _). vm_compute in Hr. discriminate.
Qed.

(* ------------------------------------------------------------------ backoff over the request path *)
Definition backoff_cfg : config := newSpawnConfig [WithSupervisor (newSupervisor backoff_witness)].

Theorem hostport_backoff_refuted :
  cfg_wf backoff_cfg /\ ~ cfg_equiv (server_config (request_hostport backoff_cfg)) backoff_cfg.
Proof.
  split.
  - constructor; simpl; auto. exists backoff_witness. split; [repeat constructor|reflexivity].
  - intros (Hs & _). simpl in Hs. destruct Hs as (_ & _ & _ & _ & _ & Hd & _).
    specialize (Hd 1). vm_compute in Hd. discriminate.
Qed.

(* ------------------------------------------------------------------ relocation *)
Definition pid_equiv (a b : pidcfg) : Prop :=
  sup_equiv (p_supervisor a) (p_supervisor b) /\ p_passivation a = p_passivation b /\
  p_reentrancy a = p_reentrancy b /\ p_stash a = p_stash b /\ p_role a = p_role b /\
  p_deps a = p_deps b /\ p_initTimeout a = p_initTimeout b /\ p_relocatable a = p_relocatable b.

Record pid_wf (p : pidcfg) : Prop := {
  pw_sup : exists opts, Forall opt_ok opts /\ p_supervisor p = newSupervisor opts;
  pw_pass : match p_passivation p with PNil | PCustom _ => False | _ => True end;
  pw_reent : match p_reentrancy p with Some r => reent_wf r /\ r_max r <= max_u32 | None => True end;
  pw_init : match p_initTimeout p with Some t => 0 < t | None => True end
}.

(* every PID built by configPID from an accepted configuration on a node with sane defaults is well formed *)
Lemma configPID_wf defSup defPass c :
  (exists opts, Forall opt_ok opts /\ defSup = newSupervisor opts) ->
  match defPass with PNil | PCustom _ => False | _ => True end ->
  cfg_wf c -> pid_wf (configPID defSup defPass c).
Proof.
  intros Hd Hp [Ws Wp Wr Wi]. constructor; simpl; auto.
  - destruct (c_supervisor c); auto.
  - destruct (c_passivation c); simpl in *; auto.
Qed.

Theorem relocation_roundtrip_partial defSup defPass p :
  pid_wf p -> no_backoff (p_supervisor p) -> p_relocatable p = true ->
  pid_equiv (relocated defSup defPass p) p.
Proof.
  intros [(opts & Ho & Hs) Wp Wr Wi] Hb Hrel.
  unfold relocated.
  destruct (wire_config_fields (toSerialize p)) as (A & B & C & D & E & F & G & H).
  unfold pid_equiv, configPID. cbn [p_supervisor p_passivation p_reentrancy p_stash p_role p_deps p_initTimeout p_relocatable].
  rewrite A, B, C, D, E, F, G, H. clear A B C D E F G H.
  unfold toSerialize. cbn [q_relocatable q_passivation q_deps q_stash q_role q_supervisor q_reentrancy q_initTimeout option_map].
  refine (conj _ (conj _ (conj _ (conj _ (conj _ (conj _ (conj _ _))))))); auto.
  - rewrite Hs in *. apply supervisor_roundtrip_partial; auto.
  - rewrite passivation_roundtrip by (destruct (p_passivation p); simpl; auto).
    destruct (p_passivation p); auto; destruct Wp.
  - destruct (p_reentrancy p) as [r|]; simpl; auto. destruct Wr as (W0 & W1).
    rewrite newReentrancy_idem by exact W0. f_equal. apply reentrancy_roundtrip; auto.
  - unfold role_in. destruct (Nat.eqb_spec (p_role p) 0); auto.
  - destruct (p_initTimeout p) as [t|]; simpl; auto. apply init_roundtrip. exact Wi.
Qed.

Definition backoff_pid : pidcfg :=
  configPID sup_defaults (PTime 120000000000) backoff_cfg.

Theorem relocation_backoff_refuted :
  pid_wf backoff_pid /\ p_relocatable backoff_pid = true /\
  ~ pid_equiv (relocated sup_defaults (PTime 120000000000) backoff_pid) backoff_pid.
Proof.
  split; [|split]; [| reflexivity |].
  - constructor; simpl; auto. exists backoff_witness. split; [repeat constructor|reflexivity].
  - intros (Hs & _). destruct Hs as (_ & _ & _ & _ & _ & Hd & _).
    specialize (Hd 1). vm_compute in Hd. discriminate.
Qed.

(* ------------------------------------------------------------------ examples: the hypotheses are satisfiable *)
Definition ex_opts : list sup_option :=
  [OStrategy OneForAll; ODirective 7%nat Resume; ODirective k_panic Escalate; ORetry 3 5000000000].
Definition ex_cfg : config :=
  newSpawnConfig [WithSupervisor (newSupervisor ex_opts); WithPassivationStrategy (PCount 10);
                  WithReentrancy (newReentrancy RStash 4); WithStashing; WithRole 2%nat;
                  WithDependencies [mkDep 1 1 [1;2;3]]; WithInitTimeout 250000000; WithRelocationDisabled].

Example ex_cfg_wf : cfg_wf ex_cfg /\ cfg_no_backoff ex_cfg.
Proof.
  split.
  - constructor; simpl; auto; try lia.
    + exists ex_opts. split; [|reflexivity]. repeat constructor; discriminate.
    + unfold reent_wf, max_u32. simpl. lia.
  - repeat split.
Qed.

Example ex_roundtrip_value :
  server_config (request_hostport ex_cfg) =
  mkCfg (Some (mkSup OneForAll 3 5000000000 0 0 0 [(k_panic, Escalate); (k_panicnil, Restart); (7%nat, Resume)]))
        (PCount 10) (Some (mkReent RStash 4)) true (Some 2%nat) [mkDep 1 1 [1;2;3]] (Some 250000000) false.
Proof. vm_compute. reflexivity. Qed.

Example ex_any_error :
  decodeSupervisor (encodeSupervisor (newSupervisor [ODirective 9%nat Resume; OAny Escalate; ORetry 2 (-1)])) =
  mkSup OneForOne 2 (-1) 0 0 0 [(k_any, Escalate)].
Proof. vm_compute. reflexivity. Qed.
