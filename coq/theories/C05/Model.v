(* C05 — executable model of actor/ready_queue.go.

   Part 1 (sequential): the ring buffers exactly as the Go code manipulates them
     localQueue  {buf [K]schedulable; head; tail; size}   pushBack / popFront / stealHalf
     globalQueue {buf []schedulable; head; tail; size}    push (grow) / pop
   and the lock-protected sections of readyQueue (push, pushLocal, popGlobal, trySteal) composed
   sequentially, for the conformance harness.

   Part 2 (concurrent): a labelled transition system with any number of producers, workers and
   closers over the abstract FIFO contents (justified by the refinement theorems of Part 1):
   every lock-protected section is one atomic step, the lock-free probes (sizeAtomic.Load,
   globalCount.Load) are separate steps, the condition variable is a wait set.
   No proofs in this file. *)
From Coq Require Import List Arith Bool.
Import ListNotations.

Definition tok := nat.

(* ------------------------------------------------------------------ Part 1: rings *)
Record ring := MkRing { buf : list (option tok); head : nat; tail : nat; size : nat }.

Definition cap (q : ring) : nat := length (buf q).

Fixpoint set_nth {A} (l : list A) (i : nat) (a : A) : list A :=
  match l, i with
  | [], _ => []
  | _ :: r, O => a :: r
  | x :: r, S j => x :: set_nth r j a
  end.

Definition slot (q : ring) (i : nat) : option tok := nth i (buf q) None.

Definition new_ring (c : nat) : ring := MkRing (repeat None c) 0 0 0.

(* q.buf[q.tail] = v; q.tail = (q.tail+1) % cap; q.size++ *)
Definition ring_put (q : ring) (v : option tok) : ring :=
  MkRing (set_nth (buf q) (tail q) v) (head q) ((tail q + 1) mod cap q) (S (size q)).

(* s := q.buf[q.head]; q.buf[q.head] = nil; q.head = (q.head+1) % cap; q.size-- *)
Definition ring_take (q : ring) : option tok * ring :=
  (slot q (head q), MkRing (set_nth (buf q) (head q) None) ((head q + 1) mod cap q) (tail q) (pred (size q))).

(* the live window, oldest first *)
Definition abs (q : ring) : list (option tok) :=
  map (fun i => slot q ((head q + i) mod cap q)) (seq 0 (size q)).

(* localQueue.pushBack *)
Definition pushBack (q : ring) (s : tok) : ring * bool :=
  if size q =? cap q then (q, false) else (ring_put q (Some s), true).

(* localQueue.popFront (the sizeAtomic probe mirrors size when nothing runs concurrently) *)
Definition popFront (q : ring) : option tok * ring :=
  if size q =? 0 then (None, q) else ring_take q.

(* the transfer loop of stealHalf: for i := 1; i < stolen; i++ { if dst.size == cap {break}; move one } *)
Fixpoint steal_loop (n : nat) (q dst : ring) : ring * ring :=
  match n with
  | O => (q, dst)
  | S k =>
      if size dst =? cap dst then (q, dst)
      else let (v, q') := ring_take q in steal_loop k q' (ring_put dst v)
  end.

(* localQueue.stealHalf(dst) for q != dst *)
Definition stealHalf (q dst : ring) : option tok * ring * ring :=
  if size q =? 0 then (None, q, dst)
  else
    let stolen := (size q + 1) / 2 in
    let (h, q1) := ring_take q in
    let (q2, d2) := steal_loop (stolen - 1) q1 dst in
    (h, q2, d2).

(* globalQueue.grow *)
Definition grow (init_cap : nat) (g : ring) : ring :=
  let newCap := if cap g * 2 =? 0 then init_cap else cap g * 2 in
  let live := map (fun i => slot g ((head g + i) mod cap g)) (seq 0 (size g)) in
  MkRing (live ++ repeat None (newCap - size g)) 0 (size g) (size g).

(* globalQueue.push *)
Definition gpush (init_cap : nat) (g : ring) (s : tok) : ring :=
  let g' := if size g =? cap g then grow init_cap g else g in
  ring_put g' (Some s).

(* globalQueue.pop *)
Definition gpop (g : ring) : option tok * ring :=
  if size g =? 0 then (None, g) else ring_take g.

(* ---- readyQueue, sequentially *)
Record rq := MkRq { locals : list ring; global : ring }.

Definition new_rq (n k gcap : nat) : rq := MkRq (repeat (new_ring k) n) (new_ring gcap).

Definition local_at (r : rq) (w : nat) : ring := nth w (locals r) (new_ring 0).

Definition rq_push (ic : nat) (r : rq) (s : tok) : rq := MkRq (locals r) (gpush ic (global r) s).

Definition rq_pushLocal (ic : nat) (r : rq) (w : nat) (s : tok) : rq :=
  let (q, ok) := pushBack (local_at r w) s in
  if ok then MkRq (set_nth (locals r) w q) (global r) else rq_push ic r s.

Definition rq_popLocal (r : rq) (w : nat) : option tok * rq :=
  let (o, q) := popFront (local_at r w) in (o, MkRq (set_nth (locals r) w q) (global r)).

Definition rq_popGlobal (r : rq) : option tok * rq :=
  let (o, g) := gpop (global r) in (o, MkRq (locals r) g).

Definition rq_steal (r : rq) (v w : nat) : option tok * rq :=
  if v =? w then (None, r) else
  match stealHalf (local_at r v) (local_at r w) with
  | (o, qv, qw) => (o, MkRq (set_nth (set_nth (locals r) v qv) w qw) (global r))
  end.

(* trySteal: for i := 1; i < n; i++ { victim := (w+i)%n; if sizeAtomic==0 {continue}; if s := stealHalf; s != nil {return s} } *)
Fixpoint trySteal_from (r : rq) (w n : nat) (i fuel : nat) : option tok * rq :=
  match fuel with
  | O => (None, r)
  | S f =>
      if n <=? i then (None, r)
      else
        let v := (w + i) mod n in
        if size (local_at r v) =? 0 then trySteal_from r w n (S i) f
        else match rq_steal r v w with
             | (Some s, r') => (Some s, r')
             | (None, r') => trySteal_from r' w n (S i) f
             end
  end.

Definition rq_trySteal (r : rq) (w : nat) : option tok * rq :=
  let n := length (locals r) in
  if n =? 1 then (None, r) else trySteal_from r w n 1 n.

(* take without the blocking park: local -> global -> steal *)
Definition rq_take_nb (r : rq) (w : nat) : option tok * rq :=
  match rq_popLocal r w with
  | (Some s, r') => (Some s, r')
  | (None, r1) =>
      match rq_popGlobal r1 with
      | (Some s, r') => (Some s, r')
      | (None, r2) => rq_trySteal r2 w
      end
  end.

Inductive qop :=
| QPush (s : tok) | QPushLocal (w : nat) (s : tok) | QPopLocal (w : nat) | QPopGlobal
| QSteal (v w : nat) | QTrySteal (w : nat) | QTake (w : nat).

Definition q_apply (ic : nat) (r : rq) (o : qop) : option tok * rq :=
  match o with
  | QPush s => (None, rq_push ic r s)
  | QPushLocal w s => (None, rq_pushLocal ic r w s)
  | QPopLocal w => rq_popLocal r w
  | QPopGlobal => rq_popGlobal r
  | QSteal v w => rq_steal r v w
  | QTrySteal w => rq_trySteal r w
  | QTake w => rq_take_nb r w
  end.

(* observable state of a ring: head, tail, size, capacity, live contents *)
Definition obs_ring (q : ring) : nat * nat * nat * nat * list (option tok) := (head q, tail q, size q, cap q, abs q).
Definition obs (r : rq) := (map obs_ring (locals r), obs_ring (global r)).

Fixpoint q_run (ic : nat) (r : rq) (ops : list qop) : list (option tok * (list (nat * nat * nat * nat * list (option tok)) * (nat * nat * nat * nat * list (option tok)))) :=
  match ops with
  | [] => []
  | o :: rest => let (out, r') := q_apply ic r o in (out, obs r') :: q_run ic r' rest
  end.

(* a compact digest for long runs: (output, sizes of locals, size of global, cap of global, heads) *)
Definition digest (r : rq) := (map (fun q => (head q, size q)) (locals r), (head (global r), size (global r), cap (global r))).
Fixpoint q_run_digest (ic : nat) (r : rq) (ops : list qop) :=
  match ops with
  | [] => []
  | o :: rest => let (out, r') := q_apply ic r o in (out, digest r') :: q_run_digest ic r' rest
  end.
Fixpoint q_final (ic : nat) (r : rq) (ops : list qop) : rq :=
  match ops with [] => r | o :: rest => q_final ic (snd (q_apply ic r o)) rest end.

(* ------------------------------------------------------------------ Part 2: concurrent model *)
(* Workers are indexed by their id (= index of their local ring, as in dispatcher.workers); at most
   n = number of local rings of them exist, n arbitrary.  readyQueue.push and readyQueue.close are
   single lock-protected sections, so external producers/closers need no program counter: the labels
   CPush / CClose are enabled in every state (any number of concurrent producers). *)
Inductive wpc :=
| TLocalProbe            (* popFront: sizeAtomic.Load() *)
| TLocalPop              (* popFront: locked section *)
| TGlobalProbe           (* popGlobal: globalCount.Load() *)
| TGlobalPop             (* popGlobal: locked section *)
| TSteal (i : nat)       (* trySteal: victim.sizeAtomic.Load() for the i-th sibling *)
| TStealLock (i : nat)   (* stealHalf under both locks *)
| TPark                  (* parkAndTake: Lock; closed? size>0? parked++; Wait *)
| Waiting                (* in cond's wait set *)
| Woken                  (* signalled; will re-acquire parkMu: parked--, re-check *)
| Holding (x : tok)      (* take returned x: runTurn in progress *)
| Exited.

Record cstate := MkC {
  c_locals : list (list tok);   (* FIFO contents of the local rings *)
  c_global : list tok;
  c_parked : nat;               (* readyQueue.parked *)
  c_closed : bool;
  c_workers : list wpc;         (* worker w's program counter at index w *)
  c_next : tok;                 (* ghost: fresh token ids *)
  c_pushed : list tok;          (* ghost *)
  c_taken : list tok;           (* ghost *)
}.

Inductive clabel :=
| CSpawnWorker               (* dispatcher.start: go w.run() *)
| CPush                      (* some goroutine: readyQueue.push(fresh token) *)
| CClose                     (* readyQueue.close() *)
| CStep (w : nat)            (* worker w: next atomic step *)
| CRepush (w : nat)          (* worker w while Holding: worker.reschedule(fresh token) = pushLocal *)
| CSpurious (w : nat).       (* a Waiting worker wakes without a signal *)

Definition c_init (n : nat) : cstate := MkC (repeat [] n) [] 0 false [] 0 [] [].

Fixpoint upd {A} (l : list A) (i : nat) (a : A) : list A :=
  match l, i with
  | [], _ => []
  | _ :: r, O => a :: r
  | x :: r, S j => x :: upd r j a
  end.

(* cond.Signal: wake the first worker that is Waiting *)
Fixpoint signal_one (ts : list wpc) : list wpc :=
  match ts with
  | [] => []
  | Waiting :: r => Woken :: r
  | t :: r => t :: signal_one r
  end.
(* cond.Broadcast *)
Definition broadcast (ts : list wpc) : list wpc :=
  map (fun t => match t with Waiting => Woken | _ => t end) ts.

Definition lq (s : cstate) (w : nat) : list tok := nth w (c_locals s) [].

(* the abstract counterpart of stealHalf: K is the local capacity *)
Definition asteal (K : nat) (q dst : list tok) : option tok * list tok * list tok :=
  match q with
  | [] => (None, q, dst)
  | h :: r =>
      let stolen := (length q + 1) / 2 in
      let m := Nat.min (stolen - 1) (K - length dst) in
      (Some h, skipn m r, dst ++ firstn m r)
  end.

(* readyQueue.push under parkMu *)
Definition c_do_push (s : cstate) (x : tok) : cstate :=
  MkC (c_locals s) (c_global s ++ [x]) (c_parked s) (c_closed s)
      (if 0 <? c_parked s then signal_one (c_workers s) else c_workers s)
      (c_next s) (c_pushed s) (c_taken s).

Definition c_set_pc (s : cstate) (w : nat) (t : wpc) : cstate :=
  MkC (c_locals s) (c_global s) (c_parked s) (c_closed s) (upd (c_workers s) w t) (c_next s) (c_pushed s) (c_taken s).
Definition c_set_local (s : cstate) (w : nat) (q : list tok) : cstate :=
  MkC (upd (c_locals s) w q) (c_global s) (c_parked s) (c_closed s) (c_workers s) (c_next s) (c_pushed s) (c_taken s).
Definition c_set_global (s : cstate) (g : list tok) : cstate :=
  MkC (c_locals s) g (c_parked s) (c_closed s) (c_workers s) (c_next s) (c_pushed s) (c_taken s).
Definition c_set_parked (s : cstate) (n : nat) : cstate :=
  MkC (c_locals s) (c_global s) n (c_closed s) (c_workers s) (c_next s) (c_pushed s) (c_taken s).
Definition c_fresh (s : cstate) : cstate :=
  MkC (c_locals s) (c_global s) (c_parked s) (c_closed s) (c_workers s) (S (c_next s)) (c_pushed s ++ [c_next s]) (c_taken s).
Definition c_take (s : cstate) (x : tok) : cstate :=
  MkC (c_locals s) (c_global s) (c_parked s) (c_closed s) (c_workers s) (c_next s) (c_pushed s) (c_taken s ++ [x]).

(* the body of parkAndTake's loop, entered with parkMu held *)
Definition c_park_body (s : cstate) (w : nat) : cstate :=
  if c_closed s then c_set_pc s w Exited
  else match c_global s with
       | x :: g => c_set_pc (c_take (c_set_global s g) x) w (Holding x)
       | [] => c_set_pc (c_set_parked s (S (c_parked s))) w Waiting
       end.

Definition c_step_worker (K : nat) (s : cstate) (w : nat) (p : wpc) : option cstate :=
  let n := length (c_locals s) in
  match p with
  | TLocalProbe => Some (c_set_pc s w (if length (lq s w) =? 0 then TGlobalProbe else TLocalPop))
  | TLocalPop =>
      match lq s w with
      | [] => Some (c_set_pc s w TGlobalProbe)
      | x :: r => Some (c_set_pc (c_take (c_set_local s w r) x) w (Holding x))
      end
  | TGlobalProbe => Some (c_set_pc s w (if length (c_global s) =? 0 then TSteal 1 else TGlobalPop))
  | TGlobalPop =>
      match c_global s with
      | [] => Some (c_set_pc s w (TSteal 1))
      | x :: g => Some (c_set_pc (c_take (c_set_global s g) x) w (Holding x))
      end
  | TSteal k =>
      if (n <=? k) || (n =? 1) then Some (c_set_pc s w TPark)
      else Some (c_set_pc s w (if length (lq s ((w + k) mod n)) =? 0 then TSteal (S k) else TStealLock k))
  | TStealLock k =>
      let v := (w + k) mod n in
      if v =? w then Some (c_set_pc s w (TSteal (S k)))
      else
      match asteal K (lq s v) (lq s w) with
      | (None, _, _) => Some (c_set_pc s w (TSteal (S k)))
      | (Some x, qv, qw) => Some (c_set_pc (c_take (c_set_local (c_set_local s v qv) w qw) x) w (Holding x))
      end
  | TPark => Some (c_park_body s w)
  | Waiting => None                       (* blocked until signalled *)
  | Woken => Some (c_park_body (c_set_parked s (pred (c_parked s))) w)   (* parked--, loop again *)
  | Holding _ => Some (c_set_pc s w TLocalProbe)   (* runTurn returned; worker.run loops *)
  | Exited => None
  end.

Definition cstep (K : nat) (s : cstate) (l : clabel) : option cstate :=
  match l with
  | CSpawnWorker =>
      if length (c_workers s) <? length (c_locals s)
      then Some (MkC (c_locals s) (c_global s) (c_parked s) (c_closed s) (c_workers s ++ [TLocalProbe]) (c_next s) (c_pushed s) (c_taken s))
      else None
  | CPush => Some (c_do_push (c_fresh s) (c_next s))
  | CClose => Some (MkC (c_locals s) (c_global s) (c_parked s) true (broadcast (c_workers s)) (c_next s) (c_pushed s) (c_taken s))
  | CStep w =>
      match nth_error (c_workers s) w with
      | Some p => c_step_worker K s w p
      | None => None
      end
  | CRepush w =>
      match nth_error (c_workers s) w with
      | Some (Holding _) =>
          let x := c_next s in
          let s1 := c_fresh s in
          if length (lq s1 w) <? K then Some (c_set_local s1 w (lq s1 w ++ [x]))
          else Some (c_do_push s1 x)
      | _ => None
      end
  | CSpurious w =>
      match nth_error (c_workers s) w with
      | Some Waiting => Some (c_set_pc s w Woken)
      | _ => None
      end
  end.

Fixpoint crun (K : nat) (s : cstate) (ls : list clabel) : option cstate :=
  match ls with
  | [] => Some s
  | l :: r => match cstep K s l with Some s' => crun K s' r | None => None end
  end.

Inductive creach (K n : nat) : cstate -> Prop :=
| creach_init : creach K n (c_init n)
| creach_step : forall s l s', creach K n s -> cstep K s l = Some s' -> creach K n s'.

Definition is_waiting (t : wpc) : nat := match t with Waiting => 1 | _ => 0 end.
Definition is_woken (t : wpc) : nat := match t with Woken => 1 | _ => 0 end.
Definition ccnt (f : wpc -> nat) (l : list wpc) : nat := fold_right (fun t a => f t + a) 0 l.
(* worker w has passed its own local ring in take() and not yet returned from it, or is parked / gone *)
Definition past_local (p : wpc) : bool :=
  match p with
  | TGlobalProbe | TGlobalPop | TSteal _ | TStealLock _ | TPark | Waiting | Woken | Exited => true
  | _ => false
  end.

(* operation kinds of the worker program, for the source-order tie *)
Inductive qopk := QLocalProbe | QLocalPop | QGlobalProbe | QGlobalPop | QStealProbe | QStealLocked
                | QParkSection | QBlocked | QWakeSection | QTurnEnd | QGone.
Definition wpc_op (p : wpc) : qopk :=
  match p with
  | TLocalProbe => QLocalProbe | TLocalPop => QLocalPop | TGlobalProbe => QGlobalProbe | TGlobalPop => QGlobalPop
  | TSteal _ => QStealProbe | TStealLock _ => QStealLocked | TPark => QParkSection | Waiting => QBlocked
  | Woken => QWakeSection | Holding _ => QTurnEnd | Exited => QGone
  end.
(* ops executed by CStep labels along a run (labels that are not enabled are skipped) *)
Fixpoint ctrace (K : nat) (s : cstate) (ls : list clabel) : list (nat * qopk) :=
  match ls with
  | [] => []
  | l :: r =>
      match cstep K s l with
      | Some s' =>
          match l with
          | CStep w => match nth_error (c_workers s) w with Some p => [(w, wpc_op p)] | None => [] end
          | _ => []
          end ++ ctrace K s' r
      | None => ctrace K s r
      end
  end.
