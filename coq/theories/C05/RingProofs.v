(* C05, part 1: the ring buffers of ready_queue.go refine FIFO lists, for every capacity,
   wrap-around and doubling included; stealHalf moves the front half preserving order. *)
From Coq Require Import List Arith Bool Lia.
From GV Require Import C05.Model.
Import ListNotations.

(* ---------------------------------------------------------------- lists *)
Lemma length_set_nth {A} (l : list A) i a : length (set_nth l i a) = length l.
Proof. revert i; induction l; intros [|i]; simpl; auto. Qed.

Lemma nth_set_nth_eq {A} (l : list A) i a d : i < length l -> nth i (set_nth l i a) d = a.
Proof. revert i; induction l; intros [|i] H; simpl in *; try lia; auto. apply IHl; lia. Qed.

Lemma nth_set_nth_neq {A} (l : list A) i j a d : i <> j -> nth j (set_nth l i a) d = nth j l d.
Proof. revert i j; induction l; intros [|i] [|j] H; simpl; auto; try lia. Qed.

Lemma seq_S_end n : seq 0 (S n) = seq 0 n ++ [n].
Proof. rewrite seq_S. reflexivity. Qed.

(* ---------------------------------------------------------------- modular arithmetic *)
Lemma mod_inj c h i j : 0 < c -> i < c -> j < c -> (h + i) mod c = (h + j) mod c -> i = j.
Proof.
  intros Hc Hi Hj H.
  pose proof (Nat.div_mod (h + i) c ltac:(lia)) as E1.
  pose proof (Nat.div_mod (h + j) c ltac:(lia)) as E2.
  pose proof (Nat.mod_upper_bound (h + i) c ltac:(lia)) as B1.
  rewrite H in E1.
  set (q1 := (h + i) / c) in *. set (q2 := (h + j) / c) in *. set (r := (h + j) mod c) in *.
  destruct (lt_eq_lt_dec q1 q2) as [[L|E]|L]; nia.
Qed.

Lemma mod_add_l c a b : 0 < c -> (a mod c + b) mod c = (a + b) mod c.
Proof. intros. apply Nat.add_mod_idemp_l. lia. Qed.

Ltac splits := repeat match goal with |- _ /\ _ => split end.

(* ---------------------------------------------------------------- well-formed rings *)
Definition WF (q : ring) : Prop :=
  0 < cap q /\ head q < cap q /\ size q <= cap q /\ tail q = (head q + size q) mod cap q.

Lemma WF_new c : 0 < c -> WF (new_ring c).
Proof.
  intros H. unfold WF, new_ring, cap; simpl. rewrite repeat_length.
  repeat split; try lia. rewrite Nat.mod_small; lia.
Qed.

Lemma abs_new c : abs (new_ring c) = [].
Proof. reflexivity. Qed.

Lemma abs_length q : length (abs q) = size q.
Proof. unfold abs. rewrite map_length, seq_length. reflexivity. Qed.

(* put: appends at the back *)
Lemma put_spec q v : WF q -> size q < cap q ->
  abs (ring_put q v) = abs q ++ [v] /\ WF (ring_put q v) /\ cap (ring_put q v) = cap q /\ size (ring_put q v) = S (size q).
Proof.
  intros (Hc & Hh & Hs & Ht) Hlt.
  assert (Hcap : cap (ring_put q v) = cap q) by (unfold cap, ring_put; simpl; apply length_set_nth).
  split; [|split; [|split]]; auto.
  - unfold abs. rewrite Hcap. simpl size. rewrite seq_S_end, map_app. f_equal.
    + apply map_ext_in. intros i Hi. apply in_seq in Hi. unfold slot, ring_put; simpl.
      apply nth_set_nth_neq. rewrite Ht. intro E. apply mod_inj in E; lia.
    + simpl. unfold slot, ring_put; simpl. f_equal. rewrite Ht.
      apply nth_set_nth_eq. fold (cap q). apply Nat.mod_upper_bound. lia.
  - unfold WF. rewrite Hcap. simpl. repeat split; try lia.
    rewrite Ht, mod_add_l by lia. f_equal. lia.
Qed.

(* take: removes the front *)
Lemma take_spec q : WF q -> 0 < size q ->
  abs q = fst (ring_take q) :: abs (snd (ring_take q)) /\ WF (snd (ring_take q)) /\
  cap (snd (ring_take q)) = cap q /\ size (snd (ring_take q)) = pred (size q).
Proof.
  intros (Hc & Hh & Hs & Ht) Hpos.
  assert (Hcap : cap (snd (ring_take q)) = cap q) by (unfold cap, ring_take; simpl; apply length_set_nth).
  split; [|split; [|split]]; auto.
  - unfold abs at 1. destruct (size q) as [|n] eqn:En; [lia|].
    simpl seq. simpl map. f_equal.
    + unfold ring_take; simpl. f_equal. rewrite Nat.add_0_r. apply Nat.mod_small. lia.
    + unfold abs. rewrite Hcap. simpl size. rewrite En. simpl pred.
      rewrite <- seq_shift, map_map. apply map_ext_in. intros i Hi. apply in_seq in Hi.
      unfold slot, ring_take; simpl head; simpl buf.
      rewrite mod_add_l by lia. replace (head q + 1 + i) with (head q + S i) by lia.
      symmetry. apply nth_set_nth_neq. intro E.
      assert (E' : (head q + 0) mod cap q = (head q + S i) mod cap q).
      { rewrite Nat.add_0_r, Nat.mod_small by lia. exact E. }
      apply mod_inj in E'; lia.
  - unfold WF. rewrite Hcap. simpl. repeat split; try lia.
    + apply Nat.mod_upper_bound. lia.
    + rewrite Ht, mod_add_l by lia. f_equal. lia.
Qed.

(* ---------------------------------------------------------------- localQueue *)
Theorem pushBack_spec q s : WF q ->
  if size q =? cap q
  then pushBack q s = (q, false)
  else abs (fst (pushBack q s)) = abs q ++ [Some s] /\ snd (pushBack q s) = true /\ WF (fst (pushBack q s)) /\
       cap (fst (pushBack q s)) = cap q.
Proof.
  intros H. unfold pushBack. destruct (size q =? cap q) eqn:E; [reflexivity|].
  apply Nat.eqb_neq in E. destruct H as (Hc & Hh & Hs & Ht).
  destruct (put_spec q (Some s)) as (A & B & C & _); [repeat split; auto | lia |]. simpl. auto.
Qed.

Theorem popFront_spec q : WF q ->
  match abs q with
  | [] => popFront q = (None, q)
  | x :: r => fst (popFront q) = x /\ abs (snd (popFront q)) = r /\ WF (snd (popFront q)) /\ cap (snd (popFront q)) = cap q
  end.
Proof.
  intros H. unfold popFront. pose proof (abs_length q) as L.
  destruct (size q =? 0) eqn:E.
  - apply Nat.eqb_eq in E. rewrite E in L. destruct (abs q); [reflexivity|discriminate].
  - apply Nat.eqb_neq in E. destruct (take_spec q H) as (A & B & C & _); [lia|].
    rewrite A. auto.
Qed.

(* the transfer loop *)
Lemma steal_loop_spec n : forall q d, WF q -> WF d -> n <= size q ->
  exists moved,
    abs q = moved ++ abs (fst (steal_loop n q d)) /\
    abs (snd (steal_loop n q d)) = abs d ++ moved /\
    length moved = Nat.min n (cap d - size d) /\
    WF (fst (steal_loop n q d)) /\ WF (snd (steal_loop n q d)) /\
    cap (fst (steal_loop n q d)) = cap q /\ cap (snd (steal_loop n q d)) = cap d.
Proof.
  induction n as [|k IH]; intros q d Hq Hd Hn; cbn [steal_loop].
  - exists []. simpl. rewrite app_nil_r. splits; auto.
  - destruct (size d =? cap d) eqn:E.
    + apply Nat.eqb_eq in E. exists []. simpl. rewrite app_nil_r, E, Nat.sub_diag. splits; auto.
    + apply Nat.eqb_neq in E.
      assert (Hdl : size d < cap d) by (destruct Hd as (_ & _ & ? & _); lia).
      destruct (take_spec q Hq ltac:(lia)) as (A & B & C & D).
      destruct (ring_take q) as [v q'] eqn:Et. simpl in A, B, C, D.
      destruct (put_spec d v Hd Hdl) as (A' & B' & C' & D').
      destruct (IH q' (ring_put d v) B B' ltac:(lia)) as (mv & M1 & M2 & M3 & M4 & M5 & M6 & M7).
      exists (v :: mv). splits; auto.
      * rewrite A. simpl. f_equal. exact M1.
      * rewrite M2, A', <- app_assoc. reflexivity.
      * cbn [length]. rewrite M3, C', D'. lia.
      * congruence.
      * congruence.
Qed.

Theorem stealHalf_spec q d : WF q -> WF d ->
  match abs q with
  | [] => stealHalf q d = (None, q, d)
  | h :: rest =>
      exists moved q' d', stealHalf q d = (h, q', d') /\
        rest = moved ++ abs q' /\ abs d' = abs d ++ moved /\
        length moved = Nat.min ((size q + 1) / 2 - 1) (cap d - size d) /\
        WF q' /\ WF d' /\ cap q' = cap q /\ cap d' = cap d
  end.
Proof.
  intros Hq Hd. unfold stealHalf. pose proof (abs_length q) as L.
  destruct (size q =? 0) eqn:E.
  - apply Nat.eqb_eq in E. rewrite E in L. destruct (abs q); [reflexivity|discriminate].
  - apply Nat.eqb_neq in E.
    destruct (take_spec q Hq ltac:(lia)) as (A & B & C & D).
    destruct (ring_take q) as [h q1] eqn:Et. simpl in A, B, C, D. rewrite A.
    assert (Hle : (size q + 1) / 2 - 1 <= size q1).
    { rewrite D. assert ((size q + 1) / 2 <= size q) by (apply Nat.div_le_upper_bound; lia). lia. }
    destruct (steal_loop_spec _ q1 d B Hd Hle) as (mv & M1 & M2 & M3 & M4 & M5 & M6 & M7).
    destruct (steal_loop ((size q + 1) / 2 - 1) q1 d) as [q2 d2] eqn:El. simpl in *.
    exists mv, q2, d2. splits; auto. congruence.
Qed.

(* with an empty destination of sufficient capacity exactly ceil(n/2) items leave the victim *)
Corollary stealHalf_half q d h rest : WF q -> WF d -> abs q = h :: rest -> size d = 0 -> (size q + 1) / 2 - 1 <= cap d ->
  exists q' d', stealHalf q d = (h, q', d') /\ size q' = size q - (size q + 1) / 2 /\
    abs d' = firstn ((size q + 1) / 2 - 1) rest /\ abs q' = skipn ((size q + 1) / 2 - 1) rest.
Proof.
  intros Hq Hd Ha Hs Hc. pose proof (stealHalf_spec q d Hq Hd) as S. rewrite Ha in S.
  destruct S as (mv & q' & d' & E & R & Ad & Lm & _).
  assert (Hd0 : abs d = []) by (pose proof (abs_length d) as L; rewrite Hs in L; destruct (abs d); [reflexivity|discriminate]).
  rewrite Hd0 in Ad. simpl in Ad. rewrite Hs, Nat.sub_0_r in Lm. rewrite (Nat.min_l _ _ Hc) in Lm.
  exists q', d'. split; [exact E|]. subst rest.
  pose proof (abs_length q) as L. rewrite Ha in L. simpl in L. rewrite app_length in L.
  pose proof (abs_length q') as L'.
  assert (1 <= (size q + 1) / 2) by (apply Nat.div_le_lower_bound; lia).
  repeat split.
  - lia.
  - rewrite Ad, <- Lm, firstn_app, Nat.sub_diag, firstn_all. simpl. rewrite app_nil_r. reflexivity.
  - rewrite <- Lm, skipn_app, Nat.sub_diag, skipn_all. reflexivity.
Qed.

(* ---------------------------------------------------------------- globalQueue *)
Lemma grow_spec ic g : WF g -> abs (grow ic g) = abs g /\ WF (grow ic g) /\ size (grow ic g) < cap (grow ic g).
Proof.
  intros (Hc & Hh & Hs & Ht). unfold grow.
  destruct (cap g * 2 =? 0) eqn:E; [apply Nat.eqb_eq in E; lia|].
  set (live := map (fun i => slot g ((head g + i) mod cap g)) (seq 0 (size g))).
  assert (Ll : length live = size g) by (unfold live; rewrite map_length, seq_length; reflexivity).
  assert (Hcap : cap (MkRing (live ++ repeat None (cap g * 2 - size g)) 0 (size g) (size g)) = cap g * 2).
  { unfold cap in *; simpl. rewrite app_length, repeat_length, Ll. lia. }
  split; [|split].
  - unfold abs at 1. rewrite Hcap. simpl size. simpl head. unfold abs. fold live.
    unfold live at 2. apply map_ext_in. intros i Hi. apply in_seq in Hi.
    unfold slot at 1. simpl buf. simpl. rewrite Nat.mod_small by lia.
    rewrite app_nth1 by lia. unfold live.
    rewrite nth_indep with (d' := slot g ((head g + 0) mod cap g)) by (rewrite map_length, seq_length; lia).
    rewrite map_nth with (d := 0). rewrite seq_nth by lia. reflexivity.
  - unfold WF. rewrite Hcap. simpl. repeat split; try lia. rewrite Nat.mod_small; lia.
  - rewrite Hcap. simpl. lia.
Qed.

Theorem gpush_spec ic g s : WF g ->
  abs (gpush ic g s) = abs g ++ [Some s] /\ WF (gpush ic g s) /\
  cap (gpush ic g s) = (if size g =? cap g then cap g * 2 else cap g).
Proof.
  intros H. unfold gpush. destruct (size g =? cap g) eqn:E.
  - destruct (grow_spec ic g H) as (A & B & C).
    destruct (put_spec (grow ic g) (Some s) B C) as (A' & B' & C' & _).
    rewrite A', A. splits; auto. rewrite C'. unfold grow.
    destruct H as (Hc & _). destruct (cap g * 2 =? 0) eqn:E0; [apply Nat.eqb_eq in E0; lia|].
    unfold cap; simpl. rewrite app_length, repeat_length, map_length, seq_length.
    apply Nat.eqb_eq in E. fold (cap g). lia.
  - apply Nat.eqb_neq in E. destruct H as (Hc & Hh & Hs & Ht).
    destruct (put_spec g (Some s)) as (A' & B' & C' & _); [repeat split; auto|lia|]. auto.
Qed.

(* the zero-value globalQueue (cap 0; never built by newReadyQueue): grow installs the initial capacity *)
Example gpush_zero_value : abs (gpush 64 (new_ring 0) 7) = [Some 7] /\ cap (gpush 64 (new_ring 0) 7) = 64 /\
  tail (gpush 64 (new_ring 0) 7) = 1.
Proof. vm_compute. auto. Qed.

Theorem gpop_spec g : WF g ->
  match abs g with
  | [] => gpop g = (None, g)
  | x :: r => fst (gpop g) = x /\ abs (snd (gpop g)) = r /\ WF (snd (gpop g)) /\ cap (snd (gpop g)) = cap g
  end.
Proof. exact (popFront_spec g). Qed.

(* ---------------------------------------------------------------- no ticket is ever a nil slot *)
Definition all_some (l : list (option tok)) : Prop := Forall (fun o => o <> None) l.

Lemma all_some_app l1 l2 : all_some (l1 ++ l2) <-> all_some l1 /\ all_some l2.
Proof. unfold all_some. apply Forall_app. Qed.

(* a non-empty well-formed ring whose live slots are tickets never answers "empty" *)
Theorem popFront_some q : WF q -> all_some (abs q) -> 0 < size q -> exists t, fst (popFront q) = Some t.
Proof.
  intros H A Hs. pose proof (popFront_spec q H) as P. pose proof (abs_length q) as L.
  destruct (abs q) as [|x r]; [simpl in L; lia|]. destruct P as (E & _).
  inversion A as [|x' r' Hx Hr]. destruct x as [t|]; [exists t; exact E|congruence].
Qed.

(* ---------------------------------------------------------------- link to the concurrent model *)
(* stealHalf on rings whose live windows hold the tickets lv / ld is the abstract [asteal] used by
   the concurrent model (K = capacity of the destination ring). *)
Theorem stealHalf_refines q d lv ld : WF q -> WF d -> abs q = map Some lv -> abs d = map Some ld ->
  match stealHalf q d, asteal (cap d) lv ld with
  | (o, q', d'), (o', lv', ld') => o = o' /\ abs q' = map Some lv' /\ abs d' = map Some ld' /\ WF q' /\ WF d' /\
                                  cap q' = cap q /\ cap d' = cap d
  end.
Proof.
  intros Hq Hd Aq Ad. pose proof (stealHalf_spec q d Hq Hd) as S.
  pose proof (abs_length q) as Lq. pose proof (abs_length d) as Ld.
  rewrite Aq, map_length in Lq. rewrite Ad, map_length in Ld.
  destruct lv as [|h r]; simpl in Aq; rewrite Aq in S.
  - rewrite S. simpl. splits; auto.
  - destruct S as (mv & q' & d' & E & R & Dd & Lm & Wq & Wd & Cq & Cd). rewrite E.
    unfold asteal. rewrite <- Lq, <- Ld in Lm.
    set (m := Nat.min ((length (h :: r) + 1) / 2 - 1) (cap d - length ld)) in *.
    assert (Hmv : mv = map Some (firstn m r) /\ abs q' = map Some (skipn m r)).
    { rewrite <- firstn_map, <- skipn_map, R, <- Lm.
      rewrite firstn_app, Nat.sub_diag, firstn_all, skipn_app, Nat.sub_diag, skipn_all. simpl.
      rewrite app_nil_r. auto. }
    destruct Hmv as [Hm Hq']. splits; auto.
    rewrite Dd, Ad, Hm, map_app. reflexivity.
Qed.

(* pushBack / popFront / gpush / gpop at the ticket level *)
Corollary pushBack_tokens q lv s : WF q -> abs q = map Some lv -> size q < cap q ->
  abs (fst (pushBack q s)) = map Some (lv ++ [s]) /\ snd (pushBack q s) = true.
Proof.
  intros H A L. pose proof (pushBack_spec q s H) as P.
  destruct (size q =? cap q) eqn:E; [apply Nat.eqb_eq in E; lia|].
  destruct P as (P1 & P2 & _). rewrite P1, A, map_app. auto.
Qed.

Corollary gpush_tokens ic g lv s : WF g -> abs g = map Some lv -> abs (gpush ic g s) = map Some (lv ++ [s]).
Proof. intros H A. destruct (gpush_spec ic g s H) as (P & _). rewrite P, A, map_app. reflexivity. Qed.

Corollary popFront_tokens q lv : WF q -> abs q = map Some lv ->
  match lv with
  | [] => popFront q = (None, q)
  | x :: r => fst (popFront q) = Some x /\ abs (snd (popFront q)) = map Some r
  end.
Proof.
  intros H A. pose proof (popFront_spec q H) as P. rewrite A in P. destruct lv; simpl in P; [exact P|].
  destruct P as (P1 & P2 & _). auto.
Qed.
