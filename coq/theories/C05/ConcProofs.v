(* C05, part 2: ticket conservation, no lost wake-up for the global ring, close makes workers exit —
   for every reachable state of the concurrent model (any number of workers n, any number of
   concurrent producers, any interleaving, any local capacity K). *)
From Coq Require Import List Arith Bool Lia.
From GV Require Import C05.Model.
Import ListNotations.

Definition occ (x : tok) (l : list tok) : nat := count_occ Nat.eq_dec l x.

Lemma occ_app x l1 l2 : occ x (l1 ++ l2) = occ x l1 + occ x l2.
Proof. unfold occ. apply count_occ_app. Qed.

Lemma occ_cons x y l : occ x (y :: l) = (if Nat.eq_dec y x then 1 else 0) + occ x l.
Proof. unfold occ. simpl. destruct (Nat.eq_dec y x); lia. Qed.

Lemma occ_firstn_skipn x m l : occ x (firstn m l) + occ x (skipn m l) = occ x l.
Proof. rewrite <- occ_app, firstn_skipn. reflexivity. Qed.

(* ---------------------------------------------------------------- list update *)
Lemma length_upd {A} (l : list A) i a : length (upd l i a) = length l.
Proof. revert i; induction l; intros [|i]; simpl; auto. Qed.

Lemma nth_upd_eq {A} (l : list A) i a d : i < length l -> nth i (upd l i a) d = a.
Proof. revert i; induction l; intros [|i] H; simpl in *; try lia; auto. apply IHl; lia. Qed.

Lemma nth_upd_neq {A} (l : list A) i j a d : i <> j -> nth j (upd l i a) d = nth j l d.
Proof. revert i j; induction l; intros [|i] [|j] H; simpl; auto; try lia. Qed.

Lemma nth_error_upd_eq {A} (l : list A) i a : i < length l -> nth_error (upd l i a) i = Some a.
Proof. revert i; induction l; intros [|i] H; simpl in *; try lia; auto. apply IHl; lia. Qed.

Lemma nth_error_upd_neq {A} (l : list A) i j a : i <> j -> nth_error (upd l i a) j = nth_error l j.
Proof. revert i j; induction l; intros [|i] [|j] H; simpl; auto; try lia. Qed.

Lemma nth_error_lt {A} (l : list A) i a : nth_error l i = Some a -> i < length l.
Proof. intros H. apply nth_error_Some. congruence. Qed.

Lemma occ_concat_upd x (ls : list (list tok)) : forall w q, w < length ls ->
  occ x (concat (upd ls w q)) + occ x (nth w ls []) = occ x (concat ls) + occ x q.
Proof.
  induction ls as [|l r IH]; intros [|w] q H; simpl in *; try lia.
  - rewrite !occ_app. lia.
  - rewrite !occ_app. specialize (IH w q ltac:(lia)). lia.
Qed.

Lemma nth_nil_out (ls : list (list tok)) w : length ls <= w -> nth w ls [] = [].
Proof. intros. apply nth_overflow. assumption. Qed.

(* ---------------------------------------------------------------- counting workers *)
Lemma ccnt_app f l a : ccnt f (l ++ [a]) = ccnt f l + f a.
Proof. induction l; simpl; lia. Qed.

Lemma ccnt_upd f l : forall i a b, nth_error l i = Some a -> ccnt f (upd l i b) + f a = ccnt f l + f b.
Proof.
  induction l as [|x r IH]; intros [|i] a b H; simpl in *; try discriminate.
  - inversion H; subst. lia.
  - specialize (IH _ _ b H). lia.
Qed.

Lemma length_signal ts : length (signal_one ts) = length ts.
Proof. induction ts as [|t r IH]; simpl; auto. destruct t; simpl; auto. Qed.

Lemma signal_cnt ts : 0 < ccnt is_waiting ts ->
  ccnt is_waiting (signal_one ts) + 1 = ccnt is_waiting ts /\ ccnt is_woken (signal_one ts) = ccnt is_woken ts + 1.
Proof.
  induction ts as [|t r IH]; simpl; [lia|]. intros H.
  destruct t; simpl in *; try (destruct (IH H); lia). lia.
Qed.

Lemma signal_none ts : ccnt is_waiting ts = 0 -> signal_one ts = ts.
Proof.
  induction ts as [|t r IH]; simpl; auto. intros H.
  destruct t; simpl in *; try (f_equal; apply IH; lia). lia.
Qed.

Lemma signal_nth ts : forall w p, nth_error (signal_one ts) w = Some p ->
  exists p0, nth_error ts w = Some p0 /\ (p0 = p \/ (p0 = Waiting /\ p = Woken)).
Proof.
  induction ts as [|t r IH]; intros [|w] p H; simpl in *; try discriminate.
  - destruct t; simpl in H; inversion H; subst; eauto.
  - destruct t; simpl in H; eauto.
Qed.

Lemma length_broadcast ts : length (broadcast ts) = length ts.
Proof. unfold broadcast. apply map_length. Qed.

Lemma broadcast_cnt ts : ccnt is_waiting (broadcast ts) = 0 /\ ccnt is_woken (broadcast ts) = ccnt is_woken ts + ccnt is_waiting ts.
Proof. induction ts as [|t r [IH1 IH2]]; simpl; [auto|]. destruct t; simpl; lia. Qed.

Lemma broadcast_nth ts w p : nth_error (broadcast ts) w = Some p ->
  exists p0, nth_error ts w = Some p0 /\ (p0 = p \/ (p0 = Waiting /\ p = Woken)).
Proof.
  unfold broadcast. rewrite nth_error_map. destruct (nth_error ts w) as [p0|]; simpl; [|discriminate].
  intros H. inversion H; subst. exists p0. split; auto. destruct p0; auto.
Qed.

(* ================================================================ 1. ticket conservation *)
Definition Conserve (n : nat) (s : cstate) : Prop :=
  length (c_locals s) = n /\ length (c_workers s) <= n /\
  (forall x, occ x (c_pushed s) = occ x (c_taken s) + occ x (concat (c_locals s)) + occ x (c_global s)) /\
  (forall x, c_next s <= x -> occ x (c_pushed s) = 0) /\
  (forall x, occ x (c_pushed s) <= 1).

Lemma conserve_init n : Conserve n (c_init n).
Proof.
  unfold Conserve, c_init; simpl. rewrite repeat_length. repeat split; auto; try lia.
  intros x. assert (E : concat (repeat (@nil tok) n) = []) by (induction n; simpl; auto). rewrite E. reflexivity.
Qed.

Ltac occs := repeat (rewrite occ_app || rewrite occ_cons); simpl.

Lemma conserve_step K n s l s' : Conserve n s -> cstep K s l = Some s' -> Conserve n s'.
Proof.
  intros (Hn & Hw & Hc & Hf & Hu) Hs.
  destruct s as [ls g pk cl ws nx pu tk]; simpl in *.
  destruct l as [ | | | w | w | w]; simpl in Hs.
  - (* spawn *)
    destruct (length ws <? length ls) eqn:E; [|discriminate]. apply Nat.ltb_lt in E.
    inversion Hs; subst; clear Hs. unfold Conserve; simpl. rewrite app_length; simpl.
    repeat split; auto; lia.
  - (* push *)
    inversion Hs; subst; clear Hs. unfold Conserve, c_do_push, c_fresh; simpl.
    repeat split; auto.
    + destruct (0 <? pk); [rewrite length_signal|]; assumption.
    + intros x. occs. specialize (Hc x). destruct (Nat.eq_dec nx x); lia.
    + intros x Hx. occs. rewrite Hf by lia. destruct (Nat.eq_dec nx x); lia.
    + intros x. occs. destruct (Nat.eq_dec nx x); [subst; rewrite Hf by lia; lia | specialize (Hu x); lia].
  - (* close *)
    inversion Hs; subst; clear Hs. unfold Conserve; simpl. rewrite length_broadcast. repeat split; auto.
  - (* worker step *)
    destruct (nth_error ws w) as [p|] eqn:Hp; [|discriminate].
    pose proof (nth_error_lt _ _ _ Hp) as Hlt.
    assert (Hwl : w < length ls) by lia.
    destruct p; simpl in Hs; unfold c_park_body, c_set_pc, c_take, c_set_local, c_set_global, c_set_parked, lq in Hs; simpl in Hs.
    + inversion Hs; subst; clear Hs. unfold Conserve; simpl. rewrite length_upd. repeat split; auto.
    + destruct (nth w ls []) as [|x r] eqn:El; inversion Hs; subst; clear Hs; unfold Conserve; simpl;
        rewrite ?length_upd; repeat split; auto.
      intros y. pose proof (occ_concat_upd y ls w r Hwl) as O. rewrite El in O. revert O. occs. specialize (Hc y). lia.
    + inversion Hs; subst; clear Hs. unfold Conserve; simpl. rewrite length_upd. repeat split; auto.
    + destruct g as [|x g']; inversion Hs; subst; clear Hs; unfold Conserve; simpl; rewrite ?length_upd; repeat split; auto.
      intros y. specialize (Hc y). revert Hc. occs. lia.
    + destruct ((length ls <=? i) || (length ls =? 1)); inversion Hs; subst; clear Hs; unfold Conserve; simpl;
        rewrite length_upd; repeat split; auto.
    + destruct ((w + i) mod length ls =? w) eqn:Ev.
      { inversion Hs; subst; clear Hs. unfold Conserve; simpl. rewrite length_upd. repeat split; auto. }
      apply Nat.eqb_neq in Ev.
      assert (Hv : (w + i) mod length ls < length ls) by (apply Nat.mod_upper_bound; lia).
      set (v := (w + i) mod length ls) in *.
      unfold asteal in Hs. destruct (nth v ls []) as [|h r] eqn:Elv.
      { inversion Hs; subst; clear Hs. unfold Conserve; simpl. rewrite length_upd. repeat split; auto. }
      remember (Nat.min ((length (h :: r) + 1) / 2 - 1) (K - length (nth w ls []))) as m eqn:Em. clear Em.
      inversion Hs; subst; clear Hs. unfold Conserve; simpl. rewrite !length_upd. repeat split; auto.
      intros y.
      pose proof (occ_concat_upd y ls v (skipn m r) Hv) as O1. rewrite Elv in O1.
      pose proof (occ_concat_upd y (upd ls v (skipn m r)) w (nth w ls [] ++ firstn m r) ltac:(rewrite length_upd; lia)) as O2.
      rewrite nth_upd_neq in O2 by assumption.
      pose proof (occ_firstn_skipn y m r) as O3.
      revert O1 O2. occs. specialize (Hc y). lia.
    + destruct cl.
      { inversion Hs; subst; clear Hs. unfold Conserve; simpl. rewrite length_upd. repeat split; auto. }
      destruct g as [|x g']; inversion Hs; subst; clear Hs; unfold Conserve; simpl; rewrite length_upd; repeat split; auto.
      intros y. specialize (Hc y). revert Hc. occs. lia.
    + discriminate.
    + destruct cl.
      { inversion Hs; subst; clear Hs. unfold Conserve; simpl. rewrite length_upd. repeat split; auto. }
      destruct g as [|x g']; inversion Hs; subst; clear Hs; unfold Conserve; simpl; rewrite length_upd; repeat split; auto.
      intros y. specialize (Hc y). revert Hc. occs. lia.
    + inversion Hs; subst; clear Hs. unfold Conserve; simpl. rewrite length_upd. repeat split; auto.
    + discriminate.
  - (* repush *)
    destruct (nth_error ws w) as [p|] eqn:Hp; [|discriminate]. destruct p; try discriminate.
    pose proof (nth_error_lt _ _ _ Hp) as Hlt. assert (Hwl : w < length ls) by lia.
    unfold lq, c_fresh, c_set_local, c_do_push in Hs; simpl in Hs.
    destruct (length (nth w ls []) <? K); inversion Hs; subst; clear Hs; unfold Conserve; simpl; rewrite ?length_upd.
    + repeat split; auto.
      * intros y. pose proof (occ_concat_upd y ls w (nth w ls [] ++ [nx]) Hwl) as O. revert O. occs.
        specialize (Hc y). destruct (Nat.eq_dec nx y); lia.
      * intros y Hy. occs. rewrite Hf by lia. destruct (Nat.eq_dec nx y); lia.
      * intros y. occs. destruct (Nat.eq_dec nx y); [subst; rewrite Hf by lia; lia | specialize (Hu y); lia].
    + repeat split; auto.
      * destruct (0 <? pk); [rewrite length_signal|]; assumption.
      * intros y. occs. specialize (Hc y). destruct (Nat.eq_dec nx y); lia.
      * intros y Hy. occs. rewrite Hf by lia. destruct (Nat.eq_dec nx y); lia.
      * intros y. occs. destruct (Nat.eq_dec nx y); [subst; rewrite Hf by lia; lia | specialize (Hu y); lia].
  - (* spurious wake-up *)
    destruct (nth_error ws w) as [p|] eqn:Hp; [|discriminate]. destruct p; try discriminate.
    inversion Hs; subst; clear Hs. unfold Conserve; simpl. rewrite length_upd. repeat split; auto.
Qed.

Theorem reach_conserve K n s : creach K n s -> Conserve n s.
Proof. induction 1; [apply conserve_init | eapply conserve_step; eauto]. Qed.

(* every pushed ticket is taken at most once, and is never lost: it is taken or still queued, exactly once in total *)
Theorem ticket_exactly_once K n s x : creach K n s ->
  occ x (c_taken s) <= 1 /\
  (occ x (c_pushed s) = 1 -> occ x (c_taken s) + occ x (concat (c_locals s)) + occ x (c_global s) = 1) /\
  (occ x (c_pushed s) = 0 -> occ x (c_taken s) = 0 /\ occ x (concat (c_locals s)) = 0 /\ occ x (c_global s) = 0).
Proof.
  intros H. destruct (reach_conserve K n s H) as (_ & _ & Hc & _ & Hu).
  specialize (Hc x). specialize (Hu x). repeat split; lia.
Qed.

(* ================================================================ 2. parking *)
Definition WakeInv (s : cstate) : Prop :=
  c_parked s = ccnt is_waiting (c_workers s) + ccnt is_woken (c_workers s) /\
  (c_closed s = true -> ccnt is_waiting (c_workers s) = 0) /\
  (0 < ccnt is_waiting (c_workers s) -> length (c_global s) <= ccnt is_woken (c_workers s)).

Lemma wake_init n : WakeInv (c_init n).
Proof. unfold WakeInv, c_init; simpl. repeat split; auto; lia. Qed.

(* effect of readyQueue.push on the wake invariant *)
Lemma wake_push s x : WakeInv s -> WakeInv (c_do_push s x).
Proof.
  intros (Hp & Hcl & Hg). unfold WakeInv, c_do_push; simpl. rewrite app_length; simpl.
  destruct (0 <? c_parked s) eqn:E.
  - destruct (ccnt is_waiting (c_workers s)) as [|k] eqn:Ew.
    + rewrite signal_none by assumption. rewrite Ew. repeat split; auto; lia.
    + destruct (signal_cnt (c_workers s)) as [A B]; [lia|]. rewrite Ew in A.
      repeat split; try lia. intros Hc. specialize (Hcl Hc). lia.
  - apply Nat.ltb_ge in E. assert (ccnt is_waiting (c_workers s) = 0) by lia.
    repeat split; auto; lia.
Qed.

Ltac wk Hp :=
  match goal with
  | |- context [upd ?ws ?w ?p] =>
      pose proof (ccnt_upd is_waiting ws w _ p Hp); pose proof (ccnt_upd is_woken ws w _ p Hp)
  end.

Lemma wake_step K s l s' : WakeInv s -> cstep K s l = Some s' -> WakeInv s'.
Proof.
  intros HI Hs.
  destruct l as [ | | | w | w | w]; simpl in Hs.
  - destruct (length (c_workers s) <? length (c_locals s)); [|discriminate].
    inversion Hs; subst; clear Hs. destruct HI as (Hp & Hcl & Hg). unfold WakeInv; simpl.
    rewrite !ccnt_app; simpl. rewrite !Nat.add_0_r. auto.
  - inversion Hs; subst; clear Hs. apply wake_push. exact HI.
  - inversion Hs; subst; clear Hs. destruct HI as (Hp & Hcl & Hg). unfold WakeInv; simpl.
    destruct (broadcast_cnt (c_workers s)) as [A B]. rewrite A, B. repeat split; auto; lia.
  - destruct (nth_error (c_workers s) w) as [p|] eqn:Hpc; [|discriminate].
    destruct HI as (Hp & Hcl & Hg).
    destruct s as [ls g pk cl ws nx pu tk]; simpl in *.
    destruct p; simpl in Hs; unfold c_park_body, c_set_pc, c_take, c_set_local, c_set_global, c_set_parked, lq in Hs; simpl in Hs.
    + inversion Hs; subst; clear Hs; unfold WakeInv; simpl. wk Hpc.
      destruct (length (nth w ls []) =? 0); simpl in *; repeat split; try lia; intros; try (specialize (Hcl ltac:(assumption))); lia.
    + destruct (nth w ls []); inversion Hs; subst; clear Hs; unfold WakeInv; simpl; wk Hpc; simpl in *;
        repeat split; try lia; intros; try (specialize (Hcl ltac:(assumption))); lia.
    + inversion Hs; subst; clear Hs; unfold WakeInv; simpl. wk Hpc.
      destruct (length g =? 0); simpl in *; repeat split; try lia; intros; try (specialize (Hcl ltac:(assumption))); lia.
    + destruct g; inversion Hs; subst; clear Hs; unfold WakeInv; simpl; wk Hpc; simpl in *;
        repeat split; try lia; intros; try (specialize (Hcl ltac:(assumption))); lia.
    + destruct ((length ls <=? i) || (length ls =? 1)); inversion Hs; subst; clear Hs; unfold WakeInv; simpl; wk Hpc;
        [|destruct (length (nth ((w + i) mod length ls) ls []) =? 0)]; simpl in *;
        repeat split; try lia; intros; try (specialize (Hcl ltac:(assumption))); lia.
    + destruct ((w + i) mod length ls =? w).
      { inversion Hs; subst; clear Hs; unfold WakeInv; simpl; wk Hpc; simpl in *;
          repeat split; try lia; intros; try (specialize (Hcl ltac:(assumption))); lia. }
      destruct (asteal K (nth ((w + i) mod length ls) ls []) (nth w ls [])) as [[[x|] qv] qw];
        inversion Hs; subst; clear Hs; unfold WakeInv; simpl; wk Hpc; simpl in *;
        repeat split; try lia; intros; try (specialize (Hcl ltac:(assumption))); lia.
    + destruct cl.
      { inversion Hs; subst; clear Hs; unfold WakeInv; simpl; wk Hpc; simpl in *.
        specialize (Hcl eq_refl). repeat split; try lia. }
      destruct g as [|x g']; inversion Hs; subst; clear Hs; unfold WakeInv; simpl; wk Hpc; simpl in *;
        repeat split; try lia; intros; try discriminate; lia.
    + discriminate.
    + destruct cl.
      { inversion Hs; subst; clear Hs; unfold WakeInv; simpl; wk Hpc; simpl in *.
        specialize (Hcl eq_refl). repeat split; try lia. }
      destruct g as [|x g']; inversion Hs; subst; clear Hs; unfold WakeInv; simpl; wk Hpc; simpl in *;
        repeat split; try lia; intros; try discriminate; lia.
    + inversion Hs; subst; clear Hs; unfold WakeInv; simpl; wk Hpc; simpl in *;
        repeat split; try lia; intros; try (specialize (Hcl ltac:(assumption))); lia.
    + discriminate.
  - destruct (nth_error (c_workers s) w) as [p|] eqn:Hpc; [|discriminate]. destruct p; try discriminate.
    destruct (length (lq (c_fresh s) w) <? K).
    + inversion Hs; subst; clear Hs. destruct HI as (Hp & Hcl & Hg). unfold WakeInv; simpl. auto.
    + inversion Hs; subst; clear Hs. apply (wake_push (c_fresh s)). exact HI.
  - destruct (nth_error (c_workers s) w) as [p|] eqn:Hpc; [|discriminate]. destruct p; try discriminate.
    inversion Hs; subst; clear Hs. destruct HI as (Hp & Hcl & Hg). unfold WakeInv; simpl.
    wk Hpc; simpl in *. repeat split; try lia; intros; try (specialize (Hcl ltac:(assumption))); lia.
Qed.

Theorem reach_wake K n s : creach K n s -> WakeInv s.
Proof. induction 1; [apply wake_init | eapply wake_step; eauto]. Qed.

(* No lost wake-up for the global ring: if some worker is blocked in cond.Wait (not yet signalled)
   then every queued global item has its own signalled worker on the way to pop it. *)
Theorem no_lost_wakeup K n s : creach K n s ->
  0 < ccnt is_waiting (c_workers s) -> length (c_global s) <= ccnt is_woken (c_workers s).
Proof. intros H. exact (proj2 (proj2 (reach_wake K n s H))). Qed.

(* After close: no worker remains blocked in cond.Wait un-signalled ... *)
Theorem close_wakes_all K n s : creach K n s -> c_closed s = true -> ccnt is_waiting (c_workers s) = 0.
Proof. intros H. exact (proj1 (proj2 (reach_wake K n s H))). Qed.

(* ... closed is never reset ... *)
Lemma closed_stable K s l s' : cstep K s l = Some s' -> c_closed s = true -> c_closed s' = true.
Proof.
  intros Hs Hc. destruct s as [ls g pk cl ws nx pu tk]; simpl in *; subst.
  destruct l as [ | | | w | w | w]; simpl in Hs.
  - destruct (length ws <? length ls); inversion Hs; reflexivity.
  - inversion Hs; reflexivity.
  - inversion Hs; reflexivity.
  - destruct (nth_error ws w) as [p|]; [|discriminate].
    destruct p; simpl in Hs; unfold c_park_body in Hs; simpl in Hs; try discriminate;
      repeat match type of Hs with context [match ?x with _ => _ end] => destruct x; simpl in Hs end;
      try discriminate; inversion Hs; reflexivity.
  - destruct (nth_error ws w) as [p|]; [|discriminate]. destruct p; try discriminate.
    destruct (length (lq (c_fresh (MkC ls g pk true ws nx pu tk)) w) <? K); inversion Hs; reflexivity.
  - destruct (nth_error ws w) as [p|]; [|discriminate]. destruct p; try discriminate. inversion Hs; reflexivity.
Qed.

(* ... and every parkAndTake (fresh, or resumed after a wake-up) returns false: the worker exits. *)
Theorem close_exits K s w p : c_closed s = true -> nth_error (c_workers s) w = Some p -> (p = TPark \/ p = Woken) ->
  exists s', cstep K s (CStep w) = Some s' /\ nth_error (c_workers s') w = Some Exited.
Proof.
  intros Hc Hp Hk. pose proof (nth_error_lt _ _ _ Hp) as Hlt. simpl. rewrite Hp.
  destruct Hk; subst; simpl; unfold c_park_body; simpl; rewrite Hc; eexists; split; try reflexivity; simpl;
    apply nth_error_upd_eq; assumption.
Qed.

(* ================================================================ 3. local rings *)
(* A worker that has gone past its own local ring inside take() (probing the global ring, stealing,
   parking, parked, or exited) has an EMPTY local ring: work queued in a local ring always has an owner
   that is running a turn or about to pop it. *)
Definition LocalInv (n : nat) (s : cstate) : Prop :=
  length (c_locals s) = n /\ length (c_workers s) <= n /\
  forall w p, nth_error (c_workers s) w = Some p -> past_local p = true -> lq s w = [].

Lemma local_init n : LocalInv n (c_init n).
Proof. unfold LocalInv, c_init; simpl. rewrite repeat_length. repeat split; auto; try lia. intros [|w] p H; discriminate. Qed.

Lemma past_signal p0 p : (p0 = p \/ (p0 = Waiting /\ p = Woken)) -> past_local p = true -> past_local p0 = true.
Proof. intros [->|[-> ->]]; auto. Qed.

Lemma local_step K n s l s' : LocalInv n s -> cstep K s l = Some s' -> LocalInv n s'.
Proof.
  intros (Hn & Hw & HL) Hs.
  destruct s as [ls g pk cl ws nx pu tk]; unfold lq in *; simpl in *.
  destruct l as [ | | | w | w | w]; simpl in Hs.
  - destruct (length ws <? length ls) eqn:E; [|discriminate]. apply Nat.ltb_lt in E.
    inversion Hs; subst; clear Hs. unfold LocalInv, lq; simpl. rewrite app_length; simpl. repeat split; try lia.
    intros w p Hp Hpast. destruct (Nat.lt_ge_cases w (length ws)) as [L|L].
    + rewrite nth_error_app1 in Hp by assumption. eauto.
    + rewrite nth_error_app2 in Hp by assumption. destruct (w - length ws) as [|k]; simpl in Hp.
      * inversion Hp; subst. discriminate.
      * destruct k; discriminate.
  - inversion Hs; subst; clear Hs. unfold LocalInv, lq, c_do_push; simpl. repeat split; auto.
    + destruct (0 <? pk); [rewrite length_signal|]; assumption.
    + intros w p Hp Hpast. destruct (0 <? pk); [|eauto].
      apply signal_nth in Hp. destruct Hp as (p0 & Hp0 & Hr). eapply HL; eauto. eapply past_signal; eauto.
  - inversion Hs; subst; clear Hs. unfold LocalInv, lq; simpl. rewrite length_broadcast. repeat split; auto.
    intros w p Hp Hpast. apply broadcast_nth in Hp. destruct Hp as (p0 & Hp0 & Hr). eapply HL; eauto. eapply past_signal; eauto.
  - destruct (nth_error ws w) as [p|] eqn:Hpc; [|discriminate].
    pose proof (nth_error_lt _ _ _ Hpc) as Hlt. assert (Hwl : w < length ls) by lia.
    (* the only pc that changes is w's; other workers past their local ring keep an empty ring *)
    assert (GenG : forall g' pk' tk' ls' p', length ls' = length ls ->
              (forall u q, u <> w -> nth_error ws u = Some q -> past_local q = true -> nth u ls' [] = []) ->
              (past_local p' = true -> nth w ls' [] = []) ->
              LocalInv n (MkC ls' g' pk' cl (upd ws w p') nx pu tk') ).
    { intros g' pk' tk' ls' p' Hl Ho Hown. unfold LocalInv, lq; simpl. rewrite length_upd. repeat split; try lia.
      intros u q Hq Hpast. destruct (Nat.eq_dec u w) as [->|Hne].
      - rewrite nth_error_upd_eq in Hq by assumption. inversion Hq; subst. auto.
      - rewrite nth_error_upd_neq in Hq by auto. eauto. }
    assert (Same : forall u q, u <> w -> nth_error ws u = Some q -> past_local q = true -> nth u ls [] = []) by (intros; eauto).
    assert (SameU : forall r0 u q, u <> w -> nth_error ws u = Some q -> past_local q = true -> nth u (upd ls w r0) [] = []).
    { intros r0 u q Hu Hq Hpast. rewrite nth_upd_neq by auto. eauto. }
    destruct p; simpl in Hs; unfold c_park_body, c_set_pc, c_take, c_set_local, c_set_global, c_set_parked, lq in Hs; simpl in Hs.
    + inversion Hs; subst; clear Hs. apply GenG; auto.
      destruct (nth w ls []) eqn:E; simpl; auto. discriminate.
    + destruct (nth w ls []) as [|x r] eqn:E; inversion Hs; subst; clear Hs.
      * apply GenG; auto.
      * apply GenG; [apply length_upd | apply SameU | discriminate].
    + inversion Hs; subst; clear Hs. apply GenG; auto. intros _. apply (HL w TGlobalProbe Hpc eq_refl).
    + pose proof (HL w TGlobalPop Hpc eq_refl) as Hown.
      destruct g as [|x g']; inversion Hs; subst; clear Hs; apply GenG; auto.
    + pose proof (HL w (TSteal i) Hpc eq_refl) as Hown.
      destruct ((length ls <=? i) || (length ls =? 1)); inversion Hs; subst; clear Hs; apply GenG; auto.
    + pose proof (HL w (TStealLock i) Hpc eq_refl) as Hown.
      destruct ((w + i) mod length ls =? w) eqn:Ev.
      { inversion Hs; subst; clear Hs. apply GenG; auto. }
      apply Nat.eqb_neq in Ev. set (v := (w + i) mod length ls) in *.
      unfold asteal in Hs. destruct (nth v ls []) as [|h r] eqn:Elv.
      { inversion Hs; subst; clear Hs. apply GenG; auto. }
      inversion Hs; subst; clear Hs. apply GenG; [rewrite !length_upd; reflexivity | | discriminate].
      intros u q Hu Hq Hpast. rewrite nth_upd_neq by auto.
      destruct (Nat.eq_dec u v) as [->|Huv].
      * (* a victim with a non-empty ring is not past its local ring *)
        pose proof (HL v q Hq Hpast) as Hv. rewrite Elv in Hv. discriminate.
      * rewrite nth_upd_neq by auto. eauto.
    + pose proof (HL w TPark Hpc eq_refl) as Hown.
      destruct cl; [inversion Hs; subst; clear Hs; apply GenG; auto|].
      destruct g as [|x g']; inversion Hs; subst; clear Hs; apply GenG; auto.
    + discriminate.
    + pose proof (HL w Woken Hpc eq_refl) as Hown.
      destruct cl; [inversion Hs; subst; clear Hs; apply GenG; auto|].
      destruct g as [|x g']; inversion Hs; subst; clear Hs; apply GenG; auto.
    + inversion Hs; subst; clear Hs. apply GenG; auto. discriminate.
    + discriminate.
  - destruct (nth_error ws w) as [p|] eqn:Hpc; [|discriminate]. destruct p; try discriminate.
    pose proof (nth_error_lt _ _ _ Hpc) as Hlt. assert (Hwl : w < length ls) by lia.
    unfold lq, c_fresh, c_set_local, c_do_push in Hs; simpl in Hs.
    destruct (length (nth w ls []) <? K); inversion Hs; subst; clear Hs; unfold LocalInv, lq; simpl.
    + rewrite length_upd. repeat split; auto. intros u q Hq Hpast.
      destruct (Nat.eq_dec u w) as [->|Hne]; [rewrite Hpc in Hq; inversion Hq; subst; discriminate|].
      rewrite nth_upd_neq by auto. eauto.
    + repeat split; auto.
      * destruct (0 <? pk); [rewrite length_signal|]; assumption.
      * intros u q Hq Hpast. destruct (0 <? pk); [|eauto].
        apply signal_nth in Hq. destruct Hq as (p0 & Hp0 & Hr). eapply HL; eauto. eapply past_signal; eauto.
  - destruct (nth_error ws w) as [p|] eqn:Hpc; [|discriminate]. destruct p; try discriminate.
    pose proof (nth_error_lt _ _ _ Hpc) as Hlt.
    inversion Hs; subst; clear Hs. unfold LocalInv, lq; simpl. rewrite length_upd. repeat split; auto.
    intros u q Hq Hpast. destruct (Nat.eq_dec u w) as [->|Hne].
    + apply (HL w Waiting Hpc eq_refl).
    + rewrite nth_error_upd_neq in Hq by auto. eauto.
Qed.

Theorem reach_local K n s : creach K n s -> LocalInv n s.
Proof. induction 1; [apply local_init | eapply local_step; eauto]. Qed.

(* a parked (or exited) worker never sits on queued work of its own *)
Theorem parked_worker_local_empty K n s w p : creach K n s ->
  nth_error (c_workers s) w = Some p -> (p = Waiting \/ p = Woken \/ p = TPark \/ p = Exited) -> lq s w = [].
Proof.
  intros H Hp Hk. destruct (reach_local K n s H) as (_ & _ & HL). apply (HL w p Hp).
  destruct Hk as [->|[->|[->| ->]]]; reflexivity.
Qed.

Lemma crun_reach K n : forall ls s s', creach K n s -> crun K s ls = Some s' -> creach K n s'.
Proof.
  induction ls as [|l r IH]; intros s s' Hr H; simpl in H.
  - inversion H; subst; exact Hr.
  - destruct (cstep K s l) as [s1|] eqn:E; [|discriminate]. eapply IH; [|exact H]. eapply creach_step; eauto.
Qed.

(* the hypotheses are satisfiable by a non-trivial state: two workers, one parked and signalled, one
   holding a ticket, items in a local ring and in the global ring *)
Example conc_nontrivial : exists s, creach 4 2 s /\ c_parked s = 1 /\ ccnt is_woken (c_workers s) = 1 /\
  c_global s = [1] /\ c_locals s = [[2]; []] /\ c_taken s = [0] /\ c_pushed s = [0; 1; 2].
Proof.
  destruct (crun 4 (c_init 2) [CSpawnWorker; CSpawnWorker;
     CStep 1; CStep 1; CStep 1; CStep 1; CStep 1;     (* worker 1: local, global, steal, park -> Waiting *)
     CPush;                                            (* token 0, signals worker 1 *)
     CStep 0; CStep 0; CStep 0;                        (* worker 0 pops token 0 from the global ring *)
     CStep 1;                                          (* worker 1 wakes, finds nothing, waits again *)
     CPush;                                            (* token 1, signals worker 1 *)
     CRepush 0]) as [s|] eqn:E.
  - exists s. split; [eapply crun_reach; [apply creach_init | exact E]|].
    vm_compute in E. inversion E; subst. vm_compute. auto 10.
  - vm_compute in E. discriminate.
Qed.
