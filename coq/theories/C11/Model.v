(* C11 — executable small-step model of name-based spawning (actor/spawn.go Spawn /
   SpawnNamedFromFunc / PID.spawnChildLocal -> runSpawnActivation (x/sync singleflight per path) ->
   nodeByName/findRunningChild ; configPID/newPID (PreStart) ; attachAndPublish (actorsCounter++ ;
   tree.addNode ; on a duplicate: return the canonical instance and counter--)), Shutdown of an
   instance, and the death watch (Terminated(path) -> counter-- ; deleteNode BY PATH).
   No proofs in this file.

   State is per name (= path = single-flight key); any number of names, callers and stoppers.
   Instances of a name are numbered 0,1,2,... (each newPID is a new PID object).
   singleflight contract (x/sync, not verified, tested by the harness): callers arriving while a
   call for the key is in flight share its result; the key is forgotten when the call completes. *)
From Coq Require Import List Bool Arith ZArith Lia.
Import ListNotations.

Inductive fstate :=
| FNone                 (* no call in flight for this key *)
| FStart                (* fn started: preconditions; about to look the name up *)
| FMake                 (* no running instance found: about to build a new PID *)
| FCreated (p : nat)    (* newPID returned: PreStart done, instance p running, not yet counted *)
| FCounted (p : nat).   (* actorsCounter incremented, about to addNode *)

Inductive result := RPid (p : nat) | RErr.

Record nm := Nm {
  node    : option nat;          (* the instance registered in the tree under this path *)
  next    : nat;                 (* number of instances created so far *)
  runs    : list nat;            (* instances whose running bit is set *)
  flight  : fstate;
  fid     : nat;                 (* ghost: number of completed flights *)
  waiters : nat;                 (* callers waiting on the flight in progress *)
  handed  : list (nat * result); (* ghost: (flight id, result) handed to each caller, newest first *)
  term    : list nat;            (* Terminated(path) messages at the death watch (instance that sent it) *)
  cnt     : Z;                   (* this name's share of actorsCounter *)
  gaveup  : nat;                 (* ghost: callers that stopped waiting (their own ctx expired) *)
}.

Definition nm0 : nm := Nm None 0 [] FNone 0 0 [] [] 0%Z 0.

Definition st := nat -> nm.
Definition init : st := fun _ => nm0.
Definition upd (s : st) (n : nat) (x : nm) : st := fun m => if Nat.eqb m n then x else s m.

Definition mem (p : nat) (l : list nat) : bool := existsb (Nat.eqb p) l.
Definition del (p : nat) (l : list nat) : list nat := filter (fun q => negb (Nat.eqb q p)) l.

Inductive label :=
| LCall (n : nat)         (* a caller enters runSpawnActivation(key): DoChan starts fn or joins *)
| LLookup (n : nat)       (* fn: nodeByName / findRunningChild: a registered running instance? *)
| LCreate (n : nat)       (* fn: configPID/newPID: PreStart ran, running := true *)
| LCount (n : nat)        (* attachAndPublish: actorsCounter++ *)
| LAdd (n : nat) (child : bool)  (* attachAndPublish: tree.addNode; duplicate => counter--, and the caller gets the canonical
                                    instance (Spawn, SpawnNamedFromFunc) or its own new unregistered one (spawnChildLocal drops
                                    completeSpawn's result) *)
| LFail (n : nat)         (* fn returns an error before creating anything (precondition, PreStart): every caller gets it *)
| LCancel (n : nat)       (* the winner's OWN context is cancelled while its PreStart runs: the winner gets the error, the
                             coalesced waiters (live contexts) re-enter the single flight once: a new flight *)
| LAbandon (n : nat)      (* a waiter's own context expires: it returns ctx.Err(); the flight is untouched *)
| LAddFail (n : nat)      (* attachAndPublish: addNode succeeded, the registry publication failed: rollbackSpawn = Shutdown *)
| LStop (n p : nat)       (* Shutdown of instance p completes: running := false, Terminated(path) if the path has a node *)
| LReap (n : nat).        (* death watch handles Terminated(path): counter--, deleteNode(path) *)

Definition finish (x : nm) (r : result) (nd : option nat) (rn : list nat) (c : Z) : nm :=
  Nm nd (next x) rn FNone (S (fid x)) 0 (repeat (fid x, r) (waiters x) ++ handed x) (term x) c (gaveup x).

Definition step (s : st) (l : label) : option st :=
  match l with
  | LCall n =>
    let x := s n in
    match flight x with
    | FNone => Some (upd s n (Nm (node x) (next x) (runs x) FStart (fid x) 1 (handed x) (term x) (cnt x) (gaveup x)))
    | f => Some (upd s n (Nm (node x) (next x) (runs x) f (fid x) (S (waiters x)) (handed x) (term x) (cnt x) (gaveup x)))
    end
  | LLookup n =>
    let x := s n in
    match flight x with
    | FStart =>
      match node x with
      | Some q => if mem q (runs x) then Some (upd s n (finish x (RPid q) (node x) (runs x) (cnt x)))
                  else Some (upd s n (Nm (node x) (next x) (runs x) FMake (fid x) (waiters x) (handed x) (term x) (cnt x) (gaveup x)))
      | None => Some (upd s n (Nm (node x) (next x) (runs x) FMake (fid x) (waiters x) (handed x) (term x) (cnt x) (gaveup x)))
      end
    | _ => None
    end
  | LCreate n =>
    let x := s n in
    match flight x with
    | FMake => Some (upd s n (Nm (node x) (S (next x)) (next x :: runs x) (FCreated (next x)) (fid x) (waiters x) (handed x) (term x) (cnt x) (gaveup x)))
    | _ => None
    end
  | LCount n =>
    let x := s n in
    match flight x with
    | FCreated p => Some (upd s n (Nm (node x) (next x) (runs x) (FCounted p) (fid x) (waiters x) (handed x) (term x) (cnt x + 1) (gaveup x)))
    | _ => None
    end
  | LAdd n child =>
    let x := s n in
    match flight x with
    | FCounted p =>
      match node x with
      | None => Some (upd s n (finish x (RPid p) (Some p) (runs x) (cnt x)))
      | Some q => Some (upd s n (finish x (RPid (if child then p else q)) (Some q) (runs x) (cnt x - 1)))   (* duplicate: the new one is left unmanaged *)
      end
    | _ => None
    end
  | LFail n =>
    let x := s n in
    match flight x with
    | FStart | FMake => Some (upd s n (finish x RErr (node x) (runs x) (cnt x)))
    | _ => None
    end
  | LCancel n =>
    let x := s n in
    match flight x, waiters x with
    | FMake, S w =>
      Some (upd s n (Nm (node x) (next x) (runs x) (match w with O => FNone | _ => FStart end) (S (fid x)) w
                        (repeat (fid x, RErr) 1 ++ handed x) (term x) (cnt x) (gaveup x)))
    | _, _ => None
    end
  | LAbandon n =>
    let x := s n in
    match flight x, waiters x with
    | FNone, _ => None
    | f, S (S w) => Some (upd s n (Nm (node x) (next x) (runs x) f (fid x) (S w) (handed x) (term x) (cnt x) (S (gaveup x))))
    | _, _ => None
    end
  | LAddFail n =>
    let x := s n in
    match flight x, node x with
    | FCounted p, None =>
      (* inserted, published? no: rolled back by Shutdown(p): Terminated(path) goes to the death watch *)
      Some (upd s n (Nm (Some p) (next x) (del p (runs x)) FNone (S (fid x)) 0 (repeat (fid x, RErr) (waiters x) ++ handed x)
                        (term x ++ [p]) (cnt x) (gaveup x)))
    | _, _ => None
    end
  | LStop n p =>
    let x := s n in
    if mem p (runs x)
    then Some (upd s n (Nm (node x) (next x) (del p (runs x)) (flight x) (fid x) (waiters x) (handed x)
                           (match node x with Some _ => term x ++ [p] | None => term x end) (cnt x) (gaveup x)))
    else None
  | LReap n =>
    let x := s n in
    match term x with
    | _ :: rest =>
      match node x with
      | Some _ => Some (upd s n (Nm None (next x) (runs x) (flight x) (fid x) (waiters x) (handed x) rest (cnt x - 1) (gaveup x)))
      | None => Some (upd s n (Nm None (next x) (runs x) (flight x) (fid x) (waiters x) (handed x) rest (cnt x) (gaveup x)))
      end
    | [] => None
    end
  end.

Fixpoint run (s : st) (ls : list label) : option st :=
  match ls with
  | [] => Some s
  | l :: ls' => match step s l with Some s' => run s' ls' | None => None end
  end.

Inductive reach : st -> Prop :=
| reach_init : reach init
| reach_step s l s' : reach s -> step s l = Some s' -> reach s'.

(* the guard of C11_partial: the name is never looked up while its tree node still holds a
   stopped instance (the death watch has not handled that instance's Terminated yet), and only
   published instances (the registered one) are stopped from outside *)
Definition step_ok (s : st) (l : label) : bool :=
  match l with
  | LLookup n => match node (s n) with Some q => mem q (runs (s n)) | None => true end
  | LStop n p => match node (s n) with Some q => Nat.eqb p q | None => false end
  | _ => true
  end.

Inductive reach_g : st -> Prop :=
| reach_g_init : reach_g init
| reach_g_step s l s' : reach_g s -> step_ok s l = true -> step s l = Some s' -> reach_g s'.

(* quiescent for name n: no call in flight, nothing pending at the death watch *)
Definition quiet (x : nm) : bool :=
  match flight x, term x with FNone, [] => true | _, _ => false end.

(* NumActors over a finite set of names *)
Definition num_actors (s : st) (names : list nat) : Z := fold_right (fun n acc => (cnt (s n) + acc)%Z) 0%Z names.
Definition running_registered (x : nm) : bool :=
  match node x with Some q => mem q (runs x) | None => false end.

(* ------------------------------------------------------------------------------------------
   Driver level (used by the tie).  The harness issues Spawn calls from goroutines (the winner's
   PreStart may be gated), Kill(name), and can hold the death watch (its Terminated messages stay
   queued).  After each action the real system runs until blocked; [quiesce] takes the internal
   labels the same way, every intermediate state being reached by [step]. *)
Inductive daction :=
| DCall (n : nat) (gate : bool)   (* go Spawn(name n, actor); gate: this actor's PreStart blocks *)
| DReleasePre (n : nat)           (* let the gated PreStart return *)
| DStop (n : nat)                 (* Kill(name n): Shutdown of whatever instance is registered *)
| DHoldDW                         (* the death watch stops handling messages *)
| DReleaseDW
| DCancel (n : nat)               (* cancel the context of the gated winner: its PreStart returns ctx.Err() *)
| DCallDeadline (n : nat)         (* Spawn(name n) with a short deadline while a gated flight is in progress: gives up *)
| DSetFail (n : nat).             (* the registry publication of the next flight of name n fails *)

Record dst := Dst { d_s : st; d_held : bool; d_gated : list nat; d_fail : list nat }.
Definition dinit : dst := Dst init false [] [].
(* [kids]: the names spawned through SpawnChild *)

Definition internal_label (kids : list nat) (d : dst) (n : nat) : option label :=
  let x := d_s d n in
  match flight x with
  | FStart => Some (LLookup n)
  | FMake => if mem n (d_gated d) then None else Some (LCreate n)
  | FCreated _ => Some (LCount n)
  | FCounted _ => if mem n (d_fail d) then Some (LAddFail n) else Some (LAdd n (mem n kids))
  | FNone => None
  end.

Fixpoint first_some {A B} (f : A -> option B) (l : list A) : option B :=
  match l with
  | [] => None
  | x :: l' => match f x with Some y => Some y | None => first_some f l' end
  end.

Definition internal_step (kids : list nat) (k : nat) (d : dst) : option dst :=
  match first_some (internal_label kids d) (seq 0 k) with
  | Some l => match step (d_s d) l with
              | Some s' => Some (Dst s' (d_held d) (d_gated d) (match l with LAddFail n => del n (d_fail d) | _ => d_fail d end))
              | None => None
              end
  | None =>
    if d_held d then None
    else match first_some (fun n => match term (d_s d n) with _ :: _ => Some (LReap n) | [] => None end) (seq 0 k) with
         | Some l => match step (d_s d) l with Some s' => Some (Dst s' (d_held d) (d_gated d) (d_fail d)) | None => None end
         | None => None
         end
  end.

Fixpoint quiesce (kids : list nat) (k fuel : nat) (d : dst) : dst :=
  match fuel with
  | O => d
  | S f => match internal_step kids k d with Some d' => quiesce kids k f d' | None => d end
  end.

Definition drive1 (d : dst) (a : daction) : option dst :=
  match a with
  | DCall n g =>
    let winner := match flight (d_s d n) with FNone => true | _ => false end in
    match step (d_s d) (LCall n) with
    | Some s' => Some (Dst s' (d_held d) (if winner && g && negb (running_registered (d_s d n)) then n :: d_gated d else d_gated d) (d_fail d))
    | None => None
    end
  | DReleasePre n =>
    if mem n (d_gated d) then
      match step (d_s d) (LCreate n) with
      | Some s' => Some (Dst s' (d_held d) (del n (d_gated d)) (d_fail d))
      | None => None
      end
    else None
  | DStop n =>
    match node (d_s d n) with
    | Some q => match step (d_s d) (LStop n q) with
                | Some s' => Some (Dst s' (d_held d) (d_gated d) (d_fail d))
                | None => Some d       (* already stopped: Kill finds the node, Shutdown is a no-op *)
                end
    | None => None                      (* Kill: actor not found *)
    end
  | DHoldDW => Some (Dst (d_s d) true (d_gated d) (d_fail d))
  | DReleaseDW => Some (Dst (d_s d) false (d_gated d) (d_fail d))
  | DCancel n =>
    if mem n (d_gated d) then
      match step (d_s d) (LCancel n) with
      | Some s' => Some (Dst s' (d_held d) (del n (d_gated d)) (d_fail d))
      | None => None
      end
    else None
  | DCallDeadline n =>
    if mem n (d_gated d) then
      match step (d_s d) (LCall n) with
      | Some s1 => match step s1 (LAbandon n) with
                   | Some s' => Some (Dst s' (d_held d) (d_gated d) (d_fail d))
                   | None => None
                   end
      | None => None
      end
    else None
  | DSetFail n => Some (Dst (d_s d) (d_held d) (d_gated d) (n :: d_fail d))
  end.

Definition drive (kids : list nat) (k : nat) (d : dst) (a : daction) : dst * nat :=
  match drive1 d a with
  | Some d' => (quiesce kids k (16 * S k) d', 0)
  | None => (d, 1)
  end.

Definition res_code (r : result) : nat := match r with RPid p => S p | RErr => 0 end.
Fixpoint ins_sorted (x : nat) (l : list nat) : list nat :=
  match l with [] => [x] | y :: l' => if Nat.leb x y then x :: l else y :: ins_sorted x l' end.
Definition sort_nats (l : list nat) : list nat := fold_right ins_sorted [] l.

(* per name: [registered instance + 1 ; number of running instances] then the sorted results
   handed out so far; finally [NumActors] *)
Definition observe (k : nat) (d : dst) : list (list nat) :=
  flat_map (fun n => let x := d_s d n in
                     [ [match node x with Some q => S q | None => 0 end; length (runs x)];
                       sort_nats (repeat 0 (gaveup x) ++ map (fun e => res_code (snd e)) (handed x)) ]) (seq 0 k)
  ++ [ [let z := num_actors (d_s d) (seq 0 k) in if Z.ltb z 0 then 4999 else Z.to_nat z] ].

Fixpoint drive_obs (kids : list nat) (k : nat) (d : dst) (acts : list daction) : list (nat * list (list nat)) :=
  match acts with
  | [] => []
  | a :: acts' => let '(d', f) := drive kids k d a in (f, observe k d') :: drive_obs kids k d' acts'
  end.

Fixpoint nats_eqb (a b : list nat) : bool :=
  match a, b with [], [] => true | x :: a', y :: b' => Nat.eqb x y && nats_eqb a' b' | _, _ => false end.
Fixpoint obs_eqb (a b : list (list nat)) : bool :=
  match a, b with [], [] => true | x :: a', y :: b' => nats_eqb x y && obs_eqb a' b' | _, _ => false end.
Fixpoint first_obs_diff (i : nat) (xs ys : list (nat * list (list nat))) : option nat :=
  match xs, ys with
  | [], [] => None
  | x :: xs', y :: ys' => if Nat.eqb (fst x) (fst y) && obs_eqb (snd x) (snd y) then first_obs_diff (S i) xs' ys' else Some i
  | _, _ => Some i
  end.
Definition scenario_diff (c : list nat * nat * list daction * list (nat * list (list nat))) : option nat :=
  let '(kids, k, acts, expected) := c in first_obs_diff 0 (drive_obs kids k dinit acts) expected.
