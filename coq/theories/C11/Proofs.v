(* C11 — proofs over C11/Model.v. *)
From Coq Require Import List Bool Arith ZArith Lia.
Import ListNotations.
From GV Require Import C11.Model.

Lemma upd_same s n x : upd s n x n = x.
Proof. unfold upd. now rewrite Nat.eqb_refl. Qed.
Lemma upd_other s n x m : m <> n -> upd s n x m = s m.
Proof. intros H. unfold upd. destruct (Nat.eqb_spec m n); [contradiction|reflexivity]. Qed.

Lemma mem_In p l : mem p l = true <-> In p l.
Proof.
  unfold mem. rewrite existsb_exists. split.
  - intros (x & Hin & E). apply Nat.eqb_eq in E. now subst.
  - intros H. exists p. split; [assumption|apply Nat.eqb_refl].
Qed.
Lemma In_del p q l : In p (del q l) <-> In p l /\ p <> q.
Proof.
  unfold del. rewrite filter_In. split; intros [H1 H2]; split; auto.
  - destruct (Nat.eqb_spec p q); [discriminate|assumption].
  - destruct (Nat.eqb_spec p q); [contradiction|reflexivity].
Qed.
Lemma NoDup_del q l : NoDup l -> NoDup (del q l).
Proof. unfold del. apply NoDup_filter. Qed.

(* what a step does: it changes exactly one name *)
Definition step_name (l : label) : nat :=
  match l with LCall n | LLookup n | LCreate n | LCount n | LAdd n _ | LFail n | LCancel n | LAbandon n | LAddFail n | LStop n _ | LReap n => n end.

Lemma step_frame s l s' m : step s l = Some s' -> m <> step_name l -> s' m = s m.
Proof.
  intros H Hne. destruct l; simpl in *;
  repeat match type of H with
  | (if ?c then _ else _) = Some _ => destruct c; try discriminate
  | match ?x with _ => _ end = Some _ => destruct x; try discriminate
  end; injection H as <-; now rewrite upd_other.
Qed.

Ltac inv_step H :=
  simpl in H;
  repeat match type of H with
  | (if ?c then _ else _) = Some _ => let E := fresh "E" in destruct c eqn:E; try discriminate
  | match ?x with _ => _ end = Some _ => let E := fresh "E" in destruct x eqn:E; try discriminate
  end;
  injection H as <-.

(* ---------------------------------------------------------------- unguarded invariant *)
Definition flight_counted (f : fstate) : Z := match f with FCounted _ => 1 | _ => 0 end.
Definition node_count (o : option nat) : Z := match o with Some _ => 1 | None => 0 end.

Record pinv (x : nm) : Prop := {
  p_cnt : cnt x = (node_count (node x) + flight_counted (flight x))%Z;
  p_fid : forall f r, In (f, r) (handed x) -> f < fid x;
  p_same : forall f r r', In (f, r) (handed x) -> In (f, r') (handed x) -> r = r';
  p_wait : flight x = FNone -> waiters x = 0;
}.

Lemma pinv0 : pinv nm0.
Proof. split; simpl; intros; try tauto; reflexivity. Qed.

Lemma in_repeat_app {A} (a b : A) k l : In a (repeat b k ++ l) -> a = b \/ In a l.
Proof. intros H. apply in_app_or in H as [H|H]; [left; now apply repeat_spec in H|now right]. Qed.

Lemma handed_fid (hd : list (nat * result)) fi r k :
  (forall f r0, In (f, r0) hd -> f < fi) -> forall f r0, In (f, r0) (repeat (fi, r) k ++ hd) -> f < S fi.
Proof. intros P2 f r0 H. apply in_repeat_app in H as [[= -> ->]|H]; [lia|]. apply P2 in H. lia. Qed.

Lemma handed_same (hd : list (nat * result)) fi r k :
  (forall f r0, In (f, r0) hd -> f < fi) ->
  (forall f r0 r1, In (f, r0) hd -> In (f, r1) hd -> r0 = r1) ->
  forall f r0 r1, In (f, r0) (repeat (fi, r) k ++ hd) -> In (f, r1) (repeat (fi, r) k ++ hd) -> r0 = r1.
Proof.
  intros P2 P3 f r0 r1 H H'.
  apply in_repeat_app in H as [[= -> ->]|H]; apply in_repeat_app in H' as [[= -> ]|H'].
  - reflexivity.
  - apply P2 in H'. lia.
  - subst. apply P2 in H. lia.
  - eapply P3; eauto.
Qed.

Lemma pinv_step s l s' : (forall n, pinv (s n)) -> step s l = Some s' -> forall n, pinv (s' n).
Proof.
  intros I H n. destruct (Nat.eq_dec n (step_name l)) as [->|Hne]; [|rewrite (step_frame _ _ _ _ H Hne); apply I].
  destruct l as [k|k|k|k|k ch|k|k|k|k|k p|k]; simpl in *; pose proof (I k) as P;
    destruct (s k) as [nd nx rn fl fi wt hd tm c gu] eqn:Es; destruct P as [P1 P2 P3 P4]; simpl in *;
    inv_step H; rewrite upd_same; unfold finish; split; simpl in *; subst; simpl in *;
    auto; try lia; try discriminate;
    try (eapply handed_fid; eassumption); try (eapply handed_same; eassumption);
    try (destruct fl; simpl; lia).
  - destruct n; reflexivity.
  - intros f r [[= <- <-]|Hx]; [lia|]. apply P2 in Hx. lia.
  - intros f r r' [[= <- <-]|Hx] [[= <-]|Hy]; try reflexivity.
    + apply P2 in Hy. lia.
    + subst. apply P2 in Hx. lia.
    + eapply P3; eauto.
  - destruct n; [reflexivity|discriminate].
Qed.

Lemma reach_pinv s : reach s -> forall n, pinv (s n).
Proof. induction 1; [intros n; apply pinv0|eapply pinv_step; eauto]. Qed.

(* ---------------------------------------------------------------- guarded invariant *)
Definition flight_pid (f : fstate) : option nat :=
  match f with FCreated p | FCounted p => Some p | _ => None end.
Definition flight_busy (f : fstate) : bool :=
  match f with FMake | FCreated _ | FCounted _ => true | _ => false end.

Record ginv (x : nm) : Prop := {
  g_bound : forall p, In p (runs x) -> p < next x;
  g_node_bound : forall q, node x = Some q -> q < next x;
  g_leak : forall p, In p (runs x) -> node x = Some p \/ flight_pid (flight x) = Some p;
  g_nodup : NoDup (runs x);
  g_term : term x = [] \/ exists q, term x = [q] /\ node x = Some q /\ ~ In q (runs x);
  g_stale : forall q, node x = Some q -> In q (runs x) \/ term x = [q];
  g_busy : flight_busy (flight x) = true -> node x = None /\ term x = [];
  g_fpid : forall p, flight_pid (flight x) = Some p -> In p (runs x);
}.

Lemma ginv0 : ginv nm0.
Proof. split; simpl; intros; try tauto; try discriminate; try constructor; auto. Qed.

Ltac gprep :=
  repeat match goal with
  | H : Some _ = Some _ |- _ => injection H as ?; subst
  | H : _ /\ _ |- _ => destruct H
  | H : true = true -> _ |- _ => specialize (H eq_refl)
  | H : _ = _ \/ In _ _ |- _ => destruct H as [?|H]; subst
  | H : In _ (_ :: _) |- _ => destruct H as [?|H]; subst
  | H : In _ (del _ _) |- _ => apply In_del in H; destruct H
  end.

Ltac gauto :=
  gprep; try discriminate; try tauto; try lia; eauto;
  try (constructor; auto; fail).

(* the step of name k, as a function on its record *)
Lemma ginv_create nd nx rn fi wt hd tm c gu :
  ginv (Nm nd nx rn FMake fi wt hd tm c gu) -> ginv (Nm nd (S nx) (nx :: rn) (FCreated nx) fi wt hd tm c gu).
Proof.
  intros [G1 G2 G3 G4 G5 G6 G7 G8]; simpl in *. destruct (G7 eq_refl) as [-> ->].
  split; simpl; intros; gauto.
  - match goal with Hx : In _ rn |- _ => apply G1 in Hx; lia end.
  - match goal with Hx : In _ rn |- _ => destruct (G3 _ Hx); discriminate end.
  - constructor; [|assumption]. intros Hin. apply G1 in Hin. lia.
Qed.

Lemma ginv_stop nd nx rn fl fi wt hd tm c gu p :
  ginv (Nm nd nx rn fl fi wt hd tm c gu) -> nd = Some p -> In p rn ->
  ginv (Nm nd nx (del p rn) fl fi wt hd (tm ++ [p]) c gu).
Proof.
  intros [G1 G2 G3 G4 G5 G6 G7 G8] -> Hin; simpl in *.
  assert (Htm : tm = []).
  { destruct G5 as [?|(q & ? & [= <-] & Hn)]; [assumption|contradiction]. }
  assert (Hfl : flight_pid fl = None).
  { destruct (flight_pid fl) as [p0|] eqn:E; [|reflexivity]. exfalso.
    assert (flight_busy fl = true) by (destruct fl; simpl in *; try discriminate; reflexivity).
    destruct (G7 H); discriminate. }
  subst tm. split; simpl; intros; gauto.
  - apply NoDup_del; assumption.
  - right. exists p. repeat split; auto. intros X. apply In_del in X. tauto.
  - match goal with Hx : flight_busy fl = true |- _ => destruct (G7 Hx); discriminate end.
  - congruence.
Qed.
Lemma ginv_step s l s' : (forall n, ginv (s n)) -> step_ok s l = true -> step s l = Some s' -> forall n, ginv (s' n).
Proof.
  intros I Ok H n. destruct (Nat.eq_dec n (step_name l)) as [->|Hne]; [|rewrite (step_frame _ _ _ _ H Hne); apply I].
  destruct l as [k|k|k|k|k ch|k|k|k|k|k p|k]; simpl in *; pose proof (I k) as P;
    destruct (s k) as [nd nx rn fl fi wt hd tm c gu] eqn:Es; pose proof P as P0; destruct P as [G1 G2 G3 G4 G5 G6 G7 G8]; simpl in *;
    inv_step H; rewrite upd_same; unfold finish; simpl in *; subst; simpl in *;
    try (rewrite mem_In in *);
    try (apply ginv_create; exact P0);
    try (destruct nd as [q|]; [apply Nat.eqb_eq in Ok; subst q; apply ginv_stop; auto|discriminate]; fail);
    split; simpl; intros; gauto;
    try (destruct G5 as [X|(q0 & X & Y & Z)]; [auto; try discriminate X|try discriminate Y]; fail);
    try (match goal with Hx : In _ rn |- _ => destruct (G3 _ Hx) as [X|X]; [discriminate X|injection X as ->; auto] end; fail);
    try (destruct G5 as [X|(q0 & X & Y & Z)]; [discriminate X|injection X as -> ->; injection Y as ->];
         try (left; reflexivity); try (split; reflexivity);
         match goal with Hx : In _ rn |- _ => destruct (G3 _ Hx) as [X|X]; [injection X as ->; contradiction|auto] end; fail).
  - destruct (G3 _ H) as [X|X]; [left; exact X|discriminate X].
  - destruct n; discriminate H.
  - apply NoDup_del; assumption.
  - right. exists p. subst tm. simpl. repeat split; auto. intros X. apply In_del in X. tauto.
  - right. subst tm. reflexivity.
Qed.

Lemma reach_g_reach s : reach_g s -> reach s.
Proof. induction 1; [constructor|econstructor; eauto]. Qed.
Lemma reach_g_ginv s : reach_g s -> forall n, ginv (s n).
Proof. induction 1; [intros n; apply ginv0|eapply ginv_step; eauto]. Qed.

(* ---------------------------------------------------------------- theorems *)

(* all callers of one flight get the same result — every interleaving *)
Theorem same_flight_same_result s n f r r' : reach s ->
  In (f, r) (handed (s n)) -> In (f, r') (handed (s n)) -> r = r'.
Proof. intros R. apply (p_same _ (reach_pinv _ R n)). Qed.

(* the counter share of a name is exactly: registered node + an increment in flight — every interleaving *)
Theorem counter_share s n : reach s ->
  cnt (s n) = (node_count (node (s n)) + flight_counted (flight (s n)))%Z.
Proof. intros R. apply (p_cnt _ (reach_pinv _ R n)). Qed.

(* at most one instance of a name runs at any time (guarded executions) *)
Theorem at_most_one_running s n : reach_g s -> length (runs (s n)) <= 1.
Proof.
  intros R. pose proof (reach_g_ginv _ R n) as [G1 G2 G3 G4 G5 G6 G7 G8].
  destruct (runs (s n)) as [|p [|q l]] eqn:E; simpl; try lia. exfalso.
  assert (Hp : In p (p :: q :: l)) by (left; reflexivity).
  assert (Hq : In q (p :: q :: l)) by (right; left; reflexivity).
  assert (p = q).
  { destruct (G3 _ Hp) as [Ep|Ep], (G3 _ Hq) as [Eq|Eq]; try congruence.
    - assert (flight_busy (flight (s n)) = true) by (destruct (flight (s n)); simpl in *; try discriminate; reflexivity).
      destruct (G7 H); congruence.
    - assert (flight_busy (flight (s n)) = true) by (destruct (flight (s n)); simpl in *; try discriminate; reflexivity).
      destruct (G7 H); congruence. }
  subst. inversion G4 as [|? ? Hn _]. apply Hn. left. reflexivity.
Qed.

(* a successful flight hands out the instance that is registered and running at that moment *)
Definition completes (s s' : st) (n : nat) : Prop := fid (s' n) = S (fid (s n)).

Theorem handed_pid_is_running s l s' n p : reach_g s -> step_ok s l = true -> step s l = Some s' ->
  completes s s' n -> In (fid (s n), RPid p) (handed (s' n)) ->
  node (s' n) = Some p /\ In p (runs (s' n)).
Proof.
  intros R Ok H C Hin.
  pose proof (reach_g_ginv _ R n) as G. pose proof (reach_pinv _ (reach_g_reach _ R) n) as P.
  destruct (Nat.eq_dec n (step_name l)) as [->|Hne].
  2:{ unfold completes in C. rewrite (step_frame _ _ _ _ H Hne) in C. lia. }
  unfold completes in C.
  destruct l as [k|k|k|k|k ch|k|k|k|k|k q|k]; simpl in *;
    destruct (s k) as [nd nx rn fl fi wt hd tm c gu] eqn:Es; destruct G as [G1 G2 G3 G4 G5 G6 G7 G8]; simpl in *;
    inv_step H; rewrite upd_same in *; unfold finish in *; simpl in *; try lia.
  - (* lookup found a running instance *)
    apply in_repeat_app in Hin as [[= <-]|Hin]; [split; [reflexivity|now apply mem_In]|].
    apply (p_fid _ P) in Hin. simpl in Hin. lia.
  - (* duplicate: impossible under the guard *)
    destruct (G7 eq_refl); discriminate.
  - (* addNode succeeded *)
    apply in_repeat_app in Hin as [[= <-]|Hin]; [split; [reflexivity|apply G8; reflexivity]|].
    apply (p_fid _ P) in Hin. simpl in Hin. lia.
  - apply in_repeat_app in Hin as [[= ]|Hin]. apply (p_fid _ P) in Hin. simpl in Hin. lia.
  - apply in_repeat_app in Hin as [[= ]|Hin]. apply (p_fid _ P) in Hin. simpl in Hin. lia.
  - destruct Hin as [Hx|Hin]; [discriminate Hx|]. apply (p_fid _ P) in Hin. simpl in Hin. lia.
  - apply in_repeat_app in Hin as [[= ]|Hin]. apply (p_fid _ P) in Hin. simpl in Hin. lia.
Qed.

(* the counter at quiescence: the name's share is 1 exactly when a running instance is
   registered, and that instance is the only running one *)
Theorem counter_at_quiescence s n : reach_g s -> quiet (s n) = true ->
  cnt (s n) = (if running_registered (s n) then 1 else 0)%Z /\
  length (runs (s n)) = (if running_registered (s n) then 1 else 0).
Proof.
  intros R Q. pose proof (reach_g_ginv _ R n) as [G1 G2 G3 G4 G5 G6 G7 G8].
  pose proof (counter_share _ n (reach_g_reach _ R)) as C.
  pose proof (at_most_one_running _ n R) as L.
  unfold quiet in Q. destruct (flight (s n)) eqn:Ef; try discriminate. destruct (term (s n)) eqn:Et; try discriminate.
  unfold running_registered. simpl in C. destruct (node (s n)) as [q|] eqn:En; simpl in C.
  - destruct (G6 q eq_refl) as [Hin|?]; [|discriminate].
    rewrite (proj2 (mem_In q _) Hin). split; [lia|].
    destruct (runs (s n)) as [|a [|b l]]; simpl in *; try lia; try contradiction.
  - split; [lia|]. destruct (runs (s n)) as [|a l] eqn:Er; [reflexivity|]. exfalso.
    destruct (G3 a (or_introl eq_refl)) as [?|?]; discriminate.
Qed.

Lemma num_actors_pointwise s names f :
  (forall n, In n names -> cnt (s n) = f n) -> num_actors s names = fold_right (fun n acc => (f n + acc)%Z) 0%Z names.
Proof.
  induction names as [|a l IH]; intros H; simpl; [reflexivity|].
  rewrite (H a (or_introl eq_refl)), IH; [reflexivity|]. intros n Hn. apply H. now right.
Qed.

(* NumActors = number of names with a running registered actor, once the calls have settled *)
Theorem num_actors_at_quiescence s names : reach_g s -> (forall n, In n names -> quiet (s n) = true) ->
  num_actors s names = fold_right (fun n acc => ((if running_registered (s n) then 1 else 0) + acc)%Z) 0%Z names.
Proof.
  intros R Q. apply num_actors_pointwise. intros n Hn. apply counter_at_quiescence; auto.
Qed.

(* ---------------------------------------------------------------- witness *)
Lemma run_reach ls : forall s s', reach s -> run s ls = Some s' -> reach s'.
Proof.
  induction ls as [|l ls IH]; simpl; intros s s' Hr H; [now injection H as <-|].
  destruct (step s l) eqn:E; [|discriminate]. eapply IH; [|exact H]. econstructor; eauto.
Qed.

Definition spawn_once (n : nat) : list label := [LCall n; LLookup n; LCreate n; LCount n; LAdd n false].

(* Kill(name) then Spawn(name) twice before the death watch has handled the Terminated message:
   both calls are handed the STOPPED instance 0, instances 1 and 2 run unregistered under the same
   path, and the name's counter share ends at 0 while two actors run *)
Definition witness_respawn : list label :=
  spawn_once 0 ++ [LStop 0 0] ++ spawn_once 0 ++ spawn_once 0 ++ [LReap 0].

Theorem respawn_refuted : exists s, run init witness_respawn = Some s /\ reach s /\
  handed (s 0) = [(2, RPid 0); (1, RPid 0); (0, RPid 0)] /\ runs (s 0) = [2; 1] /\
  node (s 0) = None /\ quiet (s 0) = true /\ cnt (s 0) = 0%Z.
Proof.
  destruct (run init witness_respawn) as [s|] eqn:E; [|vm_compute in E; discriminate].
  exists s. split; [reflexivity|]. split; [eapply run_reach; [constructor|exact E]|].
  vm_compute in E. injection E as <-. repeat split; reflexivity.
Qed.

Fixpoint run_g (s : st) (ls : list label) : option st :=
  match ls with
  | [] => Some s
  | l :: ls' => if step_ok s l then match step s l with Some s' => run_g s' ls' | None => None end else None
  end.
Lemma run_g_reach ls : forall s s', reach_g s -> run_g s ls = Some s' -> reach_g s'.
Proof.
  induction ls as [|l ls IH]; simpl; intros s s' Hr H; [now injection H as <-|].
  destruct (step_ok s l) eqn:Eo; [|discriminate].
  destruct (step s l) eqn:E; [|discriminate]. eapply IH; [|exact H]. econstructor; eauto.
Qed.
Example respawn_witness_not_guarded : run_g init witness_respawn = None.
Proof. vm_compute. reflexivity. Qed.

(* EXAMPLE (hypotheses satisfiable): three concurrent callers coalesce on one flight, a second
   name is spawned, the first is stopped, reaped and respawned *)
Definition example_guarded : list label :=
  [LCall 0; LCall 0; LLookup 0; LCall 0; LCreate 0; LCall 1; LCount 0; LLookup 1; LAdd 0 false; LCreate 1; LCount 1; LAdd 1 true;
   LStop 0 0; LReap 0] ++ spawn_once 0.
Example example_guarded_ok : exists s, run_g init example_guarded = Some s /\ reach_g s /\
  handed (s 0) = [(1, RPid 1); (0, RPid 0); (0, RPid 0); (0, RPid 0)] /\
  quiet (s 0) = true /\ quiet (s 1) = true /\ num_actors s [0; 1] = 2%Z.
Proof.
  destruct (run_g init example_guarded) as [s|] eqn:E; [|vm_compute in E; discriminate].
  exists s. split; [reflexivity|]. split; [eapply run_g_reach; [constructor|exact E]|].
  vm_compute in E. injection E as <-. repeat split; reflexivity.
Qed.

(* EXAMPLE (hypotheses satisfiable, new labels): four callers coalesce; one gives up on its own deadline;
   the winner's context is cancelled inside PreStart: the winner gets the error, the two remaining
   waiters start ONE new flight and share instance 0.  Then a publication failure after the tree
   insertion: rolled back, reaped, counter back to the number of running actors. *)
Definition example_cancel : list label :=
  [LCall 0; LLookup 0; LCall 0; LCall 0; LCall 0; LAbandon 0; LCancel 0; LLookup 0; LCreate 0; LCount 0; LAdd 0 false;
   LCall 1; LLookup 1; LCreate 1; LCount 1; LAddFail 1; LReap 1].
Example example_cancel_ok : exists s, run_g init example_cancel = Some s /\ reach_g s /\
  handed (s 0) = [(1, RPid 0); (1, RPid 0); (0, RErr)] /\ gaveup (s 0) = 1 /\ runs (s 0) = [0] /\
  handed (s 1) = [(0, RErr)] /\ runs (s 1) = [] /\ node (s 1) = None /\
  quiet (s 0) = true /\ quiet (s 1) = true /\ num_actors s [0; 1] = 1%Z.
Proof.
  destruct (run_g init example_cancel) as [s|] eqn:E; [|vm_compute in E; discriminate].
  exists s. split; [reflexivity|]. split; [eapply run_g_reach; [constructor|exact E]|].
  vm_compute in E. injection E as <-. repeat split; reflexivity.
Qed.

(* the SpawnChild flavour of the same race: the caller is handed its own new instance, which runs
   but is not in the tree and is not counted *)
Definition spawn_child_once (n : nat) : list label := [LCall n; LLookup n; LCreate n; LCount n; LAdd n true].
Definition witness_respawn_child : list label := spawn_child_once 0 ++ [LStop 0 0] ++ spawn_child_once 0 ++ [LReap 0].
Theorem respawn_child_refuted : exists s, run init witness_respawn_child = Some s /\ reach s /\
  handed (s 0) = [(1, RPid 1); (0, RPid 0)] /\ runs (s 0) = [1] /\ node (s 0) = None /\
  quiet (s 0) = true /\ cnt (s 0) = 0%Z.
Proof.
  destruct (run init witness_respawn_child) as [s|] eqn:E; [|vm_compute in E; discriminate].
  exists s. split; [reflexivity|]. split; [eapply run_reach; [constructor|exact E]|].
  vm_compute in E. injection E as <-. repeat split; reflexivity.
Qed.

(* ---------------------------------------------------------------- the driver level stays inside the small-step system *)
Lemma first_some_spec {A B} (f : A -> option B) l y : first_some f l = Some y -> exists x, In x l /\ f x = Some y.
Proof.
  induction l as [|a l IH]; simpl; [discriminate|]. destruct (f a) eqn:E.
  - intros [= <-]. exists a. auto.
  - intros H. destruct (IH H) as (x & Hin & Hx). exists x. auto.
Qed.

Lemma internal_step_reach kids k d d' : reach (d_s d) -> internal_step kids k d = Some d' -> reach (d_s d').
Proof.
  intros R. unfold internal_step.
  destruct (first_some (internal_label kids d) (seq 0 k)) as [l|] eqn:E.
  - destruct (step (d_s d) l) eqn:E2; [|discriminate]. intros [= <-]. simpl. econstructor; eauto.
  - destruct (d_held d); [discriminate|].
    match goal with |- context[first_some ?f ?l] => destruct (first_some f l) as [l0|] eqn:E3 end; [|discriminate].
    destruct (step (d_s d) l0) eqn:E2; [|discriminate]. intros [= <-]. simpl. econstructor; eauto.
Qed.

Lemma quiesce_reach kids k fuel : forall d, reach (d_s d) -> reach (d_s (quiesce kids k fuel d)).
Proof.
  induction fuel as [|f IH]; intros d R; simpl; [assumption|].
  destruct (internal_step kids k d) as [d'|] eqn:E; [|assumption]. apply IH. eapply internal_step_reach; eauto.
Qed.

Theorem drive_reach kids k d a : reach (d_s d) -> reach (d_s (fst (drive kids k d a))).
Proof.
  intros R. unfold drive. destruct (drive1 d a) as [d'|] eqn:E; cbn [fst]; [|assumption].
  apply quiesce_reach. destruct a; cbn [drive1] in E.
  - destruct (step (d_s d) (LCall n)) eqn:E2; [|discriminate]. injection E as <-. simpl. econstructor; eauto.
  - destruct (mem n (d_gated d)); [|discriminate].
    destruct (step (d_s d) (LCreate n)) eqn:E2; [|discriminate]. injection E as <-. simpl. econstructor; eauto.
  - destruct (node (d_s d n)) as [q|]; [|discriminate].
    destruct (step (d_s d) (LStop n q)) eqn:E2; injection E as <-; simpl; [econstructor; eauto|assumption].
  - injection E as <-. assumption.
  - injection E as <-. assumption.
  - destruct (mem n (d_gated d)); [|discriminate].
    destruct (step (d_s d) (LCancel n)) eqn:E2; [|discriminate]. injection E as <-. simpl. econstructor; eauto.
  - destruct (mem n (d_gated d)); [|discriminate].
    destruct (step (d_s d) (LCall n)) as [s1|] eqn:E2; [|discriminate].
    destruct (step s1 (LAbandon n)) eqn:E3; [|discriminate]. injection E as <-. simpl.
    econstructor; [econstructor; [exact R|exact E2]|exact E3].
  - injection E as <-. assumption.
Qed.
