(* C31 — executable model of the grain lifecycle of actor/grain_pid.go (activate, receive, runTurn/dispatchOne,
   handlePoisonPill, passivationTry, deactivate) and of the local part of ensureGrainProcess
   (actor/grain_engine.go), for ONE grain identity on one node (no cluster: ownership is C30).

   Granularity: the user hooks OnActivate / OnReceive / OnDeactivate are where other goroutines can interleave for
   an arbitrarily long time; one step = everything a goroutine does from one hook boundary to the next (this is also
   the granularity at which the harness drives the real code). The per-grain turn machinery
   (schedState Idle/Scheduled/Processing, TrySchedule / TakeForProcessing / finishOrReclaim) is kept: it is what makes
   on-turn work exclusive (second instance of M-DISPATCH).

   Goroutines:
     sender m      localSend: ensureGrainProcess (fast path: mapped pid active; else the single flight creates / re-uses a
                   pid and runs OnActivate -- SAct) then pid.receive (SEnq: isActive gate, enqueue, TrySchedule)
     worker p      runTurn: TakeForProcessing, then message by message: OnReceive (WRecv) or, for a PoisonPill,
                   handlePoisonPill -> deactivate (WDeact) ON the turn; an empty mailbox ends the turn (Idle)
     passivator p  passivationTry of a non-reentrant grain: gate (isActive && !onPoisonPill), then deactivate DIRECTLY
                   on the passivation manager's goroutine (PDeact) -- not on the turn
   deactivate (either way): OnDeactivate, then grains.Delete(identity) [only if OnDeactivate succeeded], and finally
   activated=false, onPoisonPill=false. *)
From Coq Require Import List Arith Bool.
Import ListNotations.

Inductive msg := Msg (id : nat) | Pill.
Inductive sched := Idle | Scheduled | Processing.

Record pidst := mkPid { flag : bool; onpill : bool; mbox : list msg; sch : sched }.

Inductive event :=
| EActBegin (p : nat) | EActEnd (p : nat) (ok : bool)
| ERecvBegin (p : nat) (m : nat) | ERecvEnd (p : nat) (m : nat)
| EDeactBegin (p : nat) | EDeactEnd (p : nat) (ok : bool).

Inductive tpc :=
| SAct (m : msg) (p : nat)     (* sender, leader of the activation flight, inside OnActivate of pid p *)
| SEnq (m : msg) (p : nat)     (* sender about to call pid.receive *)
| WRecv (p : nat) (m : nat)    (* worker inside OnReceive *)
| WDeact (p : nat)             (* worker inside OnDeactivate (PoisonPill, on the turn) *)
| PDeact (p : nat)             (* passivation goroutine inside OnDeactivate (off the turn) *)
| TDone.

Record state := mkS {
  pf : nat -> pidst;
  nxt : nat;
  gmap : option nat;
  threads : list tpc;
  log : list event;              (* chronological *)
  stale_recv : bool              (* ghost: some OnReceive was started on a pid whose activated flag was already false *)
}.

Definition pid0 : pidst := mkPid false false [] Idle.
Definition state0 : state := mkS (fun _ => pid0) 0 None [] [] false.

Definition set_pf (f : nat -> pidst) (p : nat) (v : pidst) : nat -> pidst :=
  fun q => if Nat.eqb q p then v else f q.

Fixpoint set_nth {A} (i : nat) (x : A) (l : list A) : list A :=
  match l, i with
  | [], _ => []
  | _ :: t, 0 => x :: t
  | h :: t, S j => h :: set_nth j x t
  end.

Definition in_flight (t : tpc) : bool := match t with SAct _ _ => true | _ => false end.

(* the worker continues its turn on pid p: consume the mailbox until a hook is entered or the mailbox is empty.
   Returns the new pid state, the events, the worker's next position and whether a stale OnReceive started. *)
Fixpoint turn (p : nat) (fl op : bool) (mb : list msg) : pidst * list event * tpc * bool :=
  match mb with
  | [] => (mkPid fl op [] Idle, [], TDone, false)                         (* finishOrReclaim: nothing pending *)
  | Msg id :: rest => (mkPid fl op rest Processing, [ERecvBegin p id], WRecv p id, negb fl)
  | Pill :: rest =>
      if fl then (mkPid fl true rest Processing, [EDeactBegin p], WDeact p, false)
      else turn p fl true rest                                           (* inactive: the pill is acknowledged and dropped *)
  end.

Inductive label :=
| Send (m : msg)                 (* a goroutine calls localSend with message m *)
| Work (p : nat)                 (* a dispatcher worker pulls pid p off the ready queue and starts its turn *)
| Pass (p : nat)                 (* the passivation manager calls passivationTry on pid p *)
| Adv (t : nat) (ok : bool)      (* thread t returns from the hook it is in (ok=false: the hook fails) *).

(* the effects of deactivate after OnDeactivate returned *)
Definition after_deact (s : state) (p : nat) (ok : bool) : (nat -> pidst) * option nat :=
  let ps := pf s p in
  (set_pf (pf s) p (mkPid false false (mbox ps) (sch ps)), if ok then None else gmap s).

Definition step (s : state) (lb : label) : option state :=
  match lb with
  | Send m =>
      let fast := match gmap s with Some p => if flag (pf s p) then Some p else None | None => None end in
      match fast with
      | Some p => Some (mkS (pf s) (nxt s) (gmap s) (threads s ++ [SEnq m p]) (log s) (stale_recv s))
      | None =>
          if existsb in_flight (threads s) then None       (* would join the running flight *)
          else match gmap s with
               | Some p => Some (mkS (pf s) (nxt s) (gmap s) (threads s ++ [SAct m p]) (log s ++ [EActBegin p]) (stale_recv s))
               | None => let p := nxt s in
                         Some (mkS (set_pf (pf s) p pid0) (S p) (gmap s) (threads s ++ [SAct m p]) (log s ++ [EActBegin p]) (stale_recv s))
               end
      end
  | Work p =>
      let ps := pf s p in
      match sch ps with
      | Scheduled =>
          let '(ps', ev, t, st) := turn p (flag ps) (onpill ps) (mbox ps) in
          Some (mkS (set_pf (pf s) p ps') (nxt s) (gmap s) (threads s ++ [t]) (log s ++ ev) (stale_recv s || st))
      | _ => None
      end
  | Pass p =>
      let ps := pf s p in
      if flag ps && negb (onpill ps)
      then Some (mkS (pf s) (nxt s) (gmap s) (threads s ++ [PDeact p]) (log s ++ [EDeactBegin p]) (stale_recv s))
      else Some (mkS (pf s) (nxt s) (gmap s) (threads s ++ [TDone]) (log s) (stale_recv s))
  | Adv i ok =>
      match nth_error (threads s) i with
      | None | Some TDone => None
      | Some (SAct m p) =>
          let ps := pf s p in
          if ok then Some (mkS (set_pf (pf s) p (mkPid true (onpill ps) (mbox ps) (sch ps))) (nxt s) (Some p)
                               (set_nth i (SEnq m p) (threads s)) (log s ++ [EActEnd p true]) (stale_recv s))
          else Some (mkS (pf s) (nxt s) (gmap s) (set_nth i TDone (threads s)) (log s ++ [EActEnd p false]) (stale_recv s))
      | Some (SEnq m p) =>
          let ps := pf s p in
          if flag ps
          then Some (mkS (set_pf (pf s) p (mkPid (flag ps) (onpill ps) (mbox ps ++ [m])
                                                (match sch ps with Idle => Scheduled | x => x end)))
                         (nxt s) (gmap s) (set_nth i TDone (threads s)) (log s) (stale_recv s))
          else Some (mkS (pf s) (nxt s) (gmap s) (set_nth i TDone (threads s)) (log s) (stale_recv s))   (* dropped: the sender times out *)
      | Some (WRecv p m) =>
          let ps := pf s p in
          let '(ps', ev, t, st) := turn p (flag ps) (onpill ps) (mbox ps) in
          Some (mkS (set_pf (pf s) p ps') (nxt s) (gmap s) (set_nth i t (threads s)) (log s ++ ERecvEnd p m :: ev) (stale_recv s || st))
      | Some (WDeact p) =>
          let '(pf1, g1) := after_deact s p ok in
          let ps := pf1 p in
          let '(ps', ev, t, st) := turn p (flag ps) (onpill ps) (mbox ps) in
          Some (mkS (set_pf pf1 p ps') (nxt s) g1 (set_nth i t (threads s)) (log s ++ EDeactEnd p ok :: ev) (stale_recv s || st))
      | Some (PDeact p) =>
          let '(pf1, g1) := after_deact s p ok in
          Some (mkS pf1 (nxt s) g1 (set_nth i TDone (threads s)) (log s ++ [EDeactEnd p ok]) (stale_recv s))
      end
  end.

Fixpoint run (s : state) (ls : list label) : option state :=
  match ls with
  | [] => Some s
  | l :: t => match step s l with Some s' => run s' t | None => None end
  end.

(* ---- the property, as predicates on a reachable state *)

(* OnDeactivate of pid p is running while an OnReceive of the same pid is running *)
Definition overlap (s : state) : Prop :=
  exists p m, In (WRecv p m) (threads s) /\ (In (PDeact p) (threads s) \/ In (WDeact p) (threads s)).

(* two OnDeactivate calls of the same activation are running *)
Definition double_deact (s : state) : Prop :=
  exists i j p, i <> j /\
    (nth_error (threads s) i = Some (PDeact p) \/ nth_error (threads s) i = Some (WDeact p)) /\
    (nth_error (threads s) j = Some (PDeact p) \/ nth_error (threads s) j = Some (WDeact p)).

(* every OnReceive of a pid is preceded by a successful OnActivate of that pid *)
Fixpoint act_before_recv (seen : list nat) (l : list event) : bool :=
  match l with
  | [] => true
  | EActEnd p true :: t => act_before_recv (p :: seen) t
  | ERecvBegin p _ :: t => existsb (Nat.eqb p) seen && act_before_recv seen t
  | _ :: t => act_before_recv seen t
  end.

Definition lifecycle_ok (s : state) : Prop :=
  ~ overlap s /\ ~ double_deact s /\ stale_recv s = false /\ act_before_recv [] (log s) = true.

(* executable versions *)
Definition overlap_b (s : state) : bool :=
  existsb (fun t => match t with
                    | WRecv p _ => existsb (fun u => match u with PDeact q | WDeact q => Nat.eqb p q | _ => false end) (threads s)
                    | _ => false end) (threads s).
Definition deact_pids (s : state) : list nat :=
  flat_map (fun t => match t with PDeact p | WDeact p => [p] | _ => [] end) (threads s).
Fixpoint has_dup (l : list nat) : bool :=
  match l with [] => false | x :: t => existsb (Nat.eqb x) t || has_dup t end.
Definition double_b (s : state) : bool := has_dup (deact_pids s).

(* ---- the guard of C31_partial: no direct (off-turn) passivation *)
Definition on_turn_only (lb : label) : bool := match lb with Pass _ => false | _ => true end.

Fixpoint run_g (s : state) (ls : list label) : option state :=
  match ls with
  | [] => Some s
  | l :: t => if on_turn_only l then match step s l with Some s' => run_g s' t | None => None end else None
  end.

Definition on_turn_all (ls : list label) : bool := forallb on_turn_only ls.
Definition count_fail_free (s : state) : nat :=
  length (filter (fun e => match e with EActEnd _ false | EDeactEnd _ false => true | _ => false end) (log s)).

(* ================================================================== conformance interface *)
Definition code_t (t : tpc) : list nat :=
  match t with
  | SAct _ p => [1; p] | SEnq _ p => [2; p] | WRecv p m => [3; p; m] | WDeact p => [4; p] | PDeact p => [5; p] | TDone => [0]
  end.
Definition code_ev (e : event) : list nat :=
  match e with
  | EActBegin p => [1; p] | EActEnd p ok => [2; p; if ok then 1 else 0]
  | ERecvBegin p m => [3; p; m] | ERecvEnd p m => [4; p; m]
  | EDeactBegin p => [5; p] | EDeactEnd p ok => [6; p; if ok then 1 else 0]
  end.
Definition code_m (m : msg) : nat := match m with Msg id => S id | Pill => 0 end.
Definition code_s (x : sched) : nat := match x with Idle => 0 | Scheduled => 1 | Processing => 2 end.

(* [gmap+1; npids; per pid: flag onpill sched mboxlen; nthreads; per thread code; nevents-so-far; the events of the last step] *)
Definition observe (prev : nat) (s : state) : list nat :=
  (match gmap s with None => 0 | Some p => S p end) :: nxt s ::
  flat_map (fun p => let ps := pf s p in
                     [if flag ps then 1 else 0; if onpill ps then 1 else 0; code_s (sch ps); length (mbox ps)])
           (seq 0 (nxt s))
  ++ length (threads s) :: flat_map code_t (threads s)
  ++ length (log s) :: flat_map code_ev (skipn prev (log s)).

Fixpoint list_eqb (a b : list nat) : bool :=
  match a, b with
  | [], [] => true
  | x :: a', y :: b' => Nat.eqb x y && list_eqb a' b'
  | _, _ => false
  end.

(* replay: (first disagreement, a Pass label was used, overlap seen, double deactivation seen, stale receive at the end, act-before-recv) *)
Fixpoint conform (s : state) (tr : list (label * list nat)) (i : nat) (ps ov db : bool)
  : option nat * bool * bool * bool * bool * bool :=
  match tr with
  | [] => (None, ps, ov, db, stale_recv s, act_before_recv [] (log s))
  | (lb, o) :: t =>
      let ps' := ps || negb (on_turn_only lb) in
      match step s lb with
      | None => (Some i, ps', ov, db, stale_recv s, act_before_recv [] (log s))
      | Some s' =>
          let ov' := ov || overlap_b s' in
          let db' := db || double_b s' in
          if list_eqb (observe (length (log s)) s') o then conform s' t (S i) ps' ov' db'
          else (Some i, ps', ov', db', stale_recv s', act_before_recv [] (log s'))
      end
  end.
