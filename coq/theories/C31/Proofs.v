(* C31 — proofs over C31/Model.v.
   Refutations (each replayed on the real grainPID machinery by the harness, the first two also on started actor
   systems with the real dispatcher and passivation manager):
     witness_overlap  passivationTry of a non-reentrant grain deactivates directly on the manager goroutine while the
                      worker is inside OnReceive: OnDeactivate runs concurrently with OnReceive
     witness_stale    PoisonPill handled on the turn; a concurrent sender passes the `activated` gate while OnDeactivate
                      runs (the flag is cleared only when deactivate returns) and enqueues; the same turn then hands the
                      message to OnReceive of the DEACTIVATED instance: OnDeactivate is not after the last OnReceive
     witness_double   passivationTry passes its gate and enters OnDeactivate; the pill handler on the turn still sees
                      the grain active and enters OnDeactivate as well: twice for one activation
   Theorems (all executions, any number of senders/messages/turns, hooks failing anywhere):
     act_before_recv_always   every OnReceive of a pid is preceded by a successful OnActivate of that pid
     onturn_safe              without direct (off-turn) passivation: OnDeactivate never overlaps OnReceive and never
                              runs twice at once; at most one worker is ever inside a pid's turn
     fresh_after_deactivation a send that starts after a completed deactivation starts the activation of a pid that
                              never ran before *)
From Coq Require Import List Arith Bool Lia.
From GV Require Import C31.Model.
Import ListNotations.

(* ================================================================== refutations *)

Definition witness_overlap : list label :=
  [ Send (Msg 0); Adv 0 true; Adv 0 true;   (* activate pid 0, enqueue message 0 *)
    Work 0;                                 (* the worker enters OnReceive(0) and stays there *)
    Pass 0 ].                               (* passivationTry: gate passes, OnDeactivate entered on the manager goroutine *)

Definition witness_stale : list label :=
  [ Send (Msg 0); Adv 0 true; Adv 0 true; Work 0; Adv 1 true;     (* message 0 handled, turn over *)
    Send Pill; Adv 2 true; Work 0;          (* the pill is taken on the turn: OnDeactivate entered *)
    Send (Msg 1);                           (* fast path: the pid is still `activated` *)
    Adv 4 true;                             (* receive: gate passes, message 1 enqueued on the deactivating pid *)
    Adv 3 true ].                           (* OnDeactivate returns, deactivate completes, the turn goes on: OnReceive(1) *)

Definition witness_double : list label :=
  [ Send (Msg 0); Adv 0 true; Adv 0 true; Work 0; Adv 1 true;
    Pass 0;                                 (* gate passes (active, no pill seen yet): OnDeactivate entered off-turn *)
    Send Pill; Adv 3 true; Work 0 ].        (* the pill handler sees activated=true: OnDeactivate entered on-turn *)

Lemma witness_overlap_eval :
  match run state0 witness_overlap with Some s => (threads s, overlap_b s, count_fail_free s) | None => ([], false, 0) end
  = ([TDone; WRecv 0 0; PDeact 0], true, 0).
Proof. vm_compute. reflexivity. Qed.

Lemma witness_stale_eval :
  match run state0 witness_stale with Some s => (threads s, stale_recv s, log s) | None => ([], false, []) end
  = ([TDone; TDone; TDone; WRecv 0 1; TDone], true,
     [EActBegin 0; EActEnd 0 true; ERecvBegin 0 0; ERecvEnd 0 0; EDeactBegin 0; EDeactEnd 0 true; ERecvBegin 0 1]).
Proof. vm_compute. reflexivity. Qed.

Lemma witness_double_eval :
  match run state0 witness_double with Some s => (threads s, double_b s) | None => ([], false) end
  = ([TDone; TDone; PDeact 0; TDone; WDeact 0], true).
Proof. vm_compute. reflexivity. Qed.

Theorem refuted_overlap : exists ls s, run state0 ls = Some s /\ overlap s.
Proof.
  exists witness_overlap.
  destruct (run state0 witness_overlap) as [s|] eqn:E; [|vm_compute in E; discriminate].
  exists s. split; auto. generalize witness_overlap_eval. rewrite E. intros X. injection X as T O C.
  exists 0, 0. rewrite T. simpl. split; auto.
Qed.

Theorem refuted_stale : exists ls s, run state0 ls = Some s /\ stale_recv s = true /\ on_turn_all ls = true.
Proof.
  exists witness_stale.
  destruct (run state0 witness_stale) as [s|] eqn:E; [|vm_compute in E; discriminate].
  exists s. split; auto. generalize witness_stale_eval. rewrite E. intros X. injection X as T S L.
  split; auto.
Qed.

Theorem refuted_double : exists ls s, run state0 ls = Some s /\ double_deact s.
Proof.
  exists witness_double.
  destruct (run state0 witness_double) as [s|] eqn:E; [|vm_compute in E; discriminate].
  exists s. split; auto. generalize witness_double_eval. rewrite E. intros X. injection X as T D.
  exists 2, 4, 0. rewrite T. simpl. split; [discriminate|auto].
Qed.

(* ================================================================== OnActivate before the first OnReceive *)

Definition ever (l : list event) (p : nat) : Prop := In (EActEnd p true) l.

Lemma abr_mono : forall l seen seen', (forall p, existsb (Nat.eqb p) seen = true -> existsb (Nat.eqb p) seen' = true) ->
  act_before_recv seen l = true -> act_before_recv seen' l = true.
Proof.
  induction l as [|e t IH]; simpl; intros seen seen' M H; auto.
  destruct e; try (eapply IH; eauto; fail).
  - destruct ok; [|eapply IH; eauto]. eapply IH; [|exact H]. intros q. simpl.
    intros X. apply orb_true_iff in X. apply orb_true_iff. destruct X; auto.
  - apply andb_true_iff in H. destruct H as (A & B). apply andb_true_iff. split; eauto.
Qed.

Lemma abr_snoc : forall l seen e,
  act_before_recv seen l = true ->
  (forall p m, e = ERecvBegin p m -> existsb (Nat.eqb p) seen = true \/ ever l p) ->
  act_before_recv seen (l ++ [e]) = true.
Proof.
  induction l as [|a t IH]; simpl; intros seen e H C.
  - destruct e; auto. destruct ok; auto. destruct (C p m eq_refl) as [X|X]; [rewrite X; auto|destruct X].
  - destruct a; try (apply IH; auto; intros p0 m0 E; destruct (C p0 m0 E) as [X|[X|X]]; auto; discriminate).
    + destruct ok.
      * apply IH; auto. intros p0 m0 E. destruct (C p0 m0 E) as [X|[X|X]]; auto.
        -- left. simpl. rewrite X. apply orb_true_r.
        -- inversion X; subst. left. simpl. rewrite Nat.eqb_refl. auto.
      * apply IH; auto. intros p0 m0 E. destruct (C p0 m0 E) as [X|[X|X]]; auto. discriminate.
    + apply andb_true_iff in H. destruct H as (A & B). apply andb_true_iff. split; auto.
      apply IH; auto. intros p0 m0 E. destruct (C p0 m0 E) as [X|[X|X]]; auto. discriminate.
Qed.

Record Inv1 (s : state) : Prop := mkInv1 {
  J1 : act_before_recv [] (log s) = true;
  J2 : forall p, (mbox (pf s p) <> [] \/ flag (pf s p) = true) -> ever (log s) p
}.

Lemma ever_app : forall l l' p, ever l p -> ever (l ++ l') p.
Proof. unfold ever; intros; apply in_or_app; auto. Qed.

(* what `turn` may emit: at most one event, and an ERecvBegin only for a message that was in the mailbox *)
Lemma turn_spec : forall p mb fl op ps ev t st,
  turn p fl op mb = (ps, ev, t, st) ->
  flag ps = fl /\ (mbox ps <> [] -> mb <> []) /\
  (ev = [] \/ (exists m, ev = [ERecvBegin p m] /\ mb <> []) \/ (ev = [EDeactBegin p] /\ fl = true)).
Proof.
  induction mb as [|m rest IH]; simpl; intros fl op ps ev t st H.
  - inversion H; subst; simpl. split; auto.
  - destruct m.
    + inversion H; subst; simpl. split; auto. split; [intros _; discriminate|]. right; left. exists id. split; auto. discriminate.
    + destruct fl.
      * inversion H; subst; simpl. split; auto. split; [intros _; discriminate|]. right; right; auto.
      * destruct (IH _ _ _ _ _ _ H) as (A & B & C). split; auto. split; [intros _; discriminate|].
        destruct C as [C|[(m & C & D)|(C & D)]]; auto. right; left. exists m. split; auto. discriminate.
Qed.

Lemma inv1_0 : Inv1 state0.
Proof. constructor; simpl; auto. intros p [H|H]; [contradiction H; auto|discriminate]. Qed.

Lemma abr_snoc2 : forall l e1 ev p,
  act_before_recv [] l = true ->
  (forall q m, e1 <> ERecvBegin q m) ->
  (ev = [] \/ (exists m, ev = [ERecvBegin p m] /\ ever l p) \/ ev = [EDeactBegin p]) ->
  act_before_recv [] (l ++ e1 :: ev) = true.
Proof.
  intros l e1 ev p H N C.
  assert (A : act_before_recv [] (l ++ [e1]) = true).
  { apply abr_snoc; auto. intros q m E. exfalso; eapply N; eauto. }
  destruct C as [C|[(m & C & E)|C]]; subst ev.
  - exact A.
  - change (l ++ [e1; ERecvBegin p m]) with (l ++ [e1] ++ [ERecvBegin p m]). rewrite app_assoc.
    apply abr_snoc; auto. intros q m' X. inversion X; subst. right. apply ever_app; auto.
  - change (l ++ [e1; EDeactBegin p]) with (l ++ [e1] ++ [EDeactBegin p]). rewrite app_assoc.
    apply abr_snoc; auto. intros q m' X. discriminate.
Qed.

Lemma inv1_step : forall s lb s', Inv1 s -> step s lb = Some s' -> Inv1 s'.
Proof.
  intros s lb s' [j1 j2] S. destruct lb as [m|p|p|i ok]; simpl in S.
  - (* Send *)
    destruct (gmap s) as [g|] eqn:G.
    + destruct (flag (pf s g)) eqn:FG.
      * inversion S; subst; clear S. constructor; simpl; auto.
      * destruct (existsb in_flight (threads s)); [discriminate|]. inversion S; subst; clear S. constructor; simpl.
        -- apply abr_snoc; auto. intros q m' X; discriminate.
        -- intros q H. apply ever_app. auto.
    + destruct (existsb in_flight (threads s)); [discriminate|]. inversion S; subst; clear S. constructor; simpl.
      * apply abr_snoc; auto. intros q m' X; discriminate.
      * intros q H. apply ever_app. apply j2. unfold set_pf in H. destruct (Nat.eqb q (nxt s)); auto.
        simpl in H. destruct H as [H|H]; [contradiction H; auto|discriminate].
  - (* Work *)
    destruct (sch (pf s p)) eqn:SC; try discriminate.
    destruct (turn p (flag (pf s p)) (onpill (pf s p)) (mbox (pf s p))) as [[[ps' ev] t] st] eqn:T.
    inversion S; subst; clear S. destruct (turn_spec _ _ _ _ _ _ _ _ T) as (A & B & C).
    constructor; simpl.
    + destruct C as [C|[(m & C & D)|(C & D)]]; subst ev.
      * rewrite app_nil_r; auto.
      * apply abr_snoc; auto. intros q m' X. inversion X; subst. right. apply j2. auto.
      * apply abr_snoc; auto. intros q m' X. discriminate.
    + intros q H. apply ever_app. apply j2. unfold set_pf in H. destruct (Nat.eqb_spec q p) as [Eq|Nq]; [subst q|]; auto.
      destruct H as [H|H]; [left; auto|right; congruence].
  - (* Pass *)
    destruct (flag (pf s p) && negb (onpill (pf s p))); inversion S; subst; clear S; constructor; simpl; auto.
    + apply abr_snoc; auto. intros q m' X; discriminate.
    + intros q H. apply ever_app; auto.
  - (* Adv *)
    destruct (nth_error (threads s) i) as [t|]; [|discriminate].
    destruct t as [m p|m p|p m|p|p|]; try discriminate.
    + (* SAct *)
      destruct ok; inversion S; subst; clear S; constructor; simpl.
      * apply abr_snoc; auto. intros q m' X; discriminate.
      * intros q H. unfold set_pf in H. destruct (Nat.eqb_spec q p) as [Eq|Nq]; [subst q|].
        -- apply in_or_app. right. simpl. auto.
        -- apply ever_app; auto.
      * apply abr_snoc; auto. intros q m' X; discriminate.
      * intros q H. apply ever_app; auto.
    + (* SEnq *)
      destruct (flag (pf s p)) eqn:FP; inversion S; subst; clear S; constructor; simpl; auto.
      intros q H. unfold set_pf in H. destruct (Nat.eqb_spec q p) as [Eq|Nq]; [subst q|]; auto.
    + (* WRecv *)
      destruct (turn p (flag (pf s p)) (onpill (pf s p)) (mbox (pf s p))) as [[[ps' ev] t] st] eqn:T.
      inversion S; subst; clear S. destruct (turn_spec _ _ _ _ _ _ _ _ T) as (A & B & C).
      constructor; simpl.
      * apply abr_snoc2 with (p := p); auto; [intros q m' X; discriminate|].
        destruct C as [C|[(m' & C & D)|(C & D)]]; [left; auto| right; left; exists m'; split; auto; apply j2; left; auto | right; right; auto].
      * intros q H. apply ever_app. apply j2. unfold set_pf in H. destruct (Nat.eqb_spec q p) as [Eq|Nq]; [subst q|]; auto.
        destruct H as [H|H]; [left; auto|right; congruence].
    + (* WDeact *)
      unfold after_deact in S.
      set (pf1 := set_pf (pf s) p (mkPid false false (mbox (pf s p)) (sch (pf s p)))) in *.
      assert (P1 : pf1 p = mkPid false false (mbox (pf s p)) (sch (pf s p))) by (unfold pf1, set_pf; rewrite Nat.eqb_refl; auto).
      rewrite P1 in S. simpl in S.
      destruct (turn p false false (mbox (pf s p))) as [[[ps' ev] t] st] eqn:T.
      inversion S; subst; clear S. destruct (turn_spec _ _ _ _ _ _ _ _ T) as (A & B & C).
      constructor; simpl.
      * apply abr_snoc2 with (p := p); auto; [intros q m' X; discriminate|].
        destruct C as [C|[(m' & C & D)|(C & D)]]; [left; auto| right; left; exists m'; split; auto; apply j2; left; auto | discriminate D].
      * intros q H. apply ever_app. apply j2. unfold set_pf in H. destruct (Nat.eqb_spec q p) as [Eq|Nq]; [subst q|].
        -- destruct H as [H|H]; [left; auto|congruence].
        -- unfold pf1, set_pf in H. destruct (Nat.eqb_spec q p); [contradiction|auto].
    + (* PDeact *)
      unfold after_deact in S. inversion S; subst; clear S. constructor; simpl.
      * apply abr_snoc; auto. intros q m' X; discriminate.
      * intros q H. apply ever_app. apply j2. unfold set_pf in H. destruct (Nat.eqb_spec q p) as [Eq|Nq]; [subst q|]; auto.
        simpl in H. destruct H as [H|H]; [left; auto|discriminate].
Qed.

Theorem act_before_recv_always : forall ls s, run state0 ls = Some s -> act_before_recv [] (log s) = true.
Proof.
  assert (G : forall ls s s', Inv1 s -> run s ls = Some s' -> Inv1 s').
  { induction ls as [|l t IH]; simpl; intros s s' I R; [inversion R; subst; auto|].
    destruct (step s l) as [s1|] eqn:S; [|discriminate]. eapply IH; [|exact R]. eapply inv1_step; eauto. }
  intros ls s R. apply (J1 _ (G _ _ _ inv1_0 R)).
Qed.

(* ================================================================== on-turn deactivation only *)

Definition wk (t : tpc) : option nat := match t with WRecv p _ | WDeact p => Some p | _ => None end.
Definition tpid (t : tpc) : option nat :=
  match t with SAct _ p | SEnq _ p | WRecv p _ | WDeact p | PDeact p => Some p | TDone => None end.

Record Inv2 (s : state) : Prop := mkInv2 {
  K1 : forall i p, nth_error (threads s) i <> Some (PDeact p);
  K2 : forall i j ti tj p, nth_error (threads s) i = Some ti -> nth_error (threads s) j = Some tj ->
         wk ti = Some p -> wk tj = Some p -> i = j;
  K3 : forall i t p, nth_error (threads s) i = Some t -> wk t = Some p -> sch (pf s p) = Processing;
  K4 : forall p, nxt s <= p -> pf s p = pid0;
  K5 : forall i t p, nth_error (threads s) i = Some t -> tpid t = Some p -> p < nxt s;
  K6 : forall g, gmap s = Some g -> g < nxt s
}.

Lemma inv2_0 : Inv2 state0.
Proof. constructor; simpl; intros; auto; try discriminate; destruct i; discriminate. Qed.

Lemma nth_error_set_nth_same : forall A (l : list A) i x y, nth_error l i = Some y -> nth_error (set_nth i x l) i = Some x.
Proof. induction l; destruct i; simpl; intros; try discriminate; auto. eapply IHl; eauto. Qed.
Lemma nth_error_set_nth_other : forall A (l : list A) i j x, i <> j -> nth_error (set_nth i x l) j = nth_error l j.
Proof. induction l; destruct i; destruct j; simpl; intros; auto; try congruence. Qed.

Lemma nth_error_snoc : forall A (l : list A) x i y, nth_error (l ++ [x]) i = Some y ->
  (i < length l /\ nth_error l i = Some y) \/ (i = length l /\ y = x).
Proof.
  intros A l x i y H. destruct (lt_dec i (length l)) as [L|L].
  - left. split; auto. rewrite nth_error_app1 in H; auto.
  - right. rewrite nth_error_app2 in H by lia. destruct (i - length l) as [|k] eqn:E; simpl in H.
    + inversion H; subst. split; auto. lia.
    + destruct k; discriminate.
Qed.

Lemma turn_wk : forall p mb fl op ps ev t st, turn p fl op mb = (ps, ev, t, st) ->
  (t = TDone /\ sch ps = Idle) \/ (wk t = Some p /\ tpid t = Some p /\ sch ps = Processing).
Proof.
  induction mb as [|m rest IH]; simpl; intros fl op ps ev t st H.
  - inversion H; subst; simpl; auto.
  - destruct m.
    + inversion H; subst; simpl; auto.
    + destruct fl; [inversion H; subst; simpl; auto|eapply IH; eauto].
Qed.

(* appending a thread that is not a worker and leaving every pid's turn state alone *)
Lemma inv2_add_plain : forall s t pf' nxt' g' l' st',
  Inv2 s -> wk t = None -> (forall p, t <> PDeact p) ->
  (forall p, tpid t = Some p -> p < nxt') -> nxt s <= nxt' ->
  (forall p, p < nxt s -> pf' p = pf s p) -> (forall p, nxt' <= p -> pf' p = pid0) ->
  (forall g, g' = Some g -> g < nxt') ->
  Inv2 (mkS pf' nxt' g' (threads s ++ [t]) l' st').
Proof.
  intros s t pf' nxt' g' l' st' [k1 k2 k3 k4 k5 k6] W NP TP LE SAME FR GL. constructor; simpl.
  - intros i p H. apply nth_error_snoc in H. destruct H as [(_ & H)|(_ & H)]; [eapply k1; eauto|eapply NP; eauto].
  - intros i j ti tj p Hi Hj Wi Wj. apply nth_error_snoc in Hi. apply nth_error_snoc in Hj.
    destruct Hi as [(_ & Hi)|(_ & Hi)]; [|subst; congruence]. destruct Hj as [(_ & Hj)|(_ & Hj)]; [|subst; congruence]. eauto.
  - intros i t0 p H Wt. apply nth_error_snoc in H. destruct H as [(_ & H)|(_ & H)]; [|subst; congruence].
    rewrite SAME; [eapply k3; eauto|]. eapply k5; eauto. destruct t0; simpl in *; try discriminate; auto.
  - auto.
  - intros i t0 p H T. apply nth_error_snoc in H. destruct H as [(_ & H)|(_ & H)].
    + assert (p < nxt s) by eauto. lia.
    + subst. auto.
  - auto.
Qed.

(* thread i (a worker on p, or a fresh worker appended at the end) continues with the outcome of `turn` *)
Lemma inv2_turn_at : forall s i p told ps' t g' l' st' pfb,
  Inv2 s -> nth_error (threads s) i = Some told -> wk told = Some p ->
  (forall q, q <> p -> pfb q = pf s q) ->
  ((t = TDone /\ sch ps' = Idle) \/ (wk t = Some p /\ tpid t = Some p /\ sch ps' = Processing)) ->
  (forall g, g' = Some g -> g < nxt s) ->
  Inv2 (mkS (set_pf pfb p ps') (nxt s) g' (set_nth i t (threads s)) l' st').
Proof.
  intros s i p told ps' t g' l' st' pfb [k1 k2 k3 k4 k5 k6] N W SAME TW GL.
  assert (PL : p < nxt s) by (eapply k5; eauto; destruct told; simpl in *; try discriminate; auto).
  constructor; simpl.
  - intros j q H. destruct (Nat.eq_dec j i) as [->|Hne].
    + rewrite (nth_error_set_nth_same _ _ _ _ _ N) in H. inversion H; subst.
      destruct TW as [(A & _)|(A & _)]; [discriminate|simpl in A; discriminate].
    + rewrite nth_error_set_nth_other in H by auto. eapply k1; eauto.
  - intros a b ta tb q Ha Hb Wa Wb.
    destruct (Nat.eq_dec a i) as [->|Na]; destruct (Nat.eq_dec b i) as [->|Nb]; auto.
    + rewrite (nth_error_set_nth_same _ _ _ _ _ N) in Ha. inversion Ha; subst.
      rewrite nth_error_set_nth_other in Hb by auto.
      destruct TW as [(A & _)|(A & _)]; [subst; discriminate|]. assert (q = p) by congruence. subst.
      symmetry. eapply k2; eauto.
    + rewrite (nth_error_set_nth_same _ _ _ _ _ N) in Hb. inversion Hb; subst.
      rewrite nth_error_set_nth_other in Ha by auto.
      destruct TW as [(A & _)|(A & _)]; [subst; discriminate|]. assert (q = p) by congruence. subst.
      eapply k2; eauto.
    + rewrite nth_error_set_nth_other in Ha, Hb by auto. eauto.
  - intros j t0 q H Wq. unfold set_pf. destruct (Nat.eq_dec j i) as [->|Hne].
    + rewrite (nth_error_set_nth_same _ _ _ _ _ N) in H. inversion H; subst.
      destruct TW as [(A & _)|(A & _ & B)]; [subst; discriminate|]. assert (q = p) by congruence. subst.
      rewrite Nat.eqb_refl. auto.
    + rewrite nth_error_set_nth_other in H by auto. destruct (Nat.eqb_spec q p) as [->|Nq].
      * exfalso. apply Hne. eapply k2; eauto.
      * rewrite SAME by auto. eapply k3; eauto.
  - intros q H. unfold set_pf. destruct (Nat.eqb_spec q p) as [->|Nq]; [lia|]. rewrite SAME by auto. auto.
  - intros j t0 q H T. destruct (Nat.eq_dec j i) as [->|Hne].
    + rewrite (nth_error_set_nth_same _ _ _ _ _ N) in H. inversion H; subst.
      destruct TW as [(A & _)|(_ & A & _)]; [subst; discriminate|]. congruence.
    + rewrite nth_error_set_nth_other in H by auto. eauto.
  - auto.
Qed.

(* thread i becomes a non-worker thread t; pid states change only in ways that keep Processing *)
Lemma inv2_set_plain : forall s i told t pf' g' l' st',
  Inv2 s -> nth_error (threads s) i = Some told -> wk t = None -> (forall p, t <> PDeact p) ->
  (forall p, tpid t = Some p -> p < nxt s) ->
  (forall p, sch (pf s p) = Processing -> sch (pf' p) = Processing) ->
  (forall p, nxt s <= p -> pf' p = pid0) ->
  wk told = None ->
  (forall g, g' = Some g -> g < nxt s) ->
  Inv2 (mkS pf' (nxt s) g' (set_nth i t (threads s)) l' st').
Proof.
  intros s i told t pf' g' l' st' [k1 k2 k3 k4 k5 k6] N W NP TP KEEP FR WO GL. constructor; simpl.
  - intros j q H. destruct (Nat.eq_dec j i) as [->|Hne].
    + rewrite (nth_error_set_nth_same _ _ _ _ _ N) in H. inversion H; subst. eapply NP; eauto.
    + rewrite nth_error_set_nth_other in H by auto. eapply k1; eauto.
  - intros a b ta tb q Ha Hb Wa Wb.
    destruct (Nat.eq_dec a i) as [->|Na]; [rewrite (nth_error_set_nth_same _ _ _ _ _ N) in Ha; inversion Ha; subst; congruence|].
    destruct (Nat.eq_dec b i) as [->|Nb]; [rewrite (nth_error_set_nth_same _ _ _ _ _ N) in Hb; inversion Hb; subst; congruence|].
    rewrite nth_error_set_nth_other in Ha, Hb by auto. eauto.
  - intros j t0 q H Wq. destruct (Nat.eq_dec j i) as [->|Hne].
    + rewrite (nth_error_set_nth_same _ _ _ _ _ N) in H. inversion H; subst. congruence.
    + rewrite nth_error_set_nth_other in H by auto. apply KEEP. eapply k3; eauto.
  - auto.
  - intros j t0 q H T. destruct (Nat.eq_dec j i) as [->|Hne].
    + rewrite (nth_error_set_nth_same _ _ _ _ _ N) in H. inversion H; subst. auto.
    + rewrite nth_error_set_nth_other in H by auto. eauto.
  - auto.
Qed.

Lemma inv2_step : forall s lb s', Inv2 s -> on_turn_only lb = true -> step s lb = Some s' -> Inv2 s'.
Proof.
  intros s lb s' I G S. destruct lb as [m|p|p|i ok]; simpl in S, G; try discriminate.
  - (* Send *)
    destruct (gmap s) as [g|] eqn:GM.
    + assert (GL : g < nxt s) by (exact (K6 _ I _ GM)).
      destruct (flag (pf s g)) eqn:FG.
      * inversion S; subst; clear S.
        eapply inv2_add_plain; [exact I | reflexivity | intros; discriminate | | apply le_n | auto | apply (K4 _ I) | ].
        -- intros p E. inversion E; subst. auto.
        -- intros g0 E. inversion E; subst. auto.
      * destruct (existsb in_flight (threads s)); [discriminate|]. inversion S; subst; clear S.
        eapply inv2_add_plain; [exact I | reflexivity | intros; discriminate | | apply le_n | auto | apply (K4 _ I) | ].
        -- intros p E. inversion E; subst. auto.
        -- intros g0 E. inversion E; subst. auto.
    + destruct (existsb in_flight (threads s)); [discriminate|]. inversion S; subst; clear S.
      eapply inv2_add_plain; [exact I | reflexivity | intros; discriminate | | | | | ].
      * intros p E. inversion E; subst. lia.
      * lia.
      * intros p L. unfold set_pf. destruct (Nat.eqb_spec p (nxt s)); [lia|auto].
      * intros p L. unfold set_pf. destruct (Nat.eqb_spec p (nxt s)); auto. apply (K4 _ I). lia.
      * intros g0 E. discriminate.
  - (* Work *)
    destruct (sch (pf s p)) eqn:SC; try discriminate.
    destruct (turn p (flag (pf s p)) (onpill (pf s p)) (mbox (pf s p))) as [[[ps' ev] t] st] eqn:T.
    inversion S; subst; clear S. pose proof (turn_wk _ _ _ _ _ _ _ _ T) as TW.
    assert (PL : p < nxt s).
    { destruct (le_lt_dec (nxt s) p) as [L|L]; auto. rewrite (K4 _ I _ L) in SC. discriminate. }
    assert (NW : forall j tj, nth_error (threads s) j = Some tj -> wk tj <> Some p).
    { intros j tj H W. rewrite (K3 _ I _ _ _ H W) in SC. discriminate. }
    destruct I as [k1 k2 k3 k4 k5 k6]. constructor; simpl.
    + intros j q H. apply nth_error_snoc in H. destruct H as [(_ & H)|(_ & H)]; [eapply k1; eauto|].
      destruct TW as [(A & _)|(A & _)]; subst; [discriminate|simpl in A; discriminate].
    + intros a b ta tb q Ha Hb Wa Wb. apply nth_error_snoc in Ha. apply nth_error_snoc in Hb.
      destruct Ha as [(_ & Ha)|(Ea & Ha)]; destruct Hb as [(_ & Hb)|(Eb & Hb)]; try lia; eauto.
      * subst tb. destruct TW as [(A & _)|(A & _)]; [subst; discriminate|]. assert (q = p) by congruence. subst. exfalso; eapply NW; eauto.
      * subst ta. destruct TW as [(A & _)|(A & _)]; [subst; discriminate|]. assert (q = p) by congruence. subst. exfalso; eapply NW; eauto.
    + intros j t0 q H Wq. unfold set_pf. apply nth_error_snoc in H. destruct H as [(_ & H)|(_ & H)].
      * destruct (Nat.eqb_spec q p) as [->|Nq]; [exfalso; eapply NW; eauto|eauto].
      * subst t0. destruct TW as [(A & _)|(A & _ & B)]; [subst; discriminate|]. assert (q = p) by congruence. subst.
        rewrite Nat.eqb_refl. auto.
    + intros q L. unfold set_pf. destruct (Nat.eqb_spec q p); [lia|auto].
    + intros j t0 q H TP. apply nth_error_snoc in H. destruct H as [(_ & H)|(_ & H)]; eauto.
      subst t0. destruct TW as [(A & _)|(_ & A & _)]; [subst; discriminate|]. congruence.
    + auto.
  - (* Adv *)
    destruct (nth_error (threads s) i) as [t|] eqn:N; [|discriminate].
    destruct t as [m p|m p|p m|p|p|]; try discriminate.
    + (* SAct *)
      assert (PL : p < nxt s) by (eapply (K5 _ I); eauto; reflexivity).
      destruct ok; inversion S; subst; clear S.
      * eapply inv2_set_plain with (told := SAct m p); [exact I | exact N | reflexivity | intros; discriminate | | | | reflexivity | ].
        -- intros q E. inversion E; subst. auto.
        -- intros q H. unfold set_pf. destruct (Nat.eqb_spec q p) as [->|]; auto.
        -- intros q L. unfold set_pf. destruct (Nat.eqb_spec q p); [lia|apply (K4 _ I); auto].
        -- intros g0 E. inversion E; subst. auto.
      * eapply inv2_set_plain with (told := SAct m p); [exact I | exact N | reflexivity | intros; discriminate | | auto | apply (K4 _ I) | reflexivity | apply (K6 _ I)].
        intros q E. discriminate.
    + (* SEnq *)
      assert (PL : p < nxt s) by (eapply (K5 _ I); eauto; reflexivity).
      destruct (flag (pf s p)); inversion S; subst; clear S.
      * eapply inv2_set_plain with (told := SEnq m p); [exact I | exact N | reflexivity | intros; discriminate | | | | reflexivity | apply (K6 _ I)].
        -- intros q E. discriminate.
        -- intros q H. unfold set_pf. destruct (Nat.eqb_spec q p) as [->|]; auto. simpl. rewrite H. auto.
        -- intros q L. unfold set_pf. destruct (Nat.eqb_spec q p); [lia|apply (K4 _ I); auto].
      * eapply inv2_set_plain with (told := SEnq m p); [exact I | exact N | reflexivity | intros; discriminate | | auto | apply (K4 _ I) | reflexivity | apply (K6 _ I)].
        intros q E. discriminate.
    + (* WRecv *)
      destruct (turn p (flag (pf s p)) (onpill (pf s p)) (mbox (pf s p))) as [[[ps' ev] t] st] eqn:T.
      inversion S; subst; clear S.
      eapply inv2_turn_at with (told := WRecv p m) (pfb := pf s); [exact I | exact N | reflexivity | auto | eapply turn_wk; eauto | apply (K6 _ I)].
    + (* WDeact *)
      unfold after_deact in S.
      set (pf1 := set_pf (pf s) p (mkPid false false (mbox (pf s p)) (sch (pf s p)))) in *.
      destruct (turn p (flag (pf1 p)) (onpill (pf1 p)) (mbox (pf1 p))) as [[[ps' ev] t] st] eqn:T.
      inversion S; subst; clear S.
      eapply inv2_turn_at with (told := WDeact p) (pfb := pf1); [exact I | exact N | reflexivity | | eapply turn_wk; eauto | ].
      * intros q Nq. unfold pf1, set_pf. destruct (Nat.eqb_spec q p); [contradiction|auto].
      * intros g0 E. destruct ok; [discriminate|apply (K6 _ I); auto].
    + (* PDeact: impossible without Pass *)
      exfalso. eapply (K1 _ I); eauto.
Qed.

Lemma inv2_run_g : forall ls s s', Inv2 s -> run_g s ls = Some s' -> Inv2 s'.
Proof.
  induction ls as [|l t IH]; simpl; intros s s' I R; [inversion R; subst; auto|].
  destruct (on_turn_only l) eqn:G; [|discriminate]. destruct (step s l) as [s1|] eqn:S; [|discriminate].
  eapply IH; [|exact R]. eapply inv2_step; eauto.
Qed.

Lemma inv2_safe : forall s, Inv2 s -> ~ overlap s /\ ~ double_deact s.
Proof.
  intros s [k1 k2 k3 k4 k5 k6]. split.
  - intros (p & m & A & B). apply In_nth_error in A. destruct A as (i & A).
    destruct B as [B|B]; apply In_nth_error in B; destruct B as (j & B).
    + eapply k1; eauto.
    + assert (i = j) by (eapply k2; eauto; reflexivity). subst. congruence.
  - intros (i & j & p & Ne & [A|A] & [B|B]); try (eapply k1; eauto; fail).
    apply Ne. eapply k2; eauto; reflexivity.
Qed.

(* without direct passivation: OnDeactivate never overlaps OnReceive, never runs twice at once, and (act_before_recv_always)
   every OnReceive follows a successful OnActivate *)
Theorem onturn_safe : forall ls s, run_g state0 ls = Some s ->
  ~ overlap s /\ ~ double_deact s /\ act_before_recv [] (log s) = true.
Proof.
  intros ls s R. destruct (inv2_safe _ (inv2_run_g _ _ _ inv2_0 R)) as (A & B). split; auto. split; auto.
  apply (act_before_recv_always ls).
  clear A B. revert R. generalize state0. induction ls as [|l t IH]; simpl; intros s0 R; auto.
  destruct (on_turn_only l); [|discriminate]. destruct (step s0 l); [|discriminate]. auto.
Qed.

(* a send that starts once a deactivation has completed (the local entry is gone, no activation in flight) begins the
   activation of a pid that has never existed before *)
Theorem fresh_after_deactivation : forall s m,
  gmap s = None -> existsb in_flight (threads s) = false ->
  step s (Send m) = Some (mkS (set_pf (pf s) (nxt s) pid0) (S (nxt s)) None (threads s ++ [SAct m (nxt s)])
                              (log s ++ [EActBegin (nxt s)]) (stale_recv s)).
Proof. intros s m G F. simpl. rewrite G, F. reflexivity. Qed.

(* ... and a successful deactivation does remove the local entry *)
Theorem deactivation_clears_entry : forall s i p s',
  nth_error (threads s) i = Some (WDeact p) \/ nth_error (threads s) i = Some (PDeact p) ->
  step s (Adv i true) = Some s' -> gmap s' = None /\ flag (pf s' p) = false.
Proof.
  intros s i p s' [N|N] S; simpl in S; rewrite N in S; unfold after_deact in S.
  - set (pf1 := set_pf (pf s) p (mkPid false false (mbox (pf s p)) (sch (pf s p)))) in *.
    assert (P1 : pf1 p = mkPid false false (mbox (pf s p)) (sch (pf s p))) by (unfold pf1, set_pf; rewrite Nat.eqb_refl; auto).
    rewrite P1 in S. simpl in S.
    destruct (turn p false false (mbox (pf s p))) as [[[ps' ev] t] st] eqn:T. inversion S; subst; simpl. split; auto.
    unfold set_pf. rewrite Nat.eqb_refl. destruct (turn_spec _ _ _ _ _ _ _ _ T) as (A & _). auto.
  - inversion S; subst; simpl. split; auto. unfold set_pf. rewrite Nat.eqb_refl. auto.
Qed.

(* the guard is satisfiable: failing activation, re-send, handling, pill whose OnDeactivate fails, re-activation of the
   same pid, second message *)
Definition onturn_example : list label :=
  [ Send (Msg 0); Adv 0 false; Send (Msg 1); Adv 1 true; Adv 1 true; Work 1; Adv 2 true;
    Send Pill; Adv 3 true; Work 1; Adv 4 false; Send (Msg 2); Adv 5 true; Adv 5 true; Work 1; Adv 6 true ].

Example onturn_example_runs :
  match run_g state0 onturn_example with
  | Some s => (log s, gmap s, stale_recv s)
  | None => ([], None, true)
  end = ([EActBegin 0; EActEnd 0 false; EActBegin 1; EActEnd 1 true; ERecvBegin 1 1; ERecvEnd 1 1;
          EDeactBegin 1; EDeactEnd 1 false; EActBegin 1; EActEnd 1 true; ERecvBegin 1 2; ERecvEnd 1 2], Some 1, false).
Proof. vm_compute. reflexivity. Qed.
