(* C31 — proofs over C31/Model.v.
   Refutations (each replayed on the real grainPID machinery by the harness, the first two also on started actor
   systems with the real dispatcher and passivation manager):
     witness_overlap  passivationTry of a non-reentrant grain deactivates directly on the manager goroutine while the
                      worker is inside OnReceive: OnDeactivate runs concurrently with OnReceive
     witness_stale    PoisonPill handled on the turn; a concurrent sender passes the `activated` gate while OnDeactivate
                      runs (the flag is cleared only when deactivate returns) and enqueues; the same turn then hands the
                      message to OnReceive of the DEACTIVATED instance: OnDeactivate is not after the last OnReceive
     witness_double   passivationTry passes its gate and enters OnDeactivate; the pill handler on the turn still sees
                      the grain active and enters OnDeactivate as well: twice for one activation
   Theorems (all executions, any number of senders/messages/turns, hooks failing anywhere):
     act_before_recv_always   every OnReceive of a pid is preceded by a successful OnActivate of that pid
     onturn_safe              without direct (off-turn) passivation: OnDeactivate never overlaps OnReceive and never
                              runs twice at once; at most one worker is ever inside a pid's turn
     fresh_after_deactivation a send that starts after a completed deactivation starts the activation of a pid that
                              never ran before *)
From Coq Require Import List Arith Bool Lia.
From GV Require Import C31.Model.
Import ListNotations.

(* ================================================================== refutations *)

Definition witness_overlap : list label :=
  [ Send (Msg 0); Adv 0 true; Adv 0 true;   (* activate pid 0, enqueue message 0 *)
    Work 0;                                 (* the worker enters OnReceive(0) and stays there *)
    Pass 0 ].                               (* passivationTry: gate passes, OnDeactivate entered on the manager goroutine *)

Definition witness_stale : list label :=
  [ Send (Msg 0); Adv 0 true; Adv 0 true; Work 0; Adv 1 true;     (* message 0 handled, turn over *)
    Send Pill; Adv 2 true; Work 0;          (* the pill is taken on the turn: OnDeactivate entered *)
    Send (Msg 1);                           (* fast path: the pid is still `activated` *)
    Adv 4 true;                             (* receive: gate passes, message 1 enqueued on the deactivating pid *)
    Adv 3 true ].                           (* OnDeactivate returns, deactivate completes, the turn goes on: OnReceive(1) *)

Definition witness_double : list label :=
  [ Send (Msg 0); Adv 0 true; Adv 0 true; Work 0; Adv 1 true;
    Pass 0;                                 (* gate passes (active, no pill seen yet): OnDeactivate entered off-turn *)
    Send Pill; Adv 3 true; Work 0 ].        (* the pill handler sees activated=true: OnDeactivate entered on-turn *)

Lemma witness_overlap_eval :
  match run state0 witness_overlap with Some s => (threads s, overlap_b s, count_fail_free s) | None => ([], false, 0) end
  = ([TDone; WRecv 0 0; PDeact 0], true, 0).
Proof. vm_compute. reflexivity. Qed.

Lemma witness_stale_eval :
  match run state0 witness_stale with Some s => (threads s, stale_recv s, log s) | None => ([], false, []) end
  = ([TDone; TDone; TDone; WRecv 0 1; TDone], true,
     [EActBegin 0; EActEnd 0 true; ERecvBegin 0 0; ERecvEnd 0 0; EDeactBegin 0; EDeactEnd 0 true; ERecvBegin 0 1]).
Proof. vm_compute. reflexivity. Qed.

Lemma witness_double_eval :
  match run state0 witness_double with Some s => (threads s, double_b s) | None => ([], false) end
  = ([TDone; TDone; PDeact 0; TDone; WDeact 0], true).
Proof. vm_compute. reflexivity. Qed.

Theorem refuted_overlap : exists ls s, run state0 ls = Some s /\ overlap s.
Proof.
  exists witness_overlap.
  destruct (run state0 witness_overlap) as [s|] eqn:E; [|vm_compute in E; discriminate].
  exists s. split; auto. generalize witness_overlap_eval. rewrite E. intros X. injection X as T O C.
  exists 0, 0. rewrite T. simpl. split; auto.
Qed.

Theorem refuted_stale : exists ls s, run state0 ls = Some s /\ stale_recv s = true /\ on_turn_all ls = true.
Proof.
  exists witness_stale.
  destruct (run state0 witness_stale) as [s|] eqn:E; [|vm_compute in E; discriminate].
  exists s. split; auto. generalize witness_stale_eval. rewrite E. intros X. injection X as T S L.
  split; auto.
Qed.

Theorem refuted_double : exists ls s, run state0 ls = Some s /\ double_deact s.
Proof.
  exists witness_double.
  destruct (run state0 witness_double) as [s|] eqn:E; [|vm_compute in E; discriminate].
  exists s. split; auto. generalize witness_double_eval. rewrite E. intros X. injection X as T D.
  exists 2, 4, 0. rewrite T. simpl. split; [discriminate|auto].
Qed.
