(* C06 — the four clauses, their guards, and the refutation witnesses. *)
From Coq Require Import List Bool Arith Lia.
Import ListNotations.
From GV Require Import C06.Model C06.Proofs.

(* ---------------------------------------------------------------- guard invariants *)
(* under [reach_q]: an off-turn critical section and a re-initialisation never overlap a turn *)
Definition gq (s : st) : Prop :=
  (forall o c, cs s = Some (o, c) -> o <> OnTurn -> w s = WIdle) /\ (initing s = true -> w s = WIdle).

Lemma gq_init : gq init.
Proof. split; simpl; intros; discriminate. Qed.

Lemma gq_preserved fp s l s' : inv s -> gq s -> step_ok s l = true -> step fp s l = Some s' -> gq s'.
Proof.
  intros I [G1 G2] Ok H. pose proof (i_initing _ I) as I7. pose proof (i_locked_running _ I) as I1.
  pose proof (i_post_running _ I) as I10. pose proof (i_onturn _ I) as I5.
  destruct l; inv_step H; unfold gq; simpl in *; split; intros; subst;
    repeat match goal with H : Some (_, _) = Some (_, _) |- _ => first [discriminate H | injection H as ? ?; subst] end;
    try discriminate; try congruence; auto;
    try (destruct (cs s) as [[[] []]|] eqn:?; simpl in *; try discriminate);
    try (destruct (initing s) eqn:?; simpl in *; try discriminate);
    try (exfalso; match goal with H : ?a <> ?a |- _ => apply H; reflexivity end);
    try (match goal with H : forall o c, Some (?x, ?y) = Some (o, c) -> _ |- _ => pose proof (H x y eq_refl) end);
    try (match goal with H : forall c, Some (OnTurn, ?y) = Some (OnTurn, c) -> _ |- _ => pose proof (H y eq_refl) end);
    try (match goal with H : forall o, Some (?x, CLocked) = Some (o, CLocked) -> _ |- _ => pose proof (H x eq_refl) end);
    try (match goal with H : forall o, Some (?x, CPost) = Some (o, CPost) -> _ |- _ => pose proof (H x eq_refl) end);
    repeat match goal with
    | H : _ && _ = true |- _ => apply andb_true_iff in H; destruct H
    | H : negb _ = true |- _ => apply negb_true_iff in H
    end;
    try discriminate; try congruence; try (intuition congruence);
    try (destruct (w s) eqn:?; simpl in *; try discriminate; try congruence).

Qed.

Lemma reach_q_gq fp s : reach_q fp s -> gq s.
Proof.
  induction 1 as [|s l s' Hr IH Hp Hok Hs]; [apply gq_init|].
  eapply gq_preserved; eauto. apply (reach_p_inv fp), reach_q_p, Hr.
Qed.

(* under [reach_pill]: only the worker itself ever holds the stop critical section *)
Definition gp (s : st) : Prop := (forall o c, cs s = Some (o, c) -> o = OnTurn) /\ pass_wait s = false.

Lemma reach_pill_gp fp s : reach_pill fp s -> gp s.
Proof.
  induction 1 as [|s l s' Hr [G1 G2] Hp Hs]; [split; simpl; [discriminate|reflexivity]|].
  destruct l; try discriminate Hp; inv_step Hs; unfold gp; simpl; split; intros; subst;
    repeat match goal with H : Some (_, _) = Some (_, _) |- _ => first [discriminate H | injection H as ? ?; subst] end;
    try discriminate; try congruence; eauto.
Qed.

(* ---------------------------------------------------------------- which label emits what *)
Lemma list_neq_cons {A} (l : list A) x : l <> x :: l.
Proof. induction l as [|a l IH]; [discriminate|]. intros E. injection E as E1 E2. subst. auto. Qed.

Lemma emits_recvb_take fp s l s' : step fp s l = Some s' -> emits_recvb s s' ->
  l = LTake /\ w s = WTurn /\ beh s = true /\ exists m, mbox s = S m.
Proof.
  unfold emits_recvb. intros H E.
  destruct l; inv_step H; simpl in E;
    try (exfalso; eapply list_neq_cons; eassumption);
    try discriminate; eauto 6.
Qed.

Lemma emits_postb_begin fp s l s' : step fp s l = Some s' -> emits_postb s s' ->
  l = LPostBegin /\ exists o, cs s = Some (o, CLocked).
Proof.
  unfold emits_postb. intros H E.
  destruct l; inv_step H; simpl in E;
    try (exfalso; eapply list_neq_cons; eassumption);
    try discriminate; eauto.
Qed.

(* ---------------------------------------------------------------- the clauses *)

(* Clause 2, every stop path, every interleaving: PostStop never begins twice for one
   incarnation (with tryPassivation re-checking the running bit, or assuming the passivation
   manager never calls it on a stopped actor). *)
Theorem poststop_at_most_once fp s l s' : reach_p fp s -> step fp s l = Some s' ->
  emits_postb s s' -> ~ In (EPostB (inc s)) (trace s).
Proof.
  intros R H E. destruct (emits_postb_begin _ _ _ _ H E) as (-> & o & Hcs).
  pose proof (reach_p_inv _ _ R) as I. pose proof (reach_tinv _ _ (reach_p_reach _ _ R)) as T.
  intros Hin. apply (t_post _ T) in Hin.
  assert (running s = true) by (eapply i_locked_running; eauto).
  rewrite (i_running_fresh _ I) in Hin; [discriminate|assumption|].
  unfold in_post. now rewrite Hcs.
Qed.

(* Clause 1, first incarnation (spawn), every interleaving: the PID is not published before
   PreStart returns, so no Receive can start earlier. *)
Theorem prestart_first_spawn fp s l s' : reach_p fp s -> step fp s l = Some s' ->
  emits_recvb s s' -> inc s <= 1 -> In (EPre (inc s)) (trace s).
Proof.
  intros R H E Hi. destruct (emits_recvb_take _ _ _ _ H E) as (-> & Hw & Hb & m & Hm).
  pose proof (reach_p_inv _ _ R) as I. pose proof (reach_tinv _ _ (reach_p_reach _ _ R)) as T.
  apply (t_pre _ T). destruct (pre_done s) eqn:Ep; [reflexivity|].
  destruct (i_first _ I Ep Hi) as (H0 & _). congruence.
Qed.

(* Clause 1, every incarnation: a Receive never starts before PreStart of its incarnation BEGAN
   (no guard) ... *)
Theorem prestart_begun_before_receive fp s l s' : reach_p fp s -> step fp s l = Some s' ->
  emits_recvb s s' -> initing s = true \/ In (EPre (inc s)) (trace s).
Proof.
  intros R H E. destruct (emits_recvb_take _ _ _ _ H E) as (-> & Hw & Hb & m & Hm).
  pose proof (reach_p_inv _ _ R) as I. pose proof (reach_tinv _ _ (reach_p_reach _ _ R)) as T.
  destruct (i_beh _ I Hb) as [?|Hp]; [left; assumption|right; apply (t_pre _ T), Hp].
Qed.

(* ... and not before it COMPLETED when no turn begins during a re-initialisation *)
Theorem prestart_before_receive_q fp s l s' : reach_q fp s -> step fp s l = Some s' ->
  emits_recvb s s' -> In (EPre (inc s)) (trace s).
Proof.
  intros R H E. destruct (emits_recvb_take _ _ _ _ H E) as (Hl & Hw & Hb & m & Hm).
  destruct (prestart_begun_before_receive _ _ _ _ (reach_q_p _ _ R) H E) as [Hi|?]; [|assumption].
  destruct (reach_q_gq _ _ R) as [_ G2]. rewrite (G2 Hi) in Hw. discriminate.
Qed.

(* Clause 3 under the guard: no Receive starts after PostStop of the incarnation began *)
Theorem no_receive_after_poststop_q fp s l s' : reach_q fp s -> step fp s l = Some s' ->
  emits_recvb s s' -> ~ In (EPostB (inc s)) (trace s).
Proof.
  intros R H E. destruct (emits_recvb_take _ _ _ _ H E) as (Hl & Hw & Hb & m & Hm).
  pose proof (reach_p_inv _ _ (reach_q_p _ _ R)) as I.
  pose proof (reach_tinv _ _ (reach_p_reach _ _ (reach_q_p _ _ R))) as T.
  destruct (reach_q_gq _ _ R) as [G1 _].
  intros Hin. apply (t_post _ T) in Hin.
  destruct (i_post_begun _ I Hin) as [Hp|[_ Hb']]; [|congruence].
  unfold in_post in Hp. destruct (cs s) as [[o []]|] eqn:Hcs; try discriminate.
  destruct o.
  - rewrite (i_onturn _ I _ Hcs) in Hw. discriminate.
  - rewrite (G1 _ _ eq_refl) in Hw; [discriminate|discriminate].
  - rewrite (G1 _ _ eq_refl) in Hw; [discriminate|discriminate].
Qed.

(* Clause 4 under the guard: PostStop and Receive never run at the same time *)
Theorem no_overlap_q fp s : reach_q fp s -> in_recv s && in_post s = false.
Proof.
  intros R. pose proof (reach_p_inv _ _ (reach_q_p _ _ R)) as I. destruct (reach_q_gq _ _ R) as [G1 _].
  unfold in_recv, in_post. destruct (w s) eqn:Hw; try reflexivity.
  destruct (cs s) as [[o []]|] eqn:Hcs; try reflexivity. destruct o.
  - pose proof (i_onturn _ I _ Hcs). congruence.
  - assert (X : WRecv = WIdle) by (apply (G1 _ _ eq_refl); discriminate). discriminate.
  - assert (X : WRecv = WIdle) by (apply (G1 _ _ eq_refl); discriminate). discriminate.
Qed.

(* Clauses 3 and 4 with NO assumption when every stop is a PoisonPill (arbitrary traffic,
   re-spawns included) *)
Theorem no_receive_after_poststop_pill fp s l s' : reach_pill fp s -> step fp s l = Some s' ->
  emits_recvb s s' -> ~ In (EPostB (inc s)) (trace s).
Proof.
  intros R H E. destruct (emits_recvb_take _ _ _ _ H E) as (Hl & Hw & Hb & m & Hm).
  pose proof (reach_p_inv _ _ (reach_pill_p _ _ R)) as I.
  pose proof (reach_tinv _ _ (reach_p_reach _ _ (reach_pill_p _ _ R))) as T.
  destruct (reach_pill_gp _ _ R) as [G1 _].
  intros Hin. apply (t_post _ T) in Hin.
  destruct (i_post_begun _ I Hin) as [Hp|[_ Hb']]; [|congruence].
  unfold in_post in Hp. destruct (cs s) as [[o []]|] eqn:Hcs; try discriminate.
  pose proof (G1 _ _ eq_refl) as Ho. subst o. rewrite (i_onturn _ I _ Hcs) in Hw. discriminate.
Qed.

Theorem no_overlap_pill fp s : reach_pill fp s -> in_recv s && in_post s = false.
Proof.
  intros R. pose proof (reach_p_inv _ _ (reach_pill_p _ _ R)) as I. destruct (reach_pill_gp _ _ R) as [G1 _].
  unfold in_recv, in_post. destruct (w s) eqn:Hw; try reflexivity.
  destruct (cs s) as [[o []]|] eqn:Hcs; try reflexivity.
  pose proof (G1 _ _ eq_refl) as Ho. subst o. pose proof (i_onturn _ I _ Hcs). congruence.
Qed.

(* ---------------------------------------------------------------- witnesses *)
Lemma run_reach fp ls : forall s s', reach fp s -> run fp s ls = Some s' -> reach fp s'.
Proof.
  induction ls as [|l ls IH]; simpl; intros s s' Hr H; [now injection H as <-|].
  destruct (step fp s l) eqn:E; [|discriminate]. eapply IH; [|exact H]. econstructor; eauto.
Qed.

Definition start_and_one_message : list label :=
  [LInitBegin; LInitEnd; LTellCheck false; LTellEnq false; LTurnBegin; LTake].

(* WITNESS (clause 4, every off-turn path): Shutdown from another goroutine while the handler runs *)
Definition witness_overlap : list label := start_and_one_message ++ [LOffStop; LPostBegin].
Theorem overlap_refuted : forall fp, exists s, run fp init witness_overlap = Some s /\ reach fp s /\
  in_recv s = true /\ in_post s = true /\ cs s = Some (OffTurn, CPost).
Proof.
  intros fp. destruct (run fp init witness_overlap) as [s|] eqn:E; [|destruct fp; vm_compute in E; discriminate].
  exists s. split; [reflexivity|]. split; [eapply run_reach; [constructor|exact E]|].
  destruct fp; vm_compute in E; injection E as <-; repeat split; reflexivity.
Qed.

(* WITNESS (clause 4, passivation): the passivation manager while the handler runs *)
Definition witness_overlap_passivation : list label := start_and_one_message ++ [LPassCheck; LPassLock; LPostBegin].
Theorem overlap_passivation_refuted : forall fp, exists s, run fp init witness_overlap_passivation = Some s /\ reach fp s /\
  in_recv s = true /\ in_post s = true /\ cs s = Some (Passiv, CPost).
Proof.
  intros fp. destruct (run fp init witness_overlap_passivation) as [s|] eqn:E; [|destruct fp; vm_compute in E; discriminate].
  exists s. split; [reflexivity|]. split; [eapply run_reach; [constructor|exact E]|].
  destruct fp; vm_compute in E; injection E as <-; repeat split; reflexivity.
Qed.

(* WITNESS (clause 3): a Tell that passed its IsRunning check before the stop enqueues while
   PostStop runs; the worker starts its Receive after PostStop began *)
Definition witness_recv_after_post : list label :=
  [LInitBegin; LInitEnd; LTellCheck false; LOffStop; LPostBegin; LTellEnq false; LTurnBegin; LTake].
Theorem recv_after_poststop_refuted : forall fp, exists s, run fp init witness_recv_after_post = Some s /\ reach fp s /\
  trace s = [ERecvB 1; EPostB 1; EPre 1] /\ in_recv s = true /\ in_post s = true.
Proof.
  intros fp. destruct (run fp init witness_recv_after_post) as [s|] eqn:E; [|destruct fp; vm_compute in E; discriminate].
  exists s. split; [reflexivity|]. split; [eapply run_reach; [constructor|exact E]|].
  destruct fp; vm_compute in E; injection E as <-; repeat split; reflexivity.
Qed.

(* WITNESS (clause 1, restart): the same kind of in-flight Tell lands while the re-initialisation
   (second PreStart) is in progress *)
Definition witness_recv_during_prestart : list label :=
  [LInitBegin; LInitEnd; LTellCheck false; LOffStop; LPostBegin; LPostEnd; LInitBegin; LTellEnq false; LTurnBegin; LTake].
Theorem recv_during_restart_prestart_refuted : forall fp, exists s, run fp init witness_recv_during_prestart = Some s /\ reach fp s /\
  trace s = [ERecvB 2; EPostE 1; EPostB 1; EPre 1] /\ initing s = true /\ pre_done s = false.
Proof.
  intros fp. destruct (run fp init witness_recv_during_prestart) as [s|] eqn:E; [|destruct fp; vm_compute in E; discriminate].
  exists s. split; [reflexivity|]. split; [eapply run_reach; [constructor|exact E]|].
  destruct fp; vm_compute in E; injection E as <-; repeat split; reflexivity.
Qed.

(* WITNESS (clause 2, code as it is): the passivation manager picked the actor, Shutdown ran to
   completion, then tryPassivation obtains stopLocker and runs doStop again: two PostStops for one
   incarnation.  Not a run of the repaired tryPassivation. *)
Definition witness_double_poststop : list label :=
  [LInitBegin; LInitEnd; LPassCheck; LOffStop; LPostBegin; LPostEnd; LPassLock; LPostBegin].
Theorem double_poststop_refuted : exists s, run false init witness_double_poststop = Some s /\ reach false s /\
  trace s = [EPostB 1; EPostE 1; EPostB 1; EPre 1].
Proof.
  destruct (run false init witness_double_poststop) as [s|] eqn:E; [|vm_compute in E; discriminate].
  exists s. split; [reflexivity|]. split; [eapply run_reach; [constructor|exact E]|].
  vm_compute in E; injection E as <-; reflexivity.
Qed.
Example double_poststop_blocked_when_repaired : run true init witness_double_poststop = None.
Proof. vm_compute. reflexivity. Qed.

(* EXAMPLE: the guarded theorems are not vacuous — a quiet execution with traffic, a PoisonPill
   stop and a restart reaches a state in which a Receive is about to start *)
Fixpoint run_q (fp : bool) (s : st) (ls : list label) : option st :=
  match ls with
  | [] => Some s
  | l :: ls' => if pass_ok fp s l && step_ok s l
                then match step fp s l with Some s' => run_q fp s' ls' | None => None end else None
  end.
Lemma run_q_reach fp ls : forall s s', reach_q fp s -> run_q fp s ls = Some s' -> reach_q fp s'.
Proof.
  induction ls as [|l ls IH]; simpl; intros s s' Hr H; [now injection H as <-|].
  destruct (pass_ok fp s l && step_ok s l) eqn:Eo; [|discriminate]. apply andb_true_iff in Eo as [E1 E2].
  destruct (step fp s l) eqn:E; [|discriminate]. eapply IH; [|exact H]. econstructor; eauto.
Qed.
Definition example_quiet : list label :=
  start_and_one_message ++ [LRecvEnd; LTellCheck true; LTellEnq true; LTake; LPillLock; LPostBegin; LPostEnd; LTake;
   LInitBegin; LInitEnd; LTellCheck false; LTellEnq false; LTurnBegin].
Example example_quiet_reaches : exists s s', run_q false init example_quiet = Some s /\ reach_q false s /\
  step false s LTake = Some s' /\ emits_recvb s s' /\ inc s = 2.
Proof.
  destruct (run_q false init example_quiet) as [s|] eqn:E; [|vm_compute in E; discriminate].
  destruct (step false s LTake) as [s'|] eqn:E'.
  - exists s, s'. split; [reflexivity|]. split; [eapply run_q_reach; [constructor|exact E]|].
    vm_compute in E. injection E as <-. vm_compute in E'. injection E' as <-. repeat split; reflexivity.
  - vm_compute in E. injection E as <-. vm_compute in E'. discriminate.
Qed.

(* ---------------------------------------------------------------- the driver level stays inside the small-step system *)
Lemma quiesce_reach fp gr fuel : forall s, reach fp s -> reach fp (quiesce fp gr fuel s).
Proof.
  induction fuel as [|f IH]; intros s R; simpl; [assumption|].
  destruct (internal_label gr s) as [l|]; [|assumption].
  destruct (step fp s l) as [s'|] eqn:E; [|assumption]. apply IH. econstructor; eauto.
Qed.

Theorem drive_reach fp gr s d : reach fp s -> reach fp (fst (drive fp gr s d)).
Proof.
  intros R. unfold drive. destruct (drive1 fp s d) as [s'|] eqn:E; cbn [fst]; [|assumption].
  apply quiesce_reach. destruct d; cbn [drive1] in E;
    try (eapply run_reach; eauto; fail); try (econstructor; eauto; fail).
  destruct (step fp s LOffStop) eqn:E2; injection E as <-; [econstructor; eauto|assumption].
Qed.
