(* C06 — proofs over C06/Model.v: inductive invariants for every reachable state (any number of
   senders and stoppers, any interleaving), the four lifecycle clauses, refutation witnesses. *)
From Coq Require Import List Bool Arith Lia.
Import ListNotations.
From GV Require Import C06.Model.

Ltac inv_step H :=
  unfold step in H;
  repeat match type of H with
  | (if ?c then _ else _) = Some _ => let E := fresh "E" in destruct c eqn:E; try discriminate
  | match ?x with _ => _ end = Some _ => let E := fresh "E" in destruct x eqn:E; try discriminate
  end;
  try (injection H as <-).

(* ---------------------------------------------------------------- invariant *)
Record inv (s : st) : Prop := {
  i_locked_running : forall o, cs s = Some (o, CLocked) -> running s = true;
  i_post_begun : post_begun s = true -> in_post s = true \/ (running s = false /\ beh s = false);
  i_running_fresh : running s = true -> in_post s = false -> post_begun s = false;
  i_running : running s = true -> initing s = false /\ pre_done s = true /\ beh s = true;
  i_onturn : forall c, cs s = Some (OnTurn, c) -> w s = WPill;
  i_beh : beh s = true -> initing s = true \/ pre_done s = true;
  i_initing : initing s = true -> running s = false /\ pre_done s = false /\ post_begun s = false /\ beh s = true;
  i_first : pre_done s = false -> inc s <= 1 -> mbox s = 0 /\ pills s = 0 /\ inflight s = 0 /\ inflight_p s = 0;
  i_zero : inc s = 0 -> beh s = false /\ running s = false /\ initing s = false /\ pre_done s = false;
  i_post_running : forall o, cs s = Some (o, CPost) -> running s = true;
}.

Lemma inv_init : inv init.
Proof. split; simpl; intros; try discriminate; try tauto; try lia; auto. Qed.

Ltac use_inv :=
  repeat match goal with
  | H : forall o, ?c = Some (o, CLocked) -> _, E : ?c = Some (?o', CLocked) |- _ => pose proof (H o' E); clear H
  | H : forall o, ?c = Some (o, CPost) -> _, E : ?c = Some (?o', CPost) |- _ => pose proof (H o' E); clear H
  | H : forall c, ?x = Some (OnTurn, c) -> _, E : ?x = Some (OnTurn, ?c') |- _ => pose proof (H c' E); clear H
  end.

Ltac sat :=
  repeat match goal with
  | H : _ /\ _ |- _ => destruct H
  | H : forall x, Some (?o, ?c) = Some (?o, x) -> _ |- _ => specialize (H c eq_refl)
  | H : forall x, Some (?o, ?c) = Some (x, ?c) -> _ |- _ => specialize (H o eq_refl)
  | H : ?a = ?b -> _ |- _ => let X := fresh in assert (X : a = b) by (assumption || congruence || lia); specialize (H X); clear X
  | H : ?a <= ?b -> _ |- _ => let X := fresh in assert (X : a <= b) by lia; specialize (H X); clear X
  end.

Ltac cases :=
  repeat match goal with
  | H : context[match cs ?s with _ => _ end] |- _ => destruct (cs s) as [[[] []]|] eqn:?; simpl in *; try discriminate
  | |- context[match cs ?s with _ => _ end] => destruct (cs s) as [[[] []]|] eqn:?; simpl in *; try discriminate
  | H : context[match w ?s with _ => _ end] |- _ => destruct (w s) eqn:?; simpl in *; try discriminate
  end.

Ltac fin :=
  unfold in_post, is_running in *; simpl in *;
  repeat match goal with
  | H : _ && _ = true |- _ => apply andb_true_iff in H; destruct H
  | H : negb _ = true |- _ => apply negb_true_iff in H
  | H : _ || _ = true |- _ => apply orb_true_iff in H
  end;
  try discriminate; try congruence;
  cases; use_inv;
  repeat match goal with H : Some (_, _) = Some (_, _) |- _ => first [discriminate H | injection H as ? ?; subst] end;
  sat;
  try discriminate; try congruence;
  try (intuition (try discriminate; try congruence; try lia));
  try (match goal with s : st |- _ => destruct (running s) eqn:? end; try (match goal with fp : bool |- _ => destruct fp end);
       simpl in *; sat; try discriminate; try congruence; intuition (try discriminate; try congruence; try lia)).

Lemma inv_preserved fp s l s' : inv s -> pass_ok fp s l = true -> step fp s l = Some s' -> inv s'.
Proof.
  intros [I1 I2 I3 I4 I5 I6 I7 I8 I9 I10] P H.
  destruct l; inv_step H; split; simpl; intros; subst; use_inv; fin.
Qed.

Lemma reach_p_inv fp s : reach_p fp s -> inv s.
Proof. induction 1; [apply inv_init|eapply inv_preserved; eauto]. Qed.

(* ---------------------------------------------------------------- ghost flags = trace facts *)
Definition ev_inc (e : ev) : nat :=
  match e with EPre i | ERecvB i | ERecvE i | EPostB i | EPostE i => i end.

Record tinv (s : st) : Prop := {
  t_bound : forall e, In e (trace s) -> ev_inc e <= inc s;
  t_pre : pre_done s = true <-> In (EPre (inc s)) (trace s);
  t_post : post_begun s = true <-> In (EPostB (inc s)) (trace s);
}.

Lemma tinv_init : tinv init.
Proof. split; simpl; intros; try tauto; split; intros; try discriminate; tauto. Qed.

Lemma tinv_preserved fp s l s' : tinv s -> step fp s l = Some s' -> tinv s'.
Proof.
  intros [B P Q] H.
  destruct l; inv_step H; split; simpl; try assumption;
    try (intros e [<-|Hin]; simpl; auto; fail);
    try (split; [intros Hx; right; tauto|intros [Hx|Hx]; [discriminate|tauto]]; fail);
    try (split; [intros _; left; reflexivity|reflexivity]; fail).
  - intros e Hin. apply B in Hin. lia.
  - split; [discriminate|]. intros Hin. apply B in Hin. simpl in Hin. lia.
  - split; [discriminate|]. intros Hin. apply B in Hin. simpl in Hin. lia.
Qed.

Lemma reach_tinv fp s : reach fp s -> tinv s.
Proof. induction 1; [apply tinv_init|eapply tinv_preserved; eauto]. Qed.
Lemma reach_p_reach fp s : reach_p fp s -> reach fp s.
Proof. induction 1; [constructor|econstructor; eauto]. Qed.
Lemma reach_q_p fp s : reach_q fp s -> reach_p fp s.
Proof. induction 1; [constructor|econstructor; eauto]. Qed.
Lemma reach_pill_p fp s : reach_pill fp s -> reach_p fp s.
Proof.
  induction 1; [constructor|]. econstructor; eauto. destruct l; try reflexivity; discriminate.
Qed.
Lemma reach_fixed_p s : reach true s -> reach_p true s.
Proof. induction 1; [constructor|]. econstructor; eauto. destruct l; reflexivity. Qed.
