(* C06 — executable small-step model of one actor's lifecycle (actor/pid.go: init, doReceive/Tell,
   runTurn/dispatchOne/handleReceived, Shutdown/doStop/reset, tryPassivation, restartSubtree's
   re-initialisation).  No proofs in this file.

   One [label] = one atomic step of some goroutine; goroutines are anonymous (any number of
   senders and of off-turn stoppers), the dispatcher guarantees one worker per actor at a time
   (property C01, assumed here), the passivation manager is one goroutine.

   stopLocker serialises the stop critical section; [cs] says who is inside and where:
     (OnTurn , _)   the worker itself, dispatching a PoisonPill (dispatchOne -> Shutdown)
     (OffTurn, _)   any other goroutine that called Shutdown: Kill, PID.Stop(child), the parent's
                    freeChildren, the supervisor's stop directive, Restart's embedded Shutdown,
                    system shutdown
     (Passiv , _)   the passivation manager inside tryPassivation
   CLocked = lock held, before PostStop; CPost = inside actor.PostStop.
   doStop's deferred [running:=false; reset()] is the step LPostEnd: behaviorStack.Reset (so later
   messages are dropped by handleReceived), all state bits cleared; the default mailbox's Dispose
   is a no-op, so queued messages stay queued. *)
From Coq Require Import List Bool Arith Lia.
Import ListNotations.

Inductive owner := OnTurn | OffTurn | Passiv.
Inductive cpc := CLocked | CPost.
Inductive wst := WIdle | WTurn | WRecv | WPill.
Inductive ev := EPre (i : nat) | ERecvB (i : nat) | ERecvE (i : nat) | EPostB (i : nat) | EPostE (i : nat).

Record st := St {
  inc         : nat;    (* incarnation number, bumped when (re)initialisation begins *)
  running     : bool;   (* runningState *)
  stopping    : bool;   (* stoppingState *)
  passivating : bool;   (* passivatingState *)
  initing     : bool;   (* inside init(): PreStart is running *)
  pre_done    : bool;   (* ghost: PreStart of this incarnation completed *)
  post_begun  : bool;   (* ghost: PostStop of this incarnation began *)
  beh         : bool;   (* behaviorStack non-empty *)
  mbox        : nat;    (* queued user messages *)
  pills       : nat;    (* queued PoisonPills (system mailbox) *)
  inflight    : nat;    (* Tells past their IsRunning check, not yet enqueued *)
  inflight_p  : nat;    (* same for PoisonPill *)
  w           : wst;    (* the worker owning the actor's turn, if any *)
  cs          : option (owner * cpc);
  pass_wait   : bool;   (* tryPassivation passed its state checks and waits for stopLocker *)
  trace       : list ev (* newest first *)
}.

Definition init : st := St 0 false false false false false false false 0 0 0 0 WIdle None false [].

Definition is_running (s : st) : bool := running s && negb (stopping s) && negb (passivating s).

Inductive label :=
| LInitBegin            (* newPID / restartSubtree: behaviour stack := [Receive]; init() starts PreStart *)
| LInitEnd              (* PreStart returned nil; running := true *)
| LTellCheck (pill : bool)   (* Tell: IsRunning(to) ? *)
| LTellEnq (pill : bool)     (* doReceive: enqueue (+ schedule) *)
| LTurnBegin            (* a worker takes the actor: Scheduled -> Processing *)
| LTake                 (* runTurn: system mailbox first, then user mailbox; dispatchOne *)
| LRecvEnd              (* behaviour(received) returned *)
| LPillLock             (* dispatchOne(PoisonPill) -> Shutdown: stopLocker.Lock; running? stopping:=true *)
| LOffStop              (* Shutdown from any other goroutine: stopLocker.Lock; running? stopping:=true *)
| LPassCheck            (* tryPassivation: state checks; passivating := true *)
| LPassLock             (* tryPassivation: stopLocker.Lock (...) *)
| LPostBegin            (* doStop reached actor.PostStop *)
| LPostEnd.             (* PostStop returned; freeWatchers; running:=false; reset(); unlock *)

(* [fp]: tryPassivation re-checks the running bit under the lock
   (false = code as it is; true = fixes/C06-passivation-checks-running.diff) *)
Definition step (fp : bool) (s : st) (l : label) : option st :=
  match l with
  | LInitBegin =>
    if negb (running s) && negb (initing s) && match cs s with None => true | _ => false end
       && match w s with WIdle => true | _ => false end
    then Some (St (S (inc s)) false (stopping s) (passivating s) true false false true (mbox s) (pills s)
                  (inflight s) (inflight_p s) (w s) (cs s) (pass_wait s) (trace s))
    else None
  | LInitEnd =>
    if initing s
    then Some (St (inc s) true (stopping s) (passivating s) false true (post_begun s) (beh s) (mbox s) (pills s)
                  (inflight s) (inflight_p s) (w s) (cs s) (pass_wait s) (EPre (inc s) :: trace s))
    else None
  | LTellCheck pill =>
    if is_running s
    then Some (St (inc s) (running s) (stopping s) (passivating s) (initing s) (pre_done s) (post_begun s) (beh s)
                  (mbox s) (pills s) (if pill then inflight s else S (inflight s)) (if pill then S (inflight_p s) else inflight_p s)
                  (w s) (cs s) (pass_wait s) (trace s))
    else None
  | LTellEnq pill =>
    if pill then
      match inflight_p s with
      | S n => Some (St (inc s) (running s) (stopping s) (passivating s) (initing s) (pre_done s) (post_begun s) (beh s)
                        (mbox s) (S (pills s)) (inflight s) n (w s) (cs s) (pass_wait s) (trace s))
      | O => None
      end
    else
      match inflight s with
      | S n => Some (St (inc s) (running s) (stopping s) (passivating s) (initing s) (pre_done s) (post_begun s) (beh s)
                        (S (mbox s)) (pills s) n (inflight_p s) (w s) (cs s) (pass_wait s) (trace s))
      | O => None
      end
  | LTurnBegin =>
    match w s with
    | WIdle => if (0 <? mbox s) || (0 <? pills s)
               then Some (St (inc s) (running s) (stopping s) (passivating s) (initing s) (pre_done s) (post_begun s) (beh s)
                             (mbox s) (pills s) (inflight s) (inflight_p s) WTurn (cs s) (pass_wait s) (trace s))
               else None
    | _ => None
    end
  | LTake =>
    match w s with
    | WTurn =>
      match pills s, mbox s with
      | S p, _ => Some (St (inc s) (running s) (stopping s) (passivating s) (initing s) (pre_done s) (post_begun s) (beh s)
                           (mbox s) p (inflight s) (inflight_p s) WPill (cs s) (pass_wait s) (trace s))
      | O, S m =>
        if beh s
        then Some (St (inc s) (running s) (stopping s) (passivating s) (initing s) (pre_done s) (post_begun s) (beh s)
                      m O (inflight s) (inflight_p s) WRecv (cs s) (pass_wait s) (ERecvB (inc s) :: trace s))
        else Some (St (inc s) (running s) (stopping s) (passivating s) (initing s) (pre_done s) (post_begun s) (beh s)
                      m O (inflight s) (inflight_p s) WTurn (cs s) (pass_wait s) (trace s))
      | O, O => Some (St (inc s) (running s) (stopping s) (passivating s) (initing s) (pre_done s) (post_begun s) (beh s)
                         O O (inflight s) (inflight_p s) WIdle (cs s) (pass_wait s) (trace s))
      end
    | _ => None
    end
  | LRecvEnd =>
    match w s with
    | WRecv => Some (St (inc s) (running s) (stopping s) (passivating s) (initing s) (pre_done s) (post_begun s) (beh s)
                        (mbox s) (pills s) (inflight s) (inflight_p s) WTurn (cs s) (pass_wait s) (ERecvE (inc s) :: trace s))
    | _ => None
    end
  | LPillLock =>
    match w s, cs s with
    | WPill, None =>
      if running s
      then Some (St (inc s) true true (passivating s) (initing s) (pre_done s) (post_begun s) (beh s)
                    (mbox s) (pills s) (inflight s) (inflight_p s) WPill (Some (OnTurn, CLocked)) (pass_wait s) (trace s))
      else Some (St (inc s) false (stopping s) (passivating s) (initing s) (pre_done s) (post_begun s) (beh s)
                    (mbox s) (pills s) (inflight s) (inflight_p s) WTurn None (pass_wait s) (trace s))
    | _, _ => None
    end
  | LOffStop =>
    match cs s with
    | None =>
      if running s
      then Some (St (inc s) true true (passivating s) (initing s) (pre_done s) (post_begun s) (beh s)
                    (mbox s) (pills s) (inflight s) (inflight_p s) (w s) (Some (OffTurn, CLocked)) (pass_wait s) (trace s))
      else Some s
    | _ => None
    end
  | LPassCheck =>
    if negb (stopping s) && negb (pass_wait s)
    then Some (St (inc s) (running s) (stopping s) true (initing s) (pre_done s) (post_begun s) (beh s)
                  (mbox s) (pills s) (inflight s) (inflight_p s) (w s) (cs s) true (trace s))
    else None
  | LPassLock =>
    match cs s with
    | None =>
      if pass_wait s then
        if fp && negb (running s)
        then Some (St (inc s) (running s) (stopping s) false (initing s) (pre_done s) (post_begun s) (beh s)
                      (mbox s) (pills s) (inflight s) (inflight_p s) (w s) None false (trace s))
        else Some (St (inc s) (running s) (stopping s) (passivating s) (initing s) (pre_done s) (post_begun s) (beh s)
                      (mbox s) (pills s) (inflight s) (inflight_p s) (w s) (Some (Passiv, CLocked)) false (trace s))
      else None
    | _ => None
    end
  | LPostBegin =>
    match cs s with
    | Some (o, CLocked) =>
      Some (St (inc s) (running s) (stopping s) (passivating s) (initing s) (pre_done s) true (beh s)
               (mbox s) (pills s) (inflight s) (inflight_p s) (w s) (Some (o, CPost)) (pass_wait s) (EPostB (inc s) :: trace s))
    | _ => None
    end
  | LPostEnd =>
    match cs s with
    | Some (o, CPost) =>
      Some (St (inc s) false false false (initing s) (pre_done s) (post_begun s) false
               (mbox s) (pills s) (inflight s) (inflight_p s)
               (match o with OnTurn => WTurn | _ => w s end) None (pass_wait s) (EPostE (inc s) :: trace s))
    | _ => None
    end
  end.

Fixpoint run (fp : bool) (s : st) (ls : list label) : option st :=
  match ls with
  | [] => Some s
  | l :: ls' => match step fp s l with Some s' => run fp s' ls' | None => None end
  end.

Inductive reach (fp : bool) : st -> Prop :=
| reach_init : reach fp init
| reach_step s l s' : reach fp s -> step fp s l = Some s' -> reach fp s'.

(* the passivation manager never enters tryPassivation's critical section for an actor that is
   no longer running: guaranteed by the repair (fp = true), an assumption otherwise *)
Definition pass_ok (fp : bool) (s : st) (l : label) : bool :=
  match l with LPassLock => fp || running s | _ => true end.

Inductive reach_p (fp : bool) : st -> Prop :=
| reach_p_init : reach_p fp init
| reach_p_step s l s' : reach_p fp s -> pass_ok fp s l = true -> step fp s l = Some s' -> reach_p fp s'.

(* "stops issued while the actor is not in a turn": an off-turn critical section never overlaps a
   turn — it is entered only while no worker holds the actor, and no turn begins while it lasts;
   and no turn begins while a re-initialisation is in progress *)
Definition step_ok (s : st) (l : label) : bool :=
  match l with
  | LOffStop | LPassLock => match w s with WIdle => true | _ => false end
  | LTurnBegin => match cs s with None => negb (initing s) | _ => false end
  | _ => true
  end.

Inductive reach_q (fp : bool) : st -> Prop :=
| reach_q_init : reach_q fp init
| reach_q_step s l s' : reach_q fp s -> pass_ok fp s l = true -> step_ok s l = true -> step fp s l = Some s' -> reach_q fp s'.

(* executions in which every stop is a PoisonPill (no Shutdown from another goroutine, no passivation) *)
Definition pill_only (l : label) : bool :=
  match l with LOffStop | LPassCheck | LPassLock => false | _ => true end.

Inductive reach_pill (fp : bool) : st -> Prop :=
| reach_pill_init : reach_pill fp init
| reach_pill_step s l s' : reach_pill fp s -> pill_only l = true -> step fp s l = Some s' -> reach_pill fp s'.

(* the four clauses, as predicates on a step (what it may emit) and on a state *)
Definition emits_recvb (s s' : st) : Prop := trace s' = ERecvB (inc s) :: trace s.
Definition emits_postb (s s' : st) : Prop := trace s' = EPostB (inc s) :: trace s.
Definition in_recv (s : st) : bool := match w s with WRecv => true | _ => false end.
Definition in_post (s : st) : bool := match cs s with Some (_, CPost) => true | _ => false end.

(* ------------------------------------------------------------------------------------------
   Driver level (used by the tie).  The Go harness gates PostStop (always) and Receive
   (per scenario); after each driver action the real actor runs on its own until every
   goroutine is blocked at a gate or idle.  [quiesce] takes the internal labels the same way;
   every state it passes through is reached by [step]. *)
Inductive daction :=
| DTell                 (* Tell(msg): IsRunning check + enqueue *)
| DPill                 (* Tell(PoisonPill) *)
| DCheck                (* first half of a Tell: the IsRunning check only (the send stays in flight) *)
| DEnq                  (* second half: doReceive of a send in flight *)
| DStopOff              (* go pid.Shutdown() from the driver: every off-turn path ends here *)
| DPassivate            (* go pid.tryPassivation() : what the passivation manager does when the entry fires *)
| DReleaseRecv          (* let the blocked handler return *)
| DReleasePost.         (* let the blocked PostStop return *)

Definition internal_label (gate_recv : bool) (s : st) : option label :=
  match cs s with
  | Some (_, CLocked) => Some LPostBegin
  | _ =>
    match w s, cs s with
    | WPill, None => Some LPillLock
    | WRecv, _ => if gate_recv then (if pass_wait s then match cs s with None => Some LPassLock | _ => None end else None) else Some LRecvEnd
    | WTurn, _ => Some LTake
    | WIdle, _ => if (0 <? mbox s) || (0 <? pills s) then Some LTurnBegin
                  else if pass_wait s then match cs s with None => Some LPassLock | _ => None end else None
    | WPill, Some _ => None
    end
  end.

Fixpoint quiesce (fp gate_recv : bool) (fuel : nat) (s : st) : st :=
  match fuel with
  | O => s
  | S f => match internal_label gate_recv s with
           | Some l => match step fp s l with Some s' => quiesce fp gate_recv f s' | None => s end
           | None => s
           end
  end.

Definition drive1 (fp : bool) (s : st) (d : daction) : option st :=
  match d with
  | DTell => run fp s [LTellCheck false; LTellEnq false]
  | DPill => run fp s [LTellCheck true; LTellEnq true]
  | DCheck => step fp s (LTellCheck false)
  | DEnq => step fp s (LTellEnq false)
  | DStopOff => match step fp s LOffStop with Some s' => Some s' | None => Some s end   (* lock busy: the caller waits, then sees a stopped actor *)
  | DPassivate => step fp s LPassCheck
  | DReleaseRecv => step fp s LRecvEnd
  | DReleasePost => step fp s LPostEnd
  end.

Definition drive (fp gate_recv : bool) (s : st) (d : daction) : st * nat :=
  match drive1 fp s d with
  | Some s' => (quiesce fp gate_recv 200 s', 0)
  | None => (s, 1)
  end.

Definition count_ev (p : ev -> bool) (s : st) : nat := length (filter p (trace s)).
Definition observe (s : st) : list nat :=
  [ (if in_recv s then 1 else 0); (if in_post s then 1 else 0); (if is_running s then 1 else 0);
    count_ev (fun e => match e with EPre _ => true | _ => false end) s;
    count_ev (fun e => match e with ERecvB _ => true | _ => false end) s;
    count_ev (fun e => match e with ERecvE _ => true | _ => false end) s;
    count_ev (fun e => match e with EPostB _ => true | _ => false end) s;
    count_ev (fun e => match e with EPostE _ => true | _ => false end) s ].

Fixpoint drive_obs (fp gate_recv : bool) (s : st) (ds : list daction) : list (nat * list nat) :=
  match ds with
  | [] => []
  | d :: ds' => let '(s', f) := drive fp gate_recv s d in (f, observe s') :: drive_obs fp gate_recv s' ds'
  end.

Fixpoint nat_list_eqb (a b : list nat) : bool :=
  match a, b with
  | [], [] => true
  | x :: a', y :: b' => Nat.eqb x y && nat_list_eqb a' b'
  | _, _ => false
  end.
Fixpoint first_obs_diff (i : nat) (xs ys : list (nat * list nat)) : option nat :=
  match xs, ys with
  | [], [] => None
  | x :: xs', y :: ys' => if Nat.eqb (fst x) (fst y) && nat_list_eqb (snd x) (snd y) then first_obs_diff (S i) xs' ys' else Some i
  | _, _ => Some i
  end.
(* the started actor: spawn = LInitBegin; LInitEnd *)
Definition started : st := match run true init [LInitBegin; LInitEnd] with Some s => s | None => init end.
Definition scenario_diff (fp : bool) (c : bool * list daction * list (nat * list nat)) : option nat :=
  let '(gate_recv, ds, expected) := c in first_obs_diff 0 (drive_obs fp gate_recv started ds) expected.
