(* C44 — a concrete non-trivial history (computed): two workers, two jobs dispatched to the first, the first stops,
   both jobs are requeued at the front and redelivered to the second, which confirms them. *)
From Coq Require Import ZArith List Bool.
From GV Require Import C42.Model C44.Model C44.Lemmas.
Import ListNotations.
Open Scope Z_scope.

Definition ex_ins : list win :=
  [WRegister true 17 1; WRequest 17 1 1 0 2 true; WProduced true 1 1 201; WStoredAck true 1 1 201;
   WProduced true 1 2 202; WStoredAck true 1 2 202; WRegister true 33 2; WRequest 33 1 2 0 2 false;
   WTerminated 17; WAck 33 1 2 2].

Example ex_before_stop :
  let s := wrun (w_init 1 true) (firstn 8 ex_ins) in
  w_pending s = [] /\ map (fun b => (b_name b, b_unconf b)) (w_bindings s) = [(1, [(201, 1, 1); (202, 2, 2)]); (2, [])] /\
  w_order s = [1; 2] /\ w_accepted s = [(201, 1); (202, 2)] /\ w_confirmed s = [].
Proof. vm_compute. repeat split; reflexivity. Qed.

Example ex_after_stop :
  let s := wrun (w_init 1 true) (firstn 9 ex_ins) in
  w_pending s = [] /\ map (fun b => (b_name b, b_unconf b)) (w_bindings s) = [(2, [(201, 1, 1); (202, 2, 2)])] /\
  w_order s = [2] /\ (w_next s <= 1)%nat.
Proof. vm_compute. repeat split; try reflexivity; auto. Qed.

Example ex_confirmed :
  let s := wrun (w_init 1 true) ex_ins in
  w_failed s = false /\ w_pending s = [] /\ unconf_jobs (w_bindings s) = [] /\
  w_accepted s = [(201, 1); (202, 2)] /\ w_confirmed s = [(201, 1); (202, 2)].
Proof. vm_compute. repeat split; reflexivity. Qed.
