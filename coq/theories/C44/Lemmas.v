(* C44 — lemmas about the bindings map, the job multiset and per-binding sequence runs. *)
From Coq Require Import ZArith List Bool Lia ZifyBool Permutation.
From GV Require Import C42.Model C44.Model.
Import ListNotations.
Open Scope Z_scope.

Definition jdec (x y : Z * Z) : {x = y} + {x <> y}.
Proof. decide equality; apply Z.eq_dec. Defined.

(* permutations of job lists by counting occurrences *)
Ltac perm_solve :=
  repeat match goal with H : Permutation _ _ |- _ => rewrite (Permutation_count_occ jdec) in H end;
  rewrite (Permutation_count_occ jdec); let x := fresh "x" in intros x;
  repeat match goal with H : forall _, count_occ _ _ _ = count_occ _ _ _ |- _ => specialize (H x) end;
  rewrite ?count_occ_app in *; lia.

Definition jobs_of (b : binding) : list (Z * Z) := map job_of (b_unconf b).
Definition unconf_jobs (bs : list binding) : list (Z * Z) := flat_map jobs_of bs.
Definition held (s : wstate) : list (Z * Z) := w_pending s ++ unconf_jobs (w_bindings s).
Definition names (bs : list binding) : list Z := map b_name bs.

Lemma lookup_name n bs b : lookup n bs = Some b -> b_name b = n.
Proof. induction bs as [|a bs IH]; cbn; [discriminate|]. destruct (Z.eqb_spec (b_name a) n); [intros [= <-]; assumption|auto]. Qed.

Lemma lookup_in n bs b : lookup n bs = Some b -> In b bs.
Proof. induction bs as [|a bs IH]; cbn; [discriminate|]. destruct (b_name a =? n); [intros H; inversion H; left; reflexivity|auto]. Qed.

Lemma lookup_none n bs : lookup n bs = None <-> ~ In n (names bs).
Proof.
  induction bs as [|a bs IH]; cbn; [tauto|]. destruct (Z.eqb_spec (b_name a) n).
  - split; [discriminate|]. intros H. exfalso. apply H. left. assumption.
  - rewrite IH. tauto.
Qed.

Lemma lookup_some_in n bs : In n (names bs) -> exists b, lookup n bs = Some b.
Proof.
  intros H. destruct (lookup n bs) eqn:E; [eexists; reflexivity|]. apply lookup_none in E. contradiction.
Qed.

Lemma in_lookup b bs : NoDup (names bs) -> In b bs -> lookup (b_name b) bs = Some b.
Proof.
  induction bs as [|a bs IH]; cbn; [contradiction|]. intros Hn [->|Hin].
  - rewrite Z.eqb_refl. reflexivity.
  - inversion Hn; subst. destruct (Z.eqb_spec (b_name a) (b_name b)).
    + exfalso. apply H1. rewrite e. apply in_map. assumption.
    + auto.
Qed.

(* replacing the entry of an existing name *)
Lemma put_b_names b' bs b : lookup (b_name b') bs = Some b -> names (put_b b' bs) = names bs.
Proof.
  intros H. unfold put_b. rewrite H. unfold names. rewrite map_map. apply map_ext_in.
  intros a _. destruct (Z.eqb_spec (b_name a) (b_name b')); congruence.
Qed.

Lemma put_b_lookup b' bs n : In (b_name b') (names bs) ->
  lookup n (put_b b' bs) = if n =? b_name b' then Some b' else lookup n bs.
Proof.
  intros Hin. destruct (lookup_some_in _ _ Hin) as [b H]. unfold put_b. rewrite H. clear H b.
  induction bs as [|a bs IH]; [contradiction|]. cbn [map lookup].
  destruct (Z.eqb_spec (b_name a) (b_name b')) as [E|E].
  - destruct (Z.eqb_spec n (b_name b')) as [E2|E2].
    + subst n. rewrite Z.eqb_refl. reflexivity.
    + destruct (Z.eqb_spec (b_name b') n); [congruence|].
      destruct (Z.eqb_spec (b_name a) n); [congruence|].
      (* the remaining entries: names equal to b' are rewritten, n differs from it *)
      clear IH Hin. induction bs as [|c bs IH2]; [reflexivity|]. cbn [map lookup].
      destruct (Z.eqb_spec (b_name c) (b_name b')).
      * destruct (Z.eqb_spec (b_name b') n); [congruence|]. destruct (Z.eqb_spec (b_name c) n); [congruence|]. exact IH2.
      * destruct (b_name c =? n); [reflexivity|exact IH2].
  - destruct (Z.eqb_spec (b_name a) n) as [E3|E3].
    + subst n. destruct (Z.eqb_spec (b_name a) (b_name b')); [congruence|reflexivity].
    + apply IH. destruct Hin as [Hin|Hin]; [congruence|assumption].
Qed.

Lemma put_b_swap b' bs b : NoDup (names bs) -> lookup (b_name b') bs = Some b ->
  Permutation (unconf_jobs bs ++ jobs_of b') (unconf_jobs (put_b b' bs) ++ jobs_of b).
Proof.
  intros Hn H. unfold put_b. rewrite H. revert Hn H.
  induction bs as [|a bs IH]; cbn [lookup]; [discriminate|]. intros Hn H. inversion Hn; subst.
  cbn [map unconf_jobs flat_map]. destruct (Z.eqb_spec (b_name a) (b_name b')) as [E|E].
  - inversion H; subst a.
    assert (Hsame : map (fun x => if b_name x =? b_name b' then b' else x) bs = bs).
    { rewrite <- (map_id bs) at 2. apply map_ext_in. intros c Hc. destruct (Z.eqb_spec (b_name c) (b_name b')); [|reflexivity].
      exfalso. apply H2. rewrite E. rewrite <- e. apply in_map. assumption. }
    rewrite Hsame. fold (unconf_jobs bs).
    rewrite <- !app_assoc. apply Permutation_trans with (jobs_of b' ++ jobs_of b ++ unconf_jobs bs).
    + apply Permutation_trans with (jobs_of b ++ jobs_of b' ++ unconf_jobs bs).
      * apply Permutation_app_head. apply Permutation_app_comm.
      * rewrite !app_assoc. apply Permutation_app_tail. apply Permutation_app_comm.
    + apply Permutation_app_head. apply Permutation_app_comm.
  - fold (unconf_jobs bs). fold (unconf_jobs (map (fun x => if b_name x =? b_name b' then b' else x) bs)).
    rewrite <- !app_assoc. apply Permutation_app_head. apply IH; assumption.
Qed.

Lemma remove_b_names n bs : names (remove_b n bs) = filter (fun x => negb (x =? n)) (names bs).
Proof.
  induction bs as [|a bs IH]; cbn; [reflexivity|]. destruct (Z.eqb_spec (b_name a) n); cbn; [assumption|].
  f_equal. assumption.
Qed.

Lemma remove_b_lookup n m bs : lookup m (remove_b n bs) = if m =? n then None else lookup m bs.
Proof.
  induction bs as [|a bs IH]; cbn; [destruct (m =? n); reflexivity|].
  destruct (Z.eqb_spec (b_name a) n) as [E|E].
  - rewrite IH. destruct (Z.eqb_spec m n); [reflexivity|]. destruct (Z.eqb_spec (b_name a) m); [congruence|reflexivity].
  - cbn. destruct (Z.eqb_spec (b_name a) m) as [E2|E2]; [|exact IH].
    destruct (Z.eqb_spec m n); [congruence|reflexivity].
Qed.

Lemma remove_b_jobs n bs b : NoDup (names bs) -> lookup n bs = Some b ->
  Permutation (unconf_jobs bs) (jobs_of b ++ unconf_jobs (remove_b n bs)).
Proof.
  induction bs as [|a bs IH]; cbn [lookup]; [discriminate|]. intros Hn H. inversion Hn; subst.
  cbn [remove_b unconf_jobs flat_map]. destruct (Z.eqb_spec (b_name a) n) as [E|E].
  - inversion H; subst a. fold (unconf_jobs bs).
    assert (Hsame : remove_b n bs = bs).
    { clear IH H Hn H3. induction bs as [|c bs IH]; [reflexivity|]. cbn.
      destruct (Z.eqb_spec (b_name c) n); [exfalso; apply H2; left; congruence|].
      f_equal. apply IH. intros Hx. apply H2. right. assumption. }
    rewrite Hsame. apply Permutation_refl.
  - cbn [unconf_jobs flat_map]. fold (unconf_jobs bs). fold (unconf_jobs (remove_b n bs)).
    apply Permutation_trans with (jobs_of a ++ jobs_of b ++ unconf_jobs (remove_b n bs)).
    + apply Permutation_app_head. apply IH; assumption.
    + rewrite !app_assoc. apply Permutation_app_tail. apply Permutation_app_comm.
Qed.

Lemma unconf_jobs_app a b : unconf_jobs (a ++ b) = unconf_jobs a ++ unconf_jobs b.
Proof. unfold unconf_jobs. apply flat_map_app. Qed.

Lemma filter_nodup {A} (f : A -> bool) l : NoDup l -> NoDup (filter f l).
Proof. apply NoDup_filter. Qed.

(* runs of worker sequences *)
Fixpoint zseq (k : Z) (n : nat) : list Z := match n with O => [] | S n' => (k + 1) :: zseq (k + 1) n' end.

Lemma zseq_snoc k n : zseq k (S n) = zseq k n ++ [k + Z.of_nat n + 1].
Proof.
  revert k. induction n as [|n IH]; intros k.
  - cbn. f_equal. lia.
  - change (zseq k (S (S n))) with ((k + 1) :: zseq (k + 1) (S n)). rewrite IH. cbn [zseq app].
    replace (k + Z.of_nat (S n) + 1) with (k + 1 + Z.of_nat n + 1) by lia. reflexivity.
Qed.

Lemma take_drop_w c l : take_w c l ++ drop_w c l = l.
Proof. induction l as [|d l IH]; cbn; [reflexivity|]. destruct (d_wseq d <=? c); cbn; [f_equal; assumption|reflexivity]. Qed.

Lemma drop_w_run c k l : k <= c <= k + Z.of_nat (length l) -> map d_wseq l = zseq k (length l) ->
  map d_wseq (drop_w c l) = zseq c (length (drop_w c l)) /\ c + Z.of_nat (length (drop_w c l)) = k + Z.of_nat (length l).
Proof.
  revert k. induction l as [|d l IH]; intros k Hc Hr; cbn [drop_w length] in *.
  - cbn. split; [reflexivity|lia].
  - cbn [map zseq] in Hr. injection Hr as Hd Hr. destruct (Z.leb_spec (d_wseq d) c).
    + destruct (IH (k + 1) ltac:(lia) Hr) as [A B]. split; [assumption|lia].
    + assert (c = k) by lia. subst c. cbn [map length zseq]. split; [f_equal; assumption|lia].
Qed.

Lemma free_demand_nonneg b : 0 <= free_demand b.
Proof. unfold free_demand. destruct (Z.leb_spec (b_demand b) (b_cur b)); lia. Qed.

Lemma agg_nonneg bs : 0 <= fold_right (fun b acc => free_demand b + acc) 0 bs.
Proof. induction bs as [|a bs IH]; cbn; [lia|]. pose proof (free_demand_nonneg a). lia. Qed.

Lemma agg_zero_all bs : fold_right (fun b acc => free_demand b + acc) 0 bs = 0 <-> forall b, In b bs -> free_demand b = 0.
Proof.
  induction bs as [|a bs IH]; cbn; [split; [intros _ b []|reflexivity]|].
  pose proof (agg_nonneg bs). pose proof (free_demand_nonneg a).
  split.
  - intros Hs b [<-|Hb]; [lia|]. apply IH; [lia|assumption].
  - intros Hall. rewrite (Hall a (or_introl eq_refl)). destruct IH as [_ IH]. rewrite IH; [reflexivity|]. intros b Hb. apply Hall. right. assumption.
Qed.
