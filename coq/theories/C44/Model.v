(* C44 — executable model of the work-pulling producer controller
   (actor/reliable_delivery_work_pulling_controller.go), volatile (no durable work queue).

   The controller is an actor: Receive is a sequential function of (state, message); the model mirrors
   the handlers one to one:  wp_step : wstate -> win -> wstate * list wout.
   The worker side (each worker's consumer controller, the network, worker join/leave) is the
   environment: EVERY input sequence is allowed, so every join/leave pattern and every loss,
   duplication, reordering or even corruption of worker traffic is covered by theorems over all inputs.
   Identifiers are integers, 0 = blank. A companion PID is an integer c; the worker endpoint it belongs
   to is [owner c] (the real authentication derives the endpoint from the companion's own spec). *)
From Coq Require Import ZArith List Bool.
From GV Require Import C42.Model.
Import ListNotations.
Open Scope Z_scope.

Definition owner (ctrl : Z) : Z := ctrl / 16.

Record binding := mkB {
  b_name : Z;                        (* endpointName *)
  b_ctrl : Z;                        (* controller (companion PID) *)
  b_nonce : Z;                       (* registrationNonce *)
  b_cur : Z;                         (* currentSeq *)
  b_conf : Z;                        (* confirmedSeq *)
  b_demand : Z;                      (* demandUpTo *)
  b_unconf : list (Z * Z * Z)        (* unconfirmed: (messageID, workerSeq, storeSeq) ascending workerSeq *)
}.

Definition d_mid (d : Z * Z * Z) : Z := fst (fst d).
Definition d_wseq (d : Z * Z * Z) : Z := snd (fst d).
Definition d_sseq (d : Z * Z * Z) : Z := snd d.
Definition job_of (d : Z * Z * Z) : Z * Z := (d_mid d, d_sseq d).

Definition free_demand (b : binding) : Z := if b_demand b <=? b_cur b then 0 else b_demand b - b_cur b.

Inductive win :=
| WRegister (auth : bool) (ctrl nonce : Z)         (* RegisterConsumer from companion ctrl; auth: authenticateWorkPullingWorker succeeds *)
| WRequest (ctrl sess nonce conf upTo : Z) (via : bool)
| WAck (ctrl sess nonce conf : Z)
| WProduced (authentic : bool) (sess tok mid : Z)
| WStoredAck (authentic : bool) (sess tok mid : Z)
| WTick (stale : bool)
| WTerminated (ctrl : Z).                          (* Terminated notice whose path is companion ctrl's *)

Inductive wout :=
| WToWorker (ctrl : Z) (m : pmsg)
| WToProd (m : prodmsg)
| WShutdown.

Record wstate := mkW {
  w_sess : Z;
  w_notify : bool;
  w_sseq : Z;                         (* storeSeq *)
  w_pending : list (Z * Z);           (* pending: (messageID, storeSeq) *)
  w_bindings : list binding;          (* bindings map (keyed by b_name) *)
  w_order : list Z;                   (* bindingOrder *)
  w_next : nat;                       (* nextWorker *)
  w_hs : hsphase;
  w_tok : Z;
  w_pmid : Z;                         (* pendingMessageID *)
  w_psseq : Z;                        (* pendingStoreSeq *)
  w_stored : bool;                    (* storedMessage != nil *)
  w_ltok : Z;
  w_lmid : Z;
  w_failed : bool;
  w_ntok : Z;                         (* fresh token supply *)
  w_accepted : list (Z * Z);          (* ghost: jobs that entered the pending pool through the handshake, in order *)
  w_confirmed : list (Z * Z);         (* ghost: jobs cut from a binding by a confirmation, in order *)
  w_panic : bool                      (* ghost: bindingOrder indexed out of range *)
}.

Definition w_init (sess : Z) (notify : bool) : wstate :=
  mkW sess notify 0 [] [] [] 0 HsIdle 0 0 0 false 0 0 false 1 [] [] false.

(* field updates *)
Definition set_core (s : wstate) pending bindings order next : wstate :=
  mkW (w_sess s) (w_notify s) (w_sseq s) pending bindings order next (w_hs s) (w_tok s) (w_pmid s) (w_psseq s) (w_stored s)
      (w_ltok s) (w_lmid s) (w_failed s) (w_ntok s) (w_accepted s) (w_confirmed s) (w_panic s).
Definition set_bindings (s : wstate) bs : wstate := set_core s (w_pending s) bs (w_order s) (w_next s).
Definition set_next (s : wstate) n : wstate := set_core s (w_pending s) (w_bindings s) (w_order s) n.
Definition set_panic (s : wstate) : wstate :=
  mkW (w_sess s) (w_notify s) (w_sseq s) (w_pending s) (w_bindings s) (w_order s) (w_next s) (w_hs s) (w_tok s) (w_pmid s) (w_psseq s)
      (w_stored s) (w_ltok s) (w_lmid s) (w_failed s) (w_ntok s) (w_accepted s) (w_confirmed s) true.
Definition set_hs (s : wstate) sseq hs tok pmid psseq stored ltok lmid ntok : wstate :=
  mkW (w_sess s) (w_notify s) sseq (w_pending s) (w_bindings s) (w_order s) (w_next s) hs tok pmid psseq stored ltok lmid
      (w_failed s) ntok (w_accepted s) (w_confirmed s) (w_panic s).
Definition set_ghost (s : wstate) pending accepted confirmed : wstate :=
  mkW (w_sess s) (w_notify s) (w_sseq s) pending (w_bindings s) (w_order s) (w_next s) (w_hs s) (w_tok s) (w_pmid s) (w_psseq s)
      (w_stored s) (w_ltok s) (w_lmid s) (w_failed s) (w_ntok s) accepted confirmed (w_panic s).

Definition w_terminate (s : wstate) : wstate * list wout :=
  if w_failed s then (s, [])
  else (mkW (w_sess s) (w_notify s) (w_sseq s) (w_pending s) (w_bindings s) (w_order s) (w_next s) (w_hs s) (w_tok s) (w_pmid s)
            (w_psseq s) (w_stored s) (w_ltok s) (w_lmid s) true (w_ntok s) (w_accepted s) (w_confirmed s) (w_panic s), [WShutdown]).

(* the bindings map *)
Fixpoint lookup (name : Z) (bs : list binding) : option binding :=
  match bs with [] => None | b :: t => if b_name b =? name then Some b else lookup name t end.
Fixpoint remove_b (name : Z) (bs : list binding) : list binding :=
  match bs with [] => [] | b :: t => if b_name b =? name then remove_b name t else b :: remove_b name t end.
Definition put_b (b : binding) (bs : list binding) : list binding :=
  match lookup (b_name b) bs with
  | Some _ => map (fun x => if b_name x =? b_name b then b else x) bs
  | None => bs ++ [b]
  end.
Fixpoint find_ctrl (ctrl : Z) (bs : list binding) : option binding :=
  match bs with [] => None | b :: t => if b_ctrl b =? ctrl then Some b else find_ctrl ctrl t end.

(* emitSequenced *)
Definition w_emit (s : wstate) (b : binding) (d : Z * Z * Z) : list wout :=
  if d_wseq d >? b_demand b then [] else [WToWorker (b_ctrl b) (SeqMsg (w_sess s) (d_mid d) (d_wseq d))].

(* nextEligibleBinding: fuel = len(bindingOrder) examined entries *)
Fixpoint next_eligible (fuel : nat) (s : wstate) : wstate * option binding :=
  match fuel with
  | O => (s, None)
  | S f =>
    let n := if (length (w_order s) <=? w_next s)%nat then 0%nat else w_next s in
    match nth_error (w_order s) n with
    | None => (set_panic s, None)
    | Some name =>
      let s1 := set_next s (S n) in
      match lookup name (w_bindings s1) with
      | Some b => if free_demand b >? 0 then (s1, Some b) else next_eligible f s1
      | None => next_eligible f s1
      end
    end
  end.

(* dispatchPending: one iteration per pending entry at most *)
Fixpoint dispatch (fuel : nat) (s : wstate) : wstate * list wout :=
  match fuel with
  | O => (s, [])
  | S f =>
    match w_pending s with
    | [] => (s, [])
    | work :: rest =>
      match w_order s with
      | [] => (s, [])
      | _ =>
        let '(s1, ob) := next_eligible (length (w_order s)) s in
        match ob with
        | None => (s1, [])
        | Some b =>
          let s2 := set_core s1 rest (w_bindings s1) (w_order s1) (w_next s1) in
          if b_cur b >=? maxI64 - 1 then w_terminate s2
          else
            let d := (fst work, b_cur b + 1, snd work) in
            let b' := mkB (b_name b) (b_ctrl b) (b_nonce b) (b_cur b + 1) (b_conf b) (b_demand b) (b_unconf b ++ [d]) in
            let s3 := set_bindings s2 (put_b b' (w_bindings s2)) in
            let '(s4, o4) := dispatch f s3 in
            (s4, w_emit s3 b' d ++ o4)
        end
      end
    end
  end.

Definition agg_free (s : wstate) : Z := fold_right (fun b acc => free_demand b + acc) 0 (w_bindings s).

(* allowNextRequest *)
Definition w_allow (s : wstate) : wstate * list wout :=
  if negb (hs_eqb (w_hs s) HsIdle) then (s, [])
  else if agg_free s <=? Z.of_nat (length (w_pending s)) then (s, [])
  else (set_hs s (w_sseq s) HsCredit (w_ntok s) (w_pmid s) (w_psseq s) (w_stored s) (w_ltok s) (w_lmid s) (w_ntok s + 1),
        [WToProd (RequestNext (w_sess s) (w_ntok s))]).

(* progress. A terminated controller stops opening handshakes only through its own flags; the real code
   runs allowNextRequest unconditionally after dispatchPending. *)
Definition w_progress (s : wstate) : wstate * list wout :=
  let '(s1, o1) := dispatch (length (w_pending s)) s in
  let '(s2, o2) := w_allow s1 in
  (s2, o1 ++ o2).

(* endBinding *)
Definition w_end_binding (s : wstate) (name : Z) : wstate :=
  match lookup name (w_bindings s) with
  | None => s
  | Some b =>
    let order := filter (fun n => negb (n =? name)) (w_order s) in
    set_core s (map job_of (b_unconf b) ++ w_pending s) (remove_b name (w_bindings s)) order
             (if (length order <? w_next s)%nat then 0%nat else w_next s)
  end.

Fixpoint take_w (c : Z) (l : list (Z * Z * Z)) : list (Z * Z * Z) :=
  match l with d :: t => if d_wseq d <=? c then d :: take_w c t else [] | [] => [] end.
Fixpoint drop_w (c : Z) (l : list (Z * Z * Z)) : list (Z * Z * Z) :=
  match l with d :: t => if d_wseq d <=? c then drop_w c t else l | [] => [] end.

(* advanceConfirmed (+ sendConfirmation) on the binding named name *)
Definition w_advance (s : wstate) (b : binding) (c : Z) : wstate * list wout :=
  if c <=? b_conf b then (s, [])
  else
    let cut := take_w c (b_unconf b) in
    let b' := mkB (b_name b) (b_ctrl b) (b_nonce b) (b_cur b) c (b_demand b) (drop_w c (b_unconf b)) in
    let s1 := set_bindings s (put_b b' (w_bindings s)) in
    let notes := if w_notify s then map (fun d => WToProd (DeliveryConfirmed (w_sess s) (d_mid d) (d_sseq d))) cut else [] in
    (set_ghost s1 (w_pending s1) (w_accepted s1) (w_confirmed s1 ++ map job_of cut), notes).

(* resendUnconfirmed *)
Fixpoint w_resend (s : wstate) (b : binding) (l : list (Z * Z * Z)) : list wout :=
  match l with
  | [] => []
  | d :: t => if (d_wseq d >? b_cur b) || (d_wseq d >? b_demand b) then [] else w_emit s b d ++ w_resend s b t
  end.

(* bindingFrom *)
Definition binding_from (s : wstate) (ctrl sess nonce : Z) : option binding :=
  if negb (sess =? w_sess s) then None
  else match find_ctrl ctrl (w_bindings s) with
       | Some b => if b_nonce b =? nonce then Some b else None
       | None => None
       end.

(* handleRegisterConsumer *)
Definition w_register (s : wstate) (ctrl nonce : Z) : wstate * list wout :=
  let name := owner ctrl in
  let s1 :=
    match lookup name (w_bindings s) with
    | Some b =>
      if b_ctrl b =? ctrl then
        (if b_nonce b =? nonce then s
         else set_bindings s (put_b (mkB (b_name b) (b_ctrl b) nonce (b_cur b) (b_conf b) (b_demand b) (b_unconf b)) (w_bindings s)))
      else
        let s0 := w_end_binding s name in
        set_core s0 (w_pending s0) (w_bindings s0 ++ [mkB name ctrl nonce 0 0 0 []]) (w_order s0 ++ [name]) (w_next s0)
    | None => set_core s (w_pending s) (w_bindings s ++ [mkB name ctrl nonce 0 0 0 []]) (w_order s ++ [name]) (w_next s)
    end in
  match lookup name (w_bindings s1) with
  | None => (s1, [])   (* unreachable: the binding was just stored *)
  | Some b =>
    if (w_sess s1 =? 0) || (b_conf b + 1 <=? 0) || (b_nonce b =? 0) then w_terminate s1
    else
      let '(s2, o2) := w_progress s1 in
      (s2, WToWorker (b_ctrl b) (RegAck (w_sess s1) (b_conf b + 1) (b_nonce b)) :: o2)
  end.

(* handleRequest *)
Definition w_request (s : wstate) (ctrl sess nonce c u : Z) (via : bool) : wstate * list wout :=
  match binding_from s ctrl sess nonce with
  | None => (s, [])
  | Some b =>
    if (c <? 0) || (c >? b_cur b) || (u <? c) || (u >? c + maxWindowCap) then w_progress (w_end_binding s (b_name b))
    else
      let '(s1, o1) := w_advance s b c in
      match lookup (b_name b) (w_bindings s1) with
      | None => (s1, o1)   (* unreachable *)
      | Some b1 =>
        let b2 := mkB (b_name b1) (b_ctrl b1) (b_nonce b1) (b_cur b1) (b_conf b1) u (b_unconf b1) in
        let s2 := set_bindings s1 (put_b b2 (w_bindings s1)) in
        let o2 := if via then w_resend s2 b2 (b_unconf b2) else [] in
        let '(s3, o3) := w_progress s2 in
        (s3, o1 ++ o2 ++ o3)
      end
  end.

(* handleAck *)
Definition w_ack (s : wstate) (ctrl sess nonce c : Z) : wstate * list wout :=
  match binding_from s ctrl sess nonce with
  | None => (s, [])
  | Some b =>
    if (c <? 0) || (c >? b_cur b) then w_progress (w_end_binding s (b_name b))
    else
      let '(s1, o1) := w_advance s b c in
      let '(s2, o2) := w_progress s1 in
      (s2, o1 ++ o2)
  end.

(* handleProduced: volatile startStore -> completeStore -> replyStored *)
Definition w_produced (s : wstate) (sess tok mid : Z) : wstate * list wout :=
  if negb (sess =? w_sess s) then (s, [])
  else if negb (hs_eqb (w_hs s) HsIdle) && negb (hs_eqb (w_hs s) HsCredit) && (tok =? w_tok s) && (mid =? w_pmid s) then (s, [])
  else if (tok =? w_ltok s) && (mid =? w_lmid s) then (s, [])
  else if negb (hs_eqb (w_hs s) HsCredit) then w_terminate s
  else if negb (tok =? w_tok s) then w_terminate s
  else if w_sseq s >=? maxI64 - 1 then
    w_terminate (set_hs s (w_sseq s) HsStore (w_tok s) mid (w_psseq s) (w_stored s) (w_ltok s) (w_lmid s) (w_ntok s))
  else
    let q := w_sseq s + 1 in
    if (mid =? 0) || (q <=? 0) then
      w_terminate (set_hs s q HsStore (w_tok s) mid (if q <=? 0 then w_psseq s else q) (w_stored s) (w_ltok s) (w_lmid s) (w_ntok s))
    else
      (set_hs s q HsStoredAck (w_tok s) mid q true (w_ltok s) (w_lmid s) (w_ntok s),
       [WToProd (Stored (w_sess s) (w_tok s) mid q)]).

(* owns *)
Definition w_owns (s : wstate) (mid : Z) : bool :=
  existsb (fun j => fst j =? mid) (w_pending s)
  || existsb (fun b => existsb (fun d => d_mid d =? mid) (b_unconf b)) (w_bindings s).

(* handleStoredAck: volatile startAccept -> completeAccept *)
Definition w_storedack (s : wstate) (sess tok mid : Z) : wstate * list wout :=
  if negb (sess =? w_sess s) then (s, [])
  else if hs_eqb (w_hs s) HsStoredAck && (tok =? w_tok s) && (mid =? w_pmid s) then
    let job := (w_pmid s, w_psseq s) in
    let s1 := if w_owns s (w_pmid s) then s
              else set_ghost s (w_pending s ++ [job]) (w_accepted s ++ [job]) (w_confirmed s) in
    let s2 := set_hs s1 (w_sseq s1) HsIdle 0 0 0 false (w_tok s1) (w_pmid s1) (w_ntok s1) in
    w_progress s2
  else if hs_eqb (w_hs s) HsAccept && (tok =? w_tok s) && (mid =? w_pmid s) then (s, [])
  else if (tok =? w_ltok s) && (mid =? w_lmid s) then (s, [])
  else w_terminate s.

(* handleTick *)
Definition w_tick (s : wstate) : list wout :=
  match w_hs s with
  | HsCredit => [WToProd (RequestNext (w_sess s) (w_tok s))]
  | HsStoredAck => if w_stored s then [WToProd (Stored (w_sess s) (w_tok s) (w_pmid s) (w_psseq s))] else []
  | _ => []
  end.

(* handleTerminated for a worker companion *)
Definition w_terminated (s : wstate) (ctrl : Z) : wstate * list wout :=
  match find_ctrl ctrl (w_bindings s) with
  | Some b => w_progress (w_end_binding s (b_name b))
  | None => (s, [])
  end.

Definition wp_step (s : wstate) (i : win) : wstate * list wout :=
  if w_failed s then (s, []) else
  match i with
  | WRegister false _ _ => (s, [])
  | WRegister true ctrl nonce => w_register s ctrl nonce
  | WRequest ctrl se n c u via => w_request s ctrl se n c u via
  | WAck ctrl se n c => w_ack s ctrl se n c
  | WProduced false _ _ _ => (s, [])
  | WProduced true se t m => w_produced s se t m
  | WStoredAck false _ _ _ => (s, [])
  | WStoredAck true se t m => w_storedack s se t m
  | WTick true => (s, [])
  | WTick false => (s, w_tick s)
  | WTerminated ctrl => w_terminated s ctrl
  end.

Definition wrun (s : wstate) (ins : list win) : wstate := fold_left (fun st i => fst (wp_step st i)) ins s.

(* ---------------------------------------------------------------- canonical observation encoding (tie) *)
Definition enc_wout (o : wout) : list Z :=
  match o with
  | WToWorker c m => 20 :: c :: enc_pmsg m
  | WToProd m => 21 :: enc_prodmsg m
  | WShutdown => [22]
  end.

Definition enc_binding (b : binding) : list Z :=
  [b_name b; b_ctrl b; b_nonce b; b_cur b; b_conf b; b_demand b; Z.of_nat (length (b_unconf b))]
  ++ flat_map (fun d => [d_mid d; d_wseq d; d_sseq d]) (b_unconf b).

(* bindings are listed in bindingOrder; names of the order without a map entry are listed as -1 *)
Definition enc_wstate (s : wstate) : list Z :=
  [300; w_sseq s; Z.of_nat (length (w_pending s))] ++ flat_map (fun j => [fst j; snd j]) (w_pending s)
  ++ [301; Z.of_nat (length (w_bindings s)); Z.of_nat (length (w_order s)); Z.of_nat (w_next s)]
  ++ flat_map (fun n => match lookup n (w_bindings s) with Some b => enc_binding b | None => [-1; n] end) (w_order s)
  ++ [302; hs_z (w_hs s); w_tok s; w_pmid s; w_psseq s; b2z (w_stored s); w_ltok s; w_lmid s; b2z (w_failed s)].

(* per recipient: each worker companion in ascending id, then the producer endpoint *)
Definition outs_to (c : Z) (o : list wout) : list Z :=
  flat_map (fun x => match x with WToWorker c' m => if c' =? c then enc_pmsg m else [] | _ => [] end) o.
Definition outs_prod (o : list wout) : list Z :=
  flat_map (fun x => match x with WToProd m => enc_prodmsg m | _ => [] end) o.

Definition enc_wobs (ctrls : list Z) (s : wstate) (o : list wout) : list Z :=
  flat_map (fun c => 120 :: c :: outs_to c o) ctrls ++ [121] ++ outs_prod o
  ++ [122; b2z (existsb (fun x => match x with WShutdown => true | _ => false end) o)] ++ enc_wstate s.

(* each input comes with the companions whose mailboxes the harness observes at that step *)
Fixpoint wtrace (s : wstate) (ins : list (list Z * win)) : list (list Z) :=
  match ins with
  | [] => []
  | (ctrls, i) :: t => let '(s', o) := wp_step s i in enc_wobs ctrls s' o :: wtrace s' t
  end.

Definition wfull_trace (sess : Z) (notify : bool) (ins : list (list Z * win)) : list (list Z) :=
  enc_wobs [] (w_init sess notify) [] :: wtrace (w_init sess notify) ins.
