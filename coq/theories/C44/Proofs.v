(* C44 — inductive invariants of the work-pulling producer controller, for EVERY input sequence. *)
From Coq Require Import ZArith List Bool Lia ZifyBool Permutation.
From GV Require Import C42.Model C44.Model C44.Lemmas.
Import ListNotations.
Open Scope Z_scope.

Definition binding_ok (b : binding) : Prop :=
  0 <= b_conf b /\ b_cur b = b_conf b + Z.of_nat (length (b_unconf b)) /\
  map d_wseq (b_unconf b) = zseq (b_conf b) (length (b_unconf b)).

Record WCore (s : wstate) : Prop := {
  wc_names : NoDup (names (w_bindings s));
  wc_order_nodup : NoDup (w_order s);
  wc_order : forall n, In n (w_order s) <-> In n (names (w_bindings s));
  wc_next : (w_next s <= length (w_order s))%nat;
  wc_panic : w_panic s = false;
  wc_cons : w_failed s = false -> Permutation (w_accepted s) (held s ++ w_confirmed s);
  wc_bind : forall b, In b (w_bindings s) -> binding_ok b;
  wc_acc_le : forall j, In j (w_accepted s) -> snd j <= w_sseq s;
  wc_acc_nodup : NoDup (map snd (w_accepted s));
  wc_hs : w_failed s = false -> w_hs s = HsStoredAck ->
          w_psseq s = w_sseq s /\ forall j, In j (w_accepted s) -> snd j < w_sseq s
}.

Lemma WCore_init sess notify : WCore (w_init sess notify).
Proof.
  constructor; cbn; try constructor; try tauto; try lia; try discriminate; intros; try contradiction.
Qed.

(* the part of the state the dispatch machinery never touches *)
Definition frame (s s' : wstate) : Prop :=
  w_sess s' = w_sess s /\ w_notify s' = w_notify s /\ w_sseq s' = w_sseq s /\ w_hs s' = w_hs s /\ w_tok s' = w_tok s /\
  w_pmid s' = w_pmid s /\ w_psseq s' = w_psseq s /\ w_stored s' = w_stored s /\ w_ltok s' = w_ltok s /\ w_lmid s' = w_lmid s /\
  w_ntok s' = w_ntok s /\ w_accepted s' = w_accepted s /\ (w_failed s' = false -> w_failed s = false).

Lemma frame_refl s : frame s s.
Proof. unfold frame. repeat split; auto. Qed.
Lemma frame_trans a b c : frame a b -> frame b c -> frame a c.
Proof. unfold frame. intuition congruence. Qed.

Ltac splits := repeat match goal with |- _ /\ _ => split end.

(* a change of pending / bindings / confirmed that keeps the names and the job multiset *)
Lemma WCore_upd s pending bs confirmed :
  WCore s -> names bs = names (w_bindings s) -> (forall b, In b bs -> binding_ok b) ->
  (w_failed s = false -> Permutation (held s ++ w_confirmed s) ((pending ++ unconf_jobs bs) ++ confirmed)) ->
  WCore (set_ghost (set_core s pending bs (w_order s) (w_next s)) pending (w_accepted s) confirmed).
Proof.
  intros [C1 C2 C3 C4 C5 C6 C7 C8 C9 C10] Hn Hb Hp.
  unfold names, held, unconf_jobs in *. constructor; cbn; try assumption.
  - rewrite Hn. assumption.
  - intros n. rewrite Hn. apply C3.
  - intros Hf. eapply Permutation_trans; [exact (C6 Hf)|exact (Hp Hf)].
Qed.

Lemma set_next_core s k : WCore s -> (k <= length (w_order s))%nat -> WCore (set_next s k).
Proof. intros [C1 C2 C3 C4 C5 C6 C7 C8 C9 C10] Hk. constructor; cbn; auto. Qed.

(* nextEligibleBinding never indexes out of range, only moves the cursor, and returns a live binding with demand *)
Lemma next_eligible_core f s s1 ob :
  WCore s -> w_order s <> [] -> next_eligible f s = (s1, ob) ->
  WCore s1 /\ (exists k, s1 = set_next s k) /\
  (forall b, ob = Some b -> lookup (b_name b) (w_bindings s) = Some b /\ 0 < free_demand b).
Proof.
  revert s. induction f as [|f IH]; intros s C Ho H; cbn [next_eligible] in H.
  - injection H as <- <-. splits; [assumption|exists (w_next s); destruct s; reflexivity|discriminate].
  - set (n := if (length (w_order s) <=? w_next s)%nat then 0%nat else w_next s) in H.
    assert (Hn : (n < length (w_order s))%nat).
    { subst n. destruct (Nat.leb_spec (length (w_order s)) (w_next s)); [|lia]. destruct (w_order s); [congruence|cbn; lia]. }
    destruct (nth_error (w_order s) n) as [name|] eqn:Hnth; [|apply nth_error_None in Hnth; lia].
    assert (C1 : WCore (set_next s (S n))) by (apply set_next_core; [assumption|lia]).
    assert (Hrec : forall r, next_eligible f (set_next s (S n)) = r -> r = (s1, ob) ->
              WCore s1 /\ (exists k, s1 = set_next s k) /\
              (forall b, ob = Some b -> lookup (b_name b) (w_bindings s) = Some b /\ 0 < free_demand b)).
    { intros r Hr ->. destruct (IH (set_next s (S n)) C1 Ho Hr) as (A & [k B] & D). splits; [assumption|exists k; rewrite B; reflexivity|exact D]. }
    cbn [w_bindings set_next set_core] in H.
    destruct (lookup name (w_bindings s)) as [b|] eqn:Hl.
    + destruct (Z.gtb_spec (free_demand b) 0).
      * injection H as <- <-. splits; [assumption|exists (S n); reflexivity|].
        intros b0 [= <-]. split; [|lia]. rewrite (lookup_name _ _ _ Hl). exact Hl.
      * eapply Hrec; [reflexivity|exact H].
    + eapply Hrec; [reflexivity|exact H].
Qed.

Lemma put_b_in b' bs x : In x (put_b b' bs) -> x = b' \/ In x bs.
Proof.
  unfold put_b. destruct (lookup (b_name b') bs).
  - intros H. apply in_map_iff in H. destruct H as (y & Hy & Hin). destruct (b_name y =? b_name b'); [left; auto|right; congruence].
  - intros H. apply in_app_or in H. destruct H as [H|[H|[]]]; auto.
Qed.

Lemma in_names_lookup n bs b : lookup n bs = Some b -> In n (names bs).
Proof. intros H. destruct (in_dec Z.eq_dec n (names bs)); [assumption|]. apply lookup_none in n0. congruence. Qed.

(* replacing binding b by b' in a WCore state *)
Lemma WCore_put s b b' pending confirmed :
  WCore s -> lookup (b_name b') (w_bindings s) = Some b -> binding_ok b' ->
  (w_failed s = false ->
   Permutation ((w_pending s ++ jobs_of b) ++ w_confirmed s) ((pending ++ jobs_of b') ++ confirmed)) ->
  WCore (set_ghost (set_core s pending (put_b b' (w_bindings s)) (w_order s) (w_next s)) pending (w_accepted s) confirmed).
Proof.
  intros C Hl Hok Hp. apply WCore_upd; [assumption|eapply put_b_names; eassumption| |].
  - intros x Hx. apply put_b_in in Hx. destruct Hx as [->|Hx]; [assumption|apply (wc_bind _ C); assumption].
  - intros Hf. specialize (Hp Hf). pose proof (put_b_swap b' (w_bindings s) b (wc_names _ C) Hl) as Hs.
    unfold held. set (U := unconf_jobs (w_bindings s)) in *. set (U' := unconf_jobs (put_b b' (w_bindings s))) in *.
    clearbody U U'. perm_solve.
Qed.

Lemma binding_ok_snoc b d :
  binding_ok b -> d_wseq d = b_cur b + 1 ->
  binding_ok (mkB (b_name b) (b_ctrl b) (b_nonce b) (b_cur b + 1) (b_conf b) (b_demand b) (b_unconf b ++ [d])).
Proof.
  intros (H1 & H2 & H3) Hd. unfold binding_ok. cbn. rewrite app_length, map_app. cbn [length map].
  splits; [assumption|lia|]. rewrite Nat.add_1_r, zseq_snoc, H3. f_equal. f_equal. lia.
Qed.

Lemma w_terminate_core s s' o : WCore s -> w_terminate s = (s', o) -> WCore s' /\ frame s s' /\ w_failed s' = true.
Proof.
  intros C H. unfold w_terminate in H. destruct (w_failed s) eqn:Hf; injection H as <- <-.
  - splits; [assumption|apply frame_refl|assumption].
  - destruct C as [C1 C2 C3 C4 C5 C6 C7 C8 C9 C10]. splits; [|unfold frame; cbn; splits; auto|reflexivity].
    constructor; cbn; auto; discriminate.
Qed.

(* dispatchPending *)
Lemma dispatch_core f s s' o : WCore s -> dispatch f s = (s', o) -> WCore s' /\ frame s s'.
Proof.
  revert s s' o. induction f as [|f IH]; intros s s' o C H; cbn [dispatch] in H.
  { injection H as <- <-. split; [assumption|apply frame_refl]. }
  destruct (w_pending s) as [|work rest] eqn:Hp.
  { injection H as <- <-. split; [assumption|apply frame_refl]. }
  destruct (w_order s) as [|o1 ot] eqn:Ho.
  { injection H as <- <-. split; [assumption|apply frame_refl]. }
  rewrite <- Ho in H.
  destruct (next_eligible (length (w_order s)) s) as [s1 ob] eqn:Hne.
  destruct (next_eligible_core _ _ _ _ C ltac:(rewrite Ho; discriminate) Hne) as (C1 & [k Hk] & Hb).
  destruct ob as [b|].
  2:{ injection H as <- <-. split; [assumption|]. rewrite Hk. unfold frame. cbn. splits; auto. }
  destruct (Hb b eq_refl) as [Hl Hfd].
  assert (Fr1 : frame s s1) by (rewrite Hk; unfold frame; cbn; splits; auto).
  assert (Hl1 : lookup (b_name b) (w_bindings s1) = Some b) by (rewrite Hk; exact Hl).
  assert (Hp1 : w_pending s1 = work :: rest) by (rewrite Hk; exact Hp).
  set (s2 := set_core s1 rest (w_bindings s1) (w_order s1) (w_next s1)) in H.
  destruct (b_cur b >=? maxI64 - 1).
  { (* terminal: the popped job is dropped, the flow is failed *)
    unfold w_terminate in H. destruct (w_failed s2) eqn:Hf2; injection H as <- <-.
    - split; [|eapply frame_trans; [exact Fr1|unfold frame; cbn; splits; auto]].
      destruct C1 as [A1 A2 A3 A4 A5 A6 A7 A8 A9 A10]. constructor; cbn; auto; cbn in Hf2; congruence.
    - split; [|eapply frame_trans; [exact Fr1|unfold frame; cbn; splits; auto; discriminate]].
      destruct C1 as [A1 A2 A3 A4 A5 A6 A7 A8 A9 A10]. constructor; cbn; auto; discriminate. }
  set (d := (fst work, b_cur b + 1, snd work)) in H.
  set (b' := mkB (b_name b) (b_ctrl b) (b_nonce b) (b_cur b + 1) (b_conf b) (b_demand b) (b_unconf b ++ [d])) in H.
  set (s3 := set_bindings s2 (put_b b' (w_bindings s2))) in H.
  destruct (dispatch f s3) as [s4 o4] eqn:Hd. injection H as <- <-.
  assert (C3 : WCore s3).
  { change s3 with (set_ghost (set_core s1 rest (put_b b' (w_bindings s1)) (w_order s1) (w_next s1)) rest (w_accepted s1) (w_confirmed s1)).
    apply (WCore_put s1 b b'); [assumption|exact Hl1| |].
    - apply binding_ok_snoc; [apply (wc_bind _ C1); eapply lookup_in; exact Hl1|reflexivity].
    - intros _. rewrite Hp1. unfold jobs_of. cbn [b_unconf b']. rewrite map_app. cbn [map].
      assert (Hjd : job_of d = work) by (subst d; destruct work; reflexivity). rewrite Hjd.
      change (work :: rest) with ([work] ++ rest). perm_solve. }
  destruct (IH s3 s4 o4 C3 Hd) as [C4 Fr4]. split; [assumption|].
  eapply frame_trans; [exact Fr1|]. eapply frame_trans; [|exact Fr4]. unfold frame. cbn. splits; auto.
Qed.

Lemma w_allow_core s s' o : WCore s -> w_allow s = (s', o) -> WCore s' /\
  w_pending s' = w_pending s /\ w_bindings s' = w_bindings s /\ w_failed s' = w_failed s.
Proof.
  intros C H. unfold w_allow in H. destruct (negb (hs_eqb (w_hs s) HsIdle)); [injection H as <- <-; auto|].
  destruct (agg_free s <=? Z.of_nat (length (w_pending s))); injection H as <- <-; auto.
  destruct C as [C1 C2 C3 C4 C5 C6 C7 C8 C9 C10]. splits; auto. constructor; cbn; auto. discriminate.
Qed.

Lemma w_progress_core s s' o : WCore s -> w_progress s = (s', o) -> WCore s'.
Proof.
  intros C H. unfold w_progress in H. destruct (dispatch (length (w_pending s)) s) as [s1 o1] eqn:Hd.
  destruct (w_allow s1) as [s2 o2] eqn:Ha. injection H as <- <-.
  destruct (dispatch_core _ _ _ _ C Hd) as [C1 _]. apply (w_allow_core _ _ _ C1 Ha).
Qed.

Lemma filter_length_le {A} (f : A -> bool) l : (length (filter f l) <= length l)%nat.
Proof. induction l; cbn; [lia|]. destruct (f a); cbn; lia. Qed.

(* endBinding *)
Lemma w_end_binding_core s n : WCore s -> WCore (w_end_binding s n).
Proof.
  intros C. unfold w_end_binding. destruct (lookup n (w_bindings s)) as [b|] eqn:Hl; [|assumption].
  pose proof C as [C1 C2 C3 C4 C5 C6 C7 C8 C9 C10].
  constructor; cbn; auto.
  - rewrite remove_b_names. apply NoDup_filter. assumption.
  - apply NoDup_filter. assumption.
  - intros m. rewrite remove_b_names, !filter_In. rewrite C3. tauto.
  - match goal with |- context [if ?c then _ else _] => destruct c eqn:E end; [lia|apply Nat.ltb_ge in E; lia].
  - intros Hf. specialize (C6 Hf). pose proof (remove_b_jobs n (w_bindings s) b C1 Hl) as Hr.
    unfold held in *. cbn. fold (jobs_of b). fold (unconf_jobs (remove_b n (w_bindings s))).
    set (U := unconf_jobs (w_bindings s)) in *. set (U' := unconf_jobs (remove_b n (w_bindings s))) in *. clearbody U U'.
    perm_solve.
  - intros x Hx. apply C7. clear -Hx. induction (w_bindings s) as [|a l IH]; cbn in Hx; [contradiction|].
    destruct (b_name a =? n); [right; auto|]. destruct Hx as [->|Hx]; [left; reflexivity|right; auto].
Qed.

Lemma find_ctrl_in c bs b : find_ctrl c bs = Some b -> In b bs /\ b_ctrl b = c.
Proof.
  induction bs as [|a bs IH]; cbn; [discriminate|]. destruct (Z.eqb_spec (b_ctrl a) c).
  - intros [= <-]. split; [left; reflexivity|assumption].
  - intros H. destruct (IH H). split; [right; assumption|assumption].
Qed.

Lemma binding_from_in s c se n b : binding_from s c se n = Some b -> In b (w_bindings s).
Proof.
  unfold binding_from. destruct (negb (se =? w_sess s)); [discriminate|].
  destruct (find_ctrl c (w_bindings s)) eqn:Hf; [|discriminate]. destruct (b_nonce b0 =? n); [|discriminate].
  intros [= <-]. apply (find_ctrl_in _ _ _ Hf).
Qed.

(* advanceConfirmed on a live binding, within its bounds *)
Lemma w_advance_core s b c s' o :
  WCore s -> In b (w_bindings s) -> 0 <= c <= b_cur b -> w_advance s b c = (s', o) ->
  WCore s' /\ frame s s' /\ w_failed s' = w_failed s /\
  exists b1, lookup (b_name b) (w_bindings s') = Some b1 /\ b_cur b1 = b_cur b /\ b_name b1 = b_name b.
Proof.
  intros C Hin Hc H. unfold w_advance in H.
  pose proof (in_lookup b (w_bindings s) (wc_names _ C) Hin) as Hl.
  destruct (Z.leb_spec c (b_conf b)).
  { injection H as <- <-. splits; [assumption|apply frame_refl|reflexivity|]. exists b. auto. }
  injection H as <- <-.
  set (b' := mkB (b_name b) (b_ctrl b) (b_nonce b) (b_cur b) c (b_demand b) (drop_w c (b_unconf b))).
  destruct (wc_bind _ C b Hin) as (K1 & K2 & K3).
  destruct (drop_w_run c (b_conf b) (b_unconf b) ltac:(lia) K3) as [D1 D2].
  splits.
  - change (WCore (set_ghost (set_core s (w_pending s) (put_b b' (w_bindings s)) (w_order s) (w_next s)) (w_pending s) (w_accepted s)
                             (w_confirmed s ++ map job_of (take_w c (b_unconf b))))).
    apply (WCore_put s b b'); [assumption|exact Hl| |].
    + unfold binding_ok. cbn. splits; [lia|lia|exact D1].
    + intros _. unfold jobs_of. cbn [b_unconf b']. rewrite <- (take_drop_w c (b_unconf b)) at 1. rewrite map_app. perm_solve.
  - unfold frame. cbn. splits; auto.
  - reflexivity.
  - exists b'. cbn. rewrite put_b_lookup by (eapply in_names_lookup; exact Hl). cbn. rewrite Z.eqb_refl. auto.
Qed.

(* replacing a binding by one that holds the same jobs (nonce refresh, demand grant) *)
Lemma WCore_same_jobs s b b' :
  WCore s -> lookup (b_name b') (w_bindings s) = Some b -> b_unconf b' = b_unconf b -> b_conf b' = b_conf b -> b_cur b' = b_cur b ->
  WCore (set_bindings s (put_b b' (w_bindings s))).
Proof.
  intros C Hl Hu Hc Hcur.
  assert (E : set_bindings s (put_b b' (w_bindings s)) =
              set_ghost (set_core s (w_pending s) (put_b b' (w_bindings s)) (w_order s) (w_next s)) (w_pending s) (w_accepted s) (w_confirmed s))
    by (destruct s; reflexivity).
  rewrite E. apply (WCore_put s b b'); [assumption|exact Hl| |].
  - destruct (wc_bind _ C b (lookup_in _ _ _ Hl)) as (K1 & K2 & K3). unfold binding_ok. rewrite Hu, Hc, Hcur. auto.
  - intros _. unfold jobs_of. rewrite Hu. apply Permutation_refl.
Qed.

Lemma NoDup_snoc {A} (l : list A) x : NoDup l -> ~ In x l -> NoDup (l ++ [x]).
Proof.
  intros Hn Hx. induction l as [|a l IH]; cbn; [constructor; [intros []|constructor]|].
  inversion Hn; subst. constructor.
  - intros Hin. apply in_app_or in Hin. destruct Hin as [Hin|[->|[]]]; [contradiction|]. apply Hx. left. reflexivity.
  - apply IH; [assumption|]. intros Hin. apply Hx. right. assumption.
Qed.

Lemma WCore_add s name ctrl nonce :
  WCore s -> lookup name (w_bindings s) = None ->
  WCore (set_core s (w_pending s) (w_bindings s ++ [mkB name ctrl nonce 0 0 0 []]) (w_order s ++ [name]) (w_next s)).
Proof.
  intros [C1 C2 C3 C4 C5 C6 C7 C8 C9 C10] Hl. apply lookup_none in Hl.
  constructor; cbn; auto.
  - unfold names in *. rewrite map_app. cbn. apply NoDup_snoc; assumption.
  - apply NoDup_snoc; [assumption|]. rewrite C3. assumption.
  - intros m. unfold names in *. rewrite map_app, !in_app_iff. cbn. rewrite C3. tauto.
  - rewrite app_length. cbn. lia.
  - intros Hf. unfold held in *. cbn. rewrite unconf_jobs_app. cbn. rewrite !app_nil_r. auto.
  - intros b Hb. apply in_app_or in Hb. destruct Hb as [Hb|[<-|[]]]; [auto|]. unfold binding_ok. cbn. splits; auto; lia.
Qed.

(* handleRegisterConsumer *)
Lemma w_register_core s ctrl nonce s' o : WCore s -> w_register s ctrl nonce = (s', o) -> WCore s'.
Proof.
  intros C H. unfold w_register in H.
  set (name := owner ctrl) in *.
  match type of H with (match lookup name (w_bindings ?S1) with _ => _ end) = _ => set (s1 := S1) in H end.
  assert (C1 : WCore s1).
  { subst s1. destruct (lookup name (w_bindings s)) as [b|] eqn:Hl.
    - destruct (b_ctrl b =? ctrl).
      + destruct (b_nonce b =? nonce); [assumption|].
        pose proof (lookup_name _ _ _ Hl) as Hn.
        apply (WCore_same_jobs s b); cbn; auto. rewrite Hn. exact Hl.
      + pose proof (w_end_binding_core s name C) as Ce.
        apply WCore_add; [assumption|]. unfold w_end_binding. rewrite Hl. cbn. rewrite remove_b_lookup, Z.eqb_refl. reflexivity.
    - apply WCore_add; assumption. }
  destruct (lookup name (w_bindings s1)) as [b|]; [|injection H as <- <-; assumption].
  destruct ((w_sess s1 =? 0) || (b_conf b + 1 <=? 0) || (b_nonce b =? 0)).
  - apply (w_terminate_core _ _ _ C1 H).
  - destruct (w_progress s1) as [s2 o2] eqn:Hp. injection H as <- <-. apply (w_progress_core _ _ _ C1 Hp).
Qed.

(* handleRequest *)
Lemma w_request_core s ctrl se n c u via s' o : WCore s -> w_request s ctrl se n c u via = (s', o) -> WCore s'.
Proof.
  intros C H. unfold w_request in H.
  destruct (binding_from s ctrl se n) as [b|] eqn:Hb; [|injection H as <- <-; assumption].
  pose proof (binding_from_in _ _ _ _ _ Hb) as Hin.
  destruct ((c <? 0) || (c >? b_cur b) || (u <? c) || (u >? c + maxWindowCap)) eqn:Hr.
  { apply (w_progress_core _ _ _ (w_end_binding_core s (b_name b) C) H). }
  destruct (w_advance s b c) as [s1 o1] eqn:Ha.
  destruct (w_advance_core s b c s1 o1 C Hin ltac:(lia) Ha) as (C1 & F1 & Ff & b1 & Hl1 & Hc1 & Hn1).
  rewrite Hl1 in H.
  set (b2 := mkB (b_name b1) (b_ctrl b1) (b_nonce b1) (b_cur b1) (b_conf b1) u (b_unconf b1)) in H.
  set (s2 := set_bindings s1 (put_b b2 (w_bindings s1))) in H.
  assert (C2 : WCore s2).
  { apply (WCore_same_jobs s1 b1); cbn; auto. rewrite Hn1. exact Hl1. }
  destruct (w_progress s2) as [s3 o3] eqn:Hp. injection H as <- <-. apply (w_progress_core _ _ _ C2 Hp).
Qed.

(* handleAck *)
Lemma w_ack_core s ctrl se n c s' o : WCore s -> w_ack s ctrl se n c = (s', o) -> WCore s'.
Proof.
  intros C H. unfold w_ack in H.
  destruct (binding_from s ctrl se n) as [b|] eqn:Hb; [|injection H as <- <-; assumption].
  pose proof (binding_from_in _ _ _ _ _ Hb) as Hin.
  destruct ((c <? 0) || (c >? b_cur b)) eqn:Hr.
  { apply (w_progress_core _ _ _ (w_end_binding_core s (b_name b) C) H). }
  destruct (w_advance s b c) as [s1 o1] eqn:Ha.
  destruct (w_advance_core s b c s1 o1 C Hin ltac:(lia) Ha) as (C1 & _).
  destruct (w_progress s1) as [s2 o2] eqn:Hp. injection H as <- <-. apply (w_progress_core _ _ _ C1 Hp).
Qed.

Lemma hs_eqb_eq a b : hs_eqb a b = true -> a = b.
Proof. destruct a, b; cbn; congruence. Qed.

(* handleProduced *)
Lemma w_produced_core s se t m s' o : WCore s -> w_failed s = false -> w_produced s se t m = (s', o) -> WCore s'.
Proof.
  intros C Hnf H. unfold w_produced in H.
  destruct (negb (se =? w_sess s)); [injection H as <- <-; assumption|].
  destruct (negb (hs_eqb (w_hs s) HsIdle) && negb (hs_eqb (w_hs s) HsCredit) && (t =? w_tok s) && (m =? w_pmid s)); [injection H as <- <-; assumption|].
  destruct ((t =? w_ltok s) && (m =? w_lmid s)); [injection H as <- <-; assumption|].
  destruct (negb (hs_eqb (w_hs s) HsCredit)) eqn:Hcr; [apply (w_terminate_core _ _ _ C H)|].
  destruct (negb (t =? w_tok s)); [apply (w_terminate_core _ _ _ C H)|].
  pose proof C as [C1 C2 C3 C4 C5 C6 C7 C8 C9 C10].
  assert (Hbase : forall q hs pm ps, w_sseq s <= q -> hs <> HsStoredAck ->
            WCore (set_hs s q hs (w_tok s) pm ps (w_stored s) (w_ltok s) (w_lmid s) (w_ntok s))).
  { intros q hs pm ps Hq Hhs. constructor; cbn; auto; [|congruence]. intros j Hj. specialize (C8 j Hj). lia. }
  destruct (w_sseq s >=? maxI64 - 1).
  { eapply w_terminate_core; [|exact H]. apply Hbase; [lia|discriminate]. }
  destruct ((m =? 0) || (w_sseq s + 1 <=? 0)).
  { eapply w_terminate_core; [|exact H]. apply Hbase; [lia|discriminate]. }
  injection H as <- <-. constructor; cbn; auto.
  - intros j Hj. specialize (C8 j Hj). lia.
  - intros _ _. split; [reflexivity|]. intros j Hj. specialize (C8 j Hj). lia.
Qed.

(* handleStoredAck *)
Lemma w_storedack_core s se t m s' o : WCore s -> w_failed s = false -> w_storedack s se t m = (s', o) -> WCore s'.
Proof.
  intros C Hnf H. unfold w_storedack in H.
  destruct (negb (se =? w_sess s)); [injection H as <- <-; assumption|].
  destruct (hs_eqb (w_hs s) HsStoredAck && (t =? w_tok s) && (m =? w_pmid s)) eqn:Hm.
  - assert (Hhs : w_hs s = HsStoredAck) by (apply hs_eqb_eq; lia).
    pose proof C as [C1 C2 C3 C4 C5 C6 C7 C8 C9 C10]. destruct (C10 Hnf Hhs) as [K1 K2].
    match type of H with w_progress ?S2 = _ => set (s2 := S2) in H end.
    assert (C2' : WCore s2).
    { subst s2. destruct (w_owns s (w_pmid s)).
      - constructor; cbn; auto. discriminate.
      - constructor; cbn; auto.
        + intros Hf. specialize (C6 Hf). unfold held, unconf_jobs in *. cbn.
          set (U := flat_map jobs_of (w_bindings s)) in *. clearbody U. perm_solve.
        + intros j Hj. apply in_app_or in Hj. destruct Hj as [Hj|[<-|[]]]; [auto|cbn; lia].
        + rewrite map_app. cbn. apply NoDup_snoc; [assumption|]. intros Hin. apply in_map_iff in Hin.
          destruct Hin as (j & Hj1 & Hj2). specialize (K2 j Hj2). lia.
        + discriminate. }
    apply (w_progress_core _ _ _ C2' H).
  - destruct (hs_eqb (w_hs s) HsAccept && (t =? w_tok s) && (m =? w_pmid s)); [injection H as <- <-; assumption|].
    destruct ((t =? w_ltok s) && (m =? w_lmid s)); [injection H as <- <-; assumption|].
    apply (w_terminate_core _ _ _ C H).
Qed.

Lemma wp_step_core s i s' o : WCore s -> wp_step s i = (s', o) -> WCore s'.
Proof.
  intros C H. unfold wp_step in H. destruct (w_failed s) eqn:Hf; [injection H as <- <-; assumption|].
  destruct i as [[|] c n|c se n cf u v|c se n cf|[|] se t m|[|] se t m|[|]|c]; try (injection H as <- <-; assumption).
  - eapply w_register_core; eassumption.
  - eapply w_request_core; eassumption.
  - eapply w_ack_core; eassumption.
  - eapply w_produced_core; eassumption.
  - eapply w_storedack_core; eassumption.
  - unfold w_terminated in H. destruct (find_ctrl c (w_bindings s)) as [b|]; [|injection H as <- <-; assumption].
    apply (w_progress_core _ _ _ (w_end_binding_core s (b_name b) C) H).
Qed.

Theorem wrun_core sess notify ins : WCore (wrun (w_init sess notify) ins).
Proof.
  unfold wrun. generalize (WCore_init sess notify). generalize (w_init sess notify).
  induction ins as [|i ins IH]; intros s C; [exact C|]. cbn [fold_left]. apply IH.
  destruct (wp_step s i) as [s' o] eqn:H. cbn. eapply wp_step_core; eassumption.
Qed.

(* ------------------------------------------------------------------ no accepted job waits while a live binding has demand *)
Definition start_idx (s : wstate) : nat :=
  if (length (w_order s) <=? w_next s)%nat then 0%nat else w_next s.

Lemma next_eligible_none f : forall s s1,
  w_order s <> [] -> next_eligible f s = (s1, None) -> w_panic s1 = false ->
  forall j, (j < f)%nat -> forall name b,
    nth_error (w_order s) ((start_idx s + j) mod length (w_order s)) = Some name ->
    lookup name (w_bindings s) = Some b -> free_demand b <= 0.
Proof.
  induction f as [|f IH]; intros s s1 Ho H Hpn j Hj name b Hnth Hl; [lia|].
  cbn [next_eligible] in H. fold (start_idx s) in H.
  set (L := length (w_order s)) in *. set (n := start_idx s) in *.
  assert (HL : (0 < L)%nat) by (subst L; destruct (w_order s); [congruence|cbn; lia]).
  assert (Hn : (n < L)%nat) by (subst n; unfold start_idx; fold L; destruct (Nat.leb_spec L (w_next s)); lia).
  destruct (nth_error (w_order s) n) as [name0|] eqn:Hn0.
  2:{ injection H as <-. cbn in Hpn. discriminate. }
  cbn [w_bindings set_next set_core] in H.
  assert (Hrec : next_eligible f (set_next s (S n)) = (s1, None) -> free_demand b <= 0).
  { intros Hr. destruct j as [|j'].
    - (* the first examined entry itself *)
      rewrite Nat.add_0_r, Nat.mod_small in Hnth by assumption. rewrite Hn0 in Hnth. injection Hnth as ->.
      destruct (lookup name (w_bindings s)) as [b0|] eqn:Hl0; [|discriminate]. injection Hl as ->.
      destruct (Z.gtb_spec (free_demand b) 0); [discriminate H|lia].
    - apply (IH (set_next s (S n)) s1 Ho Hr Hpn j' ltac:(lia) name b); [|exact Hl].
      cbn [w_order set_next set_core]. fold L.
      assert (Hs : start_idx (set_next s (S n)) = (S n mod L)%nat).
      { unfold start_idx. cbn [w_order w_next set_next set_core]. fold L.
        destruct (Nat.leb_spec L (S n)).
        - assert (S n = L) by lia. rewrite H1. rewrite Nat.mod_same by lia. reflexivity.
        - rewrite Nat.mod_small by lia. reflexivity. }
      rewrite Hs. rewrite Nat.add_mod_idemp_l by lia.
      replace (S n + j')%nat with (n + S j')%nat by lia. exact Hnth. }
  destruct (lookup name0 (w_bindings s)) as [b0|] eqn:Hl0.
  - destruct (Z.gtb_spec (free_demand b0) 0); [discriminate H|]. apply Hrec. exact H.
  - apply Hrec. exact H.
Qed.

Lemma next_eligible_complete s s1 :
  WCore s -> w_order s <> [] -> next_eligible (length (w_order s)) s = (s1, None) -> agg_free s = 0.
Proof.
  intros C Ho H. destruct (next_eligible_core _ _ _ _ C Ho H) as (C1 & _ & _).
  unfold agg_free. apply agg_zero_all. intros b Hb.
  pose proof (free_demand_nonneg b). cut (free_demand b <= 0); [lia|].
  set (L := length (w_order s)). assert (HL : (0 < L)%nat) by (subst L; destruct (w_order s); [congruence|cbn; lia]).
  assert (Hin : In (b_name b) (w_order s)) by (apply (wc_order _ C); apply in_map; assumption).
  apply In_nth_error in Hin. destruct Hin as [i Hi].
  assert (HiL : (i < L)%nat) by (apply nth_error_Some; congruence).
  set (n0 := start_idx s).
  assert (Hn0 : (n0 < L)%nat) by (subst n0; unfold start_idx; fold L; destruct (Nat.leb_spec L (w_next s)); lia).
  assert (Hj : exists j, (j < L)%nat /\ ((n0 + j) mod L = i)%nat).
  { destruct (Nat.le_gt_cases n0 i).
    - exists (i - n0)%nat. split; [lia|]. replace (n0 + (i - n0))%nat with i by lia. apply Nat.mod_small. assumption.
    - exists (i + L - n0)%nat. split; [lia|]. replace (n0 + (i + L - n0))%nat with (i + 1 * L)%nat by lia.
      rewrite Nat.mod_add by lia. apply Nat.mod_small. assumption. }
  destruct Hj as (j & Hj1 & Hj2).
  apply (next_eligible_none L s s1 Ho H (wc_panic _ C1) j Hj1 (b_name b) b).
  - fold L. fold n0. rewrite Hj2. exact Hi.
  - apply in_lookup; [apply (wc_names _ C)|assumption].
Qed.

Definition stuckfree (s : wstate) : Prop := w_failed s = false -> w_pending s = [] \/ agg_free s = 0.

Lemma dispatch_stuckfree f : forall s s' o,
  WCore s -> (length (w_pending s) <= f)%nat -> dispatch f s = (s', o) -> stuckfree s'.
Proof.
  induction f as [|f IH]; intros s s' o C Hlen H; cbn [dispatch] in H.
  { injection H as <- <-. intros _. left. destruct (w_pending s); [reflexivity|cbn in Hlen; lia]. }
  destruct (w_pending s) as [|work rest] eqn:Hp.
  { injection H as <- <-. intros _. left. assumption. }
  destruct (w_order s) as [|o1 ot] eqn:Ho.
  { injection H as <- <-. intros _. right. unfold agg_free.
    destruct (w_bindings s) as [|b bs] eqn:Hb; [reflexivity|]. exfalso.
    assert (In (b_name b) (w_order s)) by (apply (wc_order _ C); rewrite Hb; left; reflexivity). rewrite Ho in H. contradiction. }
  rewrite <- Ho in H.
  assert (Hne0 : w_order s <> []) by (rewrite Ho; discriminate).
  destruct (next_eligible (length (w_order s)) s) as [s1 ob] eqn:Hne.
  destruct (next_eligible_core _ _ _ _ C Hne0 Hne) as (C1 & [k Hk] & Hb).
  destruct ob as [b|].
  2:{ injection H as <- <-. intros _. right. rewrite Hk. pose proof (next_eligible_complete s s1 C Hne0 Hne) as Hz.
      unfold agg_free in *. cbn. exact Hz. }
  destruct (Hb b eq_refl) as [Hl Hfd].
  assert (Hl1 : lookup (b_name b) (w_bindings s1) = Some b) by (rewrite Hk; exact Hl).
  assert (Hp1 : w_pending s1 = work :: rest) by (rewrite Hk; exact Hp).
  set (s2 := set_core s1 rest (w_bindings s1) (w_order s1) (w_next s1)) in H.
  destruct (b_cur b >=? maxI64 - 1).
  { unfold w_terminate in H. destruct (w_failed s2) eqn:Hf2; injection H as <- <-; intros Hf; cbn in *; congruence. }
  set (d := (fst work, b_cur b + 1, snd work)) in H.
  set (b' := mkB (b_name b) (b_ctrl b) (b_nonce b) (b_cur b + 1) (b_conf b) (b_demand b) (b_unconf b ++ [d])) in H.
  set (s3 := set_bindings s2 (put_b b' (w_bindings s2))) in H.
  destruct (dispatch f s3) as [s4 o4] eqn:Hd. injection H as <- <-.
  assert (C3 : WCore s3).
  { change s3 with (set_ghost (set_core s1 rest (put_b b' (w_bindings s1)) (w_order s1) (w_next s1)) rest (w_accepted s1) (w_confirmed s1)).
    apply (WCore_put s1 b b'); [assumption|exact Hl1| |].
    - apply binding_ok_snoc; [apply (wc_bind _ C1); eapply lookup_in; exact Hl1|reflexivity].
    - intros _. rewrite Hp1. unfold jobs_of. cbn [b_unconf b']. rewrite map_app. cbn [map].
      assert (Hjd : job_of d = work) by (subst d; destruct work; reflexivity). rewrite Hjd.
      change (work :: rest) with ([work] ++ rest). perm_solve. }
  apply (IH s3 s4 o4 C3); [|exact Hd]. cbn. cbn in Hlen. lia.
Qed.

Lemma w_progress_stuckfree s s' o : WCore s -> w_progress s = (s', o) -> stuckfree s'.
Proof.
  intros C H. unfold w_progress in H. destruct (dispatch (length (w_pending s)) s) as [s1 o1] eqn:Hd.
  destruct (w_allow s1) as [s2 o2] eqn:Ha. injection H as <- <-.
  destruct (dispatch_core _ _ _ _ C Hd) as [C1 _].
  pose proof (dispatch_stuckfree _ _ _ _ C (Nat.le_refl _) Hd) as S1.
  destruct (w_allow_core _ _ _ C1 Ha) as (_ & A1 & A2 & A3).
  intros Hf. unfold agg_free. rewrite A1, A2. apply S1. congruence.
Qed.

Lemma w_terminate_stuckfree s s' o : w_terminate s = (s', o) -> stuckfree s -> stuckfree s'.
Proof.
  unfold w_terminate. destruct (w_failed s) eqn:Hf; intros [= <- <-] S; [assumption|]. intros Habs. cbn in Habs. discriminate.
Qed.

Lemma wp_step_stuckfree s i s' o : WCore s -> stuckfree s -> wp_step s i = (s', o) -> stuckfree s'.
Proof.
  intros C S H. unfold wp_step in H. destruct (w_failed s) eqn:Hf; [injection H as <- <-; assumption|].
  destruct i as [[|] c n|c se n cf u v|c se n cf|[|] se t m|[|] se t m|[|]|c]; try (injection H as <- <-; assumption).
  - (* Register *)
    unfold w_register in H.
    match type of H with (match lookup _ (w_bindings ?S1) with _ => _ end) = _ => set (s1 := S1) in H end.
    assert (C1 : WCore s1).
    { subst s1. destruct (lookup (owner c) (w_bindings s)) as [b|] eqn:Hl.
      - destruct (b_ctrl b =? c).
        + destruct (b_nonce b =? n); [assumption|]. pose proof (lookup_name _ _ _ Hl) as Hn.
          apply (WCore_same_jobs s b); cbn; auto. rewrite Hn. exact Hl.
        + apply WCore_add; [apply w_end_binding_core; assumption|]. unfold w_end_binding. rewrite Hl. cbn. rewrite remove_b_lookup, Z.eqb_refl. reflexivity.
      - apply WCore_add; assumption. }
    destruct (lookup (owner c) (w_bindings s1)) as [b|] eqn:Hl1.
    2:{ (* unreachable: the binding was just stored *)
        exfalso. subst s1. destruct (lookup (owner c) (w_bindings s)) as [b|] eqn:Hl.
        - destruct (b_ctrl b =? c) eqn:Hc.
          + destruct (b_nonce b =? n); [congruence|]. cbn in Hl1. rewrite put_b_lookup in Hl1 by (cbn; eapply in_names_lookup; rewrite <- (lookup_name _ _ _ Hl) in Hl; exact Hl).
            cbn in Hl1. rewrite (lookup_name _ _ _ Hl), Z.eqb_refl in Hl1. discriminate.
          + cbn in Hl1. clear -Hl1. induction (w_bindings (w_end_binding s (owner c))) as [|a l IH]; cbn in Hl1; [rewrite Z.eqb_refl in Hl1; discriminate|].
            destruct (b_name a =? owner c); [discriminate|auto].
        - cbn in Hl1. clear -Hl1. induction (w_bindings s) as [|a l IH]; cbn in Hl1; [rewrite Z.eqb_refl in Hl1; discriminate|].
          destruct (b_name a =? owner c); [discriminate|auto]. }
    destruct ((w_sess s1 =? 0) || (b_conf b + 1 <=? 0) || (b_nonce b =? 0)).
    + destruct (w_terminate_core _ _ _ C1 H) as (_ & _ & Hft). intros Habs. congruence.
    + destruct (w_progress s1) as [s2 o2] eqn:Hp. injection H as <- <-. apply (w_progress_stuckfree _ _ _ C1 Hp).
  - (* Request *)
    unfold w_request in H. destruct (binding_from s c se n) as [b|] eqn:Hb; [|injection H as <- <-; assumption].
    pose proof (binding_from_in _ _ _ _ _ Hb) as Hin.
    destruct ((cf <? 0) || (cf >? b_cur b) || (u <? cf) || (u >? cf + maxWindowCap)) eqn:Hr.
    { apply (w_progress_stuckfree _ _ _ (w_end_binding_core s (b_name b) C) H). }
    destruct (w_advance s b cf) as [s1 o1] eqn:Ha.
    destruct (w_advance_core s b cf s1 o1 C Hin ltac:(lia) Ha) as (C1 & F1 & Ff & b1 & Hl1 & Hc1 & Hn1).
    rewrite Hl1 in H.
    set (b2 := mkB (b_name b1) (b_ctrl b1) (b_nonce b1) (b_cur b1) (b_conf b1) u (b_unconf b1)) in H.
    set (s2 := set_bindings s1 (put_b b2 (w_bindings s1))) in H.
    assert (C2 : WCore s2) by (apply (WCore_same_jobs s1 b1); cbn; auto; rewrite Hn1; exact Hl1).
    destruct (w_progress s2) as [s3 o3] eqn:Hp. injection H as <- <-. apply (w_progress_stuckfree _ _ _ C2 Hp).
  - (* Ack *)
    unfold w_ack in H. destruct (binding_from s c se n) as [b|] eqn:Hb; [|injection H as <- <-; assumption].
    pose proof (binding_from_in _ _ _ _ _ Hb) as Hin.
    destruct ((cf <? 0) || (cf >? b_cur b)) eqn:Hr.
    { apply (w_progress_stuckfree _ _ _ (w_end_binding_core s (b_name b) C) H). }
    destruct (w_advance s b cf) as [s1 o1] eqn:Ha.
    destruct (w_advance_core s b cf s1 o1 C Hin ltac:(lia) Ha) as (C1 & _).
    destruct (w_progress s1) as [s2 o2] eqn:Hp. injection H as <- <-. apply (w_progress_stuckfree _ _ _ C1 Hp).
  - (* Produced: pending and bindings untouched *)
    unfold w_produced in H.
    assert (Hkeep : forall q hs pm ps, stuckfree (set_hs s q hs (w_tok s) pm ps (w_stored s) (w_ltok s) (w_lmid s) (w_ntok s))).
    { intros q hs pm ps Hf'. apply S. exact Hf'. }
    repeat match type of H with
           | (if ?c then _ else _) = _ => destruct c
           end; try (injection H as <- <-; assumption);
      try (eapply w_terminate_stuckfree; [exact H|]; first [assumption|apply Hkeep]).
  - (* StoredAck *)
    unfold w_storedack in H.
    destruct (negb (se =? w_sess s)); [injection H as <- <-; assumption|].
    destruct (hs_eqb (w_hs s) HsStoredAck && (t =? w_tok s) && (m =? w_pmid s)) eqn:Hm.
    + assert (Hhs : w_hs s = HsStoredAck) by (apply hs_eqb_eq; lia).
      pose proof C as [C1 C2 C3 C4 C5 C6 C7 C8 C9 C10]. destruct (C10 Hf Hhs) as [K1 K2].
      match type of H with w_progress ?S2 = _ => set (s2 := S2) in H end.
      assert (C2' : WCore s2).
      { subst s2. destruct (w_owns s (w_pmid s)).
        - constructor; cbn; auto. discriminate.
        - constructor; cbn; auto.
          + intros Hf'. specialize (C6 Hf'). unfold held, unconf_jobs in *. cbn.
            set (U := flat_map jobs_of (w_bindings s)) in *. clearbody U. perm_solve.
          + intros j Hj. apply in_app_or in Hj. destruct Hj as [Hj|[<-|[]]]; [auto|cbn; lia].
          + rewrite map_app. cbn. apply NoDup_snoc; [assumption|]. intros Hin. apply in_map_iff in Hin.
            destruct Hin as (j & Hj1 & Hj2). specialize (K2 j Hj2). lia.
          + discriminate. }
      apply (w_progress_stuckfree _ _ _ C2' H).
    + destruct (hs_eqb (w_hs s) HsAccept && (t =? w_tok s) && (m =? w_pmid s)); [injection H as <- <-; assumption|].
      destruct ((t =? w_ltok s) && (m =? w_lmid s)); [injection H as <- <-; assumption|].
      eapply w_terminate_stuckfree; eassumption.
  - (* Terminated *)
    unfold w_terminated in H. destruct (find_ctrl c (w_bindings s)) as [b|]; [|injection H as <- <-; assumption].
    apply (w_progress_stuckfree _ _ _ (w_end_binding_core s (b_name b) C) H).
Qed.

Theorem wrun_stuckfree sess notify ins : stuckfree (wrun (w_init sess notify) ins).
Proof.
  unfold wrun.
  assert (S0 : stuckfree (w_init sess notify)) by (intros _; left; reflexivity).
  generalize (WCore_init sess notify) S0. generalize (w_init sess notify).
  induction ins as [|i ins IH]; intros s C S; [exact S|]. cbn [fold_left].
  destruct (wp_step s i) as [s' o] eqn:H. cbn. apply IH; [eapply wp_step_core; eassumption|eapply wp_step_stuckfree; eassumption].
Qed.

Lemma requeue_front s ctrl b :
  find_ctrl ctrl (w_bindings s) = Some b -> w_failed s = false -> NoDup (names (w_bindings s)) ->
  wp_step s (WTerminated ctrl) = w_progress (w_end_binding s (b_name b)) /\
  w_pending (w_end_binding s (b_name b)) = map job_of (b_unconf b) ++ w_pending s /\
  lookup (b_name b) (w_bindings (w_end_binding s (b_name b))) = None /\
  ~ In (b_name b) (w_order (w_end_binding s (b_name b))).
Proof.
  intros Hf Hnf Hn. destruct (find_ctrl_in _ _ _ Hf) as [Hin _].
  pose proof (in_lookup b (w_bindings s) Hn Hin) as Hl.
  splits.
  - unfold wp_step. rewrite Hnf. unfold w_terminated. rewrite Hf. reflexivity.
  - unfold w_end_binding. rewrite Hl. reflexivity.
  - unfold w_end_binding. rewrite Hl. cbn. rewrite remove_b_lookup, Z.eqb_refl. reflexivity.
  - unfold w_end_binding. rewrite Hl. cbn. rewrite filter_In. intros [_ Hx]. rewrite Z.eqb_refl in Hx. discriminate.
Qed.
