(* C44 — inductive invariants of the work-pulling producer controller, for EVERY input sequence. *)
From Coq Require Import ZArith List Bool Lia ZifyBool Permutation.
From GV Require Import C42.Model C44.Model C44.Lemmas.
Import ListNotations.
Open Scope Z_scope.

Definition binding_ok (b : binding) : Prop :=
  0 <= b_conf b /\ b_cur b = b_conf b + Z.of_nat (length (b_unconf b)) /\
  map d_wseq (b_unconf b) = zseq (b_conf b) (length (b_unconf b)).

Record WCore (s : wstate) : Prop := {
  wc_names : NoDup (names (w_bindings s));
  wc_order_nodup : NoDup (w_order s);
  wc_order : forall n, In n (w_order s) <-> In n (names (w_bindings s));
  wc_next : (w_next s <= length (w_order s))%nat;
  wc_panic : w_panic s = false;
  wc_cons : w_failed s = false -> Permutation (w_accepted s) (held s ++ w_confirmed s);
  wc_bind : forall b, In b (w_bindings s) -> binding_ok b;
  wc_acc_le : forall j, In j (w_accepted s) -> snd j <= w_sseq s;
  wc_acc_nodup : NoDup (map snd (w_accepted s));
  wc_hs : w_failed s = false -> w_hs s = HsStoredAck ->
          w_psseq s = w_sseq s /\ forall j, In j (w_accepted s) -> snd j < w_sseq s
}.

Lemma WCore_init sess notify : WCore (w_init sess notify).
Proof.
  constructor; cbn; try constructor; try tauto; try lia; try discriminate; intros; try contradiction.
Qed.

(* the part of the state the dispatch machinery never touches *)
Definition frame (s s' : wstate) : Prop :=
  w_sess s' = w_sess s /\ w_notify s' = w_notify s /\ w_sseq s' = w_sseq s /\ w_hs s' = w_hs s /\ w_tok s' = w_tok s /\
  w_pmid s' = w_pmid s /\ w_psseq s' = w_psseq s /\ w_stored s' = w_stored s /\ w_ltok s' = w_ltok s /\ w_lmid s' = w_lmid s /\
  w_ntok s' = w_ntok s /\ w_accepted s' = w_accepted s /\ (w_failed s' = false -> w_failed s = false).

Lemma frame_refl s : frame s s.
Proof. unfold frame. repeat split; auto. Qed.
Lemma frame_trans a b c : frame a b -> frame b c -> frame a c.
Proof. unfold frame. intuition congruence. Qed.

Ltac splits := repeat match goal with |- _ /\ _ => split end.

(* a change of pending / bindings / confirmed that keeps the names and the job multiset *)
Lemma WCore_upd s pending bs confirmed :
  WCore s -> names bs = names (w_bindings s) -> (forall b, In b bs -> binding_ok b) ->
  (w_failed s = false -> Permutation (held s ++ w_confirmed s) ((pending ++ unconf_jobs bs) ++ confirmed)) ->
  WCore (set_ghost (set_core s pending bs (w_order s) (w_next s)) pending (w_accepted s) confirmed).
Proof.
  intros [C1 C2 C3 C4 C5 C6 C7 C8 C9 C10] Hn Hb Hp.
  unfold names, held, unconf_jobs in *. constructor; cbn; try assumption.
  - rewrite Hn. assumption.
  - intros n. rewrite Hn. apply C3.
  - intros Hf. eapply Permutation_trans; [exact (C6 Hf)|exact (Hp Hf)].
Qed.

Lemma set_next_core s k : WCore s -> (k <= length (w_order s))%nat -> WCore (set_next s k).
Proof. intros [C1 C2 C3 C4 C5 C6 C7 C8 C9 C10] Hk. constructor; cbn; auto. Qed.

(* nextEligibleBinding never indexes out of range, only moves the cursor, and returns a live binding with demand *)
Lemma next_eligible_core f s s1 ob :
  WCore s -> w_order s <> [] -> next_eligible f s = (s1, ob) ->
  WCore s1 /\ (exists k, s1 = set_next s k) /\
  (forall b, ob = Some b -> lookup (b_name b) (w_bindings s) = Some b /\ 0 < free_demand b).
Proof.
  revert s. induction f as [|f IH]; intros s C Ho H; cbn [next_eligible] in H.
  - injection H as <- <-. splits; [assumption|exists (w_next s); destruct s; reflexivity|discriminate].
  - set (n := if (length (w_order s) <=? w_next s)%nat then 0%nat else w_next s) in H.
    assert (Hn : (n < length (w_order s))%nat).
    { subst n. destruct (Nat.leb_spec (length (w_order s)) (w_next s)); [|lia]. destruct (w_order s); [congruence|cbn; lia]. }
    destruct (nth_error (w_order s) n) as [name|] eqn:Hnth; [|apply nth_error_None in Hnth; lia].
    assert (C1 : WCore (set_next s (S n))) by (apply set_next_core; [assumption|lia]).
    assert (Hrec : forall r, next_eligible f (set_next s (S n)) = r -> r = (s1, ob) ->
              WCore s1 /\ (exists k, s1 = set_next s k) /\
              (forall b, ob = Some b -> lookup (b_name b) (w_bindings s) = Some b /\ 0 < free_demand b)).
    { intros r Hr ->. destruct (IH (set_next s (S n)) C1 Ho Hr) as (A & [k B] & D). splits; [assumption|exists k; rewrite B; reflexivity|exact D]. }
    cbn [w_bindings set_next set_core] in H.
    destruct (lookup name (w_bindings s)) as [b|] eqn:Hl.
    + destruct (Z.gtb_spec (free_demand b) 0).
      * injection H as <- <-. splits; [assumption|exists (S n); reflexivity|].
        intros b0 [= <-]. split; [|lia]. rewrite (lookup_name _ _ _ Hl). exact Hl.
      * eapply Hrec; [reflexivity|exact H].
    + eapply Hrec; [reflexivity|exact H].
Qed.

Lemma put_b_in b' bs x : In x (put_b b' bs) -> x = b' \/ In x bs.
Proof.
  unfold put_b. destruct (lookup (b_name b') bs).
  - intros H. apply in_map_iff in H. destruct H as (y & Hy & Hin). destruct (b_name y =? b_name b'); [left; auto|right; congruence].
  - intros H. apply in_app_or in H. destruct H as [H|[H|[]]]; auto.
Qed.

Lemma in_names_lookup n bs b : lookup n bs = Some b -> In n (names bs).
Proof. intros H. destruct (in_dec Z.eq_dec n (names bs)); [assumption|]. apply lookup_none in n0. congruence. Qed.

(* replacing binding b by b' in a WCore state *)
Lemma WCore_put s b b' pending confirmed :
  WCore s -> lookup (b_name b') (w_bindings s) = Some b -> binding_ok b' ->
  (w_failed s = false ->
   Permutation ((w_pending s ++ jobs_of b) ++ w_confirmed s) ((pending ++ jobs_of b') ++ confirmed)) ->
  WCore (set_ghost (set_core s pending (put_b b' (w_bindings s)) (w_order s) (w_next s)) pending (w_accepted s) confirmed).
Proof.
  intros C Hl Hok Hp. apply WCore_upd; [assumption|eapply put_b_names; eassumption| |].
  - intros x Hx. apply put_b_in in Hx. destruct Hx as [->|Hx]; [assumption|apply (wc_bind _ C); assumption].
  - intros Hf. specialize (Hp Hf). pose proof (put_b_swap b' (w_bindings s) b (wc_names _ C) Hl) as Hs.
    unfold held. set (U := unconf_jobs (w_bindings s)) in *. set (U' := unconf_jobs (put_b b' (w_bindings s))) in *.
    clearbody U U'. perm_solve.
Qed.

Lemma binding_ok_snoc b d :
  binding_ok b -> d_wseq d = b_cur b + 1 ->
  binding_ok (mkB (b_name b) (b_ctrl b) (b_nonce b) (b_cur b + 1) (b_conf b) (b_demand b) (b_unconf b ++ [d])).
Proof.
  intros (H1 & H2 & H3) Hd. unfold binding_ok. cbn. rewrite app_length, map_app. cbn [length map].
  splits; [assumption|lia|]. rewrite Nat.add_1_r, zseq_snoc, H3. f_equal. f_equal. lia.
Qed.

Lemma w_terminate_core s s' o : WCore s -> w_terminate s = (s', o) -> WCore s' /\ frame s s' /\ w_failed s' = true.
Proof.
  intros C H. unfold w_terminate in H. destruct (w_failed s) eqn:Hf; injection H as <- <-.
  - splits; [assumption|apply frame_refl|assumption].
  - destruct C as [C1 C2 C3 C4 C5 C6 C7 C8 C9 C10]. splits; [|unfold frame; cbn; splits; auto|reflexivity].
    constructor; cbn; auto; discriminate.
Qed.

(* dispatchPending *)
Lemma dispatch_core f s s' o : WCore s -> dispatch f s = (s', o) -> WCore s' /\ frame s s'.
Proof.
  revert s s' o. induction f as [|f IH]; intros s s' o C H; cbn [dispatch] in H.
  { injection H as <- <-. split; [assumption|apply frame_refl]. }
  destruct (w_pending s) as [|work rest] eqn:Hp.
  { injection H as <- <-. split; [assumption|apply frame_refl]. }
  destruct (w_order s) as [|o1 ot] eqn:Ho.
  { injection H as <- <-. split; [assumption|apply frame_refl]. }
  rewrite <- Ho in H.
  destruct (next_eligible (length (w_order s)) s) as [s1 ob] eqn:Hne.
  destruct (next_eligible_core _ _ _ _ C ltac:(rewrite Ho; discriminate) Hne) as (C1 & [k Hk] & Hb).
  destruct ob as [b|].
  2:{ injection H as <- <-. split; [assumption|]. rewrite Hk. unfold frame. cbn. splits; auto. }
  destruct (Hb b eq_refl) as [Hl Hfd].
  assert (Fr1 : frame s s1) by (rewrite Hk; unfold frame; cbn; splits; auto).
  assert (Hl1 : lookup (b_name b) (w_bindings s1) = Some b) by (rewrite Hk; exact Hl).
  assert (Hp1 : w_pending s1 = work :: rest) by (rewrite Hk; exact Hp).
  set (s2 := set_core s1 rest (w_bindings s1) (w_order s1) (w_next s1)) in H.
  destruct (b_cur b >=? maxI64 - 1).
  { (* terminal: the popped job is dropped, the flow is failed *)
    unfold w_terminate in H. destruct (w_failed s2) eqn:Hf2; injection H as <- <-.
    - split; [|eapply frame_trans; [exact Fr1|unfold frame; cbn; splits; auto]].
      destruct C1 as [A1 A2 A3 A4 A5 A6 A7 A8 A9 A10]. constructor; cbn; auto; cbn in Hf2; congruence.
    - split; [|eapply frame_trans; [exact Fr1|unfold frame; cbn; splits; auto; discriminate]].
      destruct C1 as [A1 A2 A3 A4 A5 A6 A7 A8 A9 A10]. constructor; cbn; auto; discriminate. }
  set (d := (fst work, b_cur b + 1, snd work)) in H.
  set (b' := mkB (b_name b) (b_ctrl b) (b_nonce b) (b_cur b + 1) (b_conf b) (b_demand b) (b_unconf b ++ [d])) in H.
  set (s3 := set_bindings s2 (put_b b' (w_bindings s2))) in H.
  destruct (dispatch f s3) as [s4 o4] eqn:Hd. injection H as <- <-.
  assert (C3 : WCore s3).
  { change s3 with (set_ghost (set_core s1 rest (put_b b' (w_bindings s1)) (w_order s1) (w_next s1)) rest (w_accepted s1) (w_confirmed s1)).
    apply (WCore_put s1 b b'); [assumption|exact Hl1| |].
    - apply binding_ok_snoc; [apply (wc_bind _ C1); eapply lookup_in; exact Hl1|reflexivity].
    - intros _. rewrite Hp1. unfold jobs_of. cbn [b_unconf b']. rewrite map_app. cbn [map].
      assert (Hjd : job_of d = work) by (subst d; destruct work; reflexivity). rewrite Hjd.
      change (work :: rest) with ([work] ++ rest). perm_solve. }
  destruct (IH s3 s4 o4 C3 Hd) as [C4 Fr4]. split; [assumption|].
  eapply frame_trans; [exact Fr1|]. eapply frame_trans; [|exact Fr4]. unfold frame. cbn. splits; auto.
Qed.

Lemma w_allow_core s s' o : WCore s -> w_allow s = (s', o) -> WCore s' /\
  w_pending s' = w_pending s /\ w_bindings s' = w_bindings s /\ w_failed s' = w_failed s.
Proof.
  intros C H. unfold w_allow in H. destruct (negb (hs_eqb (w_hs s) HsIdle)); [injection H as <- <-; auto|].
  destruct (agg_free s <=? Z.of_nat (length (w_pending s))); injection H as <- <-; auto.
  destruct C as [C1 C2 C3 C4 C5 C6 C7 C8 C9 C10]. splits; auto. constructor; cbn; auto. discriminate.
Qed.

Lemma w_progress_core s s' o : WCore s -> w_progress s = (s', o) -> WCore s'.
Proof.
  intros C H. unfold w_progress in H. destruct (dispatch (length (w_pending s)) s) as [s1 o1] eqn:Hd.
  destruct (w_allow s1) as [s2 o2] eqn:Ha. injection H as <- <-.
  destruct (dispatch_core _ _ _ _ C Hd) as [C1 _]. apply (w_allow_core _ _ _ C1 Ha).
Qed.

Lemma filter_length_le {A} (f : A -> bool) l : (length (filter f l) <= length l)%nat.
Proof. induction l; cbn; [lia|]. destruct (f a); cbn; lia. Qed.

(* endBinding *)
Lemma w_end_binding_core s n : WCore s -> WCore (w_end_binding s n).
Proof.
  intros C. unfold w_end_binding. destruct (lookup n (w_bindings s)) as [b|] eqn:Hl; [|assumption].
  pose proof C as [C1 C2 C3 C4 C5 C6 C7 C8 C9 C10].
  constructor; cbn; auto.
  - rewrite remove_b_names. apply NoDup_filter. assumption.
  - apply NoDup_filter. assumption.
  - intros m. rewrite remove_b_names, !filter_In. rewrite C3. tauto.
  - destruct (Nat.ltb_spec (length (filter (fun x => negb (x =? n)) (w_order s))) (w_next s)); lia.
  - intros Hf. specialize (C6 Hf). pose proof (remove_b_jobs n (w_bindings s) b C1 Hl) as Hr.
    unfold held in *. cbn. fold (jobs_of b).
    set (U := unconf_jobs (w_bindings s)) in *. set (U' := unconf_jobs (remove_b n (w_bindings s))) in *. clearbody U U'.
    perm_solve.
  - intros x Hx. apply C7. clear -Hx. induction (w_bindings s) as [|a l IH]; cbn in Hx; [contradiction|].
    destruct (b_name a =? n); [right; auto|]. destruct Hx as [->|Hx]; [left; reflexivity|right; auto].
Qed.
