(* C44 tie only: digest comparison of the model's trace with the implementation's (see C42/Tie.v). *)
From Coq Require Import ZArith List Uint63.
From GV Require Import C42.Model C42.Tie C44.Model.
Import ListNotations.

Definition wcheck_case (sess : Z) (notify : bool) (ins : list (list Z * win)) (digests : list int) : option (nat * list Z) :=
  first_diff_h 0 (wfull_trace sess notify ins) digests.
