(* C41: executable model of actor/replicator.go — the per-replica state (store, versions, tombstones,
   keyTypes) and its message handlers as a step function on a logical clock.  Definitions only.

   handleGet is modelled as REPAIRED by /verif/fixes/C41-get-tombstone.diff (a tombstoned key answers
   nil and skips the coordinated read); [step_get_unrepaired] is the handler as it stands in the
   pinned tree, used for the refutation witness. *)
From stdpp Require Import gmap.
From Coq Require Import ZArith.
From GV Require Import C38.Model C38.Exec.

Record tomb := TB { t_type : N; t_at : Z; t_by : N }.

Section repl.
  Context {V U : Type}.
  Context (vmerge : V → V → V) (vdelta : V → option V) (vreset : V → V) (vcompact : V → V).
  Context (apply : U → V → V).
  Context (self : N) (ttl : Z).

  Record rstate := RS {
    r_store : gmap N V;
    r_vers  : gmap N N;
    r_tombs : gmap N tomb;
    r_types : gmap N N
  }.
  Definition r_init := RS ∅ ∅ ∅ ∅.

  (* wire messages after decoding; the *Bad constructors stand for anything the decoder rejects
     (nil key, unspecified/unknown data type, undecodable data) *)
  Inductive dmsg := DMsg (k dtype origin : N) (v : V) | DBad.
  Inductive tmsg := TMsg (k dtype : N) (at_ : Z) (by_ : N) | TBad (by_ : N).
  Inductive fentry := FE (k dtype : N) (v : V) | FEBad.

  Inductive msg :=
  | MUpdate (k dtype : N) (init : V) (u : U) (sender : bool)
  | MDelete (k : N) (now : Z) (sender : bool)
  | MTomb (t : tmsg)
  | MDelta (d : dmsg)
  | MFull (es : list fentry)
  | MDigest (peer : list (N * N)) (sender : bool)
  | MBatch (own : bool) (ds : list dmsg) (ts : list tmsg)
  | MPrune (now : Z)
  | MGet (k : N) (coord : bool) (peers : list (option V))
  | MReadReq (k : option (N * N)).

  Inductive out :=
  | OReplyUpdate | OReplyDelete
  | OPubDelta (k dtype : N) (v : V)
  | OPubTomb (k dtype : N) (at_ : Z)
  | OFull (es : list (N * N * V))
  | OGetResp (v : option V)
  | OReadResp (v : option V).

  Definition bump_ver (vs : gmap N N) (k : N) : gmap N N := <[k := (default 0 (vs !! k) + 1)%N]> vs.

  (* handleUpdate *)
  Definition step_update (s : rstate) (k dtype : N) (init : V) (u : U) (sender : bool) : rstate * list out :=
    let reply := if sender then [OReplyUpdate] else [] in
    if decide (is_Some (r_tombs s !! k)) then (s, reply)
    else
      let '(cur, types) := match r_store s !! k with
                           | Some c => (c, r_types s)
                           | None => (init, <[k := dtype]> (r_types s)) end in
      let updated := apply u cur in
      let delta := vdelta updated in
      let s' := RS (<[k := vreset updated]> (r_store s)) (bump_ver (r_vers s) k) (r_tombs s) types in
      (s', match delta with Some d => [OPubDelta k dtype d] | None => [] end ++ reply).

  (* handleDelete: the tombstone is published only when the key's type is known *)
  Definition step_delete (s : rstate) (k : N) (now : Z) (sender : bool) : rstate * list out :=
    let ty := r_types s !! k in
    let s' := RS (delete k (r_store s)) (delete k (r_vers s))
                 (<[k := TB (default 0%N ty) now self]> (r_tombs s)) (r_types s) in
    (s', match ty with Some t => [OPubTomb k t now] | None => [] end ++ (if sender then [OReplyDelete] else [])).

  (* handleProtoTombstone *)
  Definition step_tomb (s : rstate) (t : tmsg) : rstate :=
    match t with
    | TBad _ => s
    | TMsg k dtype at_ by_ =>
        if decide (by_ = self) then s
        else RS (delete k (r_store s)) (delete k (r_vers s)) (<[k := TB dtype at_ by_]> (r_tombs s)) (r_types s)
    end.

  (* the common tail of handleDelta / handleFullState: store as is when absent, merge when present *)
  Definition absorb (s : rstate) (k dtype : N) (v : V) : rstate :=
    match r_store s !! k with
    | None => RS (<[k := v]> (r_store s)) (bump_ver (r_vers s) k) (r_tombs s) (<[k := dtype]> (r_types s))
    | Some c => RS (<[k := vmerge c v]> (r_store s)) (bump_ver (r_vers s) k) (r_tombs s) (r_types s)
    end.

  (* handleProtoDelta + handleDelta *)
  Definition step_delta (s : rstate) (d : dmsg) : rstate :=
    match d with
    | DBad => s
    | DMsg k dtype origin v =>
        if decide (origin = self) then s
        else if decide (is_Some (r_tombs s !! k)) then s
        else absorb s k dtype v
    end.

  (* handleFullState *)
  Definition step_fentry (s : rstate) (e : fentry) : rstate :=
    match e with
    | FEBad => s
    | FE k dtype v => if decide (is_Some (r_tombs s !! k)) then s else absorb s k dtype v
    end.

  (* handleDigest: entries the peer lacks or holds at an older version *)
  Definition peer_versions (peer : list (N * N)) : gmap N N := foldl (λ m kv, <[kv.1 := kv.2]> m) ∅ peer.
  Definition step_digest (s : rstate) (peer : list (N * N)) (sender : bool) : list out :=
    let pv := peer_versions peer in
    let es := omap (λ kv : N * V,
                 let lv := default 0%N (r_vers s !! kv.1) in
                 match pv !! kv.1 with
                 | Some p => if decide (p < lv)%N then Some (kv.1, default 0%N (r_types s !! kv.1), kv.2) else None
                 | None => Some (kv.1, default 0%N (r_types s !! kv.1), kv.2)
                 end) (map_to_list (r_store s)) in
    match es with [] => [] | _ => if sender then [OFull es] else [] end.

  (* handlePrune *)
  Definition step_prune (s : rstate) (now : Z) : rstate :=
    RS (vcompact <$> r_store s) (r_vers s)
       (filter (λ kt : N * tomb, ¬ (ttl < now - t_at kt.2)%Z) (r_tombs s)) (r_types s).

  (* coordinatedRead: local value merged with every peer response that carries data *)
  Definition coord_read (local : option V) (peers : list (option V)) : option V :=
    foldl (λ acc p, match p with None => acc | Some pv => Some (match acc with None => pv | Some m => vmerge m pv end) end)
          local peers.

  (* handleGet as repaired: a tombstoned key reads as absent and is never fetched back from peers *)
  Definition step_get (s : rstate) (k : N) (coord : bool) (peers : list (option V)) : rstate * list out :=
    if decide (is_Some (r_tombs s !! k)) then (s, [OGetResp None])
    else
      let data := r_store s !! k in
      if coord then
        let merged := coord_read data peers in
        (match merged with Some m => RS (<[k := m]> (r_store s)) (r_vers s) (r_tombs s) (r_types s) | None => s end,
         [OGetResp merged])
      else (s, [OGetResp data]).

  (* handleGet in the pinned tree: no tombstone check *)
  Definition step_get_unrepaired (s : rstate) (k : N) (coord : bool) (peers : list (option V)) : rstate * list out :=
    let data := r_store s !! k in
    if coord then
      let merged := coord_read data peers in
      (match merged with Some m => RS (<[k := m]> (r_store s)) (r_vers s) (r_tombs s) (r_types s) | None => s end,
       [OGetResp merged])
    else (s, [OGetResp data]).

  Definition step (s : rstate) (m : msg) : rstate * list out :=
    match m with
    | MUpdate k dtype init u sender => step_update s k dtype init u sender
    | MDelete k now sender => step_delete s k now sender
    | MTomb t => (step_tomb s t, [])
    | MDelta d => (step_delta s d, [])
    | MFull es => (foldl step_fentry s es, [])
    | MDigest peer sender => (s, step_digest s peer sender)
    | MBatch own ds ts => if own then (s, []) else (foldl step_tomb (foldl step_delta s ds) ts, [])
    | MPrune now => (step_prune s now, [])
    | MGet k coord peers => step_get s k coord peers
    | MReadReq None => (s, [])
    | MReadReq (Some (k, _)) => (s, [OReadResp (r_store s !! k)])
    end.

  Definition run (s : rstate) (ms : list msg) : rstate := foldl (λ s m, (step s m).1) s ms.
End repl.

Arguments rstate : clear implicits.
Arguments RS {V}.
Arguments r_store {V}. Arguments r_vers {V}. Arguments r_tombs {V}. Arguments r_types {V}.
Arguments r_init {V}.
Arguments dmsg : clear implicits.
Arguments tmsg : clear implicits.
Arguments fentry : clear implicits.
Arguments msg : clear implicits.
Arguments out : clear implicits.
Arguments DBad {V}. Arguments FEBad {V}.
