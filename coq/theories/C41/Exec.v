(* C41: the multi-replica history interpreter of go/inpkg/actor/zz_verif_C41_test.go over the model,
   instantiated with the CRDT values of C38 (GCounter and ORSet keys).  Definitions only. *)
From stdpp Require Import gmap.
From Coq Require Import ZArith.
From GV Require Import C38.Model C38.Exec C41.Model.

Inductive upd := UInc (n v : N) | UAdd (n e : N) | URem (e : N) | UAddRem (n e : N).
Definition apply0 (u : upd) (c : val0) : val0 :=
  match u, c with
  | UInc n v, VG g => VG (g_inc g n v)
  | UAdd n e, VS s => VS (s_add s n e)
  | URem e, VS s => VS (s_remove s e)
  | UAddRem n e, VS s => VS (s_remove (s_add s n e) e)
  | _, _ => c
  end.

Notation st := (rstate val0).
Definition rstep (self : N) (ttl : Z) := step merge0 delta0 reset0 compact0 apply0 self ttl.

(* what a decoded wire value looks like: delta bookkeeping is not shipped *)
Definition wire (v : val0) : val0 := reset0 v.

Definition dval (v : val0) : tree := T [L (tag0 v); value0 v; core0 v].
Definition doval (v : option val0) : tree := match v with Some x => dval x | None => T [] end.

Definition dstate (s : st) : tree :=
  T [ TS ((λ kv : N * val0, T [LN kv.1; dval kv.2]) <$> map_to_list (r_store s));
      TS ((λ kv : N * N, T [LN kv.1; LN kv.2]) <$> map_to_list (r_vers s));
      TS ((λ kt : N * tomb, T [LN kt.1; LN (t_type kt.2); L (t_at kt.2); LN (t_by kt.2)]) <$> map_to_list (r_tombs s));
      TS ((λ kv : N * N, T [LN kv.1; LN kv.2]) <$> map_to_list (r_types s)) ].

(* captured outgoing wire messages *)
Inductive wmsg := WDelta (k dtype origin : N) (v : val0) | WTomb (k dtype : N) (at_ : Z) (by_ : N) | WFull (es : list (N * N * val0)).

Definition dwmsg (w : wmsg) : tree :=
  match w with
  | WDelta k ty o v => T [L 1; LN k; LN (ty + 1); LN o; dval v]
  | WTomb k ty a b => T [L 2; LN k; LN (ty + 1); L a; LN b]
  | WFull es => T [L 3; TS ((λ e : N * N * val0, T [LN e.1.1; LN (e.1.2 + 1); dval e.2]) <$> es)]
  end.

Definition wire_of (self : N) (o : out val0) : option wmsg :=
  match o with
  | OPubDelta k ty v => Some (WDelta k ty self (wire v))
  | OPubTomb k ty a => Some (WTomb k ty a self)
  | OFull es => Some (WFull ((λ e : N * N * val0, (e.1, wire e.2)) <$> es))
  | _ => None
  end.
Definition resp_of (o : out val0) : option tree :=
  match o with
  | OReplyUpdate => Some (T [L 1])
  | OReplyDelete => Some (T [L 2])
  | OGetResp v => Some (T [L 3; doval v])
  | OReadResp v => Some (T [L 4; doval (wire <$> v)])
  | _ => None
  end.

Definition to_msg (w : wmsg) : msg val0 upd :=
  match w with
  | WDelta k ty o v => MDelta (DMsg k ty o v)
  | WTomb k ty a b => MTomb (TMsg k ty a b)
  | WFull es => MFull ((λ e : N * N * val0, FE e.1.1 e.1.2 e.2) <$> es)
  end.

Definition key_type (k : N) : N := if (k <? 2)%N then 0%N else 3%N.
Definition key_init (k : N) : val0 := if (k <? 2)%N then VG g_new else VS s_new.

(* history items (first argument: the replica that receives the message) *)
Inductive hmsg :=
| HUpdate (r : nat) (k : N) (u : upd) (sender : bool)
| HDelete (r : nat) (k : N) (now : Z) (sender : bool)
| HGet (r : nat) (k : N)
| HGetc (r : nat) (k : N) (peers : list nat)
| HPrune (r : nat) (now : Z)
| HDigest (r src : nat)
| HDeliver (r out : nat)
| HTomb (r : nat) (t : tmsg)
| HBadDelta (r : nat)
| HFull (r : nat) (es : list (N * nat * bool))     (* key, replica whose current value is shipped, bad *)
| HBatch (r : nat) (own : bool) (ds ts : list nat)
| HReadReq (r : nat) (k : option N).

Record hstate := HS { h_reps : list st; h_outs : list wmsg }.

Definition rep (h : hstate) (r : nat) : st := default r_init (h_reps h !! r).

Definition digest_of (s : st) : list (N * N) :=
  (λ kv : N * val0, (kv.1, default 0%N (r_vers s !! kv.1))) <$> map_to_list (r_store s).

Definition hmsg_to_msg (ttl : Z) (h : hstate) (m : hmsg) : nat * msg val0 upd :=
  match m with
  | HUpdate r k u sender => (r, MUpdate k (key_type k) (key_init k) u sender)
  | HDelete r k now sender => (r, MDelete k now sender)
  | HGet r k => (r, MGet k false [])
  | HGetc r k peers => (r, MGet k true ((λ p, wire <$> (r_store (rep h p) !! k)) <$> peers))
  | HPrune r now => (r, MPrune now)
  | HDigest r src => (r, MDigest (digest_of (rep h src)) true)
  | HDeliver r o => (r, match h_outs h !! o with Some w => to_msg w | None => MReadReq None end)
  | HTomb r t => (r, MTomb t)
  | HBadDelta r => (r, MDelta DBad)
  | HFull r es => (r, MFull ((λ e : N * nat * bool,
                      let '(k, from, bad) := e in
                      if bad then FEBad else
                      match r_store (rep h from) !! k with
                      | Some v => FE k (key_type k) (wire v)
                      | None => FEBad (* nil data does not decode *)
                      end) <$> es))
  | HBatch r own ds ts =>
      (r, MBatch own
            (omap (λ i, match h_outs h !! i with Some (WDelta k ty o v) => Some (DMsg k ty o v) | _ => None end) ds)
            (omap (λ i, match h_outs h !! i with Some (WTomb k ty a b) => Some (TMsg k ty a b) | _ => None end) ts))
  | HReadReq r k => (r, MReadReq ((λ k, (k, key_type k)) <$> k))
  end.

Definition hstep (ttl : Z) (h : hstate) (m : hmsg) : hstate * tree :=
  let '(r, mm) := hmsg_to_msg ttl h m in
  let self := N.of_nat r in
  let '(s', outs) := rstep self ttl (rep h r) mm in
  let ws := omap (wire_of self) outs in
  let resp := match omap resp_of outs with x :: _ => x | [] => T [] end in
  (HS (<[r := s']> (h_reps h)) (h_outs h ++ ws),
   T [dstate s'; T (dwmsg <$> ws); resp]).

Fixpoint hrun (ttl : Z) (h : hstate) (ms : list hmsg) : list tree :=
  match ms with [] => [] | m :: r => let '(h', t) := hstep ttl h m in t :: hrun ttl h' r end.

Definition hinit (n : nat) : hstate := HS (replicate n r_init) [].

Definition check_hist (ttl : Z) (n : nat) (ms : list hmsg) (want : list tree) : option nat :=
  first_diff 0 (hrun ttl (hinit n) ms) want.
