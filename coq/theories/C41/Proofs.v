(* C41: deleted keys stay deleted until the tombstone expires — invariants of the replicator step. *)
From stdpp Require Import gmap.
From Coq Require Import ZArith Lia.
From GV Require Import C38.Model C38.Exec C41.Model C41.Exec.

Section proofs.
  Context {V U : Type}.
  Context (vmerge : V → V → V) (vdelta : V → option V) (vreset : V → V) (vcompact : V → V).
  Context (apply : U → V → V).
  Context (self : N) (ttl : Z).

  Notation state := (rstate V).
  Notation stepf := (step vmerge vdelta vreset vcompact apply self ttl).
  Notation runf := (run vmerge vdelta vreset vcompact apply self ttl).

  (* THE invariant: a tombstoned key has no value and no version. *)
  Definition inv (s : state) : Prop :=
    ∀ k, is_Some (r_tombs s !! k) → r_store s !! k = None ∧ r_vers s !! k = None.

  Lemma inv_init : inv r_init.
  Proof. intros k [t Ht]. simpl in Ht. rewrite lookup_empty in Ht. discriminate. Qed.

  Lemma absorb_tombs s k ty v : r_tombs (absorb vmerge s k ty v) = r_tombs s.
  Proof. unfold absorb. destruct (r_store s !! k); reflexivity. Qed.

  Lemma inv_absorb s k ty v : inv s → r_tombs s !! k = None → inv (absorb vmerge s k ty v).
  Proof.
    intros H Hk j Hj. rewrite absorb_tombs in Hj.
    assert (j ≠ k) as Hne by (intros ->; rewrite Hk in Hj; destruct Hj; discriminate).
    destruct (H j Hj) as [H1 H2]. unfold absorb, bump_ver.
    destruct (r_store s !! k); simpl; rewrite !lookup_insert_ne by congruence; auto.
  Qed.

  Lemma inv_tomb s t : inv s → inv (step_tomb self s t).
  Proof.
    intros H. destruct t as [k ty a b|b]; simpl; [|exact H].
    destruct (decide (b = self)); [exact H|]. intros j Hj. simpl in *.
    destruct (decide (j = k)) as [->|Hne].
    - rewrite !lookup_delete. auto.
    - rewrite lookup_insert_ne in Hj by congruence. rewrite !lookup_delete_ne by congruence. auto.
  Qed.

  Lemma inv_delta s d : inv s → inv (step_delta vmerge self s d).
  Proof.
    intros H. destruct d as [k ty o v|]; simpl; [|exact H].
    destruct (decide (o = self)); [exact H|]. destruct (decide (is_Some _)) as [|Hn]; [exact H|].
    apply inv_absorb; [exact H|]. destruct (r_tombs s !! k) eqn:E; [exfalso; apply Hn; eauto|reflexivity].
  Qed.

  Lemma inv_fentry s e : inv s → inv (step_fentry vmerge s e).
  Proof.
    intros H. destruct e as [k ty v|]; simpl; [|exact H].
    destruct (decide (is_Some _)) as [|Hn]; [exact H|].
    apply inv_absorb; [exact H|]. destruct (r_tombs s !! k) eqn:E; [exfalso; apply Hn; eauto|reflexivity].
  Qed.

  Lemma inv_foldl {A} (f : state → A → state) (l : list A) s :
    (∀ s a, inv s → inv (f s a)) → inv s → inv (foldl f s l).
  Proof. intros Hf. revert s. induction l as [|a l IH]; intros s H; simpl; [exact H|]. apply IH, Hf, H. Qed.

  Lemma inv_prune s now : inv s → inv (step_prune vcompact ttl s now).
  Proof.
    intros H k [t Ht]. simpl in *. apply map_filter_lookup_Some in Ht as [Ht _].
    destruct (H k (ex_intro _ t Ht)) as [H1 H2]. rewrite lookup_fmap, H1. auto.
  Qed.

  (* Every handler preserves the invariant. *)
  Theorem inv_step s m : inv s → inv (stepf s m).1.
  Proof.
    intros H. destruct m as [k ty init u sd|k now sd|t|d|es|peer sd|own ds ts|now|k coord peers|[[k ty]|]]; simpl.
    - unfold step_update. destruct (decide (is_Some _)) as [|Hn]; [exact H|].
      assert (r_tombs s !! k = None) as Hk by (destruct (r_tombs s !! k); [exfalso; apply Hn; eauto|reflexivity]).
      destruct (r_store s !! k) eqn:Es; simpl.
      + intros j Hj. simpl in *. assert (j ≠ k) as Hne by (intros ->; rewrite Hk in Hj; destruct Hj; discriminate).
        destruct (H j Hj). unfold bump_ver. rewrite !lookup_insert_ne by congruence. auto.
      + intros j Hj. simpl in *. assert (j ≠ k) as Hne by (intros ->; rewrite Hk in Hj; destruct Hj; discriminate).
        destruct (H j Hj). unfold bump_ver. rewrite !lookup_insert_ne by congruence. auto.
    - intros j Hj. simpl in *. destruct (decide (j = k)) as [->|Hne].
      + rewrite !lookup_delete. auto.
      + rewrite lookup_insert_ne in Hj by congruence. rewrite !lookup_delete_ne by congruence. auto.
    - apply inv_tomb, H.
    - apply inv_delta, H.
    - apply inv_foldl; [intros; apply inv_fentry; assumption|exact H].
    - exact H.
    - destruct own; simpl; [exact H|].
      apply inv_foldl; [intros; apply inv_tomb; assumption|].
      apply inv_foldl; [intros; apply inv_delta; assumption|exact H].
    - apply inv_prune, H.
    - unfold step_get. destruct (decide (is_Some _)) as [|Hn]; [exact H|].
      destruct coord; simpl; [|exact H].
      destruct (coord_read _ _ _) as [m|]; [|exact H].
      assert (r_tombs s !! k = None) as Hk by (destruct (r_tombs s !! k); [exfalso; apply Hn; eauto|reflexivity]).
      intros j Hj. simpl in *. assert (j ≠ k) as Hne by (intros ->; rewrite Hk in Hj; destruct Hj; discriminate).
      destruct (H j Hj). rewrite lookup_insert_ne by congruence. auto.
    - exact H.
    - exact H.
  Qed.

  (* ... hence it holds after ANY message history (any senders, any order, duplication, loss). *)
  Theorem inv_run ms : ∀ s, inv s → inv (runf s ms).
  Proof.
    induction ms as [|m ms IH]; intros s H; simpl; [exact H|].
    apply IH. apply inv_step. exact H.
  Qed.

  (* Updates / deltas / full-state entries / cross-DC batch deltas for a tombstoned key are ignored. *)
  Theorem update_ignored s k ty init u sd :
    is_Some (r_tombs s !! k) →
    stepf s (MUpdate k ty init u sd) = (s, if sd then [OReplyUpdate] else []).
  Proof. intros Hk. simpl. unfold step_update. destruct (decide _); [reflexivity|contradiction]. Qed.

  Theorem delta_ignored s k ty o v :
    is_Some (r_tombs s !! k) → stepf s (MDelta (DMsg k ty o v)) = (s, []).
  Proof. intros Hk. simpl. destruct (decide (o = self)); [reflexivity|]. destruct (decide _); [reflexivity|contradiction]. Qed.

  Lemma fentry_keeps s e k : is_Some (r_tombs s !! k) →
    is_Some (r_tombs (step_fentry vmerge s e) !! k) ∧
    r_store (step_fentry vmerge s e) !! k = r_store s !! k ∧ r_vers (step_fentry vmerge s e) !! k = r_vers s !! k.
  Proof.
    intros Hk. destruct e as [j ty v|]; simpl; [|auto].
    destruct (decide (is_Some (r_tombs s !! j))) as [|Hn]; [auto|].
    assert (j ≠ k) as Hne by (intros ->; contradiction).
    rewrite absorb_tombs. split; [exact Hk|]. unfold absorb, bump_ver.
    destruct (r_store s !! j); simpl; rewrite !lookup_insert_ne by congruence; auto.
  Qed.
  Theorem full_state_ignored es : ∀ s k, is_Some (r_tombs s !! k) →
    r_store (stepf s (MFull es)).1 !! k = r_store s !! k ∧ r_vers (stepf s (MFull es)).1 !! k = r_vers s !! k ∧
    is_Some (r_tombs (stepf s (MFull es)).1 !! k).
  Proof.
    simpl. induction es as [|e es IH]; intros s k Hk; simpl; [auto|].
    destruct (fentry_keeps s e k Hk) as (H1 & H2 & H3).
    destruct (IH _ k H1) as (I1 & I2 & I3). rewrite I1, I2, H2, H3. auto.
  Qed.

  (* Only Prune with now - deletedAt > ttl removes a tombstone. *)
  Lemma tomb_keeps (s : state) t k : is_Some (r_tombs s !! k) → is_Some (r_tombs (step_tomb self s t) !! k).
  Proof.
    intros Hk. destruct t as [j ty a b|b]; simpl; [|exact Hk]. destruct (decide (b = self)); [exact Hk|]. simpl.
    destruct (decide (k = j)) as [->|Hne]; [rewrite lookup_insert; eauto|rewrite lookup_insert_ne by congruence; exact Hk].
  Qed.
  Lemma delta_tombs s d : r_tombs (step_delta vmerge self s d) = r_tombs s.
  Proof.
    destruct d as [k ty o v|]; simpl; [|reflexivity]. destruct (decide _); [reflexivity|].
    destruct (decide _); [reflexivity|apply absorb_tombs].
  Qed.
  Lemma fentry_tombs s e : r_tombs (step_fentry vmerge s e) = r_tombs s.
  Proof. destruct e as [k ty v|]; simpl; [|reflexivity]. destruct (decide _); [reflexivity|apply absorb_tombs]. Qed.
  Lemma foldl_tombs {A} (f : state → A → state) l : (∀ (s : state) a, r_tombs (f s a) = r_tombs s) → ∀ s : state, r_tombs (foldl f s l) = r_tombs s.
  Proof. intros Hf. induction l as [|a l IH]; intros s; simpl; [reflexivity|]. rewrite IH. apply Hf. Qed.
  Lemma foldl_tomb_keeps ts : ∀ (s : state) k, is_Some (r_tombs s !! k) → is_Some (r_tombs (foldl (step_tomb self) s ts) !! k).
  Proof. induction ts as [|t ts IH]; intros s k Hk; simpl; [exact Hk|]. apply IH, tomb_keeps, Hk. Qed.

  Theorem tombstone_lifetime s m k t :
    r_tombs s !! k = Some t → r_tombs (stepf s m).1 !! k = None →
    ∃ now, m = MPrune now ∧ (ttl < now - t_at t)%Z.
  Proof.
    intros Ht Hn.
    assert (is_Some (r_tombs s !! k)) as Hs by eauto.
    destruct m as [j ty init u sd|j now sd|tm|d|es|peer sd|own ds ts|now|j coord peers|[[j ty]|]]; simpl in Hn.
    - unfold step_update in Hn. destruct (decide _); simpl in Hn; [congruence|].
      destruct (r_store s !! j); simpl in Hn; congruence.
    - destruct (decide (k = j)) as [->|Hne]; [rewrite lookup_insert in Hn; discriminate|].
      rewrite lookup_insert_ne in Hn by congruence. congruence.
    - pose proof (tomb_keeps s tm k Hs) as [x Hx]. congruence.
    - rewrite delta_tombs in Hn. congruence.
    - rewrite (foldl_tombs _ es (fentry_tombs)) in Hn. congruence.
    - congruence.
    - destruct own; simpl in Hn; [congruence|].
      assert (is_Some (r_tombs (foldl (step_delta vmerge self) s ds) !! k)) as H1
        by (rewrite (foldl_tombs _ ds delta_tombs); exact Hs).
      pose proof (foldl_tomb_keeps ts _ k H1) as [x Hx]. congruence.
    - exists now. split; [reflexivity|]. apply map_filter_lookup_None in Hn as [Hn|Hn]; [congruence|].
      specialize (Hn t Ht). simpl in Hn. lia.
    - unfold step_get in Hn. destruct (decide _); simpl in Hn; [congruence|].
      destruct coord; simpl in Hn; [|congruence]. destruct (coord_read _ _ _); simpl in Hn; congruence.
    - congruence.
    - congruence.
  Qed.
  (* and Prune removes exactly the expired ones *)
  Theorem prune_exact s now k t : r_tombs s !! k = Some t →
    (r_tombs (stepf s (MPrune now)).1 !! k = None ↔ (ttl < now - t_at t)%Z).
  Proof.
    intros Ht. simpl. split.
    - intros Hn. apply map_filter_lookup_None in Hn as [Hn|Hn]; [congruence|]. specialize (Hn t Ht). simpl in Hn. lia.
    - intros Hlt. apply map_filter_lookup_None. right. intros t' Ht'. simpl. assert (t' = t) as -> by congruence. lia.
  Qed.

  (* A replica holding the tombstone never exposes the key: Get (plain or coordinated, whatever the peers
     answer), read requests and digests/full states it sends. *)
  Theorem not_exposed s k : inv s → is_Some (r_tombs s !! k) →
    (∀ coord peers, stepf s (MGet k coord peers) = (s, [OGetResp None])) ∧
    (∀ ty, (stepf s (MReadReq (Some (k, ty)))).2 = [OReadResp None]) ∧
    (∀ peer sd es, (stepf s (MDigest peer sd)).2 = [OFull es] → ∀ e, e ∈ es → e.1.1 ≠ k).
  Proof.
    intros Hi Hk. destruct (Hi k Hk) as [Hs Hv]. repeat split.
    - intros coord peers. simpl. unfold step_get. destruct (decide _); [reflexivity|contradiction].
    - intros ty. simpl. rewrite Hs. reflexivity.
    - intros peer sd es Hd e He Hek. simpl in Hd. unfold step_digest in Hd.
      destruct (omap _ _) as [|x l] eqn:Eo; [discriminate|]. destruct sd; [|discriminate]. injection Hd as <-.
      rewrite <- Eo in He. apply elem_of_list_omap in He as [[j v] [Hj Hf]].
      apply elem_of_map_to_list in Hj. simpl in Hf.
      assert (e.1.1 = j) as Hej.
      { destruct (peer_versions peer !! j); [destruct (decide _)|]; inversion Hf; reflexivity. }
      rewrite Hej in Hek. rewrite Hek in Hj. congruence.
  Qed.

  (* The handler as it stands in the pinned tree breaks the invariant: a coordinated Get on a
     tombstoned key stores and returns what a peer (that has not seen the tombstone yet) answers. *)
  Lemma get_unrepaired_breaks s k v : is_Some (r_tombs s !! k) →
    let r := step_get_unrepaired vmerge s k true [Some v] in
    is_Some (r_tombs r.1 !! k) ∧ is_Some (r_store r.1 !! k) ∧ ∃ x, r.2 = [OGetResp (Some x)].
  Proof.
    intros Hk. unfold step_get_unrepaired. simpl.
    destruct (r_store s !! k) as [c|] eqn:E; simpl; rewrite lookup_insert; eauto.
  Qed.
End proofs.

(* concrete, non-trivial instances *)
Example c41_example_inv :
  let s := run merge0 delta0 reset0 compact0 apply0 0%N 100%Z r_init
             [MUpdate 0%N 0%N (VG g_new) (UInc 0%N 3%N) true; MDelete 0%N 50%Z true;
              MDelta (DMsg 0%N 0%N 1%N (VG (g_inc g_new 1%N 2%N)));
              MFull [FE 0%N 0%N (VG (g_inc g_new 1%N 2%N)); FE 1%N 0%N (VG (g_inc g_new 1%N 2%N))]] in
  is_Some (r_tombs s !! 0%N) ∧ r_store s !! 0%N = None ∧ is_Some (r_store s !! 1%N).
Proof. vm_compute. repeat split; eauto. Qed.

Example c41_example_prune :
  let s := run merge0 delta0 reset0 compact0 apply0 0%N 100%Z r_init
             [MDelete 0%N 50%Z false; MPrune 150%Z] in
  let s' := run merge0 delta0 reset0 compact0 apply0 0%N 100%Z s [MPrune 151%Z] in
  is_Some (r_tombs s !! 0%N) ∧ r_tombs s' !! 0%N = None.
Proof. vm_compute. split; eauto. Qed.

Lemma c41_get_refuted :
  ∃ (s : rstate val0) (k : N) (v : val0),
    inv s ∧ is_Some (r_tombs s !! k) ∧
    let r := step_get_unrepaired merge0 s k true [Some v] in
    ¬ inv r.1 ∧ r.2 = [OGetResp (Some v)].
Proof.
  exists (RS ∅ ∅ {[ 0%N := TB 0%N 50%Z 1%N ]} ∅), 0%N, (VG (g_inc g_new 1%N 2%N)).
  split; [|split].
  - intros k [t Ht]. simpl. rewrite !lookup_empty. auto.
  - vm_compute. eauto.
  - split; [|reflexivity].
    intros H. specialize (H 0%N). destruct H as [H _]; [vm_compute; eauto|]. vm_compute in H. discriminate.
Qed.
