(* C02: the UnboundedFairMailbox (one sender key) in the mailbox interface, and the witness that it
   breaks the contract: after two producers with the same sender key interleave, the mailbox holds two
   accepted, fully published messages, reports non-empty, and Dequeue returns nil for ever. *)
From Coq Require Import List Arith Bool Lia.
From GV Require Import C01.Model C02.Contract.
Import ListNotations.

(* one senderBox: inner Vyukov queue, active flag (sender is in activeSenders), pending counter, length *)
Record fair_t := MkFair { f_inner : fifo_t; f_active : bool; f_pending : nat; f_len : nat }.

Definition fair_deq (m : fair_t) : option msg * fair_t :=
  if negb (f_active m) then (None, m)                       (* activeSenders.dequeue() == nil *)
  else match f_inner m with
       | (x, true) :: r =>                                   (* sq.mailbox.Dequeue() != nil *)
           let remaining := pred (f_pending m) in
           (Some x, MkFair r (0 <? remaining) remaining (pred (f_len m)))   (* finalizeSender: re-enqueue iff remaining > 0 *)
       | _ => (None, MkFair (f_inner m) false (f_pending m) (f_len m))      (* nil: sq.active.Store(false); return *)
       end.

Definition fair1 : mbox := {|
  mb_t := fair_t;
  mb_init := MkFair [] false 0 0;
  mb_reserve := fun m x => Some (MkFair (f_inner m ++ [(x, false)]) (f_active m) (f_pending m) (f_len m));   (* tail swap *)
  (* link; length++; if pending++ == 0 { if active.CAS(false,true) { active.enqueue(sq) } } *)
  mb_publish := fun m x => MkFair (fifo_publish (f_inner m) x) (if f_pending m =? 0 then true else f_active m)
                                  (S (f_pending m)) (S (f_len m));
  mb_deq := fair_deq;
  mb_empty := fun m => f_len m =? 0;
  mb_pend := fun m => map fst (f_inner m);
  mb_unpub := fun m => map fst (filter (fun e => negb (snd e)) (f_inner m));
|}.

(* P1 reserves m0 (stalls before the link); P2 enqueues m1 completely; the consumer pops the sender, sees
   nil and deactivates it; P1 completes: pending becomes 2, not 1, so the sender is never re-activated. *)
Definition fair_witness : fair_t :=
  let m0 := mb_init fair1 in
  let m1 := match mb_reserve fair1 m0 0 with Some m => m | None => m0 end in
  let m2 := match mb_reserve fair1 m1 1 with Some m => m | None => m1 end in
  let m3 := mb_publish fair1 m2 1 in
  let m4 := snd (mb_deq fair1 m3) in
  mb_publish fair1 m4 0.

Theorem fair_stall_refuted :
  mb_unpub fair1 fair_witness = [] /\ mb_pend fair1 fair_witness = [0; 1] /\
  mb_empty fair1 fair_witness = false /\ mb_deq fair1 fair_witness = (None, fair_witness) /\
  ~ mbox_ok fair1.
Proof.
  repeat split; try (vm_compute; reflexivity).
  intros H. destruct (ok_deq_live _ H fair_witness) as (x & m' & E); try (vm_compute; congruence).
  vm_compute in E. discriminate.
Qed.

(* ------------------------------------------------------------------------------------------
   BoundedMailbox after Dispose() (the actor stopped itself with messages left): the Workiva ring
   keeps its length but Get fails for ever.  In the interface: IsEmpty() = (Len()==0) ignores the
   disposed flag while Dequeue() returns nil.  It breaks the contract, hence a turn on it reclaims
   for ever (the worker never leaves the stopped actor). *)
Record bdisp_t := MkBd { bd_q : fifo_t; bd_disposed : bool }.
Definition bounded_disposable (fixed : bool) : mbox := {|
  mb_t := bdisp_t;
  mb_init := MkBd [] false;
  mb_reserve := fun m x => if bd_disposed m then None else Some (MkBd (bd_q m ++ [(x, false)]) false);
  mb_publish := fun m x => MkBd (fifo_publish (bd_q m) x) (bd_disposed m);
  mb_deq := fun m => if bd_disposed m then (None, m)
                     else match bd_q m with (x, true) :: r => (Some x, MkBd r false) | _ => (None, m) end;
  mb_empty := fun m => (fixed && bd_disposed m) || match bd_q m with (_, true) :: _ => false | _ => true end;
  mb_pend := fun m => if bd_disposed m then [] else map fst (bd_q m);     (* Dispose drops what is left *)
  mb_unpub := fun m => if bd_disposed m then [] else map fst (filter (fun e => negb (snd e)) (bd_q m));
|}.
(* two published messages left, then Dispose() *)
Definition disposed_witness : bdisp_t := MkBd [(2, true); (3, true)] true.

Theorem disposed_bounded_refuted :
  mb_pend (bounded_disposable false) disposed_witness = [] /\
  mb_empty (bounded_disposable false) disposed_witness = false /\
  mb_deq (bounded_disposable false) disposed_witness = (None, disposed_witness) /\
  ~ mbox_ok (bounded_disposable false) /\
  (* with IsEmpty() = IsDisposed() || Len()==0 the disposed mailbox reports empty *)
  mb_empty (bounded_disposable true) disposed_witness = true.
Proof.
  repeat split; try (vm_compute; reflexivity).
  intros H. pose proof (ok_empty_live _ H disposed_witness eq_refl) as E. vm_compute in E. discriminate.
Qed.
