(* C02: accepted messages are handled at most once and never invented; no lost wake-up.
   Inductive invariants over M-DISPATCH (C01/Model.v) for every mailbox pair satisfying the contract. *)
From Coq Require Import List Arith Bool Lia Permutation.
From GV Require Import C01.Model C01.Proofs C02.Contract.
Import ListNotations.

(* counting functions over program counters *)
Definition resv (b : bool) (y : msg) (p : pc) : nat :=
  match p with PReserved b' x => if Bool.eqb b b' && (x =? y) then 1 else 0 | _ => 0 end.
Definition resvb (b : bool) (p : pc) : nat :=
  match p with PReserved b' _ => if Bool.eqb b b' then 1 else 0 | _ => 0 end.
(* a producer between its accepted enqueue and the end of TrySchedule *)
Definition prod_mid (p : pc) : nat := match p with PReserved _ _ | PPublished | PCas => 1 | _ => 0 end.
(* an owner between reset() and the end of the emptiness re-check / reclaim, that has not yet seen the user
   (resp. system) mailbox empty *)
Definition post_usr (g : bool) (p : pc) : nat :=
  match p with
  | WChkUsr _ | WRecLoad _ | WRecCas _ => 1
  | WChkSys _ | WChkPaused _ => if g then 1 else 0
  | _ => 0
  end.
Definition post_sys (g : bool) (p : pc) : nat :=
  match p with
  | WChkSys _ | WRecLoad _ | WRecCas _ => 1
  | WChkUsr _ => if g then 0 else 1
  | _ => 0
  end.

Section Proofs.
  Variables MBs MBu : mbox.
  Hypothesis HS : mbox_ok MBs.
  Hypothesis HU : mbox_ok MBu.
  Notation state := (state MBs MBu).
  Notation step := (step MBs MBu).
  Notation reach := (reach MBs MBu).

  (* ============================================================ ghost accounting *)
  Definition GhostInv (s : state) : Prop :=
    (forall y, occ y (mb_unpub MBu (usrq s)) = cnt (resv false y) (ths s)) /\
    (forall y, occ y (mb_unpub MBs (sysq s)) = cnt (resv true y) (ths s)) /\
    (forall y, occ y (accepted s) = occ y (mb_pend MBs (sysq s)) + occ y (mb_pend MBu (usrq s)) + occ y (handled s)) /\
    (forall y, nextid s <= y -> occ y (accepted s) = 0) /\
    (forall y, occ y (accepted s) <= 1).

  Lemma ghost_init : GhostInv (init_state MBs MBu).
  Proof.
    unfold GhostInv, init_state; simpl. destruct (ok_init _ HS) as [A B]. destruct (ok_init _ HU) as [C D].
    rewrite A, B, C, D. simpl. repeat split; auto.
  Qed.

  Ltac g_upd Hn y :=
    match goal with
    | |- context [upd ?th ?i ?p] =>
        pose proof (cnt_upd (resv false y) th i _ p Hn); pose proof (cnt_upd (resv true y) th i _ p Hn)
    end.

  (* a thread step that touches neither mailbox nor the ghost lists *)
  Lemma ghost_pc (s : state) i p p' : GhostInv s -> nth_error (ths s) i = Some p ->
    (forall b y, resv b y p = 0) -> (forall b y, resv b y p' = 0) ->
    forall v tk pa off, GhostInv (MkState MBs MBu v tk (sysq s) (usrq s) pa (upd (ths s) i p') (nextid s) (accepted s) (handled s) off).
  Proof.
    intros (G1 & G2 & G3 & G4 & G5) Hn Z Z' v tk pa off. unfold GhostInv; simpl.
    repeat split; auto; intros y.
    - pose proof (cnt_upd (resv false y) _ _ _ p' Hn). rewrite Z, Z' in *. specialize (G1 y). lia.
    - pose proof (cnt_upd (resv true y) _ _ _ p' Hn). rewrite Z, Z' in *. specialize (G2 y). lia.
  Qed.

  Lemma resv_self b x : resv b x (PReserved b x) = 1.
  Proof. simpl. rewrite Bool.eqb_reflx, Nat.eqb_refl. reflexivity. Qed.

  Lemma ghost_step c s l s' : GhostInv s -> step c s l = Some s' -> GhostInv s'.
  Proof.
    intros HG Hs. pose proof HG as (G1 & G2 & G3 & G4 & G5).
    destruct s as [v tk sq uq pa th nid acc hd off]; simpl in *.
    destruct l as [k | i b | i | i b]; simpl in Hs.
    - inversion Hs; subst; clear Hs. unfold GhostInv; simpl. repeat split; auto; intros y; rewrite cnt_app;
        destruct k; simpl; rewrite Nat.add_0_r; auto.
    - destruct (nth_error th i) as [p|] eqn:Hn; [|discriminate]. destruct p; try discriminate.
      destruct b.
      + destruct (mb_reserve MBs sq nid) as [q|] eqn:Er.
        * inversion Hs; subst; clear Hs. destruct (ok_reserve _ HS _ _ _ Er) as [P1 P2].
          unfold GhostInv; simpl. repeat split; intros y.
          -- g_upd Hn y. simpl in *. specialize (G1 y). lia.
          -- g_upd Hn y. simpl in *. rewrite (occ_perm y _ _ P2), occ_cons. specialize (G2 y).
             destruct (Nat.eq_dec nid y) as [->|Ne]; [rewrite Nat.eqb_refl in *|apply Nat.eqb_neq in Ne; rewrite Ne in *]; simpl in *; lia.
          -- rewrite occ_app, occ_cons, (occ_perm y _ _ P1), occ_cons. simpl. specialize (G3 y). lia.
          -- intros Hy. rewrite occ_app, occ_cons. simpl. rewrite G4 by lia. destruct (Nat.eq_dec nid y); lia.
          -- rewrite occ_app, occ_cons. simpl. destruct (Nat.eq_dec nid y); [subst; rewrite G4 by lia; lia | specialize (G5 y); lia].
        * inversion Hs; subst; clear Hs. unfold GhostInv; simpl. repeat split; auto. intros y Hy. apply G4. lia.
      + destruct (mb_reserve MBu uq nid) as [q|] eqn:Er.
        * inversion Hs; subst; clear Hs. destruct (ok_reserve _ HU _ _ _ Er) as [P1 P2].
          unfold GhostInv; simpl. repeat split; intros y.
          -- g_upd Hn y. simpl in *. rewrite (occ_perm y _ _ P2), occ_cons. specialize (G1 y).
             destruct (Nat.eq_dec nid y) as [->|Ne]; [rewrite Nat.eqb_refl in *|apply Nat.eqb_neq in Ne; rewrite Ne in *]; simpl in *; lia.
          -- g_upd Hn y. simpl in *. specialize (G2 y). lia.
          -- rewrite occ_app, occ_cons, (occ_perm y _ _ P1), occ_cons. simpl. specialize (G3 y). lia.
          -- intros Hy. rewrite occ_app, occ_cons. simpl. rewrite G4 by lia. destruct (Nat.eq_dec nid y); lia.
          -- rewrite occ_app, occ_cons. simpl. destruct (Nat.eq_dec nid y); [subst; rewrite G4 by lia; lia | specialize (G5 y); lia].
        * inversion Hs; subst; clear Hs. unfold GhostInv; simpl. repeat split; auto. intros y Hy. apply G4. lia.
    - destruct (nth_error th i) as [p|] eqn:Hn; [|discriminate].
      pose (s0 := MkState MBs MBu v tk sq uq pa th nid acc hd off).
      assert (PC : forall p' v' tk' pa' off', (forall b y, resv b y p = 0) -> (forall b y, resv b y p' = 0) ->
                 GhostInv (MkState MBs MBu v' tk' sq uq pa' (upd th i p') nid acc hd off')).
      { intros. apply (ghost_pc s0 i p p'); auto. }
      destruct p; simpl in Hs; unfold set_pc, set_st, set_tickets, set_sysq, set_usrq, add_handled, inc_offresets in Hs; simpl in Hs;
        try discriminate.
      + (* publish *)
        destruct tosys; inversion Hs; subst; clear Hs.
        * assert (Hin : In x (mb_unpub MBs sq)).
          { apply occ_in. rewrite G2. pose proof (nth_cnt_pos (resv true x) _ _ _ Hn). rewrite resv_self in H. lia. }
          destruct (ok_publish _ HS _ _ Hin) as [P1 P2].
          unfold GhostInv; simpl. repeat split; auto; intros y.
          -- g_upd Hn y. simpl in *. specialize (G1 y). lia.
          -- g_upd Hn y. simpl in *. specialize (G2 y). rewrite (occ_perm y _ _ P2), occ_cons in G2.
             destruct (Nat.eq_dec x y) as [->|Ne]; [rewrite Nat.eqb_refl in *|apply Nat.eqb_neq in Ne; rewrite Ne in *]; simpl in *; lia.
          -- rewrite (occ_perm y _ _ P1). apply G3.
        * assert (Hin : In x (mb_unpub MBu uq)).
          { apply occ_in. rewrite G1. pose proof (nth_cnt_pos (resv false x) _ _ _ Hn). rewrite resv_self in H. lia. }
          destruct (ok_publish _ HU _ _ Hin) as [P1 P2].
          unfold GhostInv; simpl. repeat split; auto; intros y.
          -- g_upd Hn y. simpl in *. specialize (G1 y). rewrite (occ_perm y _ _ P2), occ_cons in G1.
             destruct (Nat.eq_dec x y) as [->|Ne]; [rewrite Nat.eqb_refl in *|apply Nat.eqb_neq in Ne; rewrite Ne in *]; simpl in *; lia.
          -- g_upd Hn y. simpl in *. specialize (G2 y). lia.
          -- rewrite (occ_perm y _ _ P1). apply G3.
      + destruct (sched_eqb v Idle); inversion Hs; subst; clear Hs; apply PC; auto.
      + destruct (a_cas v Idle Scheduled) as [v' ok]. inversion Hs; subst; clear Hs. apply PC; auto. destruct ok; auto.
      + inversion Hs; subst; clear Hs; apply PC; auto.
      + destruct tk; [discriminate|]. inversion Hs; subst; clear Hs; apply PC; auto.
      + destruct (a_cas v Scheduled Processing) as [v' ok]. inversion Hs; subst; clear Hs. apply PC; auto.
        destruct ok; auto. destruct (budget c); auto.
      + (* dequeue system *)
        destruct (mb_deq MBs sq) as [[x|] q] eqn:Ed; inversion Hs; subst; clear Hs.
        * destruct (ok_deq_some _ HS _ _ _ Ed) as [P1 P2].
          unfold GhostInv; simpl. repeat split; auto; intros y.
          -- g_upd Hn y. simpl in *. specialize (G1 y). lia.
          -- g_upd Hn y. simpl in *. specialize (G2 y). rewrite (occ_perm y _ _ P2). lia.
          -- specialize (G3 y). rewrite (occ_perm y _ _ P1), occ_cons in G3. rewrite occ_app, occ_cons. simpl. lia.
        * destruct (ok_deq_none _ HS _ _ Ed) as (P1 & P2 & _).
          unfold GhostInv; simpl. repeat split; auto; intros y.
          -- g_upd Hn y. destruct (grain c && pa); simpl in *; specialize (G1 y); lia.
          -- g_upd Hn y. rewrite (occ_perm y _ _ P2). destruct (grain c && pa); simpl in *; specialize (G2 y); lia.
          -- rewrite (occ_perm y _ _ P1). apply G3.
      + (* dequeue user *)
        destruct (mb_deq MBu uq) as [[x|] q] eqn:Ed; inversion Hs; subst; clear Hs.
        * destruct (ok_deq_some _ HU _ _ _ Ed) as [P1 P2].
          unfold GhostInv; simpl. repeat split; auto; intros y.
          -- g_upd Hn y. simpl in *. specialize (G1 y). rewrite (occ_perm y _ _ P2). lia.
          -- g_upd Hn y. simpl in *. specialize (G2 y). lia.
          -- specialize (G3 y). rewrite (occ_perm y _ _ P1), occ_cons in G3. rewrite occ_app, occ_cons. simpl. lia.
        * destruct (ok_deq_none _ HU _ _ Ed) as (P1 & P2 & _).
          unfold GhostInv; simpl. repeat split; auto; intros y.
          -- g_upd Hn y. rewrite (occ_perm y _ _ P2). simpl in *; specialize (G1 y); lia.
          -- g_upd Hn y. simpl in *; specialize (G2 y); lia.
          -- rewrite (occ_perm y _ _ P1). apply G3.
      + inversion Hs; subst; clear Hs; apply PC; auto. destruct n; auto.
      + inversion Hs; subst; clear Hs; apply PC; auto. destruct (grain c); auto.
      + destruct (mb_empty MBu uq); inversion Hs; subst; clear Hs; apply PC; auto. destruct (grain c); auto.
      + destruct (mb_empty MBs sq); inversion Hs; subst; clear Hs; apply PC; auto. destruct (grain c); auto.
      + inversion Hs; subst; clear Hs; apply PC; auto. destruct pa; auto.
      + destruct (sched_eqb v Idle); inversion Hs; subst; clear Hs; apply PC; auto.
      + destruct (a_cas v Idle Scheduled) as [v' ok]. inversion Hs; subst; clear Hs. apply PC; auto. destruct ok; auto.
      + destruct (a_cas v Scheduled Processing) as [v' ok]. inversion Hs; subst; clear Hs. apply PC; auto.
        destruct ok; auto. destruct n; auto.
      + inversion Hs; subst; clear Hs; apply PC; auto.
      + inversion Hs; subst; clear Hs; apply PC; auto.
      + destruct (sched_eqb v Processing); inversion Hs; subst; clear Hs; [exact HG | apply PC; auto].
      + inversion Hs; subst; clear Hs; apply PC; auto.
      + destruct (restart_resets c); inversion Hs; subst; clear Hs; apply PC; auto.
    - destruct (nth_error th i) as [p|] eqn:Hn; [|discriminate]. destruct p; try discriminate.
      destruct (grain c); inversion Hs; subst; clear Hs. unfold GhostInv; simpl. repeat split; auto.
  Qed.

  Theorem reach_ghost c s : reach c s -> GhostInv s.
  Proof. induction 1; [apply ghost_init | eapply ghost_step; eauto]. Qed.

  (* ---- exactly once, safety half: never twice, never invented *)
  Theorem handled_at_most_once c s y : reach c s -> occ y (handled s) <= 1.
  Proof. intros H. destruct (reach_ghost c s H) as (_ & _ & G3 & _ & G5). specialize (G3 y). specialize (G5 y). lia. Qed.

  Theorem handled_was_accepted c s y : reach c s -> In y (handled s) -> In y (accepted s).
  Proof.
    intros H Hin. destruct (reach_ghost c s H) as (_ & _ & G3 & _). apply occ_in. apply occ_in in Hin. specialize (G3 y). lia.
  Qed.

  (* every accepted message is, at every moment, either handled or still in exactly one mailbox *)
  Theorem accepted_accounted c s y : reach c s -> In y (accepted s) ->
    occ y (mb_pend MBs (sysq s)) + occ y (mb_pend MBu (usrq s)) + occ y (handled s) = 1.
  Proof.
    intros H Hin. destruct (reach_ghost c s H) as (_ & _ & G3 & _ & G5). apply occ_in in Hin.
    specialize (G3 y). specialize (G5 y). lia.
  Qed.
End Proofs.
