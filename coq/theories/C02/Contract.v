(* The mailbox contract the dispatch protocol relies on (C02), and the two-phase FIFO instance.

   [mb_pend m]  : messages accepted (slot reserved) and not yet dequeued;
   [mb_unpub m] : reserved but not yet published (the producer is between its tail swap / slot
                  claim and its link / sequence store).
   The contract is the strongest emptiness report the lock-free mailboxes really give:
   "Dequeue()==nil or IsEmpty() ==> the mailbox is empty OR some enqueue is still incomplete".  *)
From Coq Require Import List Arith Bool Lia Permutation.
From GV Require Import C01.Model.
Import ListNotations.

Record mbox_ok (M : mbox) : Prop := MkOk {
  ok_init : mb_pend M (mb_init M) = [] /\ mb_unpub M (mb_init M) = [];
  ok_reserve : forall m x m', mb_reserve M m x = Some m' ->
      Permutation (mb_pend M m') (x :: mb_pend M m) /\ Permutation (mb_unpub M m') (x :: mb_unpub M m);
  ok_publish : forall m x, In x (mb_unpub M m) ->
      Permutation (mb_pend M (mb_publish M m x)) (mb_pend M m) /\
      Permutation (mb_unpub M m) (x :: mb_unpub M (mb_publish M m x));
  ok_deq_some : forall m x m', mb_deq M m = (Some x, m') ->
      Permutation (mb_pend M m) (x :: mb_pend M m') /\ Permutation (mb_unpub M m') (mb_unpub M m);
  ok_deq_none : forall m m', mb_deq M m = (None, m') ->
      Permutation (mb_pend M m') (mb_pend M m) /\ Permutation (mb_unpub M m') (mb_unpub M m) /\
      (mb_unpub M m = [] -> mb_pend M m = []);
  ok_empty : forall m, mb_empty M m = true -> mb_unpub M m = [] -> mb_pend M m = [];
  (* liveness side: a mailbox with no incomplete enqueue hands out a message, and reports non-empty *)
  ok_deq_live : forall m, mb_unpub M m = [] -> mb_pend M m <> [] -> exists x m', mb_deq M m = (Some x, m');
  ok_empty_live : forall m, mb_pend M m = [] -> mb_empty M m = true;
}.

Definition occ (x : msg) (l : list msg) : nat := count_occ Nat.eq_dec l x.

Lemma occ_app x l1 l2 : occ x (l1 ++ l2) = occ x l1 + occ x l2.
Proof. unfold occ. apply count_occ_app. Qed.
Lemma occ_cons x y l : occ x (y :: l) = (if Nat.eq_dec y x then 1 else 0) + occ x l.
Proof. unfold occ. simpl. destruct (Nat.eq_dec y x); lia. Qed.
Lemma occ_perm x l1 l2 : Permutation l1 l2 -> occ x l1 = occ x l2.
Proof. intros H. unfold occ. revert x. apply Permutation_count_occ. exact H. Qed.
Lemma occ_in x l : In x l <-> 0 < occ x l.
Proof. unfold occ. apply count_occ_In. Qed.

(* ---------------------------------------------------------------- the instance *)
Lemma fifo_publish_spec x : forall m : fifo_t, In x (map fst (filter (fun e => negb (snd e)) m)) ->
  map fst (fifo_publish m x) = map fst m /\
  Permutation (map fst (filter (fun e => negb (snd e)) m)) (x :: map fst (filter (fun e => negb (snd e)) (fifo_publish m x))).
Proof.
  induction m as [|[y p] r IH]; simpl; [tauto|]. intros Hin.
  destruct (Nat.eqb x y && negb p) eqn:E.
  - apply andb_true_iff in E. destruct E as [E1 E2]. apply Nat.eqb_eq in E1. subst y.
    destruct p; [discriminate|]. simpl. split; [reflexivity|]. apply Permutation_refl.
  - destruct p; simpl in *.
    + destruct (IH Hin) as [A B]. split; [f_equal; exact A|exact B].
    + destruct Hin as [->|Hin]; [rewrite Nat.eqb_refl in E; discriminate|].
      destruct (IH Hin) as [A B]. split; [f_equal; exact A|].
      rewrite B. apply perm_swap.
Qed.

Theorem fifo2_ok cap : mbox_ok (fifo2 cap).
Proof.
  constructor; simpl.
  - auto.
  - intros m x m' H. destruct (negb (cap =? 0) && (cap <=? length m)); [discriminate|]. inversion H; subst.
    rewrite filter_app, !map_app. simpl. split; apply Permutation_sym, Permutation_cons_append.
  - intros m x Hin. destruct (fifo_publish_spec x m Hin) as [A B]. rewrite A. split; [apply Permutation_refl|exact B].
  - intros m x m' H. destruct m as [|[y [|]] r]; inversion H; subst. simpl. split; apply Permutation_refl.
  - intros m m' H. destruct m as [|[y [|]] r]; inversion H; subst; simpl; repeat split; auto; try discriminate.
  - intros m H. destruct m as [|[y [|]] r]; simpl in *; auto; discriminate.
  - intros m Hu Hp. destruct m as [|[y [|]] r]; simpl in *; [congruence| eauto | discriminate].
  - intros m Hp. destruct m as [|[y p] r]; simpl in *; [reflexivity|discriminate].
Qed.
