(* C02: the wake-up invariant (no lost wake-up) of M-DISPATCH, for PID and grain variants. *)
From Coq Require Import List Arith Bool Lia Permutation.
From GV Require Import C01.Model C01.Proofs C02.Contract C02.Proofs.
Import ListNotations.

Lemma resvb_le_mid b p : resvb b p <= prod_mid p.
Proof. destruct p; simpl; try lia. destruct (Bool.eqb b tosys); lia. Qed.

Section Wake.
  Variables MBs MBu : mbox.
  Hypothesis HS : mbox_ok MBs.
  Hypothesis HU : mbox_ok MBu.
  Notation state := (state MBs MBu).
  Notation step := (step MBs MBu).
  Notation reach := (reach MBs MBu).

  Definition lpu (s : state) := length (mb_pend MBu (usrq s)).
  Definition lps (s : state) := length (mb_pend MBs (sysq s)).

  (* WakeInv: whenever a mailbox holds an accepted message that the turn loop would consume and the
     state word is Idle, some thread is on its way to schedule the actor: a producer between its accepted
     enqueue and the end of TrySchedule, or an owner between reset() and the end of its re-check/reclaim
     that has not yet seen that mailbox empty. *)
  Definition WakeInv (c : cfg) (s : state) : Prop :=
    offresets s = 0 ->
    length (mb_unpub MBu (usrq s)) = cnt (resvb false) (ths s) /\
    length (mb_unpub MBs (sysq s)) = cnt (resvb true) (ths s) /\
    (grain c = false -> paused s = false) /\
    (paused s = false -> st s = Idle -> 0 < lpu s -> 0 < cnt prod_mid (ths s) + cnt (post_usr (grain c)) (ths s)) /\
    (st s = Idle -> 0 < lps s -> 0 < cnt prod_mid (ths s) + cnt (post_sys (grain c)) (ths s)).

  Lemma wake_init c : WakeInv c (init_state MBs MBu).
  Proof.
    intros _. unfold lpu, lps, init_state; simpl. destruct (ok_init _ HS) as [A B]. destruct (ok_init _ HU) as [C D].
    rewrite A, B, C, D. simpl. repeat split; auto; lia.
  Qed.

  (* length forms of the contract *)
  Lemma len_reserve M (H : mbox_ok M) m x m' : mb_reserve M m x = Some m' ->
    length (mb_pend M m') = S (length (mb_pend M m)) /\ length (mb_unpub M m') = S (length (mb_unpub M m)).
  Proof. intros E. destruct (ok_reserve _ H _ _ _ E) as [A B]. apply Permutation_length in A, B. simpl in *. auto. Qed.
  Lemma len_publish M (H : mbox_ok M) m x : In x (mb_unpub M m) ->
    length (mb_pend M (mb_publish M m x)) = length (mb_pend M m) /\ length (mb_unpub M m) = S (length (mb_unpub M (mb_publish M m x))).
  Proof. intros E. destruct (ok_publish _ H _ _ E) as [A B]. apply Permutation_length in A, B. simpl in *. auto. Qed.
  Lemma len_deq_some M (H : mbox_ok M) m x m' : mb_deq M m = (Some x, m') ->
    length (mb_pend M m) = S (length (mb_pend M m')) /\ length (mb_unpub M m') = length (mb_unpub M m).
  Proof. intros E. destruct (ok_deq_some _ H _ _ _ E) as [A B]. apply Permutation_length in A, B. simpl in *. auto. Qed.
  Lemma len_deq_none M (H : mbox_ok M) m m' : mb_deq M m = (None, m') ->
    length (mb_pend M m') = length (mb_pend M m) /\ length (mb_unpub M m') = length (mb_unpub M m) /\
    (length (mb_unpub M m) = 0 -> length (mb_pend M m) = 0).
  Proof.
    intros E. destruct (ok_deq_none _ H _ _ E) as (A & B & C). apply Permutation_length in A, B.
    repeat split; auto. intros Z. apply length_zero_iff_nil in Z. rewrite (C Z). reflexivity.
  Qed.
  Lemma len_empty M (H : mbox_ok M) m : mb_empty M m = true -> length (mb_unpub M m) = 0 -> length (mb_pend M m) = 0.
  Proof. intros E Z. apply length_zero_iff_nil in Z. rewrite (ok_empty _ H _ E Z). reflexivity. Qed.

  Ltac w_upd Hn g :=
    match goal with
    | |- context [upd ?th ?i ?p] =>
        pose proof (cnt_upd prod_mid th i _ p Hn); pose proof (cnt_upd (post_usr g) th i _ p Hn);
        pose proof (cnt_upd (post_sys g) th i _ p Hn); pose proof (cnt_upd (resvb false) th i _ p Hn);
        pose proof (cnt_upd (resvb true) th i _ p Hn);
        pose proof (cnt_le (resvb false) prod_mid (upd th i p) (resvb_le_mid false));
        pose proof (cnt_le (resvb true) prod_mid (upd th i p) (resvb_le_mid true))
    end.

  Ltac mp :=
    repeat match goal with
           | H : ?x = ?x -> _ |- _ => specialize (H eq_refl)
           | H : true = false -> _ |- _ => clear H
           | H : false = true -> _ |- _ => clear H
           | H : Scheduled = Idle -> _ |- _ => clear H
           | H : Processing = Idle -> _ |- _ => clear H
           end.

  Ltac fin :=
    unfold lpu, lps in *; simpl in *;
    repeat match goal with
           | |- context [loop ?n] => destruct n; simpl in *
           | H : context [loop ?n] |- _ => destruct n; simpl in *
           end;
    repeat match goal with
           | v : sched |- _ => destruct v
           | b : bool |- _ => destruct b
           end; simpl in *;
    repeat split; intros; mp; try discriminate; try reflexivity; try lia.

  Lemma wake_step c s l s' : TicketInv MBs MBu s -> GhostInv MBs MBu s -> WakeInv c s -> step c s l = Some s' -> WakeInv c s'.
  Proof.
    intros HT HG HW Hs.
    destruct s as [v tk sq uq pa th nid acc hd off]; unfold WakeInv, TicketInv, lpu, lps in *; simpl in *.
    destruct l as [k | i b | i | i b]; simpl in Hs.
    - (* spawn *)
      inversion Hs; subst; clear Hs; simpl. intros H0. specialize (HW H0). destruct HW as (W1 & W2 & W3 & W4 & W5).
      rewrite !cnt_app. destruct k; simpl; rewrite ?Nat.add_0_r; repeat split; auto.
    - (* send *)
      destruct (nth_error th i) as [p|] eqn:Hn; [|discriminate]. destruct p; try discriminate.
      destruct (grain c) eqn:Eg.
      + destruct b.
        * destruct (mb_reserve MBs sq nid) as [q|] eqn:Er; inversion Hs; subst; clear Hs; simpl; intros H0; specialize (HW H0);
            destruct HW as (W1 & W2 & W3 & W4 & W5); [|repeat split; auto].
          destruct (len_reserve _ HS _ _ _ Er). w_upd Hn true. fin.
        * destruct (mb_reserve MBu uq nid) as [q|] eqn:Er; inversion Hs; subst; clear Hs; simpl; intros H0; specialize (HW H0);
            destruct HW as (W1 & W2 & W3 & W4 & W5); [|repeat split; auto].
          destruct (len_reserve _ HU _ _ _ Er). w_upd Hn true. fin.
      + destruct b.
        * destruct (mb_reserve MBs sq nid) as [q|] eqn:Er; inversion Hs; subst; clear Hs; simpl; intros H0; specialize (HW H0);
            destruct HW as (W1 & W2 & W3 & W4 & W5); [|repeat split; auto].
          destruct (len_reserve _ HS _ _ _ Er). w_upd Hn false. fin.
        * destruct (mb_reserve MBu uq nid) as [q|] eqn:Er; inversion Hs; subst; clear Hs; simpl; intros H0; specialize (HW H0);
            destruct HW as (W1 & W2 & W3 & W4 & W5); [|repeat split; auto].
          destruct (len_reserve _ HU _ _ _ Er). w_upd Hn false. fin.
    - (* thread step *)
      destruct (nth_error th i) as [p|] eqn:Hn; [|discriminate].
      destruct HG as (G1 & G2 & _). simpl in G1, G2.
      destruct p; simpl in Hs; unfold set_pc, set_st, set_tickets, set_sysq, set_usrq, add_handled, inc_offresets in Hs; simpl in Hs;
        try discriminate.
      + (* publish *)
        destruct tosys; inversion Hs; subst; clear Hs; simpl; intros H0; specialize (HW H0); destruct HW as (W1 & W2 & W3 & W4 & W5).
        * assert (Hin : In x (mb_unpub MBs sq)).
          { apply occ_in. rewrite G2. pose proof (nth_cnt_pos (resv true x) _ _ _ Hn). rewrite resv_self in H. lia. }
          destruct (len_publish _ HS _ _ Hin). destruct (grain c); [w_upd Hn true | w_upd Hn false]; fin.
        * assert (Hin : In x (mb_unpub MBu uq)).
          { apply occ_in. rewrite G1. pose proof (nth_cnt_pos (resv false x) _ _ _ Hn). rewrite resv_self in H. lia. }
          destruct (len_publish _ HU _ _ Hin). destruct (grain c); [w_upd Hn true | w_upd Hn false]; fin.
      + destruct v; simpl in Hs; inversion Hs; subst; clear Hs; simpl; intros H0; specialize (HW H0); destruct HW as (W1 & W2 & W3 & W4 & W5);
          (destruct (grain c); [w_upd Hn true | w_upd Hn false]; fin).
      + destruct v; simpl in Hs; inversion Hs; subst; clear Hs; simpl; intros H0; specialize (HW H0); destruct HW as (W1 & W2 & W3 & W4 & W5);
          (destruct (grain c); [w_upd Hn true | w_upd Hn false]; fin).
      + inversion Hs; subst; clear Hs; simpl; intros H0; specialize (HW H0); destruct HW as (W1 & W2 & W3 & W4 & W5);
          (destruct (grain c); [w_upd Hn true | w_upd Hn false]; fin).
      + destruct tk; [discriminate|]. inversion Hs; subst; clear Hs; simpl; intros H0; specialize (HW H0); destruct HW as (W1 & W2 & W3 & W4 & W5);
          (destruct (grain c); [w_upd Hn true | w_upd Hn false]; fin).
      + destruct v; simpl in Hs; inversion Hs; subst; clear Hs; simpl; intros H0; specialize (HW H0); destruct HW as (W1 & W2 & W3 & W4 & W5);
          (destruct (grain c); destruct (budget c); [w_upd Hn true | w_upd Hn true | w_upd Hn false | w_upd Hn false]; fin).
      + (* dequeue system *)
        destruct (mb_deq MBs sq) as [[x|] q] eqn:Ed; inversion Hs; subst; clear Hs; simpl; intros H0; specialize (HW H0);
          destruct HW as (W1 & W2 & W3 & W4 & W5).
        * destruct (len_deq_some _ HS _ _ _ Ed). destruct (grain c); [w_upd Hn true | w_upd Hn false]; fin.
        * destruct (len_deq_none _ HS _ _ Ed) as (? & ? & ?).
          destruct (grain c); destruct pa; simpl; [w_upd Hn true | w_upd Hn true | w_upd Hn false | w_upd Hn false]; fin.
      + (* dequeue user *)
        destruct (mb_deq MBu uq) as [[x|] q] eqn:Ed; inversion Hs; subst; clear Hs; simpl; intros H0; specialize (HW H0);
          destruct HW as (W1 & W2 & W3 & W4 & W5).
        * destruct (len_deq_some _ HU _ _ _ Ed). destruct (grain c); [w_upd Hn true | w_upd Hn false]; fin.
        * destruct (len_deq_none _ HU _ _ Ed) as (? & ? & ?). destruct (grain c); [w_upd Hn true | w_upd Hn false]; fin.
      + (* handler exit *)
        inversion Hs; subst; clear Hs; simpl; intros H0; specialize (HW H0); destruct HW as (W1 & W2 & W3 & W4 & W5);
          (destruct (grain c); [w_upd Hn true | w_upd Hn false]; fin).
      + (* reset *)
        inversion Hs; subst; clear Hs; simpl; intros H0; specialize (HW H0); destruct HW as (W1 & W2 & W3 & W4 & W5);
          (destruct (grain c); [w_upd Hn true | w_upd Hn false]; fin).
      + (* IsEmpty user *)
        destruct (mb_empty MBu uq) eqn:Ee; inversion Hs; subst; clear Hs; simpl; intros H0; specialize (HW H0);
          destruct HW as (W1 & W2 & W3 & W4 & W5);
          try (pose proof (len_empty _ HU _ Ee));
          (destruct (grain c); [w_upd Hn true | w_upd Hn false]; fin).
      + (* IsEmpty system *)
        destruct (mb_empty MBs sq) eqn:Ee; inversion Hs; subst; clear Hs; simpl; intros H0; specialize (HW H0);
          destruct HW as (W1 & W2 & W3 & W4 & W5);
          try (pose proof (len_empty _ HS _ Ee));
          (destruct (grain c); [w_upd Hn true | w_upd Hn false]; fin).
      + (* paused() *)
        inversion Hs; subst; clear Hs; simpl; intros H0; specialize (HW H0); destruct HW as (W1 & W2 & W3 & W4 & W5);
          (destruct (grain c); destruct pa; [w_upd Hn true | w_upd Hn true | w_upd Hn false | w_upd Hn false]; fin).
      + destruct v; simpl in Hs; inversion Hs; subst; clear Hs; simpl; intros H0; specialize (HW H0); destruct HW as (W1 & W2 & W3 & W4 & W5);
          (destruct (grain c); [w_upd Hn true | w_upd Hn false]; fin).
      + destruct v; simpl in Hs; inversion Hs; subst; clear Hs; simpl; intros H0; specialize (HW H0); destruct HW as (W1 & W2 & W3 & W4 & W5);
          (destruct (grain c); [w_upd Hn true | w_upd Hn false]; fin).
      + destruct v; simpl in Hs; inversion Hs; subst; clear Hs; simpl; intros H0; specialize (HW H0); destruct HW as (W1 & W2 & W3 & W4 & W5);
          (destruct (grain c); [w_upd Hn true | w_upd Hn false]; fin).
      + inversion Hs; subst; clear Hs; simpl; intros H0; specialize (HW H0); destruct HW as (W1 & W2 & W3 & W4 & W5);
          (destruct (grain c); [w_upd Hn true | w_upd Hn false]; fin).
      + inversion Hs; subst; clear Hs; simpl; intros H0; specialize (HW H0); destruct HW as (W1 & W2 & W3 & W4 & W5);
          (destruct (grain c); [w_upd Hn true | w_upd Hn false]; fin).
      + destruct v; simpl in Hs; inversion Hs; subst; clear Hs; simpl; intros H0; specialize (HW H0); destruct HW as (W1 & W2 & W3 & W4 & W5);
          try (repeat split; auto; fail);
          (destruct (grain c); [w_upd Hn true | w_upd Hn false]; fin).
      + inversion Hs; subst; clear Hs; simpl; intros H0; specialize (HW H0); destruct HW as (W1 & W2 & W3 & W4 & W5);
          (destruct (grain c); [w_upd Hn true | w_upd Hn false]; fin).
      + destruct (restart_resets c); inversion Hs; subst; clear Hs; simpl; intros H0; [discriminate|]; specialize (HW H0);
          destruct HW as (W1 & W2 & W3 & W4 & W5);
          (destruct (grain c); [w_upd Hn true | w_upd Hn false]; fin).
    - (* pause toggle from inside the handler: the toggling thread owns the turn, so the state is Processing *)
      destruct (nth_error th i) as [p|] eqn:Hn; [|discriminate]. destruct p; try discriminate.
      destruct (grain c) eqn:Eg; inversion Hs; subst; clear Hs; simpl. intros H0. specialize (HW H0). specialize (HT H0).
      destruct HW as (W1 & W2 & W3 & W4 & W5). destruct HT as [T1 _].
      pose proof (nth_cnt_pos owns _ _ _ Hn) as Ho. simpl in Ho.
      repeat split; auto; try discriminate.
      intros _ Hv _. subst v. simpl in T1. lia.
  Qed.

  Theorem reach_wake c s : reach c s -> WakeInv c s.
  Proof.
    induction 1 as [|s l s' Hr IH Hs]; [apply wake_init|].
    eapply wake_step; eauto. - apply (reach_TicketInv MBs MBu c s Hr). - apply (reach_ghost MBs MBu HS HU c s Hr).
  Qed.

  (* ---- consequences *)
  (* a message the turn loop would consume *)
  Definition pending (s : state) : Prop := 0 < lps s \/ (paused s = false /\ 0 < lpu s).

  (* not inside doReceive / a turn / take-with-a-ticket *)
  Definition idle_pc (p : pc) : bool :=
    match p with PIdle | WIdle | RSpin | RInit | RReset | RDone => true | _ => false end.
  Definition quiescent (s : state) : Prop := forallb idle_pc (ths s) = true.

  Lemma idle_cnt0 f l : (forall p, idle_pc p = true -> f p = 0) -> forallb idle_pc l = true -> cnt f l = 0.
  Proof.
    intros Hf. induction l as [|p r IH]; simpl; [reflexivity|]. intros H. apply andb_true_iff in H. destruct H as [H1 H2].
    rewrite (Hf p H1), (IH H2). reflexivity.
  Qed.

  (* No lost wake-up, safety form: at quiescence (every producer has left doReceive, every worker is back in
     take) a pending message implies the actor is Scheduled and its ticket sits in the ready queue. *)
  Theorem quiescent_pending_has_ticket c s : restart_resets c = false -> reach c s -> quiescent s -> pending s ->
    st s = Scheduled /\ tickets s = 1.
  Proof.
    intros Hc Hr Hq Hp. pose proof (reach_offresets MBs MBu c s Hc Hr) as H0.
    destruct (reach_wake c s Hr H0) as (_ & _ & _ & W4 & W5).
    destruct (reach_TicketInv MBs MBu c s Hr H0) as [T1 T2].
    assert (Z1 : cnt prod_mid (ths s) = 0) by (apply idle_cnt0; [intros [] E; simpl in *; congruence|exact Hq]).
    assert (Z2 : cnt (post_usr (grain c)) (ths s) = 0) by (apply idle_cnt0; [intros [] E; simpl in *; try congruence; destruct (grain c); congruence|exact Hq]).
    assert (Z3 : cnt (post_sys (grain c)) (ths s) = 0) by (apply idle_cnt0; [intros [] E; simpl in *; try congruence; destruct (grain c); congruence|exact Hq]).
    assert (Z4 : cnt owns (ths s) = 0) by (apply idle_cnt0; [intros [] E; simpl in *; congruence|exact Hq]).
    assert (Z5 : cnt holds_ticket (ths s) = 0) by (apply idle_cnt0; [intros [] E; simpl in *; congruence|exact Hq]).
    destruct (st s) eqn:Ev; simpl in *.
    - exfalso. destruct Hp as [Hp|[Hp1 Hp2]]; [specialize (W5 eq_refl Hp)|specialize (W4 Hp1 eq_refl Hp2)]; lia.
    - split; [reflexivity|lia].
    - lia.
  Qed.

  (* No deadlock: whenever a message is pending and at least one worker exists, some producer or worker thread
     (not a restarter's spin) can take a step. *)
  Definition is_worker (p : pc) : bool :=
    match p with
    | WIdle | WTaken | WDeqSys _ | WDeqUsr _ | WHandler _ _ | WReset _ | WChkUsr _ | WChkSys _ | WChkPaused _
    | WRecLoad _ | WRecCas _ | WRecTake _ | WYield | WRepush => true
    | _ => false
    end.
  Definition is_restarter (p : pc) : bool := match p with RSpin | RInit | RReset | RDone => true | _ => false end.

  Lemma step_pc_enabled c (s : state) i p : nth_error (ths s) i = Some p -> idle_pc p = false ->
    exists s', step c s (LStep i) = Some s'.
  Proof.
    intros Hn Hi. simpl. rewrite Hn.
    destruct p; simpl in *; try discriminate;
      repeat match goal with
             | |- context [match ?x with _ => _ end] => destruct x
             | |- context [if ?x then _ else _] => destruct x
             end; eauto.
  Qed.

  Lemma not_quiescent_has_busy l : forallb idle_pc l = false -> exists i p, nth_error l i = Some p /\ idle_pc p = false.
  Proof.
    induction l as [|p r IH]; simpl; [discriminate|]. intros H.
    destruct (idle_pc p) eqn:E.
    - destruct (IH H) as (i & q & Hi & Hq). exists (S i), q. auto.
    - exists 0, p. auto.
  Qed.

  Theorem no_deadlock c s : restart_resets c = false -> reach c s -> pending s ->
    (exists j q, nth_error (ths s) j = Some q /\ is_worker q = true) ->
    exists i p s', nth_error (ths s) i = Some p /\ is_restarter p = false /\ step c s (LStep i) = Some s'.
  Proof.
    intros Hc Hr Hp (j & q & Hj & Hq).
    destruct (forallb idle_pc (ths s)) eqn:Eq.
    - (* quiescent: the ticket is queued and the idle worker can take it *)
      destruct (quiescent_pending_has_ticket c s Hc Hr Eq Hp) as [_ Ht].
      assert (Hqi : idle_pc q = true).
      { clear - Eq Hj. revert j Hj. induction (ths s) as [|p r IH]; intros [|j] Hj; simpl in *; try discriminate.
        - inversion Hj; subst. apply andb_true_iff in Eq. tauto.
        - apply andb_true_iff in Eq. eapply IH; [tauto|exact Hj]. }
      destruct q; simpl in Hq, Hqi; try discriminate.
      exists j, WIdle. simpl. rewrite Hj. simpl. rewrite Ht. eexists. repeat split; eauto.
    - (* some thread is mid-operation; threads mid-operation that are idle_pc = false are producers or workers *)
      destruct (not_quiescent_has_busy _ Eq) as (i & p & Hi & Hb).
      destruct (step_pc_enabled c s i p Hi Hb) as [s' Hs'].
      exists i, p, s'. repeat split; auto. destruct p; simpl in *; try reflexivity; discriminate.
  Qed.

  (* dequeues are only ever executed by the unique turn owner (single-consumer discipline of the mailboxes) *)
  Theorem single_consumer c s i j p q : restart_resets c = false -> reach c s ->
    nth_error (ths s) i = Some p -> nth_error (ths s) j = Some q ->
    (exists n, p = WDeqSys n \/ p = WDeqUsr n) -> (exists n, q = WDeqSys n \/ q = WDeqUsr n) -> i = j.
  Proof.
    intros Hc Hr Hi Hj (n & Hp) (m & Hq).
    destruct (mutex MBs MBu c s Hc Hr) as [Ho _]. eapply Ho; eauto.
    - destruct Hp; subst; reflexivity.
    - destruct Hq; subst; reflexivity.
  Qed.
End Wake.
