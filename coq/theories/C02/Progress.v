(* C02: progress.  From every quiescent state (no producer inside doReceive, every worker back in take)
   there is a finite WORKER-ONLY continuation — steps of one dispatcher worker — after which every pending
   message has been handed to the handler and the actor is quiescent again.  Together with
   [quiescent_pending_has_ticket] (the ticket is there) this is the "no lost wake-up" property in its
   existence-of-a-schedule form; "eventually" then only needs a fair scheduler. *)
From Coq Require Import List Arith Bool Lia Permutation.
From GV Require Import C01.Model C01.Proofs C02.Contract C02.Proofs C02.Wake.
Import ListNotations.

Lemma nth_error_upd_eq {A} (l : list A) : forall i a b, nth_error l i = Some a -> nth_error (upd l i b) i = Some b.
Proof. induction l as [|x r IH]; intros [|i] a b H; simpl in *; try discriminate; eauto. Qed.

Lemma nth_error_upd_neq {A} (l : list A) : forall i j b, i <> j -> nth_error (upd l i b) j = nth_error l j.
Proof. induction l as [|x r IH]; intros [|i] [|j] b H; simpl; auto; try lia. Qed.

Lemma perm_nil_l {A} (l : list A) : Permutation l [] -> l = [].
Proof. intros H. apply Permutation_sym in H. apply Permutation_nil in H. exact H. Qed.

Section Progress.
  Variables MBs MBu : mbox.
  Hypothesis HS : mbox_ok MBs.
  Hypothesis HU : mbox_ok MBu.
  Notation state := (state MBs MBu).
  Notation step := (step MBs MBu).
  Notation run := (run MBs MBu).
  Notation reach := (reach MBs MBu).

  (* number of messages the turn loop would consume *)
  Definition todo (s : state) : nat := lps MBs MBu s + (if paused s then 0 else lpu MBs MBu s).

  Definition others_idle (w : nat) (s : state) : Prop :=
    forall j p, j <> w -> nth_error (ths s) j = Some p -> idle_pc p = true.
  Definition no_unpub (s : state) : Prop := mb_unpub MBu (usrq s) = [] /\ mb_unpub MBs (sysq s) = [].

  Lemma run_app c : forall l1 l2 s s1, run c s l1 = Some s1 -> run c s (l1 ++ l2) = run c s1 l2.
  Proof.
    induction l1 as [|l r IH]; intros l2 s s1 H; simpl in *.
    - inversion H; reflexivity.
    - destruct (step c s l) as [s0|]; [|discriminate]. eapply IH; eauto.
  Qed.

  Lemma run_steps_app c w a b s s1 : run c s (repeat (LStep w) a) = Some s1 ->
    run c s (repeat (LStep w) (a + b)) = run c s1 (repeat (LStep w) b).
  Proof. intros H. rewrite repeat_app. eapply run_app; eauto. Qed.

  Lemma others_idle_upd w (s : state) : others_idle w s -> forall th', (forall j, j <> w -> nth_error th' j = nth_error (ths s) j) ->
    forall j p, j <> w -> nth_error th' j = Some p -> idle_pc p = true.
  Proof. intros H th' E j p Hj Hp. rewrite E in Hp by assumption. eapply H; eauto. Qed.

  (* one step of worker w, packaged: the step is enabled and gives the expected state *)
  Ltac one_step Hw :=
    simpl; rewrite Hw; simpl.

  (* the state after k further steps, composed with one leading step *)
  Lemma run_S c w (s s1 : state) n : step c s (LStep w) = Some s1 ->
    run c s (repeat (LStep w) (S n)) = run c s1 (repeat (LStep w) n).
  Proof. intros H. cbn [repeat Model.run]. rewrite H. reflexivity. Qed.

  Lemma upd_upd {A} (l : list A) : forall i a b, upd (upd l i a) i b = upd l i b.
  Proof. induction l as [|x r IH]; intros [|i] a b; simpl; auto. f_equal. apply IH. Qed.

  Ltac norm := unfold set_pc, set_st, set_tickets, set_sysq, set_usrq, add_handled; simpl; rewrite ?upd_upd.
  Ltac adv Hw th w := norm; try rewrite (nth_error_upd_eq th w _ _ Hw); simpl; norm.

  Ltac idle_others Ho :=
    let j := fresh "j" in let p := fresh "p" in let Hj := fresh "Hj" in let Hp := fresh "Hp" in
    intros j p Hj Hp; simpl in Hp; rewrite ?upd_upd in Hp; rewrite nth_error_upd_neq in Hp by auto; eapply Ho; eauto.

  (* The turn of worker w, alone: from the head of the turn loop with k iterations left, w finishes its turn. *)
  Lemma turn_drains c w : forall k (s : state),
    others_idle w s -> nth_error (ths s) w = Some (loop k) -> no_unpub s -> (grain c = false -> paused s = false) ->
    exists n s', run c s (repeat (LStep w) n) = Some s' /\
      nth_error (ths s') w = Some WIdle /\ others_idle w s' /\ no_unpub s' /\ paused s' = paused s /\
      todo s' <= todo s /\ (0 < k -> 0 < todo s -> todo s' < todo s) /\ (todo s' = 0 \/ (st s' = Scheduled /\ tickets s' = S (tickets s))).
  Proof.
    induction k as [|k IH]; intros s Ho Hw Hn Hg; simpl in Hw.
    - (* budget exhausted: YieldToScheduled; reschedule *)
      destruct s as [v tk sq uq pa th nid acc hd off]; unfold others_idle, no_unpub, todo, lpu, lps in *; simpl in *.
      eexists 2, _. split.
      { simpl. rewrite Hw. adv Hw th w. reflexivity. }
      simpl. rewrite ?upd_upd. split; [eapply nth_error_upd_eq; eauto|]. split; [idle_others Ho|].
      repeat split; try tauto; try lia.
    - destruct s as [v tk sq uq pa th nid acc hd off]; unfold others_idle, no_unpub, todo, lpu, lps in *; simpl in *.
      destruct Hn as [HnU HnS].
      destruct (mb_deq MBs sq) as [[x|] q] eqn:Eds.
      + (* a system message: dequeue, handle, continue *)
        destruct (ok_deq_some _ HS _ _ _ Eds) as [P1 P2].
        pose proof (Permutation_length P1) as L1. simpl in L1.
        assert (Hq : mb_unpub MBs q = []) by (apply perm_nil_l; rewrite <- HnS; exact P2).
        destruct (IH (MkState MBs MBu v tk q uq pa (upd th w (loop k)) nid acc (hd ++ [x]) off)) as (n & s' & R & A & B & C & D & E & F & G).
        { unfold others_idle; simpl. idle_others Ho. }
        { simpl. eapply nth_error_upd_eq; eauto. }
        { unfold no_unpub; simpl; auto. }
        { simpl; auto. }
        exists (S (S n)), s'. split.
        { simpl. rewrite Hw. simpl. rewrite Eds. adv Hw th w. exact R. }
        unfold others_idle, no_unpub, todo, lpu, lps in *; simpl in *. repeat split; try tauto; try lia; try (destruct G as [G|G]; [left; exact G|right; exact G]).
      + destruct (ok_deq_none _ HS _ _ Eds) as (P1 & P2 & P3).
        assert (Hq : mb_unpub MBs q = []) by (apply perm_nil_l; rewrite <- HnS; exact P2).
        assert (Lq : length (mb_pend MBs q) = 0).
        { rewrite (Permutation_length P1). rewrite (P3 HnS). reflexivity. }
        assert (Ls : length (mb_pend MBs sq) = 0) by (rewrite (P3 HnS); reflexivity).
        assert (Eq : mb_empty MBs q = true) by (apply (ok_empty_live _ HS); apply length_zero_iff_nil; exact Lq).
        destruct (grain c && pa) eqn:Egp.
        * (* paused grain: reset, responses empty, paused -> exit *)
          apply andb_true_iff in Egp. destruct Egp as [Eg Ep]. subst pa.
          eexists 4, _. split.
          { simpl. rewrite Hw. simpl. rewrite Eds, Eg. simpl. adv Hw th w. rewrite Eg. adv Hw th w. rewrite Eq, Eg. adv Hw th w. reflexivity. }
          simpl. rewrite ?upd_upd. split; [eapply nth_error_upd_eq; eauto|]. split; [idle_others Ho|].
          repeat split; try tauto; try lia; try (left; lia).
        * (* user mailbox *)
          destruct (mb_deq MBu uq) as [[x|] qu] eqn:Edu.
          -- destruct (ok_deq_some _ HU _ _ _ Edu) as [P1u P2u].
             pose proof (Permutation_length P1u) as L1. simpl in L1.
             assert (Hqu : mb_unpub MBu qu = []) by (apply perm_nil_l; rewrite <- HnU; exact P2u).
             assert (Hpa : pa = false).
             { destruct pa; [|reflexivity]. destruct (grain c) eqn:Eg; [discriminate|]. apply Hg. reflexivity. }
             subst pa.
             destruct (IH (MkState MBs MBu v tk q qu false (upd th w (loop k)) nid acc (hd ++ [x]) off)) as (n & s' & R & A & B & C & D & E & F & G).
             { unfold others_idle; simpl. idle_others Ho. }
             { simpl. eapply nth_error_upd_eq; eauto. }
             { unfold no_unpub; simpl; auto. }
             { simpl; auto. }
             exists (S (S (S n))), s'. split.
             { simpl. rewrite Hw. simpl. rewrite Eds, Egp. adv Hw th w. rewrite Edu. adv Hw th w. exact R. }
             unfold others_idle, no_unpub, todo, lpu, lps in *; simpl in *. rewrite Lq in *. repeat split; try tauto; try lia; try (destruct G as [G|G]; [left; exact G|right; exact G]).
          -- (* both empty: reset and leave *)
             destruct (ok_deq_none _ HU _ _ Edu) as (P1u & P2u & P3u).
             assert (Hqu : mb_unpub MBu qu = []) by (apply perm_nil_l; rewrite <- HnU; exact P2u).
             assert (Lqu : length (mb_pend MBu qu) = 0).
             { rewrite (Permutation_length P1u). rewrite (P3u HnU). reflexivity. }
             assert (Equ : mb_empty MBu qu = true) by (apply (ok_empty_live _ HU); apply length_zero_iff_nil; exact Lqu).
             destruct (grain c) eqn:Eg.
             ++ (* grain, not paused: reset; responses empty; paused()? no; mailbox empty *)
                assert (Hpa : pa = false) by (destruct pa; [discriminate|reflexivity]). subst pa.
                eexists 6, _. split.
                { simpl. rewrite Hw. simpl. rewrite Eds, Eg. simpl. adv Hw th w. rewrite Edu. adv Hw th w. rewrite Eg. adv Hw th w.
                  rewrite Eq, Eg. adv Hw th w. adv Hw th w. rewrite Equ, Eg. reflexivity. }
                simpl. rewrite ?upd_upd. split; [eapply nth_error_upd_eq; eauto|]. split; [idle_others Ho|].
                repeat split; try tauto; try lia; try (left; lia).
             ++ (* PID: reset; mailbox empty; system mailbox empty *)
                assert (Hpa : pa = false) by (apply Hg; reflexivity). subst pa.
                eexists 5, _. split.
                { simpl. rewrite Hw. simpl. rewrite Eds, Eg. simpl. adv Hw th w. rewrite Edu. adv Hw th w. rewrite Eg. adv Hw th w.
                  rewrite Equ, Eg. adv Hw th w. rewrite Eq, Eg. reflexivity. }
                simpl. rewrite ?upd_upd. split; [eapply nth_error_upd_eq; eauto|]. split; [idle_others Ho|].
                repeat split; try tauto; try lia; try (left; lia).
  Qed.

  Lemma forallb_nth (l : list pc) : forallb idle_pc l = true <-> (forall j p, nth_error l j = Some p -> idle_pc p = true).
  Proof.
    induction l as [|x r IH]; simpl.
    - split; auto. intros _ [|j] p H; discriminate.
    - rewrite andb_true_iff, IH. split.
      + intros [Hx Hr] [|j] p H; simpl in H; [inversion H; subst; exact Hx | eapply Hr; eauto].
      + intros H. split; [apply (H 0 x eq_refl) | intros j p Hj; apply (H (S j) p Hj)].
  Qed.

  (* handled only grows along worker steps *)
  Lemma run_handled_mono c w : forall m (s0 s1 : state), run c s0 (repeat (LStep w) m) = Some s1 ->
    forall y, In y (handled s0) -> In y (handled s1).
  Proof.
    induction m as [|m IHm]; intros s0 s1 Rm y Hy; cbn [repeat Model.run] in Rm.
    - inversion Rm; subst; exact Hy.
    - destruct (step c s0 (LStep w)) as [s2|] eqn:Es; [|discriminate].
      eapply IHm; [exact Rm|].
      simpl in Es. destruct (nth_error (ths s0) w) as [p|]; [|discriminate].
      destruct s0 as [v0 tk0 sq0 uq0 pa0 th0 nid0 acc0 hd0 off0]; simpl in *.
      destruct p; simpl in Es; try discriminate;
        repeat match type of Es with
               | context [match ?x with _ => _ end] => destruct x; simpl in Es
               end; try discriminate; inversion Es; subst; simpl; auto; apply in_or_app; auto.
  Qed.

  (* From every reachable quiescent state, the steps of ONE worker drain everything the turn loop would consume. *)
  Theorem drain_from_quiescent c w : restart_resets c = false -> 0 < budget c ->
    forall N (s : state), reach c s -> quiescent MBs MBu s -> nth_error (ths s) w = Some WIdle -> todo s <= N ->
    exists n s', run c s (repeat (LStep w) n) = Some s' /\ reach c s' /\ quiescent MBs MBu s' /\ todo s' = 0 /\
                 (forall y, In y (handled s) -> In y (handled s')).
  Proof.
    intros Hc Hb. induction N as [|N IHN]; intros s Hr Hq Hw HN.
    - exists 0, s. simpl. repeat split; auto. lia.
    - destruct (todo s) as [|t] eqn:Et.
      { exists 0, s. simpl. repeat split; auto. }
      (* a message is pending: the ticket is queued *)
      assert (Hp : pending MBs MBu s).
      { unfold pending, todo in *. destruct (paused s); [left; lia|]. destruct (lps MBs MBu s); [right; split; [reflexivity|lia] | left; lia]. }
      destruct (quiescent_pending_has_ticket MBs MBu HS HU c s Hc Hr Hq Hp) as [Hst Htk].
      pose proof (reach_offresets MBs MBu c s Hc Hr) as H0.
      destruct (reach_wake MBs MBu HS HU c s Hr H0) as (W1 & W2 & W3 & _ & _).
      assert (Z1 : cnt (resvb false) (ths s) = 0) by (apply idle_cnt0; [intros [] E; simpl in *; congruence|exact Hq]).
      assert (Z2 : cnt (resvb true) (ths s) = 0) by (apply idle_cnt0; [intros [] E; simpl in *; congruence|exact Hq]).
      pose proof (proj1 (forallb_nth _) Hq) as Hall.
      destruct s as [v tk sq uq pa th nid acc hd off]; simpl in *. subst v tk.
      (* take; TakeForProcessing *)
      set (s2 := MkState MBs MBu Processing 0 sq uq pa (upd th w (loop (budget c))) nid acc hd off).
      assert (R2 : run c (MkState MBs MBu Scheduled 1 sq uq pa th nid acc hd off) (repeat (LStep w) 2) = Some s2).
      { simpl. rewrite Hw. simpl. unfold set_pc, set_tickets; simpl. rewrite (nth_error_upd_eq th w _ WTaken Hw). simpl.
        unfold set_pc, set_st; simpl. rewrite upd_upd. reflexivity. }
      destruct (turn_drains c w (budget c) s2) as (n & s' & R & A & B & C & D & E & F & G).
      { intros j p Hj Hp'. simpl in Hp'. rewrite nth_error_upd_neq in Hp' by auto. eapply Hall; eauto. }
      { simpl. eapply nth_error_upd_eq; eauto. }
      { split; simpl; apply length_zero_iff_nil; lia. }
      { simpl. exact W3. }
      assert (Rall : run c (MkState MBs MBu Scheduled 1 sq uq pa th nid acc hd off) (repeat (LStep w) (2 + n)) = Some s').
      { rewrite (run_steps_app c w 2 n _ s2 R2). exact R. }
      assert (Hr' : reach c s') by (eapply run_reach; [exact Hr | exact Rall]).
      assert (Hq' : quiescent MBs MBu s').
      { apply forallb_nth. intros j p Hj. destruct (Nat.eq_dec j w) as [->|Hne]; [rewrite A in Hj; inversion Hj; reflexivity | eapply B; eauto]. }
      assert (Hlt : todo s' <= N).
      { assert (todo s2 = S t) by (unfold todo, lpu, lps in *; simpl in *; exact Et).
        specialize (F Hb). rewrite H in *. specialize (F ltac:(lia)). lia. }
      destruct (IHN s' Hr' Hq' A Hlt) as (n2 & s'' & R'' & Hr'' & Hq'' & Ht'' & Hh'').
      exists (2 + n + n2), s''. split; [rewrite (run_steps_app c w (2 + n) n2 _ s' Rall); exact R''|].
      repeat split; auto.
      intros y Hy. apply Hh''. eapply (run_handled_mono c w _ _ _ Rall). exact Hy.
  Qed.
End Progress.
