(* C22 model: the three client balancers as executable step functions.
   RoundRobin uses the index / next-cursor definitions that goq regenerates from
   client/round_robin.go (Gen/C22.v); nodes are abstract identifiers (nat). *)
From Coq Require Import ZArith List Bool.
From GV Require Import Lib.GoInt Gen.C22.
Import ListNotations.
Open Scope Z_scope.

(* ---------- RoundRobin: fields nodes, next ---------- *)
Record rr_state := mkRR { rr_nodes : list nat; rr_cursor : Z }.

Inductive rr_op :=
| RRNext                      (* Next() *)
| RRSet (nodes : list nat)    (* Set(nodes...) *)
| RRPreset (c : Z).           (* harness only: the cursor field holds an arbitrary (stale) uint32 *)

(* output of Next: Some node, or None when the Go code panics (index out of range / division by zero) *)
Definition rr_next_call (s : rr_state) : rr_state * option nat :=
  let n := Z.of_nat (length (rr_nodes s)) in
  if n =? 0 then (s, None)
  else
    let idx := client_rr_index n (rr_cursor s) in
    let s' := mkRR (rr_nodes s) (client_rr_next n (rr_cursor s)) in
    if (0 <=? idx) && (idx <? n) then (s', nth_error (rr_nodes s) (Z.to_nat idx)) else (s', None).

Definition rr_step (s : rr_state) (op : rr_op) : rr_state * option (option nat) :=
  match op with
  | RRNext => let (s', o) := rr_next_call s in (s', Some o)
  | RRSet ns => (mkRR ns (rr_cursor s), None)
  | RRPreset c => (mkRR (rr_nodes s) c, None)
  end.

(* trace: for every op the node list in force, the output, and the cursor afterwards *)
Fixpoint rr_run (s : rr_state) (ops : list rr_op) : list (list nat * option (option nat) * Z) :=
  match ops with
  | [] => []
  | op :: ops' => let (s', o) := rr_step s op in (rr_nodes s, o, rr_cursor s') :: rr_run s' ops'
  end.

Definition rr_init : rr_state := mkRR [] 0.

(* ---------- LeastLoad: stable sort by weight, take element 0 (the sorted order is kept) ---------- *)
Section LeastLoad.
  Variable w : nat -> Z.    (* weights read during this call (rank in cmp.Compare's order) *)
  Fixpoint ll_insert (x : nat) (l : list nat) : list nat :=
    match l with
    | [] => [x]
    | y :: l' => if w x <=? w y then x :: y :: l' else y :: ll_insert x l'
    end.
  Fixpoint ll_sort (l : list nat) : list nat :=
    match l with [] => [] | x :: l' => ll_insert x (ll_sort l') end.
  Definition ll_next (nodes : list nat) : list nat * option nat :=
    let sorted := ll_sort nodes in (sorted, hd_error sorted).
End LeastLoad.

Inductive ll_op := LLNext (w : list Z) | LLSet (nodes : list nat).
Definition weight_of (ws : list Z) (x : nat) : Z := nth x ws 0.
Definition ll_step (nodes : list nat) (op : ll_op) : list nat * option (option nat) :=
  match op with
  | LLNext ws => let (s, o) := ll_next (weight_of ws) nodes in (s, Some o)
  | LLSet ns => (ns, None)
  end.
Fixpoint ll_run (nodes : list nat) (ops : list ll_op) : list (list nat * option (option nat) * list nat) :=
  match ops with
  | [] => []
  | op :: ops' => let (s', o) := ll_step nodes op in (nodes, o, s') :: ll_run s' ops'
  end.

(* ---------- Random: nodes[rand.IntN(len(nodes))]; r is the value rand.IntN returned ---------- *)
Definition random_next (nodes : list nat) (r : nat) : option nat := nth_error nodes r.

(* Lock discipline.  Every balancer method runs entirely under the balancer's mutex (Lock ... defer
   Unlock), so a Set and a Next are each ONE atomic step on the state: any execution by any number of
   goroutines is a sequential history of such steps, which is what rr_run / ll_run / rnd_run range
   over.  For Random that means: the length passed to rand.IntN and the slice indexed are the ones of
   the same step.  [draw] is the function rand.IntN computes on the length it is given (any function
   with draw n < n for n > 0). *)
Inductive rnd_op := RndNext (draw : nat -> nat) | RndSet (nodes : list nat).
Definition rnd_step (nodes : list nat) (op : rnd_op) : list nat * option (option nat) :=
  match op with
  | RndNext draw => (nodes, Some (random_next nodes (draw (length nodes))))
  | RndSet ns => (ns, None)
  end.
Fixpoint rnd_run (nodes : list nat) (ops : list rnd_op) : list (list nat * option (option nat)) :=
  match ops with
  | [] => []
  | op :: ops' => let (s', o) := rnd_step nodes op in (nodes, o) :: rnd_run s' ops'
  end.

(* a Next split into two critical sections (read the size; later index) is NOT one atomic step: a Set
   may come in between.  State: the list, and the index a reader holds between its two sections. *)
Inductive split_op := SpSize (draw : nat -> nat) | SpIndex | SpSet (nodes : list nat).
Definition split_step (st : list nat * option nat) (op : split_op) : (list nat * option nat) * option (option nat) :=
  match op, st with
  | SpSize draw, (nodes, _) => ((nodes, Some (draw (length nodes))), None)
  | SpIndex, (nodes, Some i) => ((nodes, None), Some (nth_error nodes i))
  | SpIndex, (nodes, None) => ((nodes, None), None)
  | SpSet ns, (_, held) => ((ns, held), None)
  end.
