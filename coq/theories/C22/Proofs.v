(* C22 proofs.  Round robin: the two characterising equations of the goq-generated definitions,
   then the shared cursor theory (Lib/RRCursor.v) and the history theorems over the model.
   LeastLoad / Random: membership, minimality, permutation. *)
From Coq Require Import ZArith Lia List Bool Permutation Sorted.
From GV Require Import Lib.GoInt Lib.RRCursor Gen.C22 C22.Model.
Import ListNotations.
Open Scope Z_scope.

(* ------------------------------------------------------------------ generated definitions *)
Lemma rem_is_mod a b : 0 <= a -> 0 < b -> go_rem a b = a mod b.
Proof. intros. unfold go_rem. apply Z.rem_mod_nonneg; lia. Qed.

Lemma u32_small x n : 0 <= x <= n -> n <= max_u32 -> u32 x = x.
Proof. intros. apply u32_id. unfold in_u32. lia. Qed.

Lemma client_rr_index_char n c : pool_size_ok n -> in_u32 c -> client_rr_index n c = c mod n.
Proof.
  intros [Hn0 Hn1] Hc. unfold client_rr_index. cbv zeta.
  rewrite (u32_small n n) by lia.
  assert (0 <= c) by (unfold in_u32 in Hc; lia).
  rewrite (rem_is_mod c n) by lia.
  pose proof (Z.mod_pos_bound c n Hn0).
  apply (u32_small _ n); lia.
Qed.

Lemma client_rr_next_char n c : pool_size_ok n -> in_u32 c -> client_rr_next n c = (c mod n + 1) mod n.
Proof.
  intros [Hn0 Hn1] Hc. unfold client_rr_next. cbv zeta.
  rewrite (u32_small n n) by lia.
  assert (0 <= c) by (unfold in_u32 in Hc; lia).
  rewrite (rem_is_mod c n) by lia.
  pose proof (Z.mod_pos_bound c n Hn0).
  rewrite (u32_small (c mod n) n) by lia.
  rewrite (u32_small (c mod n + 1) n) by lia.
  rewrite (rem_is_mod (c mod n + 1) n) by lia.
  pose proof (Z.mod_pos_bound (c mod n + 1) n Hn0).
  apply (u32_small _ n); lia.
Qed.

Definition crun := run client_rr_next.
Definition crun_sizes := run_sizes client_rr_index client_rr_next.

Lemma client_index_in_range n c : pool_size_ok n -> in_u32 c -> 0 <= client_rr_index n c < n.
Proof. apply (index_in_range _ client_rr_index_char). Qed.

Lemma client_next_in_range n c : pool_size_ok n -> in_u32 c -> 0 <= client_rr_next n c < n.
Proof. apply (next_in_range _ client_rr_next_char). Qed.

Lemma client_kth_call n k : pool_size_ok n -> (1 <= k)%nat ->
  client_rr_index n (crun n (k - 1) 0) = (Z.of_nat k - 1) mod n.
Proof. apply (kth_call _ _ client_rr_index_char client_rr_next_char). Qed.

Lemma client_index_after n k c : pool_size_ok n -> in_u32 c ->
  client_rr_index n (crun n k c) = (c + Z.of_nat k) mod n.
Proof. apply (index_after _ _ client_rr_index_char client_rr_next_char). Qed.

Lemma client_sizes_in_range ns c : Forall pool_size_ok ns -> in_u32 c ->
  Forall2 (fun n i => 0 <= i < n) ns (fst (crun_sizes ns c)).
Proof. intros H1 H2. apply (run_sizes_in_range _ _ client_rr_index_char client_rr_next_char ns c H1 H2). Qed.

Lemma client_window n c r : pool_size_ok n -> in_u32 c -> 0 <= r < n ->
  exists j : nat, Z.of_nat j < n /\ client_rr_index n (crun n j c) = r /\
    forall j' : nat, Z.of_nat j' < n -> client_rr_index n (crun n j' c) = r -> j' = j.
Proof. apply (window_hits_each_once _ _ client_rr_index_char client_rr_next_char). Qed.

(* ------------------------------------------------------------------ the RoundRobin object over histories *)
(* well-formed history: every node list installed by Set is non-empty and fits a uint32 length;
   Preset puts an arbitrary uint32 into the cursor field (a stale cursor). *)
Definition nodes_ok (ns : list nat) : Prop := ns <> [] /\ Z.of_nat (length ns) <= max_u32.
Definition rr_op_ok (op : rr_op) : Prop :=
  match op with RRNext => True | RRSet ns => nodes_ok ns | RRPreset c => in_u32 c end.
Definition rr_state_ok (s : rr_state) : Prop := nodes_ok (rr_nodes s) /\ in_u32 (rr_cursor s).

Lemma nodes_ok_pool ns : nodes_ok ns -> pool_size_ok (Z.of_nat (length ns)).
Proof. intros [H1 H2]. split; [|assumption]. destruct ns; [contradiction|simpl; lia]. Qed.

(* what a Next call returns in a well-formed state *)
Lemma rr_next_call_spec s : rr_state_ok s ->
  let n := Z.of_nat (length (rr_nodes s)) in
  exists v, rr_next_call s = (mkRR (rr_nodes s) ((rr_cursor s mod n + 1) mod n), Some v)
            /\ nth_error (rr_nodes s) (Z.to_nat (rr_cursor s mod n)) = Some v.
Proof.
  intros [Hns Hc] n. pose proof (nodes_ok_pool _ Hns) as Hp. fold n in Hp.
  unfold rr_next_call. fold n.
  destruct (n =? 0) eqn:E0; [unfold pool_size_ok in Hp; lia|].
  rewrite client_rr_index_char, client_rr_next_char by assumption.
  pose proof (Z.mod_pos_bound (rr_cursor s) n ltac:(unfold pool_size_ok in Hp; lia)) as Hb.
  destruct ((0 <=? rr_cursor s mod n) && (rr_cursor s mod n <? n)) eqn:Er; [|lia].
  destruct (nth_error (rr_nodes s) (Z.to_nat (rr_cursor s mod n))) eqn:En.
  - exists n0. split; reflexivity.
  - apply nth_error_None in En. subst n. lia.
Qed.

Lemma rr_step_ok s op : rr_state_ok s -> rr_op_ok op -> rr_state_ok (fst (rr_step s op)).
Proof.
  intros Hs Hop. destruct op; simpl.
  - destruct (rr_next_call_spec s Hs) as [v [E _]]. rewrite E. cbn [fst].
    destruct Hs as [Hns Hc]. split; [assumption|]. cbn [rr_cursor].
    pose proof (nodes_ok_pool _ Hns) as [Hp0 Hp1].
    set (n := Z.of_nat (length (rr_nodes s))) in *.
    pose proof (Z.mod_pos_bound (rr_cursor s mod n + 1) n Hp0).
    unfold in_u32. lia.
  - destruct Hs. split; assumption.
  - destruct Hs. split; assumption.
Qed.

(* every Next of every well-formed history returns a node of the list in force *)
Definition entry_ok (e : list nat * option (option nat) * Z) : Prop :=
  match e with
  | (ns, Some o, _) => exists v, o = Some v /\ In v ns
  | (_, None, _) => True
  end.

Lemma rr_always_configured ops : forall s, rr_state_ok s -> Forall rr_op_ok ops ->
  Forall entry_ok (rr_run s ops).
Proof.
  induction ops as [|op ops IH]; intros s Hs Hops; simpl; [constructor|].
  inversion Hops as [|? ? Hop Hops']; subst.
  pose proof (rr_step_ok s op Hs Hop) as Hs'.
  destruct (rr_step s op) as [s' o] eqn:E. simpl in Hs'.
  constructor; [|apply IH; assumption].
  destruct op; simpl in E.
  - destruct (rr_next_call_spec s Hs) as [v [E1 E2]]. rewrite E1 in E. inversion E; subst.
    simpl. exists v. split; [reflexivity|]. eapply nth_error_In; eauto.
  - inversion E; subst. exact I.
  - inversion E; subst. exact I.
Qed.

(* a Set on a fresh balancer followed by k Next calls: the k-th returns nodes[(k-1) mod n] *)
Fixpoint rr_nexts (s : rr_state) (k : nat) : rr_state * list (option nat) :=
  match k with
  | O => (s, [])
  | S k' => let (s1, outs) := rr_nexts s k' in let (s2, o) := rr_next_call s1 in (s2, outs ++ [o])
  end.

Lemma rr_nexts_spec ns c k : nodes_ok ns -> in_u32 c ->
  let n := Z.of_nat (length ns) in
  rr_state_ok (fst (rr_nexts (mkRR ns c) k)) /\
  rr_nodes (fst (rr_nexts (mkRR ns c) k)) = ns /\
  (rr_cursor (fst (rr_nexts (mkRR ns c) k))) mod n = (c + Z.of_nat k) mod n /\
  length (snd (rr_nexts (mkRR ns c) k)) = k /\
  forall j, (j < k)%nat ->
    nth_error (snd (rr_nexts (mkRR ns c) k)) j = Some (nth_error ns (Z.to_nat ((c + Z.of_nat j) mod n))).
Proof.
  intros Hns Hc n. pose proof (nodes_ok_pool _ Hns) as Hp. fold n in Hp.
  assert (Hn0 : 0 < n) by (unfold pool_size_ok in Hp; lia).
  induction k.
  - cbn [rr_nexts fst snd rr_nodes rr_cursor]. split; [|split; [|split; [|split]]].
    + split; assumption.
    + reflexivity.
    + f_equal. lia.
    + reflexivity.
    + intros j Hj. lia.
  - cbn [rr_nexts]. destruct (rr_nexts (mkRR ns c) k) as [s1 outs] eqn:E1. cbn [fst snd] in IHk.
    destruct IHk as [Hs1 [Hn1 [Hc1 [Hl1 Hout1]]]].
    destruct (rr_next_call_spec s1 Hs1) as [v [E2 E3]]. rewrite Hn1 in E2, E3. fold n in E2, E3.
    rewrite E2. cbn [fst snd rr_nodes rr_cursor]. split; [|split; [|split; [|split]]].
    + split; [assumption|]. cbn [rr_cursor].
      pose proof (Z.mod_pos_bound (rr_cursor s1 mod n + 1) n Hn0). unfold in_u32.
      unfold pool_size_ok in Hp. lia.
    + reflexivity.
    + rewrite Z.mod_mod by lia. rewrite Hc1. rewrite Zplus_mod_idemp_l. f_equal. lia.
    + rewrite app_length. cbn [length]. lia.
    + intros j Hj. destruct (Nat.eq_dec j k) as [->|Hne].
      * rewrite nth_error_app2 by lia. rewrite Hl1, Nat.sub_diag. cbn [nth_error].
        rewrite <- Hc1. rewrite E3. reflexivity.
      * rewrite nth_error_app1 by lia. apply Hout1. lia.
Qed.

Lemma rr_cyclic_from_fresh ns k : nodes_ok ns -> (1 <= k)%nat ->
  nth_error (snd (rr_nexts (mkRR ns 0) k)) (k - 1) =
  Some (nth_error ns (Z.to_nat ((Z.of_nat k - 1) mod Z.of_nat (length ns)))).
Proof.
  intros Hns Hk.
  destruct (rr_nexts_spec ns 0 k Hns ltac:(unfold in_u32, max_u32; lia)) as [_ [_ [_ [_ H]]]].
  rewrite H by lia. replace (0 + Z.of_nat (k - 1)) with (Z.of_nat k - 1) by lia. reflexivity.
Qed.

(* ------------------------------------------------------------------ LeastLoad *)
Section LL.
  Variable w : nat -> Z.

  Lemma ll_insert_perm x l : Permutation (ll_insert w x l) (x :: l).
  Proof.
    induction l as [|y l IH]; simpl; [reflexivity|].
    destruct (w x <=? w y); [reflexivity|].
    rewrite IH. apply perm_swap.
  Qed.

  Lemma ll_sort_perm l : Permutation (ll_sort w l) l.
  Proof. induction l; simpl; [reflexivity|]. rewrite ll_insert_perm. constructor. assumption. Qed.

  Definition le_w (a b : nat) : Prop := w a <= w b.

  Lemma ll_insert_sorted x l : Sorted le_w l -> Sorted le_w (ll_insert w x l).
  Proof.
    induction l as [|y l IH]; intros Hs; simpl.
    - repeat constructor.
    - destruct (Z.leb_spec (w x) (w y)).
      + constructor; [assumption|constructor; assumption].
      + inversion Hs as [|? ? Hs' Hhd]; subst. constructor; [apply IH; assumption|].
        destruct l as [|z l]; simpl.
        * constructor. unfold le_w. lia.
        * destruct (Z.leb_spec (w x) (w z)); constructor; unfold le_w; try lia.
          inversion Hhd; subst. assumption.
  Qed.

  Lemma ll_sort_sorted l : Sorted le_w (ll_sort w l).
  Proof. induction l; simpl; [constructor|]. apply ll_insert_sorted. assumption. Qed.

  Lemma le_w_trans : Relations_1.Transitive le_w.
  Proof. intros a b c. unfold le_w. lia. Qed.

  (* the node returned: a member of the list, of minimum weight *)
  Lemma ll_next_spec nodes : nodes <> [] ->
    exists v, snd (ll_next w nodes) = Some v /\ In v nodes /\ (forall y, In y nodes -> w v <= w y)
              /\ Permutation (fst (ll_next w nodes)) nodes.
  Proof.
    intros Hne. unfold ll_next. simpl.
    pose proof (ll_sort_perm nodes) as Hp. pose proof (ll_sort_sorted nodes) as Hs.
    destruct (ll_sort w nodes) as [|v rest] eqn:E.
    - apply Permutation_nil in Hp. contradiction.
    - exists v. simpl. split; [reflexivity|]. split; [|split].
      + apply (Permutation_in _ Hp). left. reflexivity.
      + intros y Hy. apply (Permutation_in _ (Permutation_sym Hp)) in Hy.
        destruct Hy as [->|Hy]; [lia|].
        apply Sorted_StronglySorted in Hs; [|exact le_w_trans].
        inversion Hs as [|? ? _ Hall]; subst. rewrite Forall_forall in Hall. apply Hall. assumption.
      + assumption.
  Qed.

  (* stability at the head: no node placed earlier in the list has the same (minimum) weight *)
  Lemma ll_insert_head x l : hd_error (ll_insert w x l) =
    match l with [] => Some x | y :: _ => if w x <=? w y then Some x else Some y end.
  Proof. destruct l as [|y l]; simpl; [reflexivity|]. destruct (w x <=? w y); reflexivity. Qed.

  Lemma ll_sort_head_first l v post : ll_sort w l = v :: post -> forall a b, l = a ++ v :: b ->
    ~ In v a -> forall y, In y a -> w v < w y.
  Proof.
    revert v post. induction l as [|x l IH]; intros v post E a b El Hnin y Hy.
    - destruct a; discriminate.
    - destruct a as [|a0 a]; [destruct Hy|].
      simpl in El. inversion El; subst a0 l. clear El.
      simpl in E. pose proof (ll_insert_head x (ll_sort w (a ++ v :: b))) as Hh. rewrite E in Hh. simpl in Hh.
      destruct (ll_sort w (a ++ v :: b)) as [|m rest] eqn:Es.
      + pose proof (ll_sort_perm (a ++ v :: b)) as Hp. rewrite Es in Hp. apply Permutation_nil in Hp.
        destruct a; discriminate.
      + destruct (Z.leb_spec (w x) (w m)).
        * inversion Hh; subst v. exfalso. apply Hnin. left. reflexivity.
        * inversion Hh; subst m.
          destruct Hy as [->|Hy]; [assumption|].
          eapply (IH v rest eq_refl a b eq_refl); [|exact Hy]. intros Hc. apply Hnin. right. exact Hc.
  Qed.
End LL.

(* over any history of Set / Next (weights re-read at each call): outputs are configured nodes of
   minimum weight, and the stored list stays a permutation of the configured one *)
Definition ll_op_ok (op : ll_op) : Prop := match op with LLNext _ => True | LLSet ns => ns <> [] end.
Definition ll_entry_ok (e : list nat * option (option nat) * list nat) (op : ll_op) : Prop :=
  match e, op with
  | (ns, Some o, ns'), LLNext ws =>
      exists v, o = Some v /\ In v ns /\ (forall y, In y ns -> weight_of ws v <= weight_of ws y) /\ Permutation ns' ns
  | _, _ => True
  end.

Lemma ll_always_configured ops : forall nodes, nodes <> [] -> Forall ll_op_ok ops ->
  Forall2 ll_entry_ok (ll_run nodes ops) ops.
Proof.
  induction ops as [|op ops IH]; intros nodes Hne Hops; simpl; [constructor|].
  inversion Hops as [|? ? Hop Hops']; subst.
  destruct op as [ws|ns]; simpl.
  - destruct (ll_next_spec (weight_of ws) nodes Hne) as [v [E1 [E2 [E3 E4]]]].
    unfold ll_next in *. simpl in *.
    constructor.
    + simpl. exists v. repeat split; assumption.
    + apply IH; [|assumption]. intros Hc. rewrite Hc in E4. apply Permutation_nil in E4. contradiction.
  - constructor; [exact I|]. apply IH; assumption.
Qed.

(* ------------------------------------------------------------------ Random *)
Lemma random_next_in nodes r : (r < length nodes)%nat -> exists v, random_next nodes r = Some v /\ In v nodes.
Proof.
  intros H. unfold random_next. destruct (nth_error nodes r) eqn:E.
  - exists n. split; [reflexivity|]. eapply nth_error_In; eauto.
  - apply nth_error_None in E. lia.
Qed.

(* Random over every history of atomic Set / Next steps (any number of goroutines: each method is one
   step under the mutex) *)
Definition draw_ok (draw : nat -> nat) : Prop := forall n, (0 < n)%nat -> (draw n < n)%nat.
Definition rnd_op_ok (op : rnd_op) : Prop := match op with RndNext d => draw_ok d | RndSet ns => ns <> [] end.
Definition rnd_entry_ok (e : list nat * option (option nat)) : Prop :=
  match e with
  | (ns, Some o) => exists v, o = Some v /\ In v ns
  | (_, None) => True
  end.

Lemma rnd_always_configured ops : forall nodes, nodes <> [] -> Forall rnd_op_ok ops -> Forall rnd_entry_ok (rnd_run nodes ops).
Proof.
  induction ops as [|op ops IH]; intros nodes Hne Hops; cbn [rnd_run]; [constructor|].
  inversion Hops as [|? ? Hop Hops']; subst. destruct op as [d|ns]; cbn [rnd_step].
  - constructor; [|apply IH; assumption]. cbn [rnd_entry_ok]. apply random_next_in. apply Hop.
    destruct nodes; [contradiction|simpl; lia].
  - constructor; [exact I|]. apply IH; assumption.
Qed.

(* the split (two critical sections) variant does leave the configured list: size read on a list of
   3, Set to a list of 1 in the gap, then the index 2 is out of range (Go: panic) *)
Example split_next_leaves_the_pool :
  snd (split_step (fst (split_step (fst (split_step ([0;1;2]%nat, None) (SpSize (fun n => n - 1)%nat))) (SpSet [7]%nat))) SpIndex)
  = Some None.
Proof. reflexivity. Qed.

(* ------------------------------------------------------------------ non-vacuity *)
Example rr_example :
  map (fun e => snd (fst e)) (rr_run rr_init [RRSet [10;11;12]%nat; RRNext; RRNext; RRNext; RRNext;
                                 RRPreset 4294967294; RRNext; RRNext; RRNext; RRSet [7;8]%nat; RRNext])
  = [None; Some (Some 10); Some (Some 11); Some (Some 12); Some (Some 10);
     None; Some (Some 12); Some (Some 10); Some (Some 11); None; Some (Some 7)]%nat.
Proof. vm_compute. reflexivity. Qed.

Example ll_example :
  ll_next (weight_of [2; 0; 1; 0]) [0;1;2;3]%nat = ([1;3;2;0]%nat, Some 1%nat).
Proof. vm_compute. reflexivity. Qed.
