(* C10 — facts about the tree operations of C10/Model.v: watcher sets stay duplicate-free, and which
   operations can add a watcher. *)
From Coq Require Import List Bool Arith Lia.
From GV Require Import C10.Model.
Import ListNotations.

(* ------------------------------------------------------------------------------------------ *)
(* sets *)
Lemma mem_In x l : mem x l = true <-> In x l.
Proof.
  unfold mem. rewrite existsb_exists. split.
  - intros [y [Hy He]]. apply Nat.eqb_eq in He. subst. exact Hy.
  - intro H. exists x. split; [exact H|apply Nat.eqb_refl].
Qed.

Lemma mem_false x l : mem x l = false <-> ~ In x l.
Proof. rewrite <- mem_In. destruct (mem x l); split; intro H; try discriminate; try reflexivity; exfalso; apply H; reflexivity. Qed.

Lemma set_add_In x y l : In y (set_add x l) <-> In y l \/ y = x.
Proof.
  unfold set_add. destruct (mem x l) eqn:E.
  - apply mem_In in E. split; [auto|]. intros [H|H]; subst; assumption.
  - rewrite in_app_iff. cbn. split; intros [H|H]; auto; destruct H; auto; contradiction.
Qed.

Lemma NoDup_snoc {A} (x : A) l : NoDup l -> ~ In x l -> NoDup (l ++ [x]).
Proof.
  induction l as [|a l IH]; intros Hn Hx; cbn.
  - constructor; [intros []|constructor].
  - inversion Hn; subst. constructor.
    + rewrite in_app_iff. cbn. intros [H|[H|[]]]; [contradiction|]. subst. apply Hx. left. reflexivity.
    + apply IH; [assumption|]. intro H. apply Hx. right. exact H.
Qed.

Lemma set_add_NoDup x l : NoDup l -> NoDup (set_add x l).
Proof.
  intro H. unfold set_add. destruct (mem x l) eqn:E; [exact H|].
  apply mem_false in E. apply NoDup_snoc; assumption.
Qed.

Lemma set_del_In x y l : In y (set_del x l) <-> In y l /\ y <> x.
Proof.
  unfold set_del. rewrite filter_In. split; intros [H1 H2]; split; try exact H1.
  - intro E. subst. rewrite Nat.eqb_refl in H2. discriminate.
  - apply negb_true_iff. apply Nat.eqb_neq. intro E. apply H2. symmetry. exact E.
Qed.

Lemma set_del_NoDup x l : NoDup l -> NoDup (set_del x l).
Proof. apply NoDup_filter. Qed.

(* ------------------------------------------------------------------------------------------ *)
(* association list *)
Lemma lookup_update t k f k' :
  lookup (update t k f) k' = if Nat.eqb k k' then option_map f (lookup t k') else lookup t k'.
Proof.
  unfold update. induction t as [|[i n] r IH]; cbn.
  - destruct (Nat.eqb k k'); reflexivity.
  - destruct (Nat.eqb i k) eqn:E1; cbn.
    + apply Nat.eqb_eq in E1. subst i. rewrite IH. destruct (Nat.eqb k k'); reflexivity.
    + destruct (Nat.eqb i k') eqn:E2.
      * apply Nat.eqb_eq in E2. subst i. rewrite Nat.eqb_sym in E1. rewrite E1. reflexivity.
      * exact IH.
Qed.

Lemma lookup_remove t k k' : lookup (remove t k) k' = if Nat.eqb k k' then None else lookup t k'.
Proof.
  unfold remove. induction t as [|[i n] r IH]; cbn.
  - destruct (Nat.eqb k k'); reflexivity.
  - destruct (Nat.eqb i k) eqn:E1; cbn.
    + apply Nat.eqb_eq in E1. subst i. rewrite IH. destruct (Nat.eqb k k'); reflexivity.
    + destruct (Nat.eqb i k') eqn:E2.
      * apply Nat.eqb_eq in E2. subst i. rewrite Nat.eqb_sym in E1. rewrite E1. reflexivity.
      * exact IH.
Qed.

Lemma lookup_snoc t k n k' :
  lookup (t ++ [(k, n)]) k' =
  match lookup t k' with Some x => Some x | None => if Nat.eqb k k' then Some n else None end.
Proof.
  induction t as [|[i m] r IH]; cbn; [reflexivity|].
  destruct (Nat.eqb i k'); [reflexivity|exact IH].
Qed.

(* ------------------------------------------------------------------------------------------ *)
(* the watcher sets stay duplicate-free *)
Definition tree_ok (t : tree) : Prop := forall k n, lookup t k = Some n -> NoDup (watchers n).

Lemma tree_ok_nil : tree_ok [].
Proof. intros k n H. discriminate. Qed.

Lemma tree_ok_update t k f :
  (forall n, NoDup (watchers n) -> NoDup (watchers (f n))) -> tree_ok t -> tree_ok (update t k f).
Proof.
  intros Hf H k' n. rewrite lookup_update. destruct (Nat.eqb k k'); [|apply H].
  destruct (lookup t k') eqn:E; cbn; [|discriminate]. intro X. inversion X; subst. apply Hf. exact (H _ _ E).
Qed.

Lemma tree_ok_remove t k : tree_ok t -> tree_ok (remove t k).
Proof. intros H k' n. rewrite lookup_remove. destruct (Nat.eqb k k'); [discriminate|apply H]. Qed.

Lemma tree_ok_snoc t k n : NoDup (watchers n) -> tree_ok t -> tree_ok (t ++ [(k, n)]).
Proof.
  intros Hn H k' m. rewrite lookup_snoc. destruct (lookup t k') eqn:E.
  - intro X. inversion X; subst. exact (H _ _ E).
  - destruct (Nat.eqb k k'); [|discriminate]. intro X. inversion X; subst. exact Hn.
Qed.

Lemma tree_ok_fold_update (g : nat -> node -> node) l :
  (forall x n, NoDup (watchers n) -> NoDup (watchers (g x n))) ->
  forall t, tree_ok t -> tree_ok (fold_left (fun t x => update t x (g x)) l t).
Proof.
  intros Hg. induction l as [|x l IH]; intros t H; cbn; [exact H|].
  apply IH. apply tree_ok_update; [apply Hg|exact H].
Qed.

Lemma tree_ok_addRoot t c : tree_ok t -> tree_ok (addRoot t c).
Proof. intro H. unfold addRoot. destruct (has t c); [exact H|]. apply tree_ok_snoc; [constructor|exact H]. Qed.

Lemma tree_ok_addNode t p c : tree_ok t -> tree_ok (addNode t p c).
Proof.
  intro H. unfold addNode. destruct (has t c); [exact H|]. destruct (negb (has t p)); [exact H|].
  apply tree_ok_snoc; [cbn; constructor; [intros []|constructor]|].
  apply tree_ok_update; [|exact H]. intros n Hn. exact Hn.
Qed.

Lemma tree_ok_attachNode t p c : tree_ok t -> tree_ok (attachNode t p c).
Proof.
  intro H. unfold attachNode. destruct (has t p && has t c); [|exact H].
  apply tree_ok_update; [intros n Hn; exact Hn|].
  apply tree_ok_update; [|exact H]. intros n Hn. cbn. apply set_add_NoDup, Hn.
Qed.

Lemma tree_ok_addWatcher t a w : tree_ok t -> tree_ok (addWatcher t a w).
Proof.
  intro H. unfold addWatcher. destruct (has t a && has t w); [|exact H].
  apply tree_ok_update; [intros n Hn; exact Hn|].
  apply tree_ok_update; [|exact H]. intros n Hn. cbn. apply set_add_NoDup, Hn.
Qed.

Lemma tree_ok_removeWatcher t a w : tree_ok t -> tree_ok (removeWatcher t a w).
Proof.
  intro H. unfold removeWatcher.
  apply tree_ok_update; [intros n Hn; cbn; apply set_del_NoDup, Hn|].
  apply tree_ok_update; [|exact H]. intros n Hn. exact Hn.
Qed.

Lemma tree_ok_removeDescendant t p c : tree_ok t -> tree_ok (removeDescendant t p c).
Proof. intro H. apply tree_ok_update; [|exact H]. intros n Hn. exact Hn. Qed.

Lemma tree_ok_delete_one t n : tree_ok t -> tree_ok (delete_one t n).
Proof.
  intro H. unfold delete_one. destruct (lookup t n) as [nd|]; [|exact H].
  apply tree_ok_remove.
  assert (H2 : tree_ok (fold_left (fun t0 x => update t0 x (with_watchers (set_del n))) (watchees nd)
                  (fold_left (fun t0 w => update t0 w (with_watchees (set_del n))) (watchers nd) t))).
  { apply (tree_ok_fold_update (fun _ => with_watchers (set_del n))); [intros x m Hm; cbn; apply set_del_NoDup, Hm|].
    apply (tree_ok_fold_update (fun _ => with_watchees (set_del n))); [intros x m Hm; exact Hm|exact H]. }
  destruct (parent nd); [|exact H2]. apply tree_ok_update; [|exact H2]. intros m Hm. exact Hm.
Qed.

Lemma tree_ok_deleteNode t a : tree_ok t -> tree_ok (deleteNode t a).
Proof.
  intro H. unfold deleteNode. destruct (has t a); [|exact H].
  generalize (rev (subtree (length t) t a)). intro l. revert t H.
  induction l as [|x l IH]; intros t H; cbn; [exact H|]. apply IH, tree_ok_delete_one, H.
Qed.

(* ------------------------------------------------------------------------------------------ *)
(* who can become a watcher *)
Lemma watchers_of_update t k f a :
  watchers_of (update t k f) a =
  if Nat.eqb k a then match lookup t a with Some n => watchers (f n) | None => [] end else watchers_of t a.
Proof. unfold watchers_of. rewrite lookup_update. destruct (Nat.eqb k a); [destruct (lookup t a); reflexivity|reflexivity]. Qed.

(* an update that never enlarges a watcher set *)
Definition shrinks (f : node -> node) : Prop := forall n x, In x (watchers (f n)) -> In x (watchers n).

Lemma watchers_of_update_shrinks t k f a x : shrinks f -> In x (watchers_of (update t k f) a) -> In x (watchers_of t a).
Proof.
  intros Hf. rewrite watchers_of_update. destruct (Nat.eqb k a); [|auto].
  unfold watchers_of. destruct (lookup t a); [apply Hf|auto].
Qed.

Lemma shrinks_with_watchees g : shrinks (with_watchees g).
Proof. intros n x H. exact H. Qed.
Lemma shrinks_with_children g : shrinks (with_children g).
Proof. intros n x H. exact H. Qed.
Lemma shrinks_set_del k : shrinks (with_watchers (set_del k)).
Proof. intros n x H. cbn in H. apply set_del_In in H. tauto. Qed.

Lemma watchers_of_remove t k a x : In x (watchers_of (remove t k) a) -> In x (watchers_of t a).
Proof. unfold watchers_of. rewrite lookup_remove. destruct (Nat.eqb k a); [intros []|auto]. Qed.

Lemma watchers_of_fold_shrinks (g : nat -> node -> node) l a x :
  (forall y, shrinks (g y)) ->
  forall t, In x (watchers_of (fold_left (fun t y => update t y (g y)) l t) a) -> In x (watchers_of t a).
Proof.
  intros Hg. induction l as [|y l IH]; intros t H; cbn in H; [exact H|].
  apply IH in H. eapply watchers_of_update_shrinks; [apply Hg|exact H].
Qed.

Lemma watchers_of_delete_one t n a x : In x (watchers_of (delete_one t n) a) -> In x (watchers_of t a).
Proof.
  unfold delete_one. destruct (lookup t n) as [nd|]; [|auto]. intro H.
  apply watchers_of_remove in H.
  assert (K : forall t', In x (watchers_of
            (fold_left (fun t0 y => update t0 y (with_watchers (set_del n))) (watchees nd)
               (fold_left (fun t0 w => update t0 w (with_watchees (set_del n))) (watchers nd) t')) a) ->
            In x (watchers_of t' a)).
  { intros t' K.
    apply (watchers_of_fold_shrinks (fun _ => with_watchers (set_del n))) in K; [|intro; apply shrinks_set_del].
    apply (watchers_of_fold_shrinks (fun _ => with_watchees (set_del n))) in K; [exact K|intro; apply shrinks_with_watchees]. }
  destruct (parent nd); [|apply K, H].
  apply K. eapply watchers_of_update_shrinks; [|exact H].
  intros m y Hy. exact Hy.
Qed.

Lemma watchers_of_deleteNode t a0 a x : In x (watchers_of (deleteNode t a0) a) -> In x (watchers_of t a).
Proof.
  unfold deleteNode. destruct (has t a0); [|auto].
  generalize (rev (subtree (length t) t a0)). intro l. revert t.
  induction l as [|y l IH]; intros t H; cbn in H; [exact H|].
  apply IH in H. apply watchers_of_delete_one in H. exact H.
Qed.

Lemma watchers_of_removeWatcher t a0 w0 a x :
  In x (watchers_of (removeWatcher t a0 w0) a) -> In x (watchers_of t a) /\ ~ (a = a0 /\ x = w0).
Proof.
  unfold removeWatcher. rewrite watchers_of_update. destruct (Nat.eqb a0 a) eqn:E.
  - apply Nat.eqb_eq in E. subst a0. rewrite lookup_update.
    destruct (Nat.eqb w0 a); destruct (lookup t a) as [n|] eqn:L; cbn; try (intros []);
      intro H; apply set_del_In in H; unfold watchers_of; rewrite L; split; try tauto; intros [_ K]; tauto.
  - intro H. apply watchers_of_update_shrinks in H; [|apply shrinks_with_watchees].
    split; [exact H|]. intros [K _]. subst. rewrite Nat.eqb_refl in E. discriminate.
Qed.

Lemma watchers_of_addWatcher t a0 w0 a x :
  In x (watchers_of (addWatcher t a0 w0) a) -> In x (watchers_of t a) \/ (a = a0 /\ x = w0).
Proof.
  unfold addWatcher. destruct (has t a0 && has t w0); [|auto].
  intro H. apply watchers_of_update_shrinks in H; [|apply shrinks_with_watchees].
  rewrite watchers_of_update in H. destruct (Nat.eqb a0 a) eqn:E; [|auto].
  apply Nat.eqb_eq in E. subst a0. unfold watchers_of. destruct (lookup t a); [|destruct H].
  cbn in H. apply set_add_In in H. tauto.
Qed.

Lemma watchers_of_snoc t k n a x :
  In x (watchers_of (t ++ [(k, n)]) a) -> In x (watchers_of t a) \/ (a = k /\ In x (watchers n)).
Proof.
  unfold watchers_of. rewrite lookup_snoc. destruct (lookup t a); [auto|].
  destruct (Nat.eqb k a) eqn:E; [|intros []]. apply Nat.eqb_eq in E. subst. auto.
Qed.

Lemma watchers_of_addRoot t c a x : In x (watchers_of (addRoot t c) a) -> In x (watchers_of t a).
Proof.
  unfold addRoot. destruct (has t c); [auto|]. intro H. apply watchers_of_snoc in H. destruct H as [H|[_ []]]. exact H.
Qed.

Lemma watchers_of_addNode t p c a x :
  In x (watchers_of (addNode t p c) a) -> In x (watchers_of t a) \/ (a = c /\ x = p).
Proof.
  unfold addNode. destruct (has t c); [auto|]. destruct (negb (has t p)); [auto|].
  intro H. apply watchers_of_snoc in H. destruct H as [H|[E H]].
  - left. eapply watchers_of_update_shrinks; [|exact H]. intros m y Hy. exact Hy.
  - cbn in H. destruct H as [H|[]]. auto.
Qed.

Lemma watchers_of_attachNode t p c a x :
  In x (watchers_of (attachNode t p c) a) -> In x (watchers_of t a) \/ (a = c /\ x = p).
Proof.
  unfold attachNode. destruct (has t p && has t c); [|auto].
  intro H. apply watchers_of_update_shrinks in H; [|intros m y Hy; exact Hy].
  rewrite watchers_of_update in H. destruct (Nat.eqb c a) eqn:E; [|auto].
  apply Nat.eqb_eq in E. subst c. unfold watchers_of. destruct (lookup t a); [|destruct H].
  cbn in H. apply set_add_In in H. tauto.
Qed.

Lemma watchers_of_addOrAttachNode t p c a x :
  In x (watchers_of (addOrAttachNode t p c) a) -> In x (watchers_of t a) \/ (a = c /\ x = p).
Proof. unfold addOrAttachNode. destruct (has t c); [apply watchers_of_attachNode|apply watchers_of_addNode]. Qed.

Lemma watchers_of_removeDescendant t p c a x : In x (watchers_of (removeDescendant t p c) a) -> In x (watchers_of t a).
Proof. apply watchers_of_update_shrinks, shrinks_with_children. Qed.

Lemma watchers_of_NoDup t a : tree_ok t -> NoDup (watchers_of t a).
Proof. intro H. unfold watchers_of. destruct (lookup t a) eqn:E; [exact (H _ _ E)|constructor]. Qed.

(* same_set against a duplicate-free list *)
Lemma same_set_spec l1 l2 : same_set l1 l2 = true -> NoDup l2 ->
  NoDup l1 /\ (forall x, In x l1 <-> In x l2).
Proof.
  unfold same_set. intros H Hn. apply andb_prop in H. destruct H as [H H3]. apply andb_prop in H. destruct H as [H1 H2].
  apply Nat.eqb_eq in H1. rewrite forallb_forall in H2, H3.
  assert (I12 : incl l1 l2) by (intros x Hx; apply mem_In, H2, Hx).
  assert (I21 : incl l2 l1) by (intros x Hx; apply mem_In, H3, Hx).
  split.
  - apply (NoDup_incl_NoDup Hn); [lia|exact I21].
  - intro x. split; [apply I12|apply I21].
Qed.
