(* C10 — the notification protocol: invariant over every interleaving of Watch / UnWatch / spawn / delete /
   start / stop steps with the steps of any number of freeWatchers loops. *)
From Coq Require Import List Bool Arith Lia.
From GV Require Import C10.Model C10.TreeProofs.
Import ListNotations.

Lemma upd_same {A} (f : nat -> A) k v : upd f k v k = v.
Proof. unfold upd. rewrite Nat.eqb_refl. reflexivity. Qed.

Lemma upd_other {A} (f : nat -> A) k v x : x <> k -> upd f k v x = f x.
Proof. unfold upd. intro H. apply Nat.eqb_neq in H. rewrite H. reflexivity. Qed.

Definition entry : Type := (key * nat)%type.

Lemma entry_eq_dec : forall x y : entry, {x = y} + {x <> y}.
Proof. repeat decide equality. Qed.

(* ------------------------------------------------------------------------------------------ *)
Record inv (s : sys) : Prop := {
  i_tree : tree_ok (tr s);
  i_nodup : NoDup (sent s);
  i_sent : forall a i w, In ((a, i), w) (sent s) ->
           i <= inc s a /\ (i = inc s a -> exists p, pcs s a = Some p /\ ~ In w (todo p) /\ In w (snap s a));
  i_skip : forall a i w, In ((a, i), w) (skipped s) ->
           i <= inc s a /\ (i = inc s a -> pcs s a <> None);
  i_pc : forall a p, pcs s a = Some p ->
         NoDup (todo p) /\ (forall w, In w (todo p) -> In w (snap s a)) /\
         (forall w, In w (snap s a) ->
            In w (todo p) \/ In ((a, inc s a), w) (sent s) \/ In ((a, inc s a), w) (skipped s))
}.

Lemma inv_init : inv init.
Proof.
  constructor; cbn.
  - apply tree_ok_nil.
  - constructor.
  - intros a i w [].
  - intros a i w [].
  - intros a p H. discriminate.
Qed.

(* a step that only touches the tree *)
Lemma inv_set_tr s t : inv s -> tree_ok t -> inv (set_tr s t).
Proof. intros [H1 H2 H3 H4 H5] Ht. constructor; cbn; assumption. Qed.

Lemma step_inv s l : inv s -> inv (step s l).
Proof.
  intros I. pose proof I as [H1 H2 H3 H4 H5]. destruct l; cbn [step].
  - apply inv_set_tr; [exact I|apply tree_ok_addWatcher, H1].
  - apply inv_set_tr; [exact I|apply tree_ok_removeWatcher, H1].
  - (* LSnapshot *)
    destruct (pcs s a) eqn:P; [exact I|].
    destruct (same_set ord (watchers_of (tr s) a)) eqn:S; [|exact I].
    destruct (same_set_spec _ _ S (watchers_of_NoDup _ a H1)) as [Nd _].
    constructor; cbn.
    + exact H1.
    + exact H2.
    + intros a0 i w Hin. destruct (H3 _ _ _ Hin) as [Hle Heq]. split; [exact Hle|].
      intro E. destruct (Nat.eq_dec a0 a) as [->|Na].
      * destruct (Heq E) as [p [Pp _]]. congruence.
      * rewrite !upd_other by exact Na. exact (Heq E).
    + intros a0 i w Hin. destruct (H4 _ _ _ Hin) as [Hle Heq]. split; [exact Hle|].
      intro E. destruct (Nat.eq_dec a0 a) as [->|Na].
      * rewrite upd_same. discriminate.
      * rewrite upd_other by exact Na. exact (Heq E).
    + intros a0 p. destruct (Nat.eq_dec a0 a) as [->|Na].
      * rewrite !upd_same. intro X. inversion X; subst. cbn. repeat split; auto.
      * rewrite !upd_other by exact Na. apply H5.
  - (* LCheck *)
    destruct (pcs s a) as [[ph rem]|] eqn:P; [|exact I].
    destruct ph; try exact I. destruct rem as [|w rem]; [exact I|].
    destruct (H5 _ _ P) as [Nd [Sub Cov]]. cbn in Nd, Sub, Cov.
    destruct (is_running s w) eqn:R.
    + constructor; cbn; try assumption.
      * intros a0 i w0 Hin. destruct (H3 _ _ _ Hin) as [Hle Heq]. split; [exact Hle|].
        intro E. destruct (Heq E) as [p [Pp [Nt Sn]]]. destruct (Nat.eq_dec a0 a) as [->|Na].
        -- rewrite upd_same. exists (Send w, rem). rewrite P in Pp. inversion Pp; subst. cbn in *. split; [reflexivity|split; [tauto|assumption]].
        -- rewrite upd_other by exact Na. exists p. auto.
      * intros a0 i w0 Hin. destruct (H4 _ _ _ Hin) as [Hle Heq]. split; [exact Hle|].
        intro E. destruct (Nat.eq_dec a0 a) as [->|Na]; [rewrite upd_same; discriminate|rewrite upd_other by exact Na; auto].
      * intros a0 p. destruct (Nat.eq_dec a0 a) as [->|Na].
        -- rewrite upd_same. intro X. inversion X; subst. cbn. auto.
        -- rewrite upd_other by exact Na. apply H5.
    + inversion Nd as [|? ? Nw Nd']; subst.
      constructor; cbn; try assumption.
      * intros a0 i w0 Hin. destruct (H3 _ _ _ Hin) as [Hle Heq]. split; [exact Hle|].
        intro E. destruct (Heq E) as [p [Pp [Nt Sn]]]. destruct (Nat.eq_dec a0 a) as [->|Na].
        -- rewrite upd_same. exists (Pick, rem). rewrite P in Pp. inversion Pp; subst. cbn in *. split; [reflexivity|split; [tauto|assumption]].
        -- rewrite upd_other by exact Na. exists p. auto.
      * intros a0 i w0 Hin. apply in_app_iff in Hin. destruct Hin as [Hin|[Hin|[]]].
        -- destruct (H4 _ _ _ Hin) as [Hle Heq]. split; [exact Hle|].
           intro E. destruct (Nat.eq_dec a0 a) as [->|Na]; [rewrite upd_same; discriminate|rewrite upd_other by exact Na; auto].
        -- inversion Hin; subst. split; [lia|]. intros _. rewrite upd_same. discriminate.
      * intros a0 p. destruct (Nat.eq_dec a0 a) as [->|Na].
        -- rewrite upd_same. intro X. inversion X; subst. cbn. repeat split; auto.
           intros w0 Hw. destruct (Cov _ Hw) as [[->|K]|[K|K]]; auto.
           ++ right. right. apply in_app_iff. right. left. reflexivity.
           ++ right. right. apply in_app_iff. auto.
        -- rewrite upd_other by exact Na. intro X. destruct (H5 _ _ X) as [A [B C]]. repeat split; auto.
           intros w0 Hw. destruct (C _ Hw) as [K|[K|K]]; auto. right. right. apply in_app_iff. auto.
  - (* LSend *)
    destruct (pcs s a) as [[ph rem]|] eqn:P; [|exact I].
    destruct ph as [|w|]; try exact I.
    destruct (H5 _ _ P) as [Nd [Sub Cov]]. cbn in Nd, Sub, Cov.
    inversion Nd as [|? ? Nw Nd']; subst.
    destruct (is_running s w) eqn:R.
    + constructor; cbn; try assumption.
      * apply NoDup_snoc; [exact H2|].
        intro Hin. destruct (H3 _ _ _ Hin) as [_ Heq]. destruct (Heq eq_refl) as [p [Pp [Nt _]]].
        rewrite P in Pp. inversion Pp; subst. apply Nt. cbn. auto.
      * intros a0 i w0 Hin. apply in_app_iff in Hin. destruct Hin as [Hin|[Hin|[]]].
        -- destruct (H3 _ _ _ Hin) as [Hle Heq]. split; [exact Hle|].
           intro E. destruct (Heq E) as [p [Pp [Nt Sn]]]. destruct (Nat.eq_dec a0 a) as [->|Na].
           ++ rewrite upd_same. exists (Unw w, rem). rewrite P in Pp. inversion Pp; subst. cbn in *. split; [reflexivity|split; [tauto|assumption]].
           ++ rewrite upd_other by exact Na. exists p. auto.
        -- inversion Hin; subst. split; [lia|]. intros _. rewrite upd_same. exists (Unw w0, rem). cbn. auto.
      * intros a0 i w0 Hin. destruct (H4 _ _ _ Hin) as [Hle Heq]. split; [exact Hle|].
        intro E. destruct (Nat.eq_dec a0 a) as [->|Na]; [rewrite upd_same; discriminate|rewrite upd_other by exact Na; auto].
      * intros a0 p. destruct (Nat.eq_dec a0 a) as [->|Na].
        -- rewrite upd_same. intro X. inversion X; subst. cbn. repeat split; auto.
           intros w0 Hw. destruct (Cov _ Hw) as [[->|K]|[K|K]]; auto.
           ++ right. left. apply in_app_iff. right. left. reflexivity.
           ++ right. left. apply in_app_iff. auto.
        -- rewrite upd_other by exact Na. intro X. destruct (H5 _ _ X) as [A [B C]]. repeat split; auto.
           intros w0 Hw. destruct (C _ Hw) as [K|[K|K]]; auto. right. left. apply in_app_iff. auto.
    + constructor; cbn; try assumption.
      * intros a0 i w0 Hin. destruct (H3 _ _ _ Hin) as [Hle Heq]. split; [exact Hle|].
        intro E. destruct (Heq E) as [p [Pp [Nt Sn]]]. destruct (Nat.eq_dec a0 a) as [->|Na].
        -- rewrite upd_same. exists (Unw w, rem). rewrite P in Pp. inversion Pp; subst. cbn in *. split; [reflexivity|split; [tauto|assumption]].
        -- rewrite upd_other by exact Na. exists p. auto.
      * intros a0 i w0 Hin. apply in_app_iff in Hin. destruct Hin as [Hin|[Hin|[]]].
        -- destruct (H4 _ _ _ Hin) as [Hle Heq]. split; [exact Hle|].
           intro E. destruct (Nat.eq_dec a0 a) as [->|Na]; [rewrite upd_same; discriminate|rewrite upd_other by exact Na; auto].
        -- inversion Hin; subst. split; [lia|]. intros _. rewrite upd_same. discriminate.
      * intros a0 p. destruct (Nat.eq_dec a0 a) as [->|Na].
        -- rewrite upd_same. intro X. inversion X; subst. cbn. repeat split; auto.
           intros w0 Hw. destruct (Cov _ Hw) as [[->|K]|[K|K]]; auto.
           ++ right. right. apply in_app_iff. right. left. reflexivity.
           ++ right. right. apply in_app_iff. auto.
        -- rewrite upd_other by exact Na. intro X. destruct (H5 _ _ X) as [A [B C]]. repeat split; auto.
           intros w0 Hw. destruct (C _ Hw) as [K|[K|K]]; auto. right. right. apply in_app_iff. auto.
  - (* LUnw *)
    destruct (pcs s a) as [[ph rem]|] eqn:P; [|exact I].
    destruct ph as [| |w]; try exact I.
    destruct (H5 _ _ P) as [Nd [Sub Cov]]. cbn in Nd, Sub, Cov.
    constructor; cbn; try assumption.
    + apply tree_ok_removeWatcher, H1.
    + intros a0 i w0 Hin. destruct (H3 _ _ _ Hin) as [Hle Heq]. split; [exact Hle|].
      intro E. destruct (Heq E) as [p [Pp [Nt Sn]]]. destruct (Nat.eq_dec a0 a) as [->|Na].
      * rewrite upd_same. exists (Pick, rem). rewrite P in Pp. inversion Pp; subst. cbn in *. split; [reflexivity|split; [tauto|assumption]].
      * rewrite upd_other by exact Na. exists p. auto.
    + intros a0 i w0 Hin. destruct (H4 _ _ _ Hin) as [Hle Heq]. split; [exact Hle|].
      intro E. destruct (Nat.eq_dec a0 a) as [->|Na]; [rewrite upd_same; discriminate|rewrite upd_other by exact Na; auto].
    + intros a0 p. destruct (Nat.eq_dec a0 a) as [->|Na].
      * rewrite upd_same. intro X. inversion X; subst. cbn. auto.
      * rewrite upd_other by exact Na. apply H5.
  - (* LSetRunning *) constructor; cbn; assumption.
  - apply inv_set_tr; [exact I|apply tree_ok_deleteNode, H1].
  - apply inv_set_tr; [exact I|apply tree_ok_addRoot, H1].
  - apply inv_set_tr; [exact I|apply tree_ok_addNode, H1].
  - apply inv_set_tr; [exact I|]. unfold addOrAttachNode. destruct (has (tr s) c); [apply tree_ok_attachNode|apply tree_ok_addNode]; exact H1.
  - apply inv_set_tr; [exact I|apply tree_ok_removeDescendant, H1].
  - (* LRespawn *)
    constructor; cbn; try assumption.
    + intros a0 i w Hin. destruct (H3 _ _ _ Hin) as [Hle Heq]. destruct (Nat.eq_dec a0 a) as [->|Na].
      * rewrite upd_same. split; [lia|]. intro E. lia.
      * rewrite !upd_other by exact Na. auto.
    + intros a0 i w Hin. destruct (H4 _ _ _ Hin) as [Hle Heq]. destruct (Nat.eq_dec a0 a) as [->|Na].
      * rewrite upd_same. split; [lia|]. intro E. lia.
      * rewrite !upd_other by exact Na. auto.
    + intros a0 p. destruct (Nat.eq_dec a0 a) as [->|Na].
      * rewrite upd_same. discriminate.
      * rewrite !upd_other by exact Na. apply H5.
Qed.

Lemma exec_inv ls : forall s, inv s -> inv (exec s ls).
Proof. unfold exec. induction ls as [|l ls IH]; intros s H; cbn; [exact H|]. apply IH, step_inv, H. Qed.

Theorem reachable_inv ls : inv (exec init ls).
Proof. apply exec_inv, inv_init. Qed.

Lemma exec_app s l1 l2 : exec s (l1 ++ l2) = exec (exec s l1) l2.
Proof. unfold exec. apply fold_left_app. Qed.

(* ------------------------------------------------------------------------------------------ *)
(* at most one *)
Theorem at_most_one ls e : count_occ entry_eq_dec (sent (exec init ls)) e <= 1.
Proof. apply NoDup_count_occ. exact (i_nodup _ (reachable_inv ls)). Qed.

(* ------------------------------------------------------------------------------------------ *)
(* only watchers of the snapshot are told *)
Lemma sent_in_snapshot s a w : inv s -> In ((a, inc s a), w) (sent s) -> In w (snap s a).
Proof. intros I H. destruct (i_sent _ I _ _ _ H) as [_ K]. destruct (K eq_refl) as [p [_ [_ S]]]. exact S. Qed.

Definition after_snap (a i : nat) (ord : list nat) (s : sys) : Prop :=
  ((inc s a = i /\ snap s a = ord /\ pcs s a <> None) \/ i < inc s a) /\
  (forall w, In ((a, i), w) (sent s) -> In w ord).

Lemma after_snap_step a i ord s l : inv s -> after_snap a i ord s -> after_snap a i ord (step s l).
Proof.
  intros I [Q R]. destruct l; cbn [step]; try (split; assumption).
  - (* LSnapshot *)
    destruct (pcs s a0) eqn:P; [split; assumption|].
    destruct (same_set ord0 (watchers_of (tr s) a0)); [|split; assumption].
    split; cbn; [|exact R].
    destruct (Nat.eq_dec a a0) as [<-|Na].
    + destruct Q as [[_ [_ Q]]|Q]; [congruence|right; exact Q].
    + rewrite !upd_other by exact Na. exact Q.
  - (* LCheck *)
    destruct (pcs s a0) as [[ph rem]|] eqn:P; [|split; assumption].
    destruct ph; try (split; assumption). destruct rem as [|w rem]; [split; assumption|].
    destruct (is_running s w); (split; cbn; [|exact R]);
      (destruct (Nat.eq_dec a a0) as [<-|Na];
       [rewrite upd_same; destruct Q as [[Q1 [Q2 _]]|Q]; [left; repeat split; auto; discriminate|right; exact Q]
       |rewrite upd_other by exact Na; exact Q]).
  - (* LSend *)
    destruct (pcs s a0) as [[ph rem]|] eqn:P; [|split; assumption].
    destruct ph as [|w|]; try (split; assumption).
    assert (Q' : (inc s a = i /\ snap s a = ord /\ upd (pcs s) a0 (Some (Unw w, rem)) a <> None) \/ i < inc s a).
    { destruct (Nat.eq_dec a a0) as [<-|Na];
       [rewrite upd_same; destruct Q as [[Q1 [Q2 _]]|Q]; [left; repeat split; auto; discriminate|right; exact Q]
       |rewrite upd_other by exact Na; exact Q]. }
    destruct (is_running s w); (split; cbn; [exact Q'|]); [|exact R].
    intros w0 Hin. apply in_app_iff in Hin. destruct Hin as [Hin|[Hin|[]]]; [exact (R _ Hin)|].
    inversion Hin; subst. destruct Q as [[_ [Q2 _]]|Q]; [|lia].
    rewrite <- Q2. destruct (i_pc _ I _ _ P) as [_ [Sub _]]. apply Sub. cbn. auto.
  - (* LUnw *)
    destruct (pcs s a0) as [[ph rem]|] eqn:P; [|split; assumption].
    destruct ph as [| |w]; try (split; assumption).
    split; cbn; [|exact R].
    destruct (Nat.eq_dec a a0) as [<-|Na];
       [rewrite upd_same; destruct Q as [[Q1 [Q2 _]]|Q]; [left; repeat split; auto; discriminate|right; exact Q]
       |rewrite upd_other by exact Na; exact Q].
  - (* LRespawn *)
    split; cbn; [|exact R].
    destruct (Nat.eq_dec a a0) as [<-|Na].
    + rewrite !upd_same. right. destruct Q as [[Q1 _]|Q]; lia.
    + rewrite !upd_other by exact Na. exact Q.
Qed.

Lemma after_snap_exec a i ord ls : forall s, inv s -> after_snap a i ord s -> after_snap a i ord (exec s ls).
Proof.
  unfold exec. induction ls as [|l ls IH]; intros s I H; cbn; [exact H|].
  apply IH; [apply step_inv, I|apply after_snap_step; assumption].
Qed.

(* A watcher that is not in the watcher set when the snapshot is taken is never told (for that incarnation). *)
Theorem not_in_snapshot_never_told ls a ord post w :
  let s1 := exec init ls in
  pcs s1 a = None ->
  same_set ord (watchers_of (tr s1) a) = true ->
  ~ In w (watchers_of (tr s1) a) ->
  ~ In ((a, inc s1 a), w) (sent (exec s1 (LSnapshot a ord :: post))).
Proof.
  intros s1 P S Nw Hin.
  pose proof (reachable_inv ls) as I. fold s1 in I.
  destruct (same_set_spec _ _ S (watchers_of_NoDup _ a (i_tree _ I))) as [_ Eq].
  assert (A : after_snap a (inc s1 a) ord (step s1 (LSnapshot a ord))).
  { cbn [step]. rewrite P, S. split; cbn.
    - left. rewrite !upd_same. repeat split; auto. discriminate.
    - intros w0 H0. destruct (i_sent _ I _ _ _ H0) as [_ K]. destruct (K eq_refl) as [p [Pp _]]. congruence. }
  change (exec s1 (LSnapshot a ord :: post)) with (exec (step s1 (LSnapshot a ord)) post) in Hin.
  apply (after_snap_exec a (inc s1 a) ord post) in A; [|apply step_inv, I].
  destruct A as [_ R]. apply Nw, Eq, R, Hin.
Qed.

(* which steps can make w a watcher of a *)
Definition adds (w a : nat) (l : label) : bool :=
  match l with
  | LWatch w' a' => Nat.eqb w w' && Nat.eqb a a'
  | LAddNode p c => Nat.eqb w p && Nat.eqb a c
  | LAttach p c => Nat.eqb w p && Nat.eqb a c
  | _ => false
  end.

Lemma adds_false_neq w a x y : Nat.eqb w x && Nat.eqb a y = false -> ~ (a = y /\ w = x).
Proof. intros H [-> ->]. rewrite !Nat.eqb_refl in H. discriminate. Qed.

Lemma not_watcher_step w a s l : adds w a l = false ->
  ~ In w (watchers_of (tr s) a) -> ~ In w (watchers_of (tr (step s l)) a).
Proof.
  intros Ha Nw. destruct l; cbn [step adds] in *; try exact Nw.
  - cbn. intro H. apply watchers_of_addWatcher in H. destruct H as [H|H]; [auto|]. exact (adds_false_neq _ _ _ _ Ha H).
  - cbn. intro H. apply watchers_of_removeWatcher in H. tauto.
  - destruct (pcs s a0); [exact Nw|]. destruct (same_set ord (watchers_of (tr s) a0)); exact Nw.
  - destruct (pcs s a0) as [[[| |] [|w0 rem]]|]; try exact Nw. destruct (is_running s w0); exact Nw.
  - destruct (pcs s a0) as [[[|w0|] ?]|]; try exact Nw. destruct (is_running s w0); exact Nw.
  - destruct (pcs s a0) as [[[| |] ?]|]; try exact Nw. cbn. intro H. apply watchers_of_removeWatcher in H. tauto.
  - cbn. intro H. apply watchers_of_deleteNode in H. auto.
  - cbn. intro H. apply watchers_of_addRoot in H. auto.
  - cbn. intro H. apply watchers_of_addNode in H. destruct H as [H|H]; [auto|]. exact (adds_false_neq _ _ _ _ Ha H).
  - cbn. intro H. apply watchers_of_addOrAttachNode in H. destruct H as [H|H]; [auto|]. exact (adds_false_neq _ _ _ _ Ha H).
  - cbn. intro H. apply watchers_of_removeDescendant in H. auto.
Qed.

Lemma not_watcher_exec w a ls : forallb (fun l => negb (adds w a l)) ls = true ->
  forall s, ~ In w (watchers_of (tr s) a) -> ~ In w (watchers_of (tr (exec s ls)) a).
Proof.
  unfold exec. induction ls as [|l ls IH]; intros F s H; cbn in *; [exact H|].
  apply andb_prop in F. destruct F as [F1 F2]. apply negb_true_iff in F1.
  apply IH; [exact F2|]. apply not_watcher_step; assumption.
Qed.

Lemma unwatch_removes t a w : ~ In w (watchers_of (removeWatcher t a w) a).
Proof. intro H. apply watchers_of_removeWatcher in H. tauto. Qed.

(* A watcher whose UnWatch completed before the snapshot, and that was not made a watcher again in
   between, is never told. *)
Theorem none_after_completed_unwatch pre mid ord post a w :
  forallb (fun l => negb (adds w a l)) mid = true ->
  let s1 := exec init (pre ++ LUnWatch w a :: mid) in
  pcs s1 a = None ->
  same_set ord (watchers_of (tr s1) a) = true ->
  ~ In ((a, inc s1 a), w) (sent (exec s1 (LSnapshot a ord :: post))).
Proof.
  intros F s1 P S. apply not_in_snapshot_never_told; [exact P|exact S|].
  subst s1. rewrite exec_app. change (exec (exec init pre) (LUnWatch w a :: mid)) with (exec (step (exec init pre) (LUnWatch w a)) mid).
  apply not_watcher_exec; [exact F|]. cbn. apply unwatch_removes.
Qed.

(* ------------------------------------------------------------------------------------------ *)
(* exactly one *)
Lemma loop_done_told_or_skipped s a w : inv s -> pcs s a = Some (Pick, []) -> In w (snap s a) ->
  In ((a, inc s a), w) (sent s) \/ In ((a, inc s a), w) (skipped s).
Proof. intros I P H. destruct (i_pc _ I _ _ P) as [_ [_ C]]. destruct (C _ H) as [[]|K]; exact K. Qed.

Definition stays (a i w : nat) (s : sys) : Prop :=
  is_running s w = true /\ inc s a = i /\ ~ In ((a, i), w) (skipped s).

Lemma mem_set_add_other x y l : mem x l = true -> mem x (set_add y l) = true.
Proof. intro H. apply mem_In. apply set_add_In. left. apply mem_In, H. Qed.

Lemma mem_set_add_same x l : mem x (set_add x l) = true.
Proof. apply mem_In. apply set_add_In. right. reflexivity. Qed.

Lemma mem_set_del_other x y l : x <> y -> mem x l = true -> mem x (set_del y l) = true.
Proof. intros N H. apply mem_In. apply set_del_In. split; [apply mem_In, H|exact N]. Qed.

Lemma stays_step a i w s l : l <> LSetRunning w false -> l <> LRespawn a ->
  stays a i w s -> stays a i w (step s l).
Proof.
  intros N1 N2 [R [E K]]. destruct l; cbn [step]; try (repeat split; assumption).
  - destruct (pcs s a0); [repeat split; assumption|]. destruct (same_set ord (watchers_of (tr s) a0)); repeat split; assumption.
  - destruct (pcs s a0) as [[[| |] [|w0 rem]]|]; try (repeat split; assumption).
    destruct (is_running s w0) eqn:R0; repeat split; try assumption.
    cbn. intro H. apply in_app_iff in H. destruct H as [H|[H|[]]]; [exact (K H)|].
    inversion H; subst. unfold is_running in *. congruence.
  - destruct (pcs s a0) as [[[|w0|] rem]|]; try (repeat split; assumption).
    destruct (is_running s w0) eqn:R0; repeat split; try assumption.
    cbn. intro H. apply in_app_iff in H. destruct H as [H|[H|[]]]; [exact (K H)|].
    inversion H; subst. unfold is_running in *. congruence.
  - destruct (pcs s a0) as [[[| |w0] rem]|]; repeat split; assumption.
  - repeat split; try assumption. unfold is_running in *. cbn.
    destruct b.
    + destruct (Nat.eq_dec w x) as [->|Nx]; [apply mem_set_add_same|apply mem_set_add_other, R].
    + apply mem_set_del_other; [|exact R]. intro X. subst. apply N1. reflexivity.
  - repeat split; try assumption. cbn. rewrite upd_other; [exact E|]. intro X. subst. apply N2. reflexivity.
Qed.

Lemma stays_exec a i w ls : Forall (fun l => l <> LSetRunning w false /\ l <> LRespawn a) ls ->
  forall s, stays a i w s -> stays a i w (exec s ls).
Proof.
  unfold exec. induction 1 as [|l ls [N1 N2] F IH]; intros s H; cbn; [exact H|].
  apply IH. apply stays_step; assumption.
Qed.

(* A watcher that is in the snapshot and keeps running while the loop runs is told exactly once. *)
Theorem exactly_one pre post a w :
  let s1 := exec init pre in
  is_running s1 w = true ->
  pcs s1 a = None ->
  Forall (fun l => l <> LSetRunning w false /\ l <> LRespawn a) post ->
  let s2 := exec s1 post in
  pcs s2 a = Some (Pick, []) ->
  In w (snap s2 a) ->
  count_occ entry_eq_dec (sent s2) ((a, inc s2 a), w) = 1.
Proof.
  intros s1 R P F s2 D Sn.
  pose proof (reachable_inv pre) as I1. fold s1 in I1.
  assert (I2 : inv s2) by (apply exec_inv, I1).
  assert (St : stays a (inc s1 a) w s1).
  { repeat split; [exact R|]. intro H. destruct (i_skip _ I1 _ _ _ H) as [_ K]. apply (K eq_refl). exact P. }
  apply (stays_exec a (inc s1 a) w post F) in St. fold s2 in St. destruct St as [_ [E K]].
  apply NoDup_count_occ'; [exact (i_nodup _ I2)|].
  destruct (loop_done_told_or_skipped _ _ _ I2 D Sn) as [H|H]; [exact H|]. rewrite E in H. contradiction.
Qed.

(* the snapshot is the watcher set at the moment it is taken *)
Lemma snapshot_is_watchers s a ord : inv s -> pcs s a = None -> same_set ord (watchers_of (tr s) a) = true ->
  forall w, In w (snap (step s (LSnapshot a ord)) a) <-> In w (watchers_of (tr s) a).
Proof.
  intros I P S w. cbn [step]. rewrite P, S. cbn. rewrite upd_same.
  destruct (same_set_spec _ _ S (watchers_of_NoDup _ a (i_tree _ I))) as [_ Eq]. apply Eq.
Qed.

(* ------------------------------------------------------------------------------------------ *)
(* non-vacuity: a concrete interleaving (an UnWatch and a Watch racing the loop, a watcher stopping) *)
Definition ex_trace : list label :=
  [LAddRoot 0; LAddRoot 1; LSetRunning 0 true; LSetRunning 1 true;
   LAddNode 0 2; LWatch 1 2; LSetRunning 2 true; LAddNode 0 3; LWatch 1 3; LSetRunning 3 true;
   LAddNode 0 4; LWatch 1 4; LSetRunning 4 true; LAddNode 0 5; LWatch 1 5; LSetRunning 5 true;
   LWatch 3 2; LWatch 4 2; LWatch 5 2; LUnWatch 5 2;
   LSnapshot 2 [4; 3; 1; 0];
   LCheck 2; LSetRunning 4 false; LSend 2; LUnWatch 3 2; LWatch 5 2; LUnw 2;
   LCheck 2; LSend 2; LUnw 2; LCheck 2; LSend 2; LDelete 2; LUnw 2; LCheck 2; LSend 2; LUnw 2].

Example ex_trace_result :
  let s := exec init ex_trace in
  sent s = [((2, 0), 3); ((2, 0), 1); ((2, 0), 0)] /\ skipped s = [((2, 0), 4)] /\ pcs s 2 = Some (Pick, []).
Proof. vm_compute. auto. Qed.

(* ------------------------------------------------------------------------------------------ *)
(* The literal statement ("every watcher that is still running and did not unwatch receives exactly one")
   fails across the watcher's own restart: the restart shuts the watcher down first and freeWatchees drops
   its watches; nothing registers them again. Harness operations: 2 watches 3; 2 restarts; 3 stops. *)
Definition is_unwatch (o : sop) : bool := match o with OUnWatch _ _ => true | _ => false end.

Theorem watcher_restart_refuted : exists (n : nat) (ops : list sop) (w a : nat),
  existsb is_unwatch ops = false /\ In (OWatch w a) ops /\
  let s := fold_left apply_sop ops (world0 n) in
  is_running s w = true /\ is_running s a = false /\ terminated_for s w = [].
Proof. exists 3, [OWatch 2 3; ORestart 2; OStop 3], 2, 3. vm_compute. intuition. Qed.
