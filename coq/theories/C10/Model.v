(* C10 — executable model of death watch as coded in
     actor/pid_tree.go  (tree: pids index -> pidNode{parentNode, descendants, watchers, watchees};
                         addNode / addWatcher / removeWatcher / removeDescendant / deleteNode / watchers / watchees,
                         every operation atomic under the tree mutex)
     actor/pid.go       (Watch / UnWatch; freeWatchers: snapshot tree.watchers(pid), then for each watcher:
                         IsRunning? -> Tell(Terminated) (Tell re-checks the state) -> watcher.UnWatch(pid))
   No proofs in this file. Actors are natural numbers; Go maps are duplicate-free lists (order = iteration order,
   which the code does not control: the snapshot order is an argument of the snapshot step). *)
From Coq Require Import List Bool Arith.
Import ListNotations.

(* ------------------------------------------------------------------------------------------ *)
(* sets as duplicate-free lists *)
Definition mem (x : nat) (l : list nat) : bool := existsb (Nat.eqb x) l.
Definition set_add (x : nat) (l : list nat) : list nat := if mem x l then l else l ++ [x].
Definition set_del (x : nat) (l : list nat) : list nat := filter (fun y => negb (Nat.eqb x y)) l.

(* ------------------------------------------------------------------------------------------ *)
(* the tree *)
Record node : Type := {
  parent : option nat;
  children : list nat;     (* descendants map (direct children) *)
  watchers : list nat;
  watchees : list nat
}.

Definition tree : Type := list (nat * node).

Fixpoint lookup (t : tree) (k : nat) : option node :=
  match t with
  | [] => None
  | (i, n) :: r => if Nat.eqb i k then Some n else lookup r k
  end.

Definition update (t : tree) (k : nat) (f : node -> node) : tree :=
  map (fun e => if Nat.eqb (fst e) k then (fst e, f (snd e)) else e) t.

Definition remove (t : tree) (k : nat) : tree := filter (fun e => negb (Nat.eqb (fst e) k)) t.

Definition with_watchers (f : list nat -> list nat) (n : node) : node :=
  {| parent := parent n; children := children n; watchers := f (watchers n); watchees := watchees n |}.
Definition with_watchees (f : list nat -> list nat) (n : node) : node :=
  {| parent := parent n; children := children n; watchers := watchers n; watchees := f (watchees n) |}.
Definition with_children (f : list nat -> list nat) (n : node) : node :=
  {| parent := parent n; children := f (children n); watchers := watchers n; watchees := watchees n |}.

Definition has (t : tree) (k : nat) : bool := match lookup t k with Some _ => true | None => false end.

(* addRootNode-like registration of an actor without parent (the guardians) *)
Definition addRoot (t : tree) (c : nat) : tree :=
  if has t c then t else t ++ [(c, {| parent := None; children := []; watchers := []; watchees := [] |})].

(* addNodeLocked: child must be new, parent must exist; parent watches child *)
Definition addNode (t : tree) (p c : nat) : tree :=
  if has t c then t else
  if negb (has t p) then t else
  update t p (fun n => with_watchees (set_add c) (with_children (set_add c) n))
    ++ [(c, {| parent := Some p; children := []; watchers := [p]; watchees := [] |})].

(* attachNodeLocked: both exist; re-link child under parent *)
Definition attachNode (t : tree) (p c : nat) : tree :=
  if has t p && has t c then
    let t1 := update t c (fun n => {| parent := Some p; children := children n; watchers := set_add p (watchers n); watchees := watchees n |}) in
    update t1 p (fun n => with_watchees (set_add c) (with_children (set_add c) n))
  else t.

Definition addOrAttachNode (t : tree) (p c : nat) : tree :=
  if has t c then attachNode t p c else addNode t p c.

(* addWatcher(pid, watcher): both must be registered *)
Definition addWatcher (t : tree) (a w : nat) : tree :=
  if has t a && has t w then
    update (update t a (with_watchers (set_add w))) w (with_watchees (set_add a))
  else t.

(* removeWatcher(watchee, watcher): each side only if registered *)
Definition removeWatcher (t : tree) (a w : nat) : tree :=
  update (update t w (with_watchees (set_del a))) a (with_watchers (set_del w)).

Definition removeDescendant (t : tree) (p c : nat) : tree := update t p (with_children (set_del c)).

Definition watchers_of (t : tree) (a : nat) : list nat :=
  match lookup t a with Some n => watchers n | None => [] end.
Definition watchees_of (t : tree) (a : nat) : list nat :=
  match lookup t a with Some n => watchees n | None => [] end.
Definition children_of (t : tree) (a : nat) : list nat :=
  match lookup t a with Some n => children n | None => [] end.

(* deleteNode: the node and its whole subtree, children before parents *)
Fixpoint subtree (fuel : nat) (t : tree) (a : nat) : list nat :=
  match fuel with
  | O => [a]
  | S f => a :: flat_map (subtree f t) (children_of t a)
  end.

Definition delete_one (t : tree) (n : nat) : tree :=
  match lookup t n with
  | None => t
  | Some nd =>
      let t1 := fold_left (fun t w => update t w (with_watchees (set_del n))) (watchers nd) t in
      let t2 := fold_left (fun t x => update t x (with_watchers (set_del n))) (watchees nd) t1 in
      let t3 := match parent nd with
                | Some p => update t2 p (fun x => with_watchees (set_del n) (with_children (set_del n) x))
                | None => t2
                end in
      remove t3 n
  end.

Definition deleteNode (t : tree) (a : nat) : tree :=
  if has t a then fold_left delete_one (rev (subtree (length t) t a)) t else t.

(* ------------------------------------------------------------------------------------------ *)
(* the notification protocol, one atomic step per label *)

Inductive phase : Type :=
| Pick                (* top of the for loop *)
| Send (w : nat)      (* watcher.IsRunning() was true; about to Tell *)
| Unw (w : nat).      (* Tell done (or refused); about to watcher.UnWatch(pid) *)

Definition pc : Type := (phase * list nat)%type.   (* current phase, watchers of the snapshot still to visit *)

(* watchers of the snapshot that have not been sent to yet *)
Definition todo (p : pc) : list nat :=
  match fst p with
  | Pick => snd p
  | Send w => w :: snd p
  | Unw _ => snd p
  end.

Definition key : Type := (nat * nat)%type.   (* actor, incarnation *)

Record sys : Type := {
  tr : tree;
  running : list nat;
  inc : nat -> nat;                      (* current incarnation of each actor *)
  pcs : nat -> option pc;                (* freeWatchers of the current incarnation, once started *)
  snap : nat -> list nat;                (* ghost: the snapshot it took *)
  sent : list (key * nat);               (* Terminated{actor,incarnation} told to watcher, in order *)
  skipped : list (key * nat)             (* ghost: not told because the watcher was seen not running *)
}.

Definition upd {A} (f : nat -> A) (k : nat) (v : A) : nat -> A := fun x => if Nat.eqb x k then v else f x.

Inductive label : Type :=
| LWatch (w a : nat)                 (* w.Watch(a)   = tree.addWatcher(a, w) *)
| LUnWatch (w a : nat)               (* w.UnWatch(a) = tree.removeWatcher(a, w) *)
| LSnapshot (a : nat) (ord : list nat)   (* freeWatchers of a: watchers := tree.watchers(a), iterated in order ord *)
| LCheck (a : nat)                   (* next watcher: IsRunning? *)
| LSend (a : nat)                    (* pid.Tell(watcher, Terminated): delivered unless the watcher stopped meanwhile *)
| LUnw (a : nat)                     (* watcher.UnWatch(pid) *)
| LSetRunning (x : nat) (b : bool)   (* an actor stops / starts running *)
| LDelete (a : nat)                  (* death watch handled Terminated(a): tree.deleteNode(a) *)
| LAddRoot (c : nat)
| LAddNode (p c : nat)               (* spawn: tree.addNode(p, c) *)
| LAttach (p c : nat)                (* restart: tree.addOrAttachNode(p, c) *)
| LRemoveDescendant (p c : nat)
| LRespawn (a : nat).                (* the same PID starts a new incarnation (restart after a completed stop) *)

Definition is_running (s : sys) (x : nat) : bool := mem x (running s).

Definition same_set (l1 l2 : list nat) : bool :=
  Nat.eqb (length l1) (length l2) && forallb (fun x => mem x l2) l1 && forallb (fun x => mem x l1) l2.

Definition set_tr (s : sys) (t : tree) : sys :=
  {| tr := t; running := running s; inc := inc s; pcs := pcs s; snap := snap s; sent := sent s; skipped := skipped s |}.

Definition step (s : sys) (l : label) : sys :=
  match l with
  | LWatch w a => set_tr s (addWatcher (tr s) a w)
  | LUnWatch w a => set_tr s (removeWatcher (tr s) a w)
  | LSnapshot a ord =>
      match pcs s a with
      | Some _ => s      (* PostStop/freeWatchers run at most once per incarnation (C06) *)
      | None =>
          if same_set ord (watchers_of (tr s) a) then
            {| tr := tr s; running := running s; inc := inc s; pcs := upd (pcs s) a (Some (Pick, ord));
               snap := upd (snap s) a ord; sent := sent s; skipped := skipped s |}
          else s
      end
  | LCheck a =>
      match pcs s a with
      | Some (Pick, w :: rem) =>
          if is_running s w then
            {| tr := tr s; running := running s; inc := inc s; pcs := upd (pcs s) a (Some (Send w, rem));
               snap := snap s; sent := sent s; skipped := skipped s |}
          else
            {| tr := tr s; running := running s; inc := inc s; pcs := upd (pcs s) a (Some (Pick, rem));
               snap := snap s; sent := sent s; skipped := skipped s ++ [((a, inc s a), w)] |}
      | _ => s
      end
  | LSend a =>
      match pcs s a with
      | Some (Send w, rem) =>
          if is_running s w then
            {| tr := tr s; running := running s; inc := inc s; pcs := upd (pcs s) a (Some (Unw w, rem));
               snap := snap s; sent := sent s ++ [((a, inc s a), w)]; skipped := skipped s |}
          else
            {| tr := tr s; running := running s; inc := inc s; pcs := upd (pcs s) a (Some (Unw w, rem));
               snap := snap s; sent := sent s; skipped := skipped s ++ [((a, inc s a), w)] |}
      | _ => s
      end
  | LUnw a =>
      match pcs s a with
      | Some (Unw w, rem) =>
          {| tr := removeWatcher (tr s) a w; running := running s; inc := inc s; pcs := upd (pcs s) a (Some (Pick, rem));
             snap := snap s; sent := sent s; skipped := skipped s |}
      | _ => s
      end
  | LSetRunning x b =>
      {| tr := tr s; running := if b then set_add x (running s) else set_del x (running s); inc := inc s;
         pcs := pcs s; snap := snap s; sent := sent s; skipped := skipped s |}
  | LDelete a => set_tr s (deleteNode (tr s) a)
  | LAddRoot c => set_tr s (addRoot (tr s) c)
  | LAddNode p c => set_tr s (addNode (tr s) p c)
  | LAttach p c => set_tr s (addOrAttachNode (tr s) p c)
  | LRemoveDescendant p c => set_tr s (removeDescendant (tr s) p c)
  | LRespawn a =>
      {| tr := tr s; running := running s; inc := upd (inc s) a (S (inc s a)); pcs := upd (pcs s) a None;
         snap := upd (snap s) a []; sent := sent s; skipped := skipped s |}
  end.

Definition exec (s : sys) (ls : list label) : sys := fold_left step ls s.

Definition init : sys :=
  {| tr := []; running := []; inc := fun _ => O; pcs := fun _ => None; snap := fun _ => [];
     sent := []; skipped := [] |}.

(* ------------------------------------------------------------------------------------------ *)
(* whole operations as the sequential harness performs them (each is a sequence of the steps above) *)

(* the freeWatchers loop run to completion *)
Fixpoint notify_loop (fuel : nat) (s : sys) (a : nat) : sys :=
  match fuel with
  | O => s
  | S f =>
      match pcs s a with
      | Some (Pick, _ :: _) => notify_loop f (step s (LCheck a)) a
      | Some (Send _, _) => notify_loop f (step s (LSend a)) a
      | Some (Unw _, _) => notify_loop f (step s (LUnw a)) a
      | _ => s
      end
  end.

Definition free_watchers (s : sys) (a : nat) : sys :=
  let ord := watchers_of (tr s) a in
  let s1 := step s (LSnapshot a ord) in
  notify_loop (3 * length ord + 3) s1 a.

(* freeWatchees: pid.UnWatch(x) for every watchee in the snapshot *)
Definition free_watchees (s : sys) (a : nat) : sys :=
  fold_left (fun s x => step s (LUnWatch a x)) (watchees_of (tr s) a) s.

(* Shutdown of a running actor: freeWatchees; freeChildren (UnWatch child, removeDescendant, child.Shutdown);
   PostStop; freeWatchers; not running any more. [dw] is the death watch: when it has been told, it deletes the node. *)
Fixpoint stop_seq (fuel : nat) (dw : nat) (s : sys) (a : nat) : sys :=
  if negb (is_running s a) then s else
  let s1 := free_watchees s a in
  let s2 := match fuel with
            | O => s1
            | S f => fold_left (fun s c =>
                       let s' := step (step s (LUnWatch a c)) (LRemoveDescendant a c) in
                       stop_seq f dw s' c) (children_of (tr s1) a) s1
            end in
  let s3 := free_watchers s2 a in
  let s4 := step s3 (LSetRunning a false) in
  if existsb (fun e => Nat.eqb (fst (fst e)) a && Nat.eqb (snd (fst e)) (inc s4 a) && Nat.eqb (snd e) dw) (sent s4)
  then step s4 (LDelete a) else s4.

(* spawn under parent p, registered with the death watch *)
Definition spawn_seq (dw : nat) (s : sys) (p c : nat) : sys :=
  step (step (step s (LAddNode p c)) (LWatch dw c)) (LSetRunning c true).

(* Restart of a (leaf) actor: Shutdown when it is running (a suspended actor is not shut down: its node, its
   watchers and its own watches stay), then init, addOrAttachNode(parent), addWatcher(pid, deathWatch) *)
Definition restart_seq (fuel : nat) (dw : nat) (s : sys) (p a : nat) : sys :=
  let s1 := stop_seq fuel dw s a in
  step (step (step (step s1 (LRespawn a)) (LAttach p a)) (LWatch dw a)) (LSetRunning a true).

(* observation of the sequential harness *)
Definition terminated_for (s : sys) (w : nat) : list nat :=
  map (fun e => fst (fst e)) (filter (fun e => Nat.eqb (snd e) w) (sent s)).

(* ------------------------------------------------------------------------------------------ *)
(* the operations of the sequential harness; 0 = user guardian, 1 = death watch, actors from 2 *)
Inductive sop : Type :=
| OWatch (w a : nat)
| OUnWatch (w a : nat)
| OStop (a : nat)            (* Shutdown, PoisonPill *)
| ORestart (a : nat)         (* PID.Restart of an actor without children (running: shut down first; suspended: not) *)
| OCrash (a : nat)           (* the actor panics: suspended, then its parent applies the RestartDirective *)
| OSpawnChild (p c : nat)
| OSuspend (a : nat)         (* pid.suspend: the actor stays registered but IsRunning() is false *)
| OReinstate (a : nat).

Definition guardian : nat := 0.
Definition deathwatch : nat := 1.

(* PID.Restart reads the parent from the tree before anything else (the guardian for top-level actors) *)
Definition parent_of (s : sys) (a : nat) : nat :=
  match lookup (tr s) a with
  | Some nd => match parent nd with Some p => p | None => guardian end
  | None => guardian
  end.

Definition apply_sop (s : sys) (o : sop) : sys :=
  match o with
  | OWatch w a => step s (LWatch w a)
  | OUnWatch w a => step s (LUnWatch w a)
  | OStop a => stop_seq 8 deathwatch s a
  | ORestart a => restart_seq 8 deathwatch s (parent_of s a) a
  | OCrash a =>
      (* notifyParent: suspend; parent.restartChild: pid.UnWatch(child); child.Restart() *)
      let p := parent_of s a in
      let s1 := step (step s (LSetRunning a false)) (LUnWatch p a) in
      restart_seq 8 deathwatch s1 p a
  | OSpawnChild p c => if is_running s p then spawn_seq deathwatch s p c else s
  | OSuspend a => step s (LSetRunning a false)
  | OReinstate a => step s (LSetRunning a true)
  end.

Definition world0 (n : nat) : sys :=
  fold_left (fun s i => spawn_seq deathwatch s guardian i) (seq 2 n)
    (exec init [LAddRoot guardian; LAddRoot deathwatch; LSetRunning guardian true; LSetRunning deathwatch true]).

(* states after every operation *)
Fixpoint sop_states (s : sys) (ops : list sop) : list sys :=
  match ops with
  | [] => []
  | o :: r => let s' := apply_sop s o in s' :: sop_states s' r
  end.

(* the tree operations alone *)
Inductive top : Type :=
| TAddRoot (a : nat) | TAddNode (p a : nat) | TAttach (p a : nat) | TWatch (w a : nat) | TUnWatch (w a : nat)
| TDelete (a : nat) | TRmDesc (p a : nat).

Definition apply_top (t : tree) (o : top) : tree :=
  match o with
  | TAddRoot a => addRoot t a
  | TAddNode p a => addNode t p a
  | TAttach p a => addOrAttachNode t p a
  | TWatch w a => addWatcher t a w
  | TUnWatch w a => removeWatcher t a w
  | TDelete a => deleteNode t a
  | TRmDesc p a => removeDescendant t p a
  end.

Fixpoint top_states (t : tree) (ops : list top) : list tree :=
  match ops with
  | [] => []
  | o :: r => let t' := apply_top t o in t' :: top_states t' r
  end.
