(* C28 — proofs over the pool / exchange / server-loop transition system of C28/Model.v, for every
   interleaving of any number of callers, server handlers of any latency, failures at any point. *)
From Coq Require Import List Arith Bool Lia.
From GV Require Import C28.Model.
Import ListNotations.

Lemma upd_eq {A} (f : nat -> A) k v : upd f k v k = v.
Proof. unfold upd. rewrite Nat.eqb_refl. reflexivity. Qed.

Lemma upd_neq {A} (f : nat -> A) k v x : x <> k -> upd f k v x = f x.
Proof. intros H. unfold upd. destruct (Nat.eqb_spec x k); [contradiction|reflexivity]. Qed.

Definition reach (maxIdle : nat) (s : state) : Prop := exists ls, run maxIdle init ls = Some s.

Lemma run_invariant mi (P : state -> Prop) :
  (forall s l s', P s -> step mi s l = Some s' -> P s') ->
  forall ls s0 s, P s0 -> run mi s0 ls = Some s -> P s.
Proof.
  intros Hstep. induction ls as [|l ls IH]; simpl; intros s0 s H0 Hr.
  - inversion Hr; subst; auto.
  - destruct (step mi s0 l) eqn:E; [|discriminate]. eapply IH; [|exact Hr]. eapply Hstep; eauto.
Qed.

Lemma reach_invariant mi (P : state -> Prop) :
  P init -> (forall s l s', P s -> step mi s l = Some s' -> P s') -> forall s, reach mi s -> P s.
Proof. intros H0 Hs s [ls Hr]. eapply run_invariant; eauto. Qed.

(* what a caller holding connection k, having written [wr] and read [rd], will still find on it *)
Definition pipe_ok (k : conn) (wr rd : list nat) : Prop :=
  exists rest, rd ++ s2c k ++ rest = wr /\
               length rest = length (opt_list (srv k) ++ c2s k) /\
               (sclosed k = false -> rest = opt_list (srv k) ++ c2s k).

Definition holds (s : state) (t c : nat) : Prop := exists tw wr rd, threads s t = THold c tw wr rd.

Record inv (s : state) : Prop := mkInv {
  inv_idle : forall c, In c (idle s) -> c < nconn s /\ clean (conns s c);
  inv_nodup : NoDup (idle s);
  inv_hold : forall t c tw wr rd, threads s t = THold c tw wr rd ->
             c < nconn s /\ ~ In c (idle s) /\ cclosed (conns s c) = false /\ pipe_ok (conns s c) wr rd;
  inv_excl : forall t1 t2 c, holds s t1 c -> holds s t2 c -> t1 = t2;
  inv_done : forall t reqs res, In (t, reqs, Some res) (completed s) -> res = reqs
}.

Lemma inv_init : inv init.
Proof.
  constructor; simpl; intros; try contradiction; try discriminate.
  - constructor.
  - destruct H as (? & ? & ? & H). discriminate.
Qed.

Lemma pipe_clean k : clean k -> pipe_ok k [] [].
Proof.
  intros (Hc & Hs & Hv & _). exists []. rewrite Hc, Hs, Hv. simpl. repeat split; auto.
Qed.

Lemma pipe_fresh : pipe_ok fresh_conn [] [].
Proof. exists []. simpl. repeat split; auto. Qed.

Lemma pipe_full k wr rd : pipe_ok k wr rd -> length rd = length wr ->
  rd = wr /\ s2c k = [] /\ srv k = None /\ c2s k = [].
Proof.
  intros (rest & He & Hl & _) Hlen.
  assert (Hz : length (s2c k ++ rest) = 0).
  { apply (f_equal (@length nat)) in He. rewrite app_length in He. lia. }
  rewrite app_length in Hz.
  assert (s2c k = []) by (destruct (s2c k); [reflexivity | simpl in Hz; lia]).
  assert (rest = []) by (destruct rest; [reflexivity | simpl in Hz; lia]).
  subst rest. rewrite H in He. simpl in He. rewrite app_nil_r in He.
  simpl in Hl. symmetry in Hl. rewrite app_length in Hl.
  assert (c2s k = []) by (destruct (c2s k); [reflexivity | simpl in Hl; lia]).
  assert (srv k = None) by (destruct (srv k); [simpl in Hl; lia | reflexivity]).
  auto.
Qed.

Lemma holds_upd_other s t x t' c (s' : state) :
  threads s' = upd (threads s) t x -> t' <> t -> holds s' t' c -> holds s t' c.
Proof. intros He Hne (tw & wr & rd & H). rewrite He, upd_neq in H by exact Hne. exists tw, wr, rd. exact H. Qed.

Ltac upd_hyp Hh x k := destruct (Nat.eq_dec x k) as [->|n]; [rewrite upd_eq in Hh | rewrite upd_neq in Hh by exact n].
Ltac upd_goal x k := destruct (Nat.eq_dec x k) as [->|n]; [rewrite ?upd_eq | rewrite ?upd_neq by exact n].

Lemma pipe_write k wr rd r :
  pipe_ok k wr rd -> pipe_ok (mkConn (c2s k ++ [r]) (s2c k) (srv k) (sclosed k) (cclosed k)) (wr ++ [r]) rd.
Proof.
  intros (rest & He & Hl & Hc). exists (rest ++ [r]). simpl. repeat split.
  - rewrite <- He. rewrite <- !app_assoc. reflexivity.
  - rewrite !app_length in *. simpl. lia.
  - intros Hs. rewrite (Hc Hs). rewrite <- app_assoc. reflexivity.
Qed.

Lemma pipe_read k wr rd x rest0 :
  s2c k = x :: rest0 -> pipe_ok k wr rd ->
  pipe_ok (mkConn (c2s k) rest0 (srv k) (sclosed k) (cclosed k)) wr (rd ++ [x]).
Proof.
  intros Hs (rest & He & Hl & Hc). exists rest. simpl. repeat split; auto.
  rewrite <- He, Hs. rewrite <- app_assoc. reflexivity.
Qed.

Lemma pipe_srv_read k wr rd r rest0 :
  srv k = None -> c2s k = r :: rest0 -> sclosed k = false -> pipe_ok k wr rd ->
  pipe_ok (mkConn rest0 (s2c k) (Some r) (sclosed k) (cclosed k)) wr rd.
Proof.
  intros Hv Hc2 Hsc (rest & He & Hl & Hc). exists rest. simpl. rewrite Hv, Hc2 in *. simpl in *. repeat split; auto.
Qed.

Lemma pipe_srv_reply k wr rd r :
  srv k = Some r -> sclosed k = false -> pipe_ok k wr rd ->
  pipe_ok (mkConn (c2s k) (s2c k ++ [r]) None (sclosed k) (cclosed k)) wr rd.
Proof.
  intros Hv Hsc (rest & He & Hl & Hc). exists (c2s k). simpl. repeat split; auto.
  rewrite <- He, (Hc Hsc), Hv. simpl. rewrite <- app_assoc. reflexivity.
Qed.

Lemma pipe_srv_close k wr rd :
  pipe_ok k wr rd -> pipe_ok (mkConn (c2s k) (s2c k) (srv k) true (cclosed k)) wr rd.
Proof. intros (rest & He & Hl & Hc). exists rest. simpl. repeat split; auto. intros; discriminate. Qed.

Lemma step_inv mi s l s' : inv s -> step mi s l = Some s' -> inv s'.
Proof.
  intros I H. destruct l; simpl in H.
  - (* LGet *)
    destruct (threads s t) eqn:Ht; [|discriminate]. destruct pooled.
    + destruct (idle s) as [|c rest] eqn:Hi; [discriminate|]. inversion H; subst; clear H.
      assert (Hin : In c (idle s)) by (rewrite Hi; left; reflexivity).
      destruct (inv_idle s I c Hin) as [Hlt Hcl].
      pose proof (inv_nodup s I) as Hnd. rewrite Hi in Hnd. inversion Hnd; subst.
      constructor; simpl.
      * intros c' Hc'. apply (inv_idle s I). rewrite Hi. right. exact Hc'.
      * assumption.
      * intros t' c' tw wr rd Hh. upd_hyp Hh t' t.
        -- inversion Hh; subst. repeat split; auto. apply Hcl. apply pipe_clean. exact Hcl.
        -- destruct (inv_hold s I _ _ _ _ _ Hh) as (A & B & C & D). repeat split; auto.
           intros Hx. apply B. rewrite Hi. right. exact Hx.
      * intros t1 t2 c0 Hh1 Hh2.
        destruct (Nat.eq_dec t1 t) as [->|N1]; destruct (Nat.eq_dec t2 t) as [->|N2]; auto.
        -- exfalso. destruct Hh1 as (? & ? & ? & Hh1). simpl in Hh1. rewrite upd_eq in Hh1. inversion Hh1; subst.
           destruct Hh2 as (? & ? & ? & Hh2). simpl in Hh2. rewrite upd_neq in Hh2 by exact N2.
           destruct (inv_hold s I _ _ _ _ _ Hh2) as (_ & B & _). apply B. exact Hin.
        -- exfalso. destruct Hh2 as (? & ? & ? & Hh2). simpl in Hh2. rewrite upd_eq in Hh2. inversion Hh2; subst.
           destruct Hh1 as (? & ? & ? & Hh1). simpl in Hh1. rewrite upd_neq in Hh1 by exact N1.
           destruct (inv_hold s I _ _ _ _ _ Hh1) as (_ & B & _). apply B. exact Hin.
        -- apply (inv_excl s I t1 t2 c0); eapply holds_upd_other; eauto; reflexivity.
      * apply (inv_done s I).
    + destruct (idle s) as [|c rest] eqn:Hi; [|discriminate]. inversion H; subst; clear H.
      constructor; simpl.
      * intros c' [].
      * constructor.
      * intros t' c' tw wr rd Hh. upd_hyp Hh t' t.
        -- inversion Hh; subst. rewrite upd_eq. repeat split; auto. apply pipe_fresh.
        -- destruct (inv_hold s I _ _ _ _ _ Hh) as (A & B & C & D).
           rewrite upd_neq by lia. repeat split; auto.
      * intros t1 t2 c0 Hh1 Hh2.
        destruct (Nat.eq_dec t1 t) as [->|N1]; destruct (Nat.eq_dec t2 t) as [->|N2]; auto.
        -- exfalso. destruct Hh1 as (? & ? & ? & Hh1). simpl in Hh1. rewrite upd_eq in Hh1. inversion Hh1; subst.
           destruct Hh2 as (? & ? & ? & Hh2). simpl in Hh2. rewrite upd_neq in Hh2 by exact N2.
           destruct (inv_hold s I _ _ _ _ _ Hh2) as (A & _). lia.
        -- exfalso. destruct Hh2 as (? & ? & ? & Hh2). simpl in Hh2. rewrite upd_eq in Hh2. inversion Hh2; subst.
           destruct Hh1 as (? & ? & ? & Hh1). simpl in Hh1. rewrite upd_neq in Hh1 by exact N1.
           destruct (inv_hold s I _ _ _ _ _ Hh1) as (A & _). lia.
        -- apply (inv_excl s I t1 t2 c0); eapply holds_upd_other; eauto; reflexivity.
      * apply (inv_done s I).
  - (* LEvict *)
    destruct (idle s) as [|c rest] eqn:Hi; [discriminate|]. inversion H; subst; clear H.
    pose proof (inv_nodup s I) as Hnd. rewrite Hi in Hnd. inversion Hnd; subst.
    constructor; simpl.
    + intros c' Hc'. assert (c' <> c) by (intros ->; contradiction).
      rewrite upd_neq by assumption. apply (inv_idle s I). rewrite Hi. right. exact Hc'.
    + assumption.
    + intros t' c' tw wr rd Hh. destruct (inv_hold s I _ _ _ _ _ Hh) as (A & B & C & D).
      assert (c' <> c) by (intros ->; apply B; rewrite Hi; left; reflexivity).
      rewrite upd_neq by assumption. repeat split; auto. intros Hx. apply B. rewrite Hi. right. exact Hx.
    + apply (inv_excl s I).
    + apply (inv_done s I).
  - (* LWrite *)
    destruct (threads s t) as [|c tw wr rd] eqn:Ht; [discriminate|]. destruct tw as [|r tw]; [discriminate|].
    inversion H; subst; clear H.
    destruct (inv_hold s I _ _ _ _ _ Ht) as (A & B & C & D).
    constructor; simpl.
    + intros c' Hc'. assert (c' <> c) by (intros ->; contradiction).
      rewrite upd_neq by assumption. apply (inv_idle s I). exact Hc'.
    + apply (inv_nodup s I).
    + intros t' c' tw' wr' rd' Hh. upd_hyp Hh t' t.
      * inversion Hh; subst. rewrite upd_eq. simpl. repeat split; auto. apply pipe_write. exact D.
      * destruct (inv_hold s I _ _ _ _ _ Hh) as (A' & B' & C' & D').
        assert (c' <> c).
        { intros ->. apply n. apply (inv_excl s I t' t c); [exists tw', wr', rd'; exact Hh | exists (r :: tw), wr, rd; exact Ht]. }
        rewrite upd_neq by assumption. repeat split; auto.
    + intros t1 t2 c0 Hh1 Hh2. apply (inv_excl s I t1 t2 c0).
      * destruct (Nat.eq_dec t1 t) as [->|N1]; [|eapply holds_upd_other; eauto; reflexivity].
        destruct Hh1 as (? & ? & ? & Hh1). simpl in Hh1. rewrite upd_eq in Hh1. inversion Hh1; subst. eexists; eexists; eexists; exact Ht.
      * destruct (Nat.eq_dec t2 t) as [->|N2]; [|eapply holds_upd_other; eauto; reflexivity].
        destruct Hh2 as (? & ? & ? & Hh2). simpl in Hh2. rewrite upd_eq in Hh2. inversion Hh2; subst. eexists; eexists; eexists; exact Ht.
    + apply (inv_done s I).
  - (* LRead *)
    destruct (threads s t) as [|c tw wr rd] eqn:Ht; [discriminate|]. destruct tw; [|discriminate].
    destruct (s2c (conns s c)) as [|x rest0] eqn:Hs2; [discriminate|].
    destruct (length rd <? length wr); [|discriminate]. inversion H; subst; clear H.
    destruct (inv_hold s I _ _ _ _ _ Ht) as (A & B & C & D).
    constructor; simpl.
    + intros c' Hc'. assert (c' <> c) by (intros ->; contradiction).
      rewrite upd_neq by assumption. apply (inv_idle s I). exact Hc'.
    + apply (inv_nodup s I).
    + intros t' c' tw' wr' rd' Hh. upd_hyp Hh t' t.
      * inversion Hh; subst. rewrite upd_eq. simpl. repeat split; auto. apply pipe_read; assumption.
      * destruct (inv_hold s I _ _ _ _ _ Hh) as (A' & B' & C' & D').
        assert (c' <> c).
        { intros ->. apply n. apply (inv_excl s I t' t c); [exists tw', wr', rd'; exact Hh | exists [], wr, rd; exact Ht]. }
        rewrite upd_neq by assumption. repeat split; auto.
    + intros t1 t2 c0 Hh1 Hh2. apply (inv_excl s I t1 t2 c0).
      * destruct (Nat.eq_dec t1 t) as [->|N1]; [|eapply holds_upd_other; eauto; reflexivity].
        destruct Hh1 as (? & ? & ? & Hh1). simpl in Hh1. rewrite upd_eq in Hh1. inversion Hh1; subst. eexists; eexists; eexists; exact Ht.
      * destruct (Nat.eq_dec t2 t) as [->|N2]; [|eapply holds_upd_other; eauto; reflexivity].
        destruct Hh2 as (? & ? & ? & Hh2). simpl in Hh2. rewrite upd_eq in Hh2. inversion Hh2; subst. eexists; eexists; eexists; exact Ht.
    + apply (inv_done s I).
  - (* LPut *)
    destruct (threads s t) as [|c tw wr rd] eqn:Ht; [discriminate|]. destruct tw; [|discriminate].
    destruct (Nat.eqb_spec (length rd) (length wr)) as [Hlen|]; [|discriminate].
    destruct (inv_hold s I _ _ _ _ _ Ht) as (A & B & C & D).
    destruct (pipe_full _ _ _ D Hlen) as (Hrw & F1 & F2 & F3).
    assert (Hother : forall t' c' tw' wr' rd', t' <> t -> threads s t' = THold c' tw' wr' rd' -> c' <> c).
    { intros t' c' tw' wr' rd' N Hh ->. apply N.
      apply (inv_excl s I t' t c); [exists tw', wr', rd'; exact Hh | exists [], wr, rd; exact Ht]. }
    destruct (length (idle s) <? mi); inversion H; subst; clear H.
    + constructor; simpl.
      * intros c' [<-|Hc']; [split; [exact A | repeat split; assumption] | apply (inv_idle s I); exact Hc'].
      * constructor; [exact B | apply (inv_nodup s I)].
      * intros t' c' tw' wr' rd' Hh. upd_hyp Hh t' t; [discriminate|].
        destruct (inv_hold s I _ _ _ _ _ Hh) as (A' & B' & C' & D'). repeat split; auto.
        intros [<-|Hx]; [eapply Hother; eauto | contradiction].
      * intros t1 t2 c0 Hh1 Hh2.
        assert (N1 : t1 <> t) by (intros ->; destruct Hh1 as (? & ? & ? & Hh1); simpl in Hh1; rewrite upd_eq in Hh1; discriminate).
        assert (N2 : t2 <> t) by (intros ->; destruct Hh2 as (? & ? & ? & Hh2); simpl in Hh2; rewrite upd_eq in Hh2; discriminate).
        apply (inv_excl s I t1 t2 c0); eapply holds_upd_other; eauto; reflexivity.
      * intros t' reqs res Hin. apply in_app_or in Hin. destruct Hin as [Hin|[Hin|[]]]; [eapply (inv_done s I); eauto|].
        inversion Hin; subst. reflexivity.
    + constructor; simpl.
      * intros c' Hc'. assert (c' <> c) by (intros ->; contradiction).
        rewrite upd_neq by assumption. apply (inv_idle s I). exact Hc'.
      * apply (inv_nodup s I).
      * intros t' c' tw' wr' rd' Hh. upd_hyp Hh t' t; [discriminate|].
        destruct (inv_hold s I _ _ _ _ _ Hh) as (A' & B' & C' & D').
        rewrite upd_neq by (eapply Hother; eauto). repeat split; auto.
      * intros t1 t2 c0 Hh1 Hh2.
        assert (N1 : t1 <> t) by (intros ->; destruct Hh1 as (? & ? & ? & Hh1); simpl in Hh1; rewrite upd_eq in Hh1; discriminate).
        assert (N2 : t2 <> t) by (intros ->; destruct Hh2 as (? & ? & ? & Hh2); simpl in Hh2; rewrite upd_eq in Hh2; discriminate).
        apply (inv_excl s I t1 t2 c0); eapply holds_upd_other; eauto; reflexivity.
      * intros t' reqs res Hin. apply in_app_or in Hin. destruct Hin as [Hin|[Hin|[]]]; [eapply (inv_done s I); eauto|].
        inversion Hin; subst. reflexivity.
  - (* LFail *)
    destruct (threads s t) as [|c tw wr rd] eqn:Ht; [discriminate|]. inversion H; subst; clear H.
    destruct (inv_hold s I _ _ _ _ _ Ht) as (A & B & C & D).
    assert (Hother : forall t' c' tw' wr' rd', t' <> t -> threads s t' = THold c' tw' wr' rd' -> c' <> c).
    { intros t' c' tw' wr' rd' N Hh ->. apply N.
      apply (inv_excl s I t' t c); [exists tw', wr', rd'; exact Hh | exists tw, wr, rd; exact Ht]. }
    constructor; simpl.
    + intros c' Hc'. assert (c' <> c) by (intros ->; contradiction).
      rewrite upd_neq by assumption. apply (inv_idle s I). exact Hc'.
    + apply (inv_nodup s I).
    + intros t' c' tw' wr' rd' Hh. upd_hyp Hh t' t; [discriminate|].
      destruct (inv_hold s I _ _ _ _ _ Hh) as (A' & B' & C' & D').
      rewrite upd_neq by (eapply Hother; eauto). repeat split; auto.
    + intros t1 t2 c0 Hh1 Hh2.
      assert (N1 : t1 <> t) by (intros ->; destruct Hh1 as (? & ? & ? & Hh1); simpl in Hh1; rewrite upd_eq in Hh1; discriminate).
      assert (N2 : t2 <> t) by (intros ->; destruct Hh2 as (? & ? & ? & Hh2); simpl in Hh2; rewrite upd_eq in Hh2; discriminate).
      apply (inv_excl s I t1 t2 c0); eapply holds_upd_other; eauto; reflexivity.
    + intros t' reqs res Hin. apply in_app_or in Hin. destruct Hin as [Hin|[Hin|[]]]; [eapply (inv_done s I); eauto|].
      discriminate.
  - (* LSrvRead *)
    destruct (c <? nconn s) eqn:Hlt; [|discriminate]. destruct (sclosed (conns s c)) eqn:Hsc; [discriminate|]. simpl in H.
    destruct (srv (conns s c)) eqn:Hv; [discriminate|]. destruct (c2s (conns s c)) as [|r rest0] eqn:Hc2; [discriminate|].
    inversion H; subst; clear H. unfold set_conn. constructor; simpl.
    + intros c' Hc'. destruct (inv_idle s I c' Hc') as [L (K1 & K2 & K3 & K4)].
      upd_goal c' c; [rewrite Hc2 in K1; discriminate | split; [exact L | repeat split; assumption]].
    + apply (inv_nodup s I).
    + intros t' c' tw wr rd Hh. destruct (inv_hold s I _ _ _ _ _ Hh) as (A & B & C & D).
      upd_goal c' c; repeat split; auto. simpl. rewrite <- Hsc. apply pipe_srv_read; auto.
    + apply (inv_excl s I).
    + apply (inv_done s I).
  - (* LSrvReply *)
    destruct (c <? nconn s) eqn:Hlt; [|discriminate]. destruct (sclosed (conns s c)) eqn:Hsc; [discriminate|]. simpl in H.
    destruct (srv (conns s c)) as [r|] eqn:Hv; [|discriminate].
    inversion H; subst; clear H. unfold set_conn. constructor; simpl.
    + intros c' Hc'. destruct (inv_idle s I c' Hc') as [L (K1 & K2 & K3 & K4)].
      upd_goal c' c; [rewrite Hv in K3; discriminate | split; [exact L | repeat split; assumption]].
    + apply (inv_nodup s I).
    + intros t' c' tw wr rd Hh. destruct (inv_hold s I _ _ _ _ _ Hh) as (A & B & C & D).
      upd_goal c' c; repeat split; auto. simpl. rewrite <- Hsc. apply pipe_srv_reply; auto.
    + apply (inv_excl s I).
    + apply (inv_done s I).
  - (* LSrvClose *)
    destruct (c <? nconn s) eqn:Hlt; [|discriminate].
    inversion H; subst; clear H. unfold set_conn. constructor; simpl.
    + intros c' Hc'. destruct (inv_idle s I c' Hc') as [L (K1 & K2 & K3 & K4)].
      upd_goal c' c; (split; [exact L | repeat split; assumption]).
    + apply (inv_nodup s I).
    + intros t' c' tw wr rd Hh. destruct (inv_hold s I _ _ _ _ _ Hh) as (A & B & C & D).
      upd_goal c' c; repeat split; auto. apply pipe_srv_close. exact D.
    + apply (inv_excl s I).
    + apply (inv_done s I).
Qed.

Lemma inv_reach mi s : reach mi s -> inv s.
Proof. apply (reach_invariant mi inv inv_init (step_inv mi)). Qed.

(* ------------------------------------------------------------------ the statements *)
Lemma own_reply mi s t reqs res : reach mi s -> In (t, reqs, Some res) (completed s) -> res = reqs.
Proof. intros H. apply (inv_done s (inv_reach mi s H)). Qed.

Lemma exclusive mi s t1 t2 c : reach mi s -> holds s t1 c -> holds s t2 c -> t1 = t2.
Proof. intros H. apply (inv_excl s (inv_reach mi s H)). Qed.

Lemma held_not_idle mi s t c : reach mi s -> holds s t c -> ~ In c (idle s).
Proof. intros H (tw & wr & rd & Hh). apply (inv_hold s (inv_reach mi s H) _ _ _ _ _ Hh). Qed.

Lemma idle_clean mi s c : reach mi s -> In c (idle s) -> clean (conns s c) /\ NoDup (idle s).
Proof. intros H Hc. split; [apply (inv_idle s (inv_reach mi s H) c Hc) | apply (inv_nodup s (inv_reach mi s H))]. Qed.

Lemma pool_bound_step mi s l s' : length (idle s) <= mi -> step mi s l = Some s' -> length (idle s') <= mi.
Proof.
  intros Hb H. destruct l; simpl in H;
    repeat match type of H with
           | context [match ?x with _ => _ end] => destruct x eqn:?; try discriminate
           end; inversion H; subst; clear H; unfold set_conn; simpl in *; try lia.
  all: try (match goal with E : idle _ = _ |- _ => rewrite E in Hb; simpl in Hb; lia end).
  all: try (match goal with E : (_ <? _) = true |- _ => apply Nat.ltb_lt in E; lia end).
Qed.

Lemma pool_bound mi s : reach mi s -> length (idle s) <= mi.
Proof.
  apply (reach_invariant mi (fun s => length (idle s) <= mi)); [simpl; lia|].
  intros; eapply pool_bound_step; eauto.
Qed.

(* a closed connection stays closed, whatever happens *)
Lemma cclosed_step mi s l s' c : step mi s l = Some s' -> c < nconn s -> cclosed (conns s c) = true ->
  c < nconn s' /\ cclosed (conns s' c) = true.
Proof.
  intros H Hlt Hc. destruct l; simpl in H;
    repeat match type of H with
           | context [match ?x with _ => _ end] => destruct x eqn:?; try discriminate
           end; inversion H; subst; clear H; unfold set_conn; simpl.
  all: try (split; [lia|]).
  all: try assumption.
  all: try (unfold upd; match goal with |- context [Nat.eqb ?x ?k] => destruct (Nat.eqb_spec x k) end; subst; simpl; try assumption; try reflexivity; try lia).
Qed.

Lemma run_from_reach mi s ls s' : reach mi s -> run mi s ls = Some s' -> reach mi s'.
Proof.
  intros [l0 H0] Hr. exists (l0 ++ ls). revert H0. generalize init. induction l0 as [|a l0 IH]; simpl; intros s0 H0.
  - inversion H0; subst. exact Hr.
  - destruct (step mi s0 a); [|discriminate]. apply IH. exact H0.
Qed.

(* once a connection was discarded (a deadline expired on it, a decode failed, ...) it is never pooled again *)
Lemma discarded_stays_out mi s c : reach mi s -> c < nconn s -> cclosed (conns s c) = true ->
  forall ls s', run mi s ls = Some s' -> ~ In c (idle s').
Proof.
  intros Hr Hlt Hc ls. revert s Hr Hlt Hc. induction ls as [|l ls IH]; simpl; intros s Hr Hlt Hc s' Hrun.
  - inversion Hrun; subst. intros Hin. destruct (idle_clean mi s' c Hr Hin) as [(_ & _ & _ & K) _]. congruence.
  - destruct (step mi s l) as [s1|] eqn:E; [|discriminate].
    destruct (cclosed_step mi s l s1 c E Hlt Hc) as [L1 C1].
    apply (IH s1); auto. apply (run_from_reach mi s [l] s1 Hr). simpl. rewrite E. reflexivity.
Qed.

(* every error path closes the connection it used *)
Lemma fail_closes mi s t s' c : holds s t c -> step mi s (LFail t) = Some s' -> cclosed (conns s' c) = true.
Proof.
  intros (tw & wr & rd & Hh) H. simpl in H. rewrite Hh in H. inversion H; subst; clear H. simpl. rewrite upd_eq. reflexivity.
Qed.

(* non-vacuity: pool of one connection, caller 0 times out while request 5 is still inside the handler; the
   late response is written to the discarded connection; caller 1 dials afresh and gets 7; caller 0 then
   reuses caller 1's pooled connection for a batch and gets [8; 9] in order. *)
Definition example_run : list label :=
  [ LGet 0 [5] false; LWrite 0; LSrvRead 0; LFail 0; LSrvReply 0;
    LGet 1 [7] false; LWrite 1; LSrvRead 1; LSrvReply 1; LRead 1; LPut 1;
    LGet 0 [8; 9] true; LWrite 0; LWrite 0; LSrvRead 1; LSrvReply 1; LSrvRead 1; LRead 0; LSrvReply 1; LRead 0; LPut 0 ].

Example example_run_ok :
  exists s, run 1 init example_run = Some s /\
            completed s = [(0, [5], None); (1, [7], Some [7]); (0, [8; 9], Some [8; 9])] /\
            idle s = [1] /\ cclosed (conns s 0) = true /\ s2c (conns s 0) = [5].
Proof. eexists. split; [vm_compute; reflexivity|]. vm_compute. repeat split. Qed.

(* had the timed-out connection been pooled instead of discarded, the next caller on it would read 5 — the
   model refuses that execution: a Put is not enabled before every response has been read *)
Example dirty_put_not_enabled :
  run 1 init [ LGet 0 [5] false; LWrite 0; LSrvRead 0; LPut 0 ] = None.
Proof. vm_compute. reflexivity. Qed.
