(* C28 — proofs over the pool / exchange / server-loop transition system of C28/Model.v, for every
   interleaving of any number of callers, server handlers of any latency, failures at any point. *)
From Coq Require Import List Arith Bool Lia.
From GV Require Import C28.Model.
Import ListNotations.

Lemma upd_eq {A} (f : nat -> A) k v : upd f k v k = v.
Proof. unfold upd. rewrite Nat.eqb_refl. reflexivity. Qed.

Lemma upd_neq {A} (f : nat -> A) k v x : x <> k -> upd f k v x = f x.
Proof. intros H. unfold upd. destruct (Nat.eqb_spec x k); [contradiction|reflexivity]. Qed.

Definition reach (maxIdle : nat) (s : state) : Prop := exists ls, run maxIdle init ls = Some s.

Lemma run_invariant mi (P : state -> Prop) :
  (forall s l s', P s -> step mi s l = Some s' -> P s') ->
  forall ls s0 s, P s0 -> run mi s0 ls = Some s -> P s.
Proof.
  intros Hstep. induction ls as [|l ls IH]; simpl; intros s0 s H0 Hr.
  - inversion Hr; subst; auto.
  - destruct (step mi s0 l) eqn:E; [|discriminate]. eapply IH; [|exact Hr]. eapply Hstep; eauto.
Qed.

Lemma reach_invariant mi (P : state -> Prop) :
  P init -> (forall s l s', P s -> step mi s l = Some s' -> P s') -> forall s, reach mi s -> P s.
Proof. intros H0 Hs s [ls Hr]. eapply run_invariant; eauto. Qed.

(* what a caller holding connection k, having written [wr] and read [rd], will still find on it *)
Definition pipe_ok (k : conn) (wr rd : list nat) : Prop :=
  exists rest, rd ++ s2c k ++ rest = wr /\
               length rest = length (opt_list (srv k) ++ c2s k) /\
               (sclosed k = false -> rest = opt_list (srv k) ++ c2s k).

Definition holds (s : state) (t c : nat) : Prop := exists tw wr rd, threads s t = THold c tw wr rd.

Record inv (s : state) : Prop := mkInv {
  inv_idle : forall c, In c (idle s) -> c < nconn s /\ clean (conns s c);
  inv_nodup : NoDup (idle s);
  inv_hold : forall t c tw wr rd, threads s t = THold c tw wr rd ->
             c < nconn s /\ ~ In c (idle s) /\ cclosed (conns s c) = false /\ pipe_ok (conns s c) wr rd;
  inv_excl : forall t1 t2 c, holds s t1 c -> holds s t2 c -> t1 = t2;
  inv_done : forall t reqs res, In (t, reqs, Some res) (completed s) -> res = reqs
}.

Lemma inv_init : inv init.
Proof.
  constructor; simpl; intros; try contradiction; try discriminate.
  - constructor.
  - destruct H as (? & ? & ? & H). discriminate.
Qed.

Lemma pipe_clean k : clean k -> pipe_ok k [] [].
Proof.
  intros (Hc & Hs & Hv & _). exists []. rewrite Hc, Hs, Hv. simpl. repeat split; auto.
Qed.

Lemma pipe_fresh : pipe_ok fresh_conn [] [].
Proof. exists []. simpl. repeat split; auto. Qed.

Lemma pipe_full k wr rd : pipe_ok k wr rd -> length rd = length wr ->
  rd = wr /\ s2c k = [] /\ srv k = None /\ c2s k = [].
Proof.
  intros (rest & He & Hl & _) Hlen.
  assert (Hz : length (s2c k ++ rest) = 0).
  { apply (f_equal (@length nat)) in He. rewrite app_length in He. lia. }
  rewrite app_length in Hz.
  assert (s2c k = []) by (destruct (s2c k); [reflexivity | simpl in Hz; lia]).
  assert (rest = []) by (destruct rest; [reflexivity | simpl in Hz; lia]).
  subst rest. rewrite H in He. simpl in He. rewrite app_nil_r in He.
  simpl in Hl. symmetry in Hl. rewrite app_length in Hl.
  assert (c2s k = []) by (destruct (c2s k); [reflexivity | simpl in Hl; lia]).
  assert (srv k = None) by (destruct (srv k); [simpl in Hl; lia | reflexivity]).
  auto.
Qed.

Lemma holds_upd_other s t x t' c (s' : state) :
  threads s' = upd (threads s) t x -> t' <> t -> holds s' t' c -> holds s t' c.
Proof. intros He Hne (tw & wr & rd & H). rewrite He, upd_neq in H by exact Hne. exists tw, wr, rd. exact H. Qed.

Ltac upd_cases x k := unfold upd; destruct (Nat.eqb_spec x k).

Lemma pipe_write k wr rd r :
  pipe_ok k wr rd -> pipe_ok (mkConn (c2s k ++ [r]) (s2c k) (srv k) (sclosed k) (cclosed k)) (wr ++ [r]) rd.
Proof.
  intros (rest & He & Hl & Hc). exists (rest ++ [r]). simpl. repeat split.
  - rewrite <- He. rewrite <- !app_assoc. reflexivity.
  - rewrite !app_length in *. simpl. lia.
  - intros Hs. rewrite (Hc Hs). rewrite <- app_assoc. reflexivity.
Qed.

Lemma pipe_read k wr rd x rest0 :
  s2c k = x :: rest0 -> pipe_ok k wr rd ->
  pipe_ok (mkConn (c2s k) rest0 (srv k) (sclosed k) (cclosed k)) wr (rd ++ [x]).
Proof.
  intros Hs (rest & He & Hl & Hc). exists rest. simpl. repeat split; auto.
  rewrite <- He, Hs. rewrite <- app_assoc. reflexivity.
Qed.

Lemma pipe_srv_read k wr rd r rest0 :
  srv k = None -> c2s k = r :: rest0 -> sclosed k = false -> pipe_ok k wr rd ->
  pipe_ok (mkConn rest0 (s2c k) (Some r) (sclosed k) (cclosed k)) wr rd.
Proof.
  intros Hv Hc2 Hsc (rest & He & Hl & Hc). exists rest. simpl. rewrite Hv, Hc2 in *. simpl in *. repeat split; auto.
Qed.

Lemma pipe_srv_reply k wr rd r :
  srv k = Some r -> sclosed k = false -> pipe_ok k wr rd ->
  pipe_ok (mkConn (c2s k) (s2c k ++ [r]) None (sclosed k) (cclosed k)) wr rd.
Proof.
  intros Hv Hsc (rest & He & Hl & Hc). exists (c2s k). simpl. repeat split; auto.
  rewrite <- He, (Hc Hsc), Hv. simpl. rewrite <- app_assoc. reflexivity.
Qed.

Lemma pipe_srv_close k wr rd :
  pipe_ok k wr rd -> pipe_ok (mkConn (c2s k) (s2c k) (srv k) true (cclosed k)) wr rd.
Proof. intros (rest & He & Hl & Hc). exists rest. simpl. repeat split; auto. intros; discriminate. Qed.

Lemma step_inv mi s l s' : inv s -> step mi s l = Some s' -> inv s'.
Proof.
  intros I H. destruct l; simpl in H.
  - (* LGet *)
    destruct (threads s t) eqn:Ht; [|discriminate]. destruct pooled.
    + destruct (idle s) as [|c rest] eqn:Hi; [discriminate|]. inversion H; subst; clear H.
      assert (Hin : In c (idle s)) by (rewrite Hi; left; reflexivity).
      destruct (inv_idle s I c Hin) as [Hlt Hcl].
      pose proof (inv_nodup s I) as Hnd. rewrite Hi in Hnd. inversion Hnd; subst.
      constructor; simpl.
      * intros c' Hc'. apply (inv_idle s I). rewrite Hi. right. exact Hc'.
      * assumption.
      * intros t' c' tw wr rd Hh. revert Hh. upd_cases t' t; intros Hh.
        -- inversion Hh; subst. repeat split; auto. apply Hcl. apply pipe_clean. exact Hcl.
        -- destruct (inv_hold s I _ _ _ _ _ Hh) as (A & B & C & D). repeat split; auto.
           intros Hx. apply B. rewrite Hi. right. exact Hx.
      * intros t1 t2 c0 H1 H2.
        destruct (Nat.eq_dec t1 t) as [->|N1]; destruct (Nat.eq_dec t2 t) as [->|N2]; auto.
        -- exfalso. destruct H1 as (? & ? & ? & H1). simpl in H1. rewrite upd_eq in H1. inversion H1; subst.
           destruct H2 as (? & ? & ? & H2). simpl in H2. rewrite upd_neq in H2 by exact N2.
           destruct (inv_hold s I _ _ _ _ _ H2) as (_ & B & _). apply B. exact Hin.
        -- exfalso. destruct H2 as (? & ? & ? & H2). simpl in H2. rewrite upd_eq in H2. inversion H2; subst.
           destruct H1 as (? & ? & ? & H1). simpl in H1. rewrite upd_neq in H1 by exact N1.
           destruct (inv_hold s I _ _ _ _ _ H1) as (_ & B & _). apply B. exact Hin.
        -- apply (inv_excl s I t1 t2 c0); eapply holds_upd_other; eauto; reflexivity.
      * apply (inv_done s I).
    + destruct (idle s) as [|c rest] eqn:Hi; [|discriminate]. inversion H; subst; clear H.
      constructor; simpl.
      * intros c' [].
      * constructor.
      * intros t' c' tw wr rd Hh. revert Hh. upd_cases t' t; intros Hh.
        -- inversion Hh; subst. rewrite upd_eq. repeat split; auto. apply pipe_fresh.
        -- destruct (inv_hold s I _ _ _ _ _ Hh) as (A & B & C & D).
           rewrite upd_neq by lia. repeat split; auto.
      * intros t1 t2 c0 H1 H2.
        destruct (Nat.eq_dec t1 t) as [->|N1]; destruct (Nat.eq_dec t2 t) as [->|N2]; auto.
        -- exfalso. destruct H1 as (? & ? & ? & H1). simpl in H1. rewrite upd_eq in H1. inversion H1; subst.
           destruct H2 as (? & ? & ? & H2). simpl in H2. rewrite upd_neq in H2 by exact N2.
           destruct (inv_hold s I _ _ _ _ _ H2) as (A & _). lia.
        -- exfalso. destruct H2 as (? & ? & ? & H2). simpl in H2. rewrite upd_eq in H2. inversion H2; subst.
           destruct H1 as (? & ? & ? & H1). simpl in H1. rewrite upd_neq in H1 by exact N1.
           destruct (inv_hold s I _ _ _ _ _ H1) as (A & _). lia.
        -- apply (inv_excl s I t1 t2 c0); eapply holds_upd_other; eauto; reflexivity.
      * apply (inv_done s I).
  - (* LEvict *)
    destruct (idle s) as [|c rest] eqn:Hi; [discriminate|]. inversion H; subst; clear H.
    pose proof (inv_nodup s I) as Hnd. rewrite Hi in Hnd. inversion Hnd; subst.
    constructor; simpl.
    + intros c' Hc'. assert (c' <> c) by (intros ->; contradiction).
      rewrite upd_neq by assumption. apply (inv_idle s I). rewrite Hi. right. exact Hc'.
    + assumption.
    + intros t' c' tw wr rd Hh. destruct (inv_hold s I _ _ _ _ _ Hh) as (A & B & C & D).
      assert (c' <> c) by (intros ->; apply B; rewrite Hi; left; reflexivity).
      rewrite upd_neq by assumption. repeat split; auto. intros Hx. apply B. rewrite Hi. right. exact Hx.
    + apply (inv_excl s I).
    + apply (inv_done s I).
  - (* LWrite *)
    destruct (threads s t) as [|c tw wr rd] eqn:Ht; [discriminate|]. destruct tw as [|r tw]; [discriminate|].
    inversion H; subst; clear H.
    destruct (inv_hold s I _ _ _ _ _ Ht) as (A & B & C & D).
    constructor; simpl.
    + intros c' Hc'. assert (c' <> c) by (intros ->; contradiction).
      rewrite upd_neq by assumption. apply (inv_idle s I). exact Hc'.
    + apply (inv_nodup s I).
    + intros t' c' tw' wr' rd' Hh. revert Hh. upd_cases t' t; intros Hh.
      * inversion Hh; subst. rewrite upd_eq. simpl. repeat split; auto. apply pipe_write. exact D.
      * destruct (inv_hold s I _ _ _ _ _ Hh) as (A' & B' & C' & D').
        assert (c' <> c).
        { intros ->. apply n. apply (inv_excl s I t' t c); [exists tw', wr', rd'; exact Hh | exists (r :: tw), wr, rd; exact Ht]. }
        rewrite upd_neq by assumption. repeat split; auto.
    + intros t1 t2 c0 H1 H2. apply (inv_excl s I t1 t2 c0).
      * destruct (Nat.eq_dec t1 t) as [->|N1]; [|eapply holds_upd_other; eauto; reflexivity].
        destruct H1 as (? & ? & ? & H1). simpl in H1. rewrite upd_eq in H1. inversion H1; subst. eexists; eexists; eexists; exact Ht.
      * destruct (Nat.eq_dec t2 t) as [->|N2]; [|eapply holds_upd_other; eauto; reflexivity].
        destruct H2 as (? & ? & ? & H2). simpl in H2. rewrite upd_eq in H2. inversion H2; subst. eexists; eexists; eexists; exact Ht.
    + apply (inv_done s I).
  - (* LRead *)
    destruct (threads s t) as [|c tw wr rd] eqn:Ht; [discriminate|]. destruct tw; [|discriminate].
    destruct (s2c (conns s c)) as [|x rest0] eqn:Hs2; [discriminate|].
    destruct (length rd <? length wr); [|discriminate]. inversion H; subst; clear H.
    destruct (inv_hold s I _ _ _ _ _ Ht) as (A & B & C & D).
    constructor; simpl.
    + intros c' Hc'. assert (c' <> c) by (intros ->; contradiction).
      rewrite upd_neq by assumption. apply (inv_idle s I). exact Hc'.
    + apply (inv_nodup s I).
    + intros t' c' tw' wr' rd' Hh. revert Hh. upd_cases t' t; intros Hh.
      * inversion Hh; subst. rewrite upd_eq. simpl. repeat split; auto. apply pipe_read; assumption.
      * destruct (inv_hold s I _ _ _ _ _ Hh) as (A' & B' & C' & D').
        assert (c' <> c).
        { intros ->. apply n. apply (inv_excl s I t' t c); [exists tw', wr', rd'; exact Hh | exists [], wr, rd; exact Ht]. }
        rewrite upd_neq by assumption. repeat split; auto.
    + intros t1 t2 c0 H1 H2. apply (inv_excl s I t1 t2 c0).
      * destruct (Nat.eq_dec t1 t) as [->|N1]; [|eapply holds_upd_other; eauto; reflexivity].
        destruct H1 as (? & ? & ? & H1). simpl in H1. rewrite upd_eq in H1. inversion H1; subst. eexists; eexists; eexists; exact Ht.
      * destruct (Nat.eq_dec t2 t) as [->|N2]; [|eapply holds_upd_other; eauto; reflexivity].
        destruct H2 as (? & ? & ? & H2). simpl in H2. rewrite upd_eq in H2. inversion H2; subst. eexists; eexists; eexists; exact Ht.
    + apply (inv_done s I).
  - (* LPut *)
    destruct (threads s t) as [|c tw wr rd] eqn:Ht; [discriminate|]. destruct tw; [|discriminate].
    destruct (Nat.eqb_spec (length rd) (length wr)) as [Hlen|]; [|discriminate].
    destruct (inv_hold s I _ _ _ _ _ Ht) as (A & B & C & D).
    destruct (pipe_full _ _ _ D Hlen) as (Hrw & F1 & F2 & F3).
    assert (Hother : forall t' c' tw' wr' rd', t' <> t -> threads s t' = THold c' tw' wr' rd' -> c' <> c).
    { intros t' c' tw' wr' rd' N Hh ->. apply N.
      apply (inv_excl s I t' t c); [exists tw', wr', rd'; exact Hh | exists [], wr, rd; exact Ht]. }
    destruct (length (idle s) <? mi); inversion H; subst; clear H.
    + constructor; simpl.
      * intros c' [<-|Hc']; [split; [exact A | repeat split; assumption] | apply (inv_idle s I); exact Hc'].
      * constructor; [exact B | apply (inv_nodup s I)].
      * intros t' c' tw' wr' rd' Hh. revert Hh. upd_cases t' t; intros Hh; [discriminate|].
        destruct (inv_hold s I _ _ _ _ _ Hh) as (A' & B' & C' & D'). repeat split; auto.
        intros [<-|Hx]; [eapply Hother; eauto | contradiction].
      * intros t1 t2 c0 H1 H2.
        assert (N1 : t1 <> t) by (intros ->; destruct H1 as (? & ? & ? & H1); simpl in H1; rewrite upd_eq in H1; discriminate).
        assert (N2 : t2 <> t) by (intros ->; destruct H2 as (? & ? & ? & H2); simpl in H2; rewrite upd_eq in H2; discriminate).
        apply (inv_excl s I t1 t2 c0); eapply holds_upd_other; eauto; reflexivity.
      * intros t' reqs res Hin. apply in_app_or in Hin. destruct Hin as [Hin|[Hin|[]]]; [eapply (inv_done s I); eauto|].
        inversion Hin; subst. reflexivity.
    + constructor; simpl.
      * intros c' Hc'. assert (c' <> c) by (intros ->; contradiction).
        rewrite upd_neq by assumption. apply (inv_idle s I). exact Hc'.
      * apply (inv_nodup s I).
      * intros t' c' tw' wr' rd' Hh. revert Hh. upd_cases t' t; intros Hh; [discriminate|].
        destruct (inv_hold s I _ _ _ _ _ Hh) as (A' & B' & C' & D').
        rewrite upd_neq by (eapply Hother; eauto). repeat split; auto.
      * intros t1 t2 c0 H1 H2.
        assert (N1 : t1 <> t) by (intros ->; destruct H1 as (? & ? & ? & H1); simpl in H1; rewrite upd_eq in H1; discriminate).
        assert (N2 : t2 <> t) by (intros ->; destruct H2 as (? & ? & ? & H2); simpl in H2; rewrite upd_eq in H2; discriminate).
        apply (inv_excl s I t1 t2 c0); eapply holds_upd_other; eauto; reflexivity.
      * intros t' reqs res Hin. apply in_app_or in Hin. destruct Hin as [Hin|[Hin|[]]]; [eapply (inv_done s I); eauto|].
        inversion Hin; subst. reflexivity.
  - (* LFail *)
    destruct (threads s t) as [|c tw wr rd] eqn:Ht; [discriminate|]. inversion H; subst; clear H.
    destruct (inv_hold s I _ _ _ _ _ Ht) as (A & B & C & D).
    assert (Hother : forall t' c' tw' wr' rd', t' <> t -> threads s t' = THold c' tw' wr' rd' -> c' <> c).
    { intros t' c' tw' wr' rd' N Hh ->. apply N.
      apply (inv_excl s I t' t c); [exists tw', wr', rd'; exact Hh | exists tw, wr, rd; exact Ht]. }
    constructor; simpl.
    + intros c' Hc'. assert (c' <> c) by (intros ->; contradiction).
      rewrite upd_neq by assumption. apply (inv_idle s I). exact Hc'.
    + apply (inv_nodup s I).
    + intros t' c' tw' wr' rd' Hh. revert Hh. upd_cases t' t; intros Hh; [discriminate|].
      destruct (inv_hold s I _ _ _ _ _ Hh) as (A' & B' & C' & D').
      rewrite upd_neq by (eapply Hother; eauto). repeat split; auto.
    + intros t1 t2 c0 H1 H2.
      assert (N1 : t1 <> t) by (intros ->; destruct H1 as (? & ? & ? & H1); simpl in H1; rewrite upd_eq in H1; discriminate).
      assert (N2 : t2 <> t) by (intros ->; destruct H2 as (? & ? & ? & H2); simpl in H2; rewrite upd_eq in H2; discriminate).
      apply (inv_excl s I t1 t2 c0); eapply holds_upd_other; eauto; reflexivity.
    + intros t' reqs res Hin. apply in_app_or in Hin. destruct Hin as [Hin|[Hin|[]]]; [eapply (inv_done s I); eauto|].
      discriminate.
  - (* LSrvRead *)
    destruct (c <? nconn s) eqn:Hlt; [|discriminate]. destruct (sclosed (conns s c)) eqn:Hsc; [discriminate|]. simpl in H.
    destruct (srv (conns s c)) eqn:Hv; [discriminate|]. destruct (c2s (conns s c)) as [|r rest0] eqn:Hc2; [discriminate|].
    inversion H; subst; clear H. unfold set_conn. constructor; simpl.
    + intros c' Hc'. destruct (inv_idle s I c' Hc') as [L (K1 & K2 & K3 & K4)].
      upd_cases c' c; [subst; rewrite Hc2 in K1; discriminate | split; [exact L | repeat split; assumption]].
    + apply (inv_nodup s I).
    + intros t' c' tw wr rd Hh. destruct (inv_hold s I _ _ _ _ _ Hh) as (A & B & C & D).
      upd_cases c' c; [subst|]; repeat split; auto. simpl. rewrite <- Hsc. apply pipe_srv_read; auto.
    + apply (inv_excl s I).
    + apply (inv_done s I).
  - (* LSrvReply *)
    destruct (c <? nconn s) eqn:Hlt; [|discriminate]. destruct (sclosed (conns s c)) eqn:Hsc; [discriminate|]. simpl in H.
    destruct (srv (conns s c)) as [r|] eqn:Hv; [|discriminate].
    inversion H; subst; clear H. unfold set_conn. constructor; simpl.
    + intros c' Hc'. destruct (inv_idle s I c' Hc') as [L (K1 & K2 & K3 & K4)].
      upd_cases c' c; [subst; rewrite Hv in K3; discriminate | split; [exact L | repeat split; assumption]].
    + apply (inv_nodup s I).
    + intros t' c' tw wr rd Hh. destruct (inv_hold s I _ _ _ _ _ Hh) as (A & B & C & D).
      upd_cases c' c; [subst|]; repeat split; auto. simpl. rewrite <- Hsc. apply pipe_srv_reply; auto.
    + apply (inv_excl s I).
    + apply (inv_done s I).
  - (* LSrvClose *)
    destruct (c <? nconn s) eqn:Hlt; [|discriminate].
    inversion H; subst; clear H. unfold set_conn. constructor; simpl.
    + intros c' Hc'. destruct (inv_idle s I c' Hc') as [L (K1 & K2 & K3 & K4)].
      upd_cases c' c; [subst|]; (split; [exact L | repeat split; assumption]).
    + apply (inv_nodup s I).
    + intros t' c' tw wr rd Hh. destruct (inv_hold s I _ _ _ _ _ Hh) as (A & B & C & D).
      upd_cases c' c; [subst|]; repeat split; auto. apply pipe_srv_close. exact D.
    + apply (inv_excl s I).
    + apply (inv_done s I).
Qed.

Lemma inv_reach mi s : reach mi s -> inv s.
Proof. apply (reach_invariant mi inv inv_init (step_inv mi)). Qed.
