(* C28 — the connection pool of internal/net/client.go, the request/response exchanges
   SendProtoWithMetadata / SendBatchProto on a checked-out connection, and the server's per-connection loop
   (proto_server.go handleConn) as one labelled transition system. Executable model only.

   A connection is a pair of FIFO byte streams (contract of TCP, frames are units — the frame codec is
   C23's subject): [c2s] = request frames written by the client and not yet read by the server, [s2c] =
   response frames written by the server and not yet read by the client; [srv] = the request the server's
   handler is working on (the handler may take arbitrarily long: LSrvReply happens whenever it happens).
   A request is identified by a number; the response to request r carries r (an echo server: what the
   caller must receive for r is r itself).

   Callers: any number; each call is a list of requests (one for SendProto, n for SendBatchProto):
   Get (pop the most recently pooled connection, or dial when the pool is empty), write every request,
   then read one response per request, then Put; ANY error on the way (deadline expiry, cancellation,
   write error, decode error) is LFail = Discard = the connection is closed and never pooled. *)
From Coq Require Import List Arith Bool.
Import ListNotations.

Record conn := mkConn {
  c2s : list nat;        (* requests in flight to the server *)
  s2c : list nat;        (* responses in flight to the client *)
  srv : option nat;      (* request inside the server's handler *)
  sclosed : bool;        (* server closed its side (handler error, panic, idle timeout, malformed frame) *)
  cclosed : bool         (* client closed the connection (Discard, pool full, eviction) *)
}.
Definition fresh_conn : conn := mkConn [] [] None false false.

Inductive tstate :=
  | TIdle
  | THold (c : nat) (towrite written read : list nat).

Record state := mkState {
  conns : nat -> conn;
  nconn : nat;                       (* connections dialled so far: ids 0 .. nconn-1 *)
  idle : list nat;                   (* the pool, most recently pooled first *)
  threads : nat -> tstate;
  completed : list (nat * list nat * option (list nat))  (* ghost: caller, its requests, Some responses | None = error *)
}.

Definition init : state := mkState (fun _ => fresh_conn) 0 [] (fun _ => TIdle) [].

Definition upd {A} (f : nat -> A) (k : nat) (v : A) : nat -> A := fun x => if Nat.eqb x k then v else f x.

Inductive label :=
  | LGet (t : nat) (reqs : list nat) (pooled : bool) (* checkout: pooled => pops the top idle connection, else dials *)
  | LEvict                                           (* Get found the top idle connection stale: closes it, keeps looking *)
  | LWrite (t : nat)
  | LRead (t : nat)
  | LPut (t : nat)                                   (* all responses read and decoded: return the connection *)
  | LFail (t : nat)                                  (* any error path: Discard *)
  | LSrvRead (c : nat)
  | LSrvReply (c : nat)
  | LSrvClose (c : nat).

Definition set_conn (s : state) (c : nat) (k : conn) : state :=
  mkState (upd (conns s) c k) (nconn s) (idle s) (threads s) (completed s).
Definition set_thread (s : state) (t : nat) (x : tstate) : state :=
  mkState (conns s) (nconn s) (idle s) (upd (threads s) t x) (completed s).

Definition step (maxIdle : nat) (s : state) (l : label) : option state :=
  match l with
  | LGet t reqs pooled =>
      match threads s t with
      | TIdle =>
          if pooled then
            match idle s with
            | c :: rest => Some (mkState (conns s) (nconn s) rest (upd (threads s) t (THold c reqs [] [])) (completed s))
            | [] => None
            end
          else
            match idle s with
            | [] => let c := nconn s in
                    Some (mkState (upd (conns s) c fresh_conn) (S c) [] (upd (threads s) t (THold c reqs [] [])) (completed s))
            | _ => None
            end
      | _ => None
      end
  | LEvict =>
      match idle s with
      | c :: rest => let k := conns s c in
                     Some (mkState (upd (conns s) c (mkConn (c2s k) (s2c k) (srv k) (sclosed k) true))
                                   (nconn s) rest (threads s) (completed s))
      | [] => None
      end
  | LWrite t =>
      match threads s t with
      | THold c (r :: tw) wr rd =>
          let k := conns s c in
          Some (mkState (upd (conns s) c (mkConn (c2s k ++ [r]) (s2c k) (srv k) (sclosed k) (cclosed k)))
                        (nconn s) (idle s) (upd (threads s) t (THold c tw (wr ++ [r]) rd)) (completed s))
      | _ => None
      end
  | LRead t =>
      match threads s t with
      | THold c [] wr rd =>
          let k := conns s c in
          match s2c k with
          | x :: rest =>
              if Nat.ltb (length rd) (length wr) then
                Some (mkState (upd (conns s) c (mkConn (c2s k) rest (srv k) (sclosed k) (cclosed k)))
                              (nconn s) (idle s) (upd (threads s) t (THold c [] wr (rd ++ [x]))) (completed s))
              else None
          | [] => None
          end
      | _ => None
      end
  | LPut t =>
      match threads s t with
      | THold c [] wr rd =>
          if Nat.eqb (length rd) (length wr) then
            if Nat.ltb (length (idle s)) maxIdle then
              Some (mkState (conns s) (nconn s) (c :: idle s) (upd (threads s) t TIdle)
                            (completed s ++ [(t, wr, Some rd)]))
            else
              let k := conns s c in
              Some (mkState (upd (conns s) c (mkConn (c2s k) (s2c k) (srv k) (sclosed k) true))
                            (nconn s) (idle s) (upd (threads s) t TIdle) (completed s ++ [(t, wr, Some rd)]))
          else None
      | _ => None
      end
  | LFail t =>
      match threads s t with
      | THold c tw wr rd =>
          let k := conns s c in
          Some (mkState (upd (conns s) c (mkConn (c2s k) (s2c k) (srv k) (sclosed k) true))
                        (nconn s) (idle s) (upd (threads s) t TIdle) (completed s ++ [(t, wr ++ tw, None)]))
      | TIdle => None
      end
  | LSrvRead c =>
      let k := conns s c in
      if Nat.ltb c (nconn s) && negb (sclosed k) then
        match srv k, c2s k with
        | None, r :: rest => Some (set_conn s c (mkConn rest (s2c k) (Some r) (sclosed k) (cclosed k)))
        | _, _ => None
        end
      else None
  | LSrvReply c =>
      let k := conns s c in
      if Nat.ltb c (nconn s) && negb (sclosed k) then
        match srv k with
        | Some r => Some (set_conn s c (mkConn (c2s k) (s2c k ++ [r]) None (sclosed k) (cclosed k)))
        | None => None
        end
      else None
  | LSrvClose c =>
      let k := conns s c in
      if Nat.ltb c (nconn s) then Some (set_conn s c (mkConn (c2s k) (s2c k) (srv k) true (cclosed k))) else None
  end.

Fixpoint run (maxIdle : nat) (s : state) (ls : list label) : option state :=
  match ls with
  | [] => Some s
  | l :: r => match step maxIdle s l with Some s' => run maxIdle s' r | None => None end
  end.

Fixpoint run_idx (maxIdle : nat) (s : state) (ls : list label) (i : nat) : state * option nat :=
  match ls with
  | [] => (s, None)
  | l :: r => match step maxIdle s l with Some s' => run_idx maxIdle s' r (S i) | None => (s, Some i) end
  end.

Definition opt_list (o : option nat) : list nat := match o with Some r => [r] | None => [] end.
Definition pipeline (k : conn) : list nat := s2c k ++ opt_list (srv k) ++ c2s k.
Definition clean (k : conn) : Prop := c2s k = [] /\ s2c k = [] /\ srv k = None /\ cclosed k = false.
