(* C35 — proofs about the handoff masking loop (C35/Model.v), for every oracle (outcomes, delays,
   cancellations) and every caller budget. *)
From Coq Require Import List ZArith NArith Bool Arith Lia.
From GV Require Import C35.Model.
Import ListNotations.
Open Scope Z_scope.

Lemma consts : ms = 1000000 /\ handoffWindow = 3000000000 /\ minBackoff = 50000000 /\
               maxBackoff = 300000000 /\ notFoundWindow = 500000000.
Proof. repeat split; reflexivity. Qed.

(* ------------------------------------------------------------------ sleepWithinHandoff clamp *)
Lemma sleep_request_spec d r :
  match sleep_request d r with
  | None => r <= 0
  | Some x => 0 < r /\ x = Z.min d r
  end.
Proof.
  unfold sleep_request. destruct (Z.leb_spec r 0); [assumption|].
  split; [assumption|]. destruct (Z.gtb_spec d r); lia.
Qed.

Lemma next_backoff_range b : minBackoff <= b <= maxBackoff -> minBackoff <= next_backoff b <= maxBackoff.
Proof. destruct consts as (_ & _ & E1 & E2 & _). unfold next_backoff. rewrite E1, E2. lia. Qed.

Lemma next_backoff_pos b : 0 < b -> 0 < next_backoff b.
Proof. destruct consts as (_ & _ & _ & E2 & _). unfold next_backoff. rewrite E2. lia. Qed.

Fixpoint zsum (l : list Z) : Z := match l with [] => 0 | x :: r => x + zsum r end.

Section Loop.
  Variables (start maxWait : Z).
  Let cd := callerDeadline start maxWait.
  Let dl := deadline start maxWait.

  Lemma window_bounds : 0 < window maxWait <= handoffWindow /\ (0 < maxWait -> window maxWait <= maxWait).
  Proof.
    destruct consts as (_ & E & _). unfold window. rewrite E.
    destruct (Z.gtb_spec maxWait 0), (Z.ltb_spec maxWait 3000000000); simpl; lia.
  Qed.

  (* the pinned-endpoint deadline never outlives the caller's budget *)
  Lemma deadline_le_caller c : cd = Some c -> dl <= c.
  Proof.
    unfold cd, dl, callerDeadline, deadline. destruct (Z.gtb_spec maxWait 0); [|discriminate].
    intros [= <-]. pose proof window_bounds. lia.
  Qed.

  Lemma first_nfd_bounds t : first_nfd start maxWait t <= t + notFoundWindow /\
                             (forall c, cd = Some c -> first_nfd start maxWait t <= c).
  Proof.
    unfold first_nfd. fold cd. destruct cd as [c|].
    - destruct (Z.ltb_spec c (t + notFoundWindow)); split; try lia; intros c' [= <-]; lia.
    - split; [lia|discriminate].
  Qed.

  (* ---------------------------------------------------------------- invariant-carrying walk *)
  (* bound(nfd): what a not-found deadline may be *)
  Definition nfd_ok (nfd : option Z) : Prop :=
    match nfd with Some x => forall c, cd = Some c -> x <= c | None => True end.

  (* every requested sleep fits before its attempt deadline, hence before the caller deadline;
     readings are monotone; sleeps are positive *)
  Lemma loop_sleeps_fit : forall evs b nfd tend,
    0 < b -> nfd_ok nfd ->
    let tr := loop start maxWait evs b nfd tend in
    (forall c, cd = Some c -> tend <= c -> tend + zsum (tr_sleeps tr) <= c) /\
    Forall (fun d => 0 < d) (tr_sleeps tr).
  Proof.
    induction evs as [|e rest IH]; intros b nfd tend Hbp Hn; simpl.
    - split; [intros; lia|constructor].
    - set (t := tend + Z.of_N (ev_delta e)).
      pose proof (next_backoff_pos b Hbp) as Hbp'.
      destruct (ev_outcome e); simpl.
      + split; [intros; lia|constructor].
      + (* Pinned *)
        pose proof (sleep_request_spec b (deadline start maxWait - t)) as Hs.
        destruct (sleep_request b (deadline start maxWait - t)) as [d|]; simpl.
        * destruct Hs as (Hr & Hd). destruct (ev_cancel e); simpl.
          -- split; [|repeat constructor; lia].
             intros c Hc Ht. pose proof (deadline_le_caller c Hc). unfold dl in *. lia.
          -- destruct (IH (next_backoff b) nfd (t + d) Hbp' Hn) as (I1 & I2). split.
             ++ intros c Hc Ht. pose proof (deadline_le_caller c Hc). unfold dl in *.
                specialize (I1 c Hc). subst t. lia.
             ++ constructor; [lia|exact I2].
        * split; [intros; lia|constructor].
      + (* NotFound *)
        set (nfd' := match nfd with Some x => x | None => first_nfd start maxWait t end).
        assert (Hn' : nfd_ok (Some nfd')).
        { unfold nfd_ok, nfd'. destruct nfd as [x|]; [exact Hn|]. apply first_nfd_bounds. }
        pose proof (sleep_request_spec b (nfd' - t)) as Hs.
        destruct (sleep_request b (nfd' - t)) as [d|]; simpl.
        * destruct Hs as (Hr & Hd). destruct (ev_cancel e); simpl.
          -- split; [|repeat constructor; lia].
             intros c Hc Ht. specialize (Hn' c Hc). lia.
          -- destruct (IH (next_backoff b) (Some nfd') (t + d) Hbp' Hn') as (I1 & I2). split.
             ++ intros c Hc Ht. specialize (Hn' c Hc). specialize (I1 c Hc). subst t. lia.
             ++ constructor; [lia|exact I2].
        * split; [intros; lia|constructor].
      + split; [intros; lia|constructor].
  Qed.

  (* without a caller budget the masking is still bounded: handoff window + not-found window.
     Sleeps ending by `deadline` and sleeps ending by the not-found deadline are accounted separately. *)
  Definition nf_room (nfd : option Z) (t : Z) : Z :=
    match nfd with Some x => Z.max 0 (x - t) | None => notFoundWindow end.

  Lemma loop_sleeps_bounded : forall evs b nfd tend, 0 < b ->
    zsum (tr_sleeps (loop start maxWait evs b nfd tend)) <= Z.max 0 (dl - tend) + nf_room nfd tend.
  Proof.
    destruct consts as (_ & _ & _ & _ & EN).
    induction evs as [|e rest IH]; intros b nfd tend Hbp; simpl.
    - unfold nf_room. destruct nfd; rewrite ?EN; lia.
    - pose proof (next_backoff_pos b Hbp) as Hbp'.
      set (t := tend + Z.of_N (ev_delta e)).
      assert (Ht : tend <= t) by (subst t; lia).
      assert (Hroom : forall n, nf_room n t <= nf_room n tend /\ 0 <= nf_room n t).
      { intros n. unfold nf_room. destruct n; rewrite ?EN; lia. }
      destruct (ev_outcome e); simpl.
      + destruct (Hroom nfd). lia.
      + pose proof (sleep_request_spec b (deadline start maxWait - t)) as Hs. unfold dl in *.
        destruct (sleep_request b (deadline start maxWait - t)) as [d|]; simpl.
        * destruct Hs as (Hr & Hd). destruct (Hroom nfd). destruct (ev_cancel e); simpl.
          -- lia.
          -- specialize (IH (next_backoff b) nfd (t + d) Hbp').
             assert (nf_room nfd (t + d) <= nf_room nfd t) by (unfold nf_room; destruct nfd; lia).
             lia.
        * destruct (Hroom nfd). lia.
      + set (nfd' := match nfd with Some x => x | None => first_nfd start maxWait t end).
        pose proof (sleep_request_spec b (nfd' - t)) as Hs.
        assert (Hn : nfd' - t <= nf_room nfd t /\ (0 < nfd' - t -> nfd' - t <= nf_room nfd tend)).
        { unfold nfd', nf_room. destruct nfd as [x|].
          - lia.
          - pose proof (first_nfd_bounds t) as (Hb & _). lia. }
        destruct (sleep_request b (nfd' - t)) as [d|]; simpl.
        * destruct Hs as (Hr & Hd). destruct (ev_cancel e); simpl.
          -- lia.
          -- specialize (IH (next_backoff b) (Some nfd') (t + d) Hbp'). unfold nf_room in IH at 1. lia.
        * destruct (Hroom nfd). lia.
      + destruct (Hroom nfd). lia.
  Qed.

  (* ---------------------------------------------------------------- result shape *)
  Lemma loop_result_deadline : forall evs b nfd tend d,
    tr_result (loop start maxWait evs b nfd tend) = Delivered d -> d = cd.
  Proof.
    induction evs as [|e rest IH]; intros b nfd tend d; simpl; [discriminate|].
    destruct (ev_outcome e); simpl.
    - intros [= <-]. reflexivity.
    - destruct (sleep_request _ _); simpl; [|discriminate]. destruct (ev_cancel e); simpl; [discriminate|]. apply IH.
    - destruct (sleep_request _ _); simpl; [|discriminate]. destruct (ev_cancel e); simpl; [discriminate|]. apply IH.
    - discriminate.
  Qed.

  (* the loop-head readings and the sleeps run in lock step: one more reading than completed sleeps,
     except when cancellation interrupts the last sleep *)
  Lemma loop_reads_length : forall evs b nfd tend,
    let tr := loop start maxWait evs b nfd tend in
    (length (tr_sleeps tr) <= length (tr_reads tr))%nat /\ (length (tr_reads tr) <= length evs)%nat.
  Proof.
    induction evs as [|e rest IH]; intros b nfd tend; simpl; [lia|].
    destruct (ev_outcome e); simpl; try lia.
    - destruct (sleep_request _ _); simpl; [|lia]. destruct (ev_cancel e); simpl; [lia|].
      specialize (IH (next_backoff b) nfd (tend + Z.of_N (ev_delta e) + z)). simpl in IH. lia.
    - destruct (sleep_request _ _); simpl; [|lia]. destruct (ev_cancel e); simpl; [lia|].
      match goal with |- context [loop _ _ rest ?b' ?n' ?t'] => specialize (IH b' n' t') end. simpl in IH. lia.
  Qed.

  (* ---------------------------------------------------------------- termination *)
  (* number of further sleeps a deadline D still allows at time t: ceil((D - t) / minBackoff) *)
  Definition cap (D t : Z) : nat := Z.to_nat ((Z.max 0 (D - t) + minBackoff - 1) / minBackoff).

  Lemma cap_mono D t t' : t <= t' -> (cap D t' <= cap D t)%nat.
  Proof.
    destruct consts as (_ & _ & E & _). intros H. unfold cap. rewrite E. apply Z2Nat.inj_le.
    - apply Z.div_pos; lia.
    - apply Z.div_pos; lia.
    - apply Z.div_le_mono; lia.
  Qed.

  (* a sleep of min(backoff, remaining) with backoff >= minBackoff uses up at least one unit *)
  Lemma cap_step D t b t' : 0 < D - t -> minBackoff <= b -> t + Z.min b (D - t) <= t' ->
    (cap D t' < cap D t)%nat.
  Proof.
    destruct consts as (_ & _ & E & _). intros Hr Hb Ht. unfold cap. rewrite E in *.
    apply Z2Nat.inj_lt.
    - apply Z.div_pos; lia.
    - apply Z.div_pos; lia.
    - destruct (Z.le_gt_cases (D - t) b) as [Hc|Hc].
      + (* clamped: the deadline is reached *)
        rewrite Z.min_r in Ht by lia. replace (Z.max 0 (D - t')) with 0 by lia.
        rewrite Z.max_r by lia. simpl.
        apply Z.lt_le_trans with 1; [reflexivity|]. apply Z.div_le_lower_bound; lia.
      + rewrite Z.min_l in Ht by lia.
        rewrite (Z.max_r 0 (D - t)) by lia.
        apply Z.le_lt_trans with ((Z.max 0 (D - (t + 50000000)) + 50000000 - 1) / 50000000).
        * apply Z.div_le_mono; lia.
        * rewrite Z.max_r by lia.
          replace (D - (t + 50000000) + 50000000 - 1) with ((D - t + 50000000 - 1) + (-1) * 50000000) by ring.
          rewrite Z.div_add by lia. lia.
  Qed.

  Definition nf_units : nat := S (Z.to_nat (notFoundWindow / minBackoff)).   (* 11 *)

  Definition measure (nfd : option Z) (t : Z) : nat :=
    (cap dl t + match nfd with Some x => cap x t | None => nf_units end)%nat.

  Lemma cap_first_nfd t : (cap (first_nfd start maxWait t) t < nf_units)%nat.
  Proof.
    destruct consts as (_ & _ & E & _ & EN).
    pose proof (first_nfd_bounds t) as (Hb & _). unfold cap, nf_units. rewrite E, EN in *.
    apply Nat.lt_succ_r. apply Z2Nat.inj_le.
    - apply Z.div_pos; lia.
    - vm_compute. discriminate.
    - change (500000000 / 50000000) with 10.
      match goal with |- ?X / _ <= _ => assert (X / 50000000 < 11) by (apply Z.div_lt_upper_bound; lia) end. lia.
  Qed.

  Theorem loop_terminates : forall evs b nfd tend,
    minBackoff <= b <= maxBackoff ->
    (measure nfd tend < length evs)%nat ->
    tr_result (loop start maxWait evs b nfd tend) <> Pending.
  Proof.
    induction evs as [|e rest IH]; intros b nfd tend Hb Hm; simpl in *; [lia|].
    set (t := tend + Z.of_N (ev_delta e)).
    assert (Ht : tend <= t) by (subst t; lia).
    assert (Hb0 : 0 < b) by (destruct consts as (_ & _ & EB & _); rewrite EB in Hb; lia).
    destruct (ev_outcome e); simpl; try discriminate.
    - (* Pinned *)
      pose proof (sleep_request_spec b (deadline start maxWait - t)) as Hs. unfold dl in *.
      destruct (sleep_request b (deadline start maxWait - t)) as [d|]; simpl; [|discriminate].
      destruct Hs as (Hr & Hd). destruct (ev_cancel e); simpl; [discriminate|].
      apply IH; [apply next_backoff_range, Hb|].
      unfold measure in *.
      assert (cap dl (t + d) < cap dl t)%nat by (apply (cap_step dl t b); lia).
      pose proof (cap_mono dl tend t Ht).
      assert (match nfd with Some x => cap x (t + d) | None => nf_units end <=
              match nfd with Some x => cap x tend | None => nf_units end)%nat.
      { destruct nfd; [apply cap_mono; lia|lia]. }
      lia.
    - (* NotFound *)
      set (nfd' := match nfd with Some x => x | None => first_nfd start maxWait t end).
      pose proof (sleep_request_spec b (nfd' - t)) as Hs.
      destruct (sleep_request b (nfd' - t)) as [d|]; simpl; [|discriminate].
      destruct Hs as (Hr & Hd). destruct (ev_cancel e); simpl; [discriminate|].
      apply IH; [apply next_backoff_range, Hb|].
      unfold measure in *.
      assert (cap nfd' (t + d) < cap nfd' t)%nat by (apply (cap_step nfd' t b); lia).
      pose proof (cap_mono dl tend (t + d) ltac:(lia)).
      assert (cap nfd' t <= match nfd with Some x => cap x tend | None => nf_units end)%nat.
      { unfold nfd'. destruct nfd; [apply cap_mono; lia|]. pose proof (cap_first_nfd t). lia. }
      lia.
  Qed.

  (* ---------------------------------------------------------------- who gives up with what *)
  Lemma loop_gave_up : forall evs b nfd tend r,
    tr_result (loop start maxWait evs b nfd tend) = GaveUp r ->
    exists e, In e evs /\ ((r = ErrRelocationInProgress /\ ev_outcome e = Pinned) \/
                           (r = ErrOfResolution /\ ev_outcome e = NotFound)).
  Proof.
    induction evs as [|e rest IH]; intros b nfd tend r; simpl; [discriminate|].
    destruct (ev_outcome e) eqn:Eo; simpl; try discriminate.
    - destruct (sleep_request _ _); simpl.
      + destruct (ev_cancel e); simpl.
        * intros [= <-]. exists e. auto.
        * intros H. destruct (IH _ _ _ _ H) as (e' & Hin & Hc). exists e'. auto.
      + intros [= <-]. exists e. auto.
    - destruct (sleep_request _ _); simpl.
      + destruct (ev_cancel e); simpl.
        * intros [= <-]. exists e. auto.
        * intros H. destruct (IH _ _ _ _ H) as (e' & Hin & Hc). exists e'. auto.
      + intros [= <-]. exists e. auto.
  Qed.

  (* loop-head readings never run past the caller deadline by more than one delay *)
  Lemma loop_reads_bounded : forall evs b nfd tend c rho,
    nfd_ok nfd -> cd = Some c -> tend <= c ->
    Forall (fun e => Z.of_N (ev_delta e) <= rho) evs ->
    Forall (fun t => t <= c + rho) (tr_reads (loop start maxWait evs b nfd tend)).
  Proof.
    induction evs as [|e rest IH]; intros b nfd tend c rho Hn Hc Ht Hd; simpl; [constructor|].
    inversion Hd as [|? ? He Hrest]; subst.
    set (t := tend + Z.of_N (ev_delta e)).
    assert (Htc : t <= c + rho) by (subst t; lia).
    destruct (ev_outcome e); simpl; try (constructor; [exact Htc|constructor]).
    - pose proof (sleep_request_spec b (deadline start maxWait - t)) as Hs. unfold dl in *.
      destruct (sleep_request b (deadline start maxWait - t)) as [d|]; simpl; [|constructor; [exact Htc|constructor]].
      destruct Hs as (Hr & Hdd). destruct (ev_cancel e); simpl; [constructor; [exact Htc|constructor]|].
      constructor; [exact Htc|]. apply IH; auto. pose proof (deadline_le_caller c Hc). lia.
    - set (nfd' := match nfd with Some x => x | None => first_nfd start maxWait t end).
      assert (Hn' : nfd_ok (Some nfd')).
      { unfold nfd_ok, nfd'. destruct nfd as [x|]; [exact Hn|]. apply first_nfd_bounds. }
      pose proof (sleep_request_spec b (nfd' - t)) as Hs.
      destruct (sleep_request b (nfd' - t)) as [d|]; simpl; [|constructor; [exact Htc|constructor]].
      destruct Hs as (Hr & Hdd). destruct (ev_cancel e); simpl; [constructor; [exact Htc|constructor]|].
      constructor; [exact Htc|]. apply IH; auto. specialize (Hn' c Hc). lia.
  Qed.
End Loop.

(* ------------------------------------------------------------------ the replay runner is the same loop *)
Fixpoint abs_events (evs : list event) (tend : Z) (sleeps : list Z) : list (outcome * Z * bool) :=
  match evs with
  | [] => []
  | e :: rest =>
    let t := tend + Z.of_N (ev_delta e) in
    (ev_outcome e, t, ev_cancel e) ::
    match sleeps with
    | d :: more => abs_events rest (t + d) more
    | [] => []
    end
  end.

Lemma loop_abs_agrees start maxWait : forall evs b nfd tend,
  let tr := loop start maxWait evs b nfd tend in
  tr_result tr <> Pending ->
  snd (loop_abs start maxWait (abs_events evs tend (tr_sleeps tr)) b nfd) = tr_result tr.
Proof.
  induction evs as [|e rest IH]; intros b nfd tend; simpl; [congruence|].
  set (t := tend + Z.of_N (ev_delta e)).
  destruct (ev_outcome e); simpl; auto.
  - destruct (sleep_request b (deadline start maxWait - t)) as [d|] eqn:Es; simpl; rewrite ?Es; auto.
    destruct (ev_cancel e) eqn:Ec; simpl; rewrite ?Es, ?Ec; auto.
    intros Hp. specialize (IH (next_backoff b) nfd (t + d) Hp). simpl in IH.
    destruct (loop_abs _ _ _ _ _) as [l r]. exact IH.
  - set (nfd' := match nfd with Some x => x | None => first_nfd start maxWait t end).
    destruct (sleep_request b (nfd' - t)) as [d|] eqn:Es; simpl; fold nfd'; rewrite ?Es; auto.
    destruct (ev_cancel e) eqn:Ec; simpl; fold nfd'; rewrite ?Es, ?Ec; auto.
    intros Hp. specialize (IH (next_backoff b) (Some nfd') (t + d) Hp). simpl in IH.
    destruct (loop_abs _ _ _ _ _) as [l r]. exact IH.
Qed.
