(* C35 — executable model of actor/relocation_handoff.go: deliverAcrossHandoff (the masking retry
   loop of SendSync), sleepWithinHandoff, deliverBypassingHandoff (SendAsync).

   Time is a logical clock in nanoseconds.  The environment is an explicit oracle: each attempt
   carries the outcome of system.ActorOf classified as the switch in the loop classifies it, the time
   `delta` that passed beyond the requested sleep before the loop reads the clock again (time spent
   inside ActorOf plus timer overshoot; a natural number, so clocks are monotone and timers never
   fire early by construction) and whether ctx.Done() fired during the sleep. *)
From Coq Require Import List ZArith NArith Bool Arith.
Import ListNotations.
Open Scope Z_scope.

Definition ms : Z := 1000000.
Definition handoffWindow : Z := 3000 * ms.       (* relocationHandoffWindow *)
Definition minBackoff : Z := 50 * ms.            (* relocationHandoffMinBackoff *)
Definition maxBackoff : Z := 300 * ms.           (* relocationHandoffMaxBackoff *)
Definition notFoundWindow : Z := 500 * ms.       (* relocationNotFoundMaskWindow *)

Inductive outcome :=
| Live        (* err == nil, target not on a departing endpoint: deliver *)
| Pinned      (* err == nil && to.IsRemote() && isEndpointRelocating(to) *)
| NotFound    (* isHandoffRetryable(err) && relocationInFlight() *)
| Terminal.   (* any other resolution error *)

Record event := mkEv { ev_outcome : outcome; ev_delta : N; ev_cancel : bool }.

Inductive retry_err := ErrRelocationInProgress | ErrOfResolution.

Inductive result :=
| Delivered (ctxDeadline : option Z)   (* deliver was called once, with this context deadline (None: the caller's ctx as is) *)
| FailFast                             (* the resolution error is returned, nothing slept on *)
| GaveUp (e : retry_err)               (* masking gave up: the retryable error that stalled it *)
| Pending.                             (* the oracle prefix ended while the loop was still running *)

(* sleepWithinHandoff, the scalar part: remaining := time.Until(deadline);
   if remaining <= 0 { return false }; if duration > remaining { duration = remaining } *)
Definition sleep_request (duration remaining : Z) : option Z :=
  if remaining <=? 0 then None else Some (if duration >? remaining then remaining else duration).

Definition next_backoff (b : Z) : Z := Z.min (b * 2) maxBackoff.

Section Loop.
  Variables (start maxWait : Z).

  Definition callerDeadline : option Z := if maxWait >? 0 then Some (start + maxWait) else None.
  Definition window : Z := if (maxWait >? 0) && (maxWait <? handoffWindow) then maxWait else handoffWindow.
  Definition deadline : Z := start + window.

  (* notFoundDeadline when first set at reading t *)
  Definition first_nfd (t : Z) : Z :=
    let d := t + notFoundWindow in
    match callerDeadline with
    | Some c => if c <? d then c else d
    | None => d
    end.

  Record trace := mkTrace {
    tr_sleeps : list Z;       (* requested (clamped) sleep durations, in order *)
    tr_reads : list Z;        (* loop-head clock readings, in order *)
    tr_result : result
  }.

  (* `tend` is the time at which the previous sleep's requested duration ended (start of the walk: 0) *)
  Fixpoint loop (evs : list event) (backoff : Z) (nfd : option Z) (tend : Z) : trace :=
    match evs with
    | [] => mkTrace [] [] Pending
    | e :: rest =>
      let t := tend + Z.of_N (ev_delta e) in
      let finish r := mkTrace [] [t] r in
      match ev_outcome e with
      | Live => finish (Delivered callerDeadline)
      | Terminal => finish FailFast
      | Pinned =>
        match sleep_request backoff (deadline - t) with
        | None => finish (GaveUp ErrRelocationInProgress)
        | Some d =>
          if ev_cancel e then mkTrace [d] [t] (GaveUp ErrRelocationInProgress)
          else let tr := loop rest (next_backoff backoff) nfd (t + d) in
               mkTrace (d :: tr_sleeps tr) (t :: tr_reads tr) (tr_result tr)
        end
      | NotFound =>
        let nfd' := match nfd with Some x => x | None => first_nfd t end in
        match sleep_request backoff (nfd' - t) with
        | None => finish (GaveUp ErrOfResolution)
        | Some d =>
          if ev_cancel e then mkTrace [d] [t] (GaveUp ErrOfResolution)
          else let tr := loop rest (next_backoff backoff) (Some nfd') (t + d) in
               mkTrace (d :: tr_sleeps tr) (t :: tr_reads tr) (tr_result tr)
        end
      end
    end.
End Loop.

(* deliverAcrossHandoff in a cluster: the first reading (right after the first ActorOf) is `start` *)
Definition deliverAcrossHandoff (maxWait : Z) (evs : list event) : trace :=
  match evs with
  | [] => mkTrace [] [] Pending
  | e :: _ => let start := Z.of_N (ev_delta e) in loop start maxWait evs minBackoff None 0
  end.

(* not clustered: resolve once, deliver with the caller's context, never sleep *)
Definition deliverNotClustered (o : outcome) : result :=
  match o with Live | Pinned => Delivered None | _ => FailFast end.

(* deliverBypassingHandoff (SendAsync): one resolution, no sleep *)
Definition deliverBypassingHandoff (inCluster : bool) (o : outcome) : nat * list Z * result :=
  (1%nat, [],
   match o with
   | Live => Delivered None
   | Pinned => if inCluster then GaveUp ErrRelocationInProgress else Delivered None
   | _ => FailFast
   end).

(* ---- the same loop over ABSOLUTE clock readings (used to replay recorded runs of the real code:
   reading i is what the harness observed at loop head i). No timer contract is assumed here. *)
Section LoopAbs.
  Variables (start maxWait : Z).
  Fixpoint loop_abs (evs : list (outcome * Z * bool)) (backoff : Z) (nfd : option Z) : list (Z * Z) * result :=
    match evs with
    | [] => ([], Pending)
    | (o, t, cancel) :: rest =>
      match o with
      | Live => ([], Delivered (callerDeadline start maxWait))
      | Terminal => ([], FailFast)
      | Pinned =>
        let rem := deadline start maxWait - t in
        match sleep_request backoff rem with
        | None => ([(0, rem)], GaveUp ErrRelocationInProgress)
        | Some d => if cancel then ([(d, rem)], GaveUp ErrRelocationInProgress)
                    else let '(l, r) := loop_abs rest (next_backoff backoff) nfd in ((d, rem) :: l, r)
        end
      | NotFound =>
        let nfd' := match nfd with Some x => x | None => first_nfd start maxWait t end in
        let rem := nfd' - t in
        match sleep_request backoff rem with
        | None => ([(0, rem)], GaveUp ErrOfResolution)
        | Some d => if cancel then ([(d, rem)], GaveUp ErrOfResolution)
                    else let '(l, r) := loop_abs rest (next_backoff backoff) (Some nfd') in ((d, rem) :: l, r)
        end
      end
    end.
End LoopAbs.

Definition replay (maxWait : Z) (evs : list (outcome * Z * bool)) : list (Z * Z) * result :=
  match evs with
  | [] => ([], Pending)
  | (_, t0, _) :: _ => loop_abs t0 maxWait evs minBackoff None
  end.
