(* C35 — top-level statements about deliverAcrossHandoff / deliverBypassingHandoff. *)
From Coq Require Import List ZArith NArith Bool Arith Lia.
From GV Require Import C35.Model C35.Proofs.
Import ListNotations.
Open Scope Z_scope.

(* the time before the first reading is the first event's delta: shifting it into `tend` changes nothing *)
Lemma loop_shift start maxWait e rest b nfd tend :
  loop start maxWait (e :: rest) b nfd tend =
  loop start maxWait (mkEv (ev_outcome e) 0 (ev_cancel e) :: rest) b nfd (tend + Z.of_N (ev_delta e)).
Proof. simpl. rewrite Z.add_0_r. reflexivity. Qed.

Lemma minBackoff_range : minBackoff <= minBackoff <= maxBackoff.
Proof. destruct consts as (_ & _ & E1 & E2 & _). rewrite E1, E2. lia. Qed.

Lemma minBackoff_pos : 0 < minBackoff.
Proof. destruct consts as (_ & _ & E1 & _). rewrite E1. lia. Qed.

Section Top.
  Variables (maxWait : Z) (e : event) (rest : list event).
  Let evs := e :: rest.
  Let start := Z.of_N (ev_delta e).
  Let tr := deliverAcrossHandoff maxWait evs.
  Let e0 := mkEv (ev_outcome e) 0 (ev_cancel e).

  Lemma top_unfold : tr = loop start maxWait (e0 :: rest) minBackoff None start.
  Proof. unfold tr, deliverAcrossHandoff, evs. fold start. rewrite loop_shift. reflexivity. Qed.

  (* the sleeps requested by one masked send never add up to more than the caller's timeout *)
  Theorem sleep_within_caller_budget : 0 < maxWait -> zsum (tr_sleeps tr) <= maxWait.
  Proof.
    intros Hm. rewrite top_unfold.
    destruct (loop_sleeps_fit start maxWait (e0 :: rest) minBackoff None start minBackoff_pos I) as (H & _).
    assert (Hc : callerDeadline start maxWait = Some (start + maxWait)).
    { unfold callerDeadline. destruct (Z.gtb_spec maxWait 0); [reflexivity|lia]. }
    specialize (H _ Hc). lia.
  Qed.

  (* and, caller budget or not, never to more than the handoff window plus the not-found mask window *)
  Theorem sleep_bounded : zsum (tr_sleeps tr) <= window maxWait + notFoundWindow.
  Proof.
    rewrite top_unfold.
    pose proof (loop_sleeps_bounded start maxWait (e0 :: rest) minBackoff None start minBackoff_pos) as H.
    unfold nf_room, deadline in H. pose proof (window_bounds start maxWait). lia.
  Qed.

  (* the delivery gets a context bounded by the caller deadline (or the caller's own context when no budget was given) *)
  Theorem deliver_context_deadline d : tr_result tr = Delivered d ->
    d = if maxWait >? 0 then Some (start + maxWait) else None.
  Proof. rewrite top_unfold. apply loop_result_deadline. Qed.

  (* the loop terminates for every oracle: 72 attempts always suffice *)
  Theorem terminates : (71 < length evs)%nat -> tr_result tr <> Pending.
  Proof.
    intros Hl. rewrite top_unfold. apply loop_terminates; [apply minBackoff_range|].
    simpl length. unfold evs in Hl. simpl in Hl.
    assert (Hm : (measure start maxWait None start <= 71)%nat).
    { unfold measure, nf_units, cap, deadline.
      destruct consts as (_ & EW & EB & _ & EN). pose proof (window_bounds start maxWait) as (Hw & _).
      rewrite EW in Hw. rewrite EB, EN.
      replace (start + window maxWait - start) with (window maxWait) by ring.
      change (500000000 / 50000000) with 10. change (Z.to_nat 10) with 10%nat.
      assert ((Z.max 0 (window maxWait) + 50000000 - 1) / 50000000 < 61) by (apply Z.div_lt_upper_bound; lia).
      assert (0 <= (Z.max 0 (window maxWait) + 50000000 - 1) / 50000000) by (apply Z.div_pos; lia).
      lia. }
    lia.
  Qed.

  (* giving up surfaces the retryable error that stalled the masking *)
  Theorem gave_up_retryable r : tr_result tr = GaveUp r ->
    exists x, In x evs /\ ((r = ErrRelocationInProgress /\ ev_outcome x = Pinned) \/
                           (r = ErrOfResolution /\ ev_outcome x = NotFound)).
  Proof.
    rewrite top_unfold. intros H. destruct (loop_gave_up _ _ _ _ _ _ _ H) as (x & Hin & Hc).
    destruct Hin as [<-|Hin].
    - exists e. split; [left; reflexivity|]. exact Hc.
    - exists x. split; [right; exact Hin|exact Hc].
  Qed.

  (* with a caller budget, every loop-head clock reading is within the budget plus one scheduling delay *)
  Theorem reads_within_budget rho : 0 < maxWait -> 0 <= rho ->
    Forall (fun x => Z.of_N (ev_delta x) <= rho) rest ->
    Forall (fun t => t <= start + maxWait + rho) (tr_reads tr).
  Proof.
    intros Hm Hr Hd. rewrite top_unfold.
    apply loop_reads_bounded with (c := start + maxWait).
    - exact I.
    - unfold callerDeadline. destruct (Z.gtb_spec maxWait 0); [reflexivity|lia].
    - lia.
    - constructor; [simpl; lia|exact Hd].
  Qed.
End Top.

(* SendAsync: exactly one resolution and no sleep, whatever the handoff state *)
Theorem bypass_never_sleeps inCluster o :
  fst (fst (deliverBypassingHandoff inCluster o)) = 1%nat /\ snd (fst (deliverBypassingHandoff inCluster o)) = [].
Proof. split; reflexivity. Qed.

Theorem bypass_pinned_is_retryable : snd (deliverBypassingHandoff true Pinned) = GaveUp ErrRelocationInProgress.
Proof. reflexivity. Qed.

(* ---- examples: hypotheses satisfiable, concrete runs *)
Definition pinned_forever (n : nat) : list event := repeat (mkEv Pinned 0 false) n.

Example ex_pinned_400ms :
  let tr := deliverAcrossHandoff (400 * ms) (pinned_forever 80) in
  tr_sleeps tr = [50 * ms; 100 * ms; 200 * ms; 50 * ms] /\ tr_result tr = GaveUp ErrRelocationInProgress.
Proof. vm_compute. split; reflexivity. Qed.

Example ex_unbounded_full_window :
  let tr := deliverAcrossHandoff 0 (pinned_forever 80) in
  zsum (tr_sleeps tr) = handoffWindow /\ length (tr_sleeps tr) = 12%nat /\ tr_result tr = GaveUp ErrRelocationInProgress.
Proof. vm_compute. repeat split; reflexivity. Qed.

Example ex_mixed :
  let tr := deliverAcrossHandoff (2000 * ms)
              [mkEv Pinned 1000 false; mkEv Pinned 5000 false; mkEv NotFound 0 false; mkEv NotFound 0 false; mkEv Live 7 false] in
  tr_sleeps tr = [50 * ms; 100 * ms; 200 * ms; 300 * ms] /\ tr_result tr = Delivered (Some (2000 * ms + 1000)).
Proof. vm_compute. split; reflexivity. Qed.

Example ex_terminates_hyp : (71 < length (pinned_forever 80))%nat.
Proof. vm_compute. repeat constructor. Qed.
