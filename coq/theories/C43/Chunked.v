(* C43, chunked flows — the demand ledger of the producer controller when one message may take several
   sequence numbers (storeChunks), reduced to the four places that touch it:

     handleRequest          demandUpTo := requestUpTo            (the consumer's request)
     allowNextRequest       opens a handshake iff currentSeq < demandUpTo
     storeChunks            currentSeq := currentSeq + count     (count >= 1 chunks, count <= window)
     handleRegisterConsumer demandUpTo := currentSeq             (a new registration generation)
     completeAccept / resendUnconfirmed / emitSequenced          emit every stored seq <= demandUpTo

   With count = 1 (whole payloads) currentSeq never passes demandUpTo, so the registration rule cannot raise
   the demand (C43_never_beyond_requested covers that case for the full controllers). With count > 1 the
   stored sequence can pass the demand, the registration rule then lifts the demand to it, and the
   pending chunks are emitted beyond everything the consumer ever requested: [chunked_refuted] gives the
   schedule (replayed on the real controllers by corpus/C43/01-*.json). With the repaired rule
   demandUpTo := min(demandUpTo, currentSeq) (fixes/C43-registration-demand.diff) the ledger never exceeds
   the highest request, for all schedules: [chunked_partial]. *)
From Coq Require Import ZArith List Bool Lia ZifyBool.
Import ListNotations.
Open Scope Z_scope.

Inductive lop :=
| LRequest (upTo : Z)          (* a Request reaches the producer controller *)
| LStore (count : Z)           (* the open handshake stores a message of count chunks *)
| LRegister                    (* a (re-)registration reaches the producer controller *)
| LTerminated                  (* the consumer controller is reported dead (handleTerminated) *)
| LEmit.                       (* acceptance / timeout resend: emit what the demand allows *)

Record ledger := mkL { l_cur : Z; l_demand : Z; l_maxreq : Z; l_open : bool; l_maxemit : Z }.
Definition l_init : ledger := mkL 0 0 0 false 0.

(* fr / ft: the repaired rule min(demandUpTo, currentSeq) in handleRegisterConsumer / handleTerminated *)
Definition lstep2 (fr ft : bool) (s : ledger) (o : lop) : ledger :=
  match o with
  | LRequest u =>
    let open := l_open s || (l_cur s <? u) in
    mkL (l_cur s) u (Z.max (l_maxreq s) u) open (l_maxemit s)
  | LStore n =>
    if l_open s && (1 <=? n) then mkL (l_cur s + n) (l_demand s) (l_maxreq s) false (l_maxemit s) else s
  | LRegister =>
    mkL (l_cur s) (if fr then Z.min (l_demand s) (l_cur s) else l_cur s) (l_maxreq s) (l_open s) (l_maxemit s)
  | LTerminated =>
    mkL (l_cur s) (if ft then Z.min (l_demand s) (l_cur s) else l_cur s) (l_maxreq s) (l_open s) (l_maxemit s)
  | LEmit =>
    mkL (l_cur s) (l_demand s) (l_maxreq s) (l_open s || (l_cur s <? l_demand s)) (Z.max (l_maxemit s) (Z.min (l_cur s) (l_demand s)))
  end.

Definition lstep (fixed : bool) (s : ledger) (o : lop) : ledger := lstep2 fixed fixed s o.

Definition lrun2 (fr ft : bool) (ops : list lop) : ledger := fold_left (lstep2 fr ft) ops l_init.

Definition lrun (fixed : bool) (ops : list lop) : ledger := fold_left (lstep fixed) ops l_init.

(* the code as it is: window 4, two messages of three chunks, a re-registration between Stored and StoredAck *)
Definition witness : list lop := [LRequest 4; LStore 3; LEmit; LStore 3; LRegister; LEmit].

Lemma chunked_refuted : exists ops, l_maxemit (lrun false ops) > l_maxreq (lrun false ops).
Proof. exists witness. vm_compute. reflexivity. Qed.

(* the repaired registration rule: nothing is ever emitted beyond the highest request, whatever the chunk counts *)
Lemma chunked_partial : forall ops, let s := lrun true ops in l_demand s <= l_maxreq s /\ l_maxemit s <= l_maxreq s.
Proof.
  intros ops. unfold lrun.
  assert (H0 : l_demand l_init <= l_maxreq l_init /\ l_maxemit l_init <= l_maxreq l_init) by (cbn; lia).
  revert H0. generalize l_init. induction ops as [|o ops IH]; intros s H; [exact H|].
  cbn [fold_left]. apply IH. destruct H as [H1 H2]. destruct o; cbn.
  - split; lia.
  - destruct (l_open s && (1 <=? count)); cbn; split; lia.
  - split; lia.
  - split; lia.
  - split; lia.
Qed.

(* the consumer-death path: with the registration rule repaired but handleTerminated still parking the demand at
   currentSeq, the replacement's registration keeps min(currentSeq, currentSeq) and the pending chunks go out beyond
   every request *)
Definition witness_term : list lop := [LRequest 4; LStore 3; LEmit; LStore 3; LTerminated; LRegister; LEmit].

Lemma chunked_terminated_refuted : exists ops, l_maxemit (lrun2 true false ops) > l_maxreq (lrun2 true false ops).
Proof. exists witness_term. vm_compute. reflexivity. Qed.

(* the same witness is harmless under the repaired rule *)
Example witness_fixed : l_maxemit (lrun true witness) = 4 /\ l_maxreq (lrun true witness) = 4.
Proof. vm_compute. split; reflexivity. Qed.
