(* C15 — proofs about the Ask reply-path model (C15/Model.v). *)
From Coq Require Import List Arith Bool Lia.
Import ListNotations.
From GV Require Import C15.Model.

(* ------------------------------------------------------------------ refutation witnesses (fx = false) *)

Definition A (i : nat) : label := LAsker i None SelReply.
Definition At (i : nat) : label := LAsker i None SelTimer.

(* W-cross: the handler of ask 0 wins the CAS and is preempted before the send; ask 0 times out, drains
   (nothing) and pools its channel; ask 1 is given that channel; the stale send lands in it. *)
Definition w_cross : list label :=
  [A 0; A 0; A 0; LResp 0; LTick 0; At 0; A 0; A 0; A 0;
   A 1; LAsker 1 (Some 0) SelReply; A 1; LResp 0; A 1; A 1; A 1; A 1].

Lemma cross_witness :
  let s := run false (init [1; 1]) w_cross in
  results s 2 = [Some None; Some (Some 0)].      (* ask 1 returned the reply to ask 0 *)
Proof. vm_compute. reflexivity. Qed.

(* W-lost: the reply is in the channel before the deadline; once the deadline has passed too, select
   may take the timer branch, which drains the reply away. *)
Definition w_lost : list label := [A 0; A 0; A 0; LResp 0; LResp 0; LTick 0; At 0; A 0; A 0; A 0].

Lemma lost_witness :
  let s := run false (init [1]) w_lost in
  results s 1 = [Some None] /\ replied_in_time (asks s 0) = true.
Proof. vm_compute. split; reflexivity. Qed.

(* W-stomp: ask 0's reply is in its channel and its context has been recycled and given to ask 1 when
   asker 0 finally runs and stores responseClosed := true — on ask 1's context; ask 1's handler then
   loses the CAS although it answers in time. *)
Definition w_stomp : list label :=
  [A 0; A 0; A 0; LResp 0; LResp 0; LResp 0; LRecycle 0; LAsker 1 (Some 0) SelReply; A 1; A 1;
   A 0; A 0; LResp 1; LResp 1; LTick 1; At 1; A 1; A 1; A 1; A 0; A 0].

Lemma stomp_witness :
  let s := run false (init [1; 1]) w_stomp in
  results s 2 = [Some (Some 0); Some None] /\ replied_in_time (asks s 1) = true.
Proof. vm_compute. split; reflexivity. Qed.
