(* C15 — comparison used by the generated cases file of checks/C15.py: the log of a scripted run of the
   real code, translated step by step into model labels, must lead the model to the results the real
   Ask calls returned. *)
From Coq Require Import List Arith Bool.
Import ListNotations.
From GV Require Import C15.Model.

Definition res_eqb (a b : option (option nat)) : bool :=
  match a, b with
  | None, None => true
  | Some None, Some None => true
  | Some (Some x), Some (Some y) => Nat.eqb x y
  | _, _ => false
  end.

Fixpoint list_eqb {A} (eqb : A -> A -> bool) (a b : list A) : bool :=
  match a, b with
  | [], [] => true
  | x :: a', y :: b' => eqb x y && list_eqb eqb a' b'
  | _, _ => false
  end.

(* labels as the harness gives them: a pool answer [Some j] means "the object ask j was given" *)
Inductive hlabel :=
| HAsker (i : nat) (same_as : option nat) (s : sel)
| HResp (i : nat) | HTick (i : nat) | HRecycle (i : nat).

Definition find_idx (x : nat) (l : list nat) : option nat :=
  (fix go (k : nat) (l : list nat) : option nat :=
     match l with
     | [] => None
     | y :: r => if Nat.eqb x y then Some k else go (S k) r
     end) 0 l.

Definition to_label (s : state) (h : hlabel) : label :=
  match h with
  | HAsker i (Some j) sl =>
      let o :=
        match ap (asks s i) with
        | ANew => match a_ctx (asks s j) with Some c => find_idx c (ctxpool s) | None => None end
        | ABuild _ => match a_ch (asks s j) with Some ch => find_idx ch (chpool s) | None => None end
        | _ => None
        end in
      (* a reuse the harness saw but the model cannot perform is reported as index 999 (disabled -> fresh) *)
      LAsker i (match o with Some k => Some k | None => Some 999 end) sl
  | HAsker i None sl => LAsker i None sl
  | HResp i => LResp i
  | HTick i => LTick i
  | HRecycle i => LRecycle i
  end.

Definition hrun (fx : bool) (s : state) (hs : list hlabel) : state :=
  fold_left (fun s h => step fx s (to_label s h)) hs s.

Definition ccase := (nat * list nat * list hlabel * list (option (option nat)))%type.

Definition check_cases (fx : bool) (cs : list ccase) : nat * list nat :=
  fold_left (fun acc c =>
    let '(n, bad) := acc in
    let '(id, nresps, hs, exp) := c in
    let s := hrun fx (init nresps) hs in
    (S n, if list_eqb res_eqb (results s (length nresps)) exp then bad else bad ++ [id])) cs (0, []).
