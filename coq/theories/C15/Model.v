(* C15 — executable model of the Ask reply path at atomic-step granularity:
     actor/pid.go PID.Ask, actor/api.go Ask, actor/actor_system.go handleRemoteAsk (the same code three
     times), actor/receive_context.go Response, actor/pools.go (response-channel pool, context pool),
     the recycling of a ReceiveContext one dequeue after it was handled.

   One model, two shapes selected by [fx]:
     fx = false  the code as it exists: every exit of Ask stores responseClosed := true on the
                 ReceiveContext it still holds, drains the reply channel and returns it to the pool;
     fx = true   the repaired code (fixes/C15-ask-reply-channel.diff): the asker never touches the
                 ReceiveContext after the enqueue; the channel goes back to the pool only after the
                 reply was taken from it; the timeout/cancel branch first polls the channel.

   Threads: for every ask i an asker (the goroutine inside Ask) and a responder (the target's
   handler for that message, which calls Response [nresp i] times), plus the environment:
   the deadline of ask i passing ([LTick i]) and the recycling of ask i's context ([LRecycle i]).
   Environment nondeterminism is in the label: which ready alternative a `select` takes, which pooled
   object a pool hands out ([None] = a fresh one). Ghost fields record, for ask i, the channel and
   context it was given and whether the handler's first Response call returned before the deadline. *)
From Coq Require Import List Arith Bool.
Import ListNotations.

Inductive apc :=
| ANew
| ABuild (c : nat)
| AEnq (c ch : nat)
| AWait (c ch : nat)
| AGotStore (c ch v : nat)
| AGotDrain (c ch v : nat)
| AGotPush (c ch v : nat)
| ATimePoll (c ch : nat)
| ATimeStore (c ch : nat)
| ATimeDrain (c ch : nat)
| ATimePush (c ch : nat)
| ADone (r : option nat).

Inductive rpc :=
| RIdle                 (* the message is not in the mailbox yet *)
| RCall (n : nat)       (* handler running, n Response calls still to make; next: the CAS *)
| RSend (n : nat)       (* this call won the CAS; next: the non-blocking send *)
| RDone                 (* handler returned *)
| RRecycled.            (* the context went back to the pool *)

Inductive sel := SelReply | SelTimer.

Inductive label :=
| LAsker (i : nat) (o : option nat) (s : sel)   (* one step of asker i; o: pool answer, s: select choice *)
| LResp (i : nat)
| LTick (i : nat)
| LRecycle (i : nat).

Record ctxr := mkCtx { closed : bool; cresp : option nat }.

Record ask := mkAsk {
  ap : apc; rp : rpc; nresp : nat;
  a_ctx : option nat; a_ch : option nat;      (* ghost: what build gave this ask *)
  ticked : bool;
  replied_in_time : bool                          (* ghost: the handler's first Response call returned before the deadline *)
}.

Record state := mkState {
  asks : nat -> ask;
  ctxs : nat -> ctxr; nctx : nat; ctxpool : list nat;
  chans : nat -> option nat; nch : nat; chpool : list nat
}.

Definition upd {A} (f : nat -> A) (k : nat) (a : A) : nat -> A :=
  fun x => if Nat.eqb x k then a else f x.

Definition init (nresps : list nat) : state :=
  mkState (fun i => mkAsk ANew RIdle (nth i nresps 0) None None false false)
          (fun _ => mkCtx false None) 0 [] (fun _ => None) 0 [].

Fixpoint remove_nth {A} (k : nat) (l : list A) : list A :=
  match l, k with
  | [], _ => []
  | _ :: t, O => t
  | x :: t, S k' => x :: remove_nth k' t
  end.

(* a pool hands out the o-th pooled object, or a fresh one *)
Definition take (pool : list nat) (fresh : nat) (o : option nat) : nat * list nat * nat :=
  match o with
  | Some k => match nth_error pool k with
              | Some x => (x, remove_nth k pool, fresh)
              | None => (fresh, pool, S fresh)
              end
  | None => (fresh, pool, S fresh)
  end.

Definition set_ask (s : state) (i : nat) (a : ask) : state :=
  mkState (upd (asks s) i a) (ctxs s) (nctx s) (ctxpool s) (chans s) (nch s) (chpool s).

Definition set_ap (s : state) (i : nat) (p : apc) : state :=
  let a := asks s i in
  set_ask s i (mkAsk p (rp a) (nresp a) (a_ctx a) (a_ch a) (ticked a) (replied_in_time a)).

Definition set_rp (s : state) (i : nat) (p : rpc) : state :=
  let a := asks s i in
  set_ask s i (mkAsk (ap a) p (nresp a) (a_ctx a) (a_ch a) (ticked a) (replied_in_time a)).

Definition set_ctx (s : state) (c : nat) (x : ctxr) : state :=
  mkState (asks s) (upd (ctxs s) c x) (nctx s) (ctxpool s) (chans s) (nch s) (chpool s).

Definition set_closed (s : state) (c : nat) (b : bool) : state :=
  set_ctx s c (mkCtx b (cresp (ctxs s c))).

Definition set_chan (s : state) (ch : nat) (v : option nat) : state :=
  mkState (asks s) (ctxs s) (nctx s) (ctxpool s) (upd (chans s) ch v) (nch s) (chpool s).

Definition push_ch (s : state) (ch : nat) : state :=
  mkState (asks s) (ctxs s) (nctx s) (ctxpool s) (chans s) (nch s) (chpool s ++ [ch]).

Definition push_ctx (s : state) (c : nat) : state :=
  mkState (asks s) (ctxs s) (nctx s) (ctxpool s ++ [c]) (chans s) (nch s) (chpool s).

(* a step that is not enabled leaves the state unchanged *)
Definition step (fx : bool) (s : state) (l : label) : state :=
  match l with
  | LAsker i o sl =>
      let a := asks s i in
      match ap a with
      | ANew =>                               (* getContext *)
          let '(c, pool', n') := take (ctxpool s) (nctx s) o in
          set_ap (mkState (asks s) (ctxs s) n' pool' (chans s) (nch s) (chpool s)) i (ABuild c)
      | ABuild c =>                           (* build: responseClosed := false; response := getResponseChannel() *)
          let '(ch, pool', n') := take (chpool s) (nch s) o in
          let s1 := mkState (asks s) (upd (ctxs s) c (mkCtx false (Some ch))) (nctx s) (ctxpool s)
                            (chans s) n' pool' in
          let a1 := asks s1 i in
          set_ask s1 i (mkAsk (AEnq c ch) (rp a1) (nresp a1) (Some c) (Some ch) (ticked a1) (replied_in_time a1))
      | AEnq c ch =>                          (* doReceive: the handler may now run *)
          set_ap (set_rp s i (RCall (nresp a))) i (AWait c ch)
      | AWait c ch =>                         (* select *)
          match sl with
          | SelReply =>
              match chans s ch with
              | Some v => set_ap (set_chan s ch None) i (if fx then AGotDrain c ch v else AGotStore c ch v)
              | None => s
              end
          | SelTimer =>
              if ticked a then set_ap s i (if fx then ATimePoll c ch else ATimeStore c ch) else s
          end
      | AGotStore c ch v => set_ap (set_closed s c true) i (AGotDrain c ch v)
      | AGotDrain c ch v => set_ap (set_chan s ch None) i (AGotPush c ch v)
      | AGotPush c ch v => set_ap (push_ch s ch) i (ADone (Some v))
      | ATimePoll c ch =>                     (* fx only: a reply that made it is still returned *)
          match chans s ch with
          | Some v => set_ap (set_chan s ch None) i (AGotDrain c ch v)
          | None => set_ap s i (ADone None)   (* the channel is abandoned, never pooled *)
          end
      | ATimeStore c ch => set_ap (set_closed s c true) i (ATimeDrain c ch)
      | ATimeDrain c ch => set_ap (set_chan s ch None) i (ATimePush c ch)
      | ATimePush c ch => set_ap (push_ch s ch) i (ADone None)
      | ADone _ => s
      end
  | LResp i =>
      let a := asks s i in
      (* the call that is completing is the handler's first one, and the deadline has not passed *)
      let first n := Nat.eqb (S n) (nresp a) && negb (ticked a) in
      let fin s' n p :=
        let a1 := asks s' i in
        set_ask s' i (mkAsk (ap a1) p (nresp a1) (a_ctx a1) (a_ch a1) (ticked a1)
                            (replied_in_time a1 || first n)) in
      match rp a, a_ctx a with
      | RCall (S n), Some c =>                (* Response: responseClosed.CompareAndSwap(false, true) *)
          if closed (ctxs s c) then fin s n (RCall n)
          else set_rp (set_closed s c true) i (RSend n)
      | RCall O, _ => set_rp s i RDone
      | RSend n, Some c =>                    (* select { case rctx.response <- resp: default: } *)
          match cresp (ctxs s c) with
          | Some ch =>
              match chans s ch with
              | None => fin (set_chan s ch (Some i)) n (RCall n)
              | Some _ => fin s n (RCall n)
              end
          | None => fin s n (RCall n)
          end
      | _, _ => s
      end
  | LTick i =>
      let a := asks s i in
      set_ask s i (mkAsk (ap a) (rp a) (nresp a) (a_ctx a) (a_ch a) true (replied_in_time a))
  | LRecycle i =>                             (* the mailbox's next Dequeue: reset + back to the pool *)
      let a := asks s i in
      match rp a, a_ctx a with
      | RDone, Some c =>
          set_rp (push_ctx (set_ctx s c (mkCtx (closed (ctxs s c)) None)) c) i RRecycled
      | _, _ => s
      end
  end.

Definition run (fx : bool) (s : state) (ls : list label) : state := fold_left (step fx) ls s.

(* the result of ask i once it has returned *)
Definition result (s : state) (i : nat) : option (option nat) :=
  match ap (asks s i) with ADone r => Some r | _ => None end.

Definition results (s : state) (n : nat) : list (option (option nat)) :=
  map (result s) (seq 0 n).
