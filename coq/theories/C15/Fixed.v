(* C15 — the repaired Ask path (fx = true) under EVERY interleaving of any number of Asks: an inductive
   invariant of the atomic-step model (ownership of pooled channels and contexts, the responseClosed
   protocol) and, from it: an Ask only ever returns its own reply, and never an error when the
   handler's Response had returned before the deadline. *)
From Coq Require Import List Arith Bool Lia.
Import ListNotations.
From GV Require Import C15.Model.

Lemma upd_eq A (f : nat -> A) k a : upd f k a k = a.
Proof. unfold upd. now rewrite Nat.eqb_refl. Qed.

Lemma upd_neq A (f : nat -> A) k a x : x <> k -> upd f k a x = f x.
Proof. unfold upd. intros H. apply Nat.eqb_neq in H. now rewrite H. Qed.

Lemma upd_upd A (f : nat -> A) i a b k : upd (upd f i a) i b k = upd f i b k.
Proof. unfold upd. destruct (Nat.eqb k i); reflexivity. Qed.

Definition ch_of (p : apc) : option nat :=
  match p with
  | AEnq _ ch | AWait _ ch | ATimePoll _ ch | AGotStore _ ch _ | AGotDrain _ ch _ | AGotPush _ ch _ => Some ch
  | _ => None
  end.

Definition ctx_of (p : apc) : option nat :=
  match p with
  | AEnq c _ | AWait c _ | ATimePoll c _ | AGotStore c _ _ | AGotDrain c _ _ | AGotPush c _ _ => Some c
  | _ => None
  end.

(* the asker may still read its channel *)
Definition reading (p : apc) : bool :=
  match p with AEnq _ _ | AWait _ _ | ATimePoll _ _ => true | _ => false end.

Definition got (p : apc) : option nat :=
  match p with AGotStore _ _ v | AGotDrain _ _ v | AGotPush _ _ v => Some v | ADone (Some v) => Some v | _ => None end.

(* phases the asker never enters: in the repaired shape the store/drain-on-timeout phases; in the
   shape that exists — on the executions considered, where no Ask gives up — the timeout phases *)
Definition bad_shape (fx : bool) (p : apc) : bool :=
  match p with
  | AGotStore _ _ _ => fx
  | ATimePoll _ _ | ADone None => negb fx
  | ATimeStore _ _ | ATimeDrain _ _ | ATimePush _ _ => true
  | _ => false
  end.

Definition early (p : apc) : bool := match p with ANew | ABuild _ => true | _ => false end.

(* ask a is responsible for channel ch: it may still read it, has taken its value and not yet pooled
   it again, or has given up on it (then nobody is ever handed it again) *)
Definition owns_a (a : ask) (ch : nat) : Prop :=
  ch_of (ap a) = Some ch \/ (ap a = ADone None /\ a_ch a = Some ch).

Definition cown_a (a : ask) (c : nat) : Prop :=
  ap a = ABuild c \/ (a_ctx a = Some c /\ rp a <> RRecycled).

Section Local.
  Variables (fx : bool) (s : state) (a : ask) (k : nat).

  Definition closed_a : bool := match a_ctx a with Some c => closed (ctxs s c) | None => false end.

  (* the handler will not send again *)
  Definition quiet_a : Prop :=
    match rp a with
    | RCall _ => closed_a = true
    | RDone | RRecycled => True
    | _ => False
    end.

  Record Local : Prop := mkLocal {
    l_shape : bad_shape fx (ap a) = false;
    l_rec : fx = false -> rp a = RRecycled -> exists r, ap a = ADone r;
    l_upool : forall ch, owns_a a ch -> ~ In ch (chpool s) /\ ch < nch s;
    l_xpool : forall c, cown_a a c -> ~ In c (ctxpool s) /\ c < nctx s;
    l_pc : (forall c, ctx_of (ap a) = Some c -> a_ctx a = Some c) /\
           (forall ch, ch_of (ap a) = Some ch -> a_ch a = Some ch);
    l_early : early (ap a) = true ->
              a_ctx a = None /\ a_ch a = None /\ rp a = RIdle /\ replied_in_time a = false;
    l_late : early (ap a) = false -> exists c ch, a_ctx a = Some c /\ a_ch a = Some ch;
    l_idle : rp a = RIdle <-> (early (ap a) = true \/ exists c ch, ap a = AEnq c ch);
    l_resp : forall c, a_ctx a = Some c -> rp a <> RRecycled -> cresp (ctxs s c) = a_ch a;
    l_first : (rp a = RIdle \/ rp a = RCall (nresp a)) -> closed_a = false;
    l_le : forall n, (rp a = RCall n -> n <= nresp a) /\ (rp a = RSend n -> n < nresp a);
    l_send : forall n, rp a = RSend n -> closed_a = true;
    l_took : forall v, got (ap a) = Some v -> v = k /\ quiet_a;
    l_tick : (ap a = ADone None \/ exists c ch, ap a = ATimePoll c ch) -> ticked a = true;
    l_flag : replied_in_time a = true ->
             match ap a with
             | AEnq _ ch | AWait _ ch | ATimePoll _ ch => chans s ch = Some k
             | ADone None => False
             | _ => True
             end
  }.
End Local.

Record Inv (fx : bool) (s : state) : Prop := mkInv {
  i_local : forall k, Local fx s (asks s k) k;
  i_uch : forall k j ch, owns_a (asks s k) ch -> owns_a (asks s j) ch -> k = j;
  i_xctx : forall k j c, cown_a (asks s k) c -> cown_a (asks s j) c -> k = j;
  i_pch : NoDup (chpool s) /\ forall ch, In ch (chpool s) -> ch < nch s;
  i_pctx : NoDup (ctxpool s) /\ forall c, In c (ctxpool s) -> c < nctx s;
  i_val : forall ch k, chans s ch = Some k ->
            a_ch (asks s k) = Some ch /\ quiet_a s (asks s k) /\
            (reading (ap (asks s k)) = true \/ ap (asks s k) = ADone None)
}.

Lemma inv_init fx nresps : Inv fx (init nresps).
Proof.
  constructor; cbn.
  - intros k. constructor; cbn; unfold owns_a, cown_a, closed_a, quiet_a; cbn.
    + reflexivity.
    + intros _ H; discriminate.
    + intros ch [H|[H _]]; discriminate.
    + intros c [H|[H _]]; discriminate.
    + split; intros; discriminate.
    + auto.
    + discriminate.
    + split; [intros _; now left|reflexivity].
    + intros; discriminate.
    + reflexivity.
    + intros n. split; discriminate.
    + intros; discriminate.
    + intros; discriminate.
    + intros [H|(c & ch & H)]; discriminate.
    + discriminate.
  - intros k j ch [H|[H _]]; discriminate.
  - intros k j c [H|[H _]]; discriminate.
  - split; [constructor|intros ? []].
  - split; [constructor|intros ? []].
  - intros; discriminate.
Qed.

(* a channel that holds a value is owned by the ask whose handler sent it *)
Lemma val_owner fx s ch k : Inv fx s -> chans s ch = Some k -> owns_a (asks s k) ch.
Proof.
  intros I H. destruct (i_val fx s I ch k H) as (A & _ & [R|D]).
  - left. pose proof (l_pc _ _ _ _ (i_local fx s I k)) as (_ & P).
    destruct (ap (asks s k)); cbn in *; try discriminate; rewrite (P _ eq_refl) in A; exact A.
  - right. auto.
Qed.

Lemma pool_ch_empty fx s ch : Inv fx s -> In ch (chpool s) -> chans s ch = None.
Proof.
  intros I Hin. destruct (chans s ch) as [k|] eqn:E; [|reflexivity].
  pose proof (val_owner fx s ch k I E) as O.
  destruct (l_upool _ _ _ _ (i_local fx s I k) ch O). contradiction.
Qed.

(* ------------------------------------------------------------------ the step framework *)

(* Ask i moves from [asks s i] to a'; contexts change at most at c0 and channels at most at ch0, both
   of which no other ask is responsible for; pools only lose elements or gain c0 / ch0. *)
Section Step.
  Variables (fx : bool) (s s' : state) (i : nat) (a' : ask) (c0 ch0 : nat).
  Hypothesis I : Inv fx s.
  Hypothesis Hasks : forall k, asks s' k = upd (asks s) i a' k.
  Hypothesis Hctx : forall c, c <> c0 -> ctxs s' c = ctxs s c.
  Hypothesis Hc0 : forall k, k <> i -> ~ cown_a (asks s k) c0.
  Hypothesis Hch : forall ch, ch <> ch0 -> chans s' ch = chans s ch.
  Hypothesis Hch0 : forall k, k <> i -> ~ owns_a (asks s k) ch0.
  Hypothesis Hchpool : forall ch, In ch (chpool s') -> In ch (chpool s) \/ ch = ch0.
  Hypothesis Hctxpool : forall c, In c (ctxpool s') -> In c (ctxpool s) \/ c = c0.
  Hypothesis Hnch : nch s <= nch s'.
  Hypothesis Hnctx : nctx s <= nctx s'.

  Lemma other_ask k : k <> i -> asks s' k = asks s k.
  Proof. intros. rewrite Hasks. now apply upd_neq. Qed.

  Lemma other_closed k : k <> i -> rp (asks s k) <> RRecycled -> closed_a s' (asks s k) = closed_a s (asks s k).
  Proof.
    intros Hne Hr. unfold closed_a. destruct (a_ctx (asks s k)) as [c|] eqn:E; [|reflexivity].
    rewrite Hctx; [reflexivity|]. intros ->. apply (Hc0 k Hne). right. auto.
  Qed.

  Lemma other_quiet k : k <> i -> quiet_a s (asks s k) -> quiet_a s' (asks s k).
  Proof.
    intros Hne. unfold quiet_a. destruct (rp (asks s k)) eqn:E; auto.
    rewrite other_closed; auto. congruence.
  Qed.

  Lemma other_local k : k <> i -> Local fx s' (asks s k) k.
  Proof.
    intros Hne. pose proof (i_local fx s I k) as L. destruct L.
    constructor; auto.
    - intros ch O. destruct (l_upool0 ch O) as (A & B). split; [|lia].
      intros H. destruct (Hchpool ch H) as [H'| ->]; [contradiction|]. now apply (Hch0 k Hne).
    - intros c O. destruct (l_xpool0 c O) as (A & B). split; [|lia].
      intros H. destruct (Hctxpool c H) as [H'| ->]; [contradiction|]. now apply (Hc0 k Hne).
    - intros c E Hr. rewrite Hctx; auto. intros ->. apply (Hc0 k Hne). right; auto.
    - intros H. rewrite other_closed; [now apply l_first0|exact Hne|destruct H as [H|H]; rewrite H; discriminate].
    - intros n H. rewrite other_closed; [now apply (l_send0 n)|exact Hne|rewrite H; discriminate].
    - intros v H. destruct (l_took0 v H). split; auto. now apply other_quiet.
    - intros H. specialize (l_flag0 H).
      destruct (ap (asks s k)) eqn:E; auto;
        (rewrite Hch; [exact l_flag0|]; intros ->; apply (Hch0 k Hne); left; rewrite E; reflexivity).
  Qed.

  (* what remains to be shown for the ask that moved, the resources it touched, and the values *)
  Hypothesis Hlocal : Local fx s' a' i.
  Hypothesis Howns : forall ch, owns_a a' ch -> owns_a (asks s i) ch \/ (forall k, k <> i -> ~ owns_a (asks s k) ch).
  Hypothesis Hcown : forall c, cown_a a' c -> cown_a (asks s i) c \/ (forall k, k <> i -> ~ cown_a (asks s k) c).
  Hypothesis Hpch : NoDup (chpool s') /\ forall ch, In ch (chpool s') -> ch < nch s'.
  Hypothesis Hpctx : NoDup (ctxpool s') /\ forall c, In c (ctxpool s') -> c < nctx s'.
  Hypothesis Hval0 : forall k, chans s' ch0 = Some k ->
     a_ch (asks s' k) = Some ch0 /\ quiet_a s' (asks s' k) /\
     (reading (ap (asks s' k)) = true \/ ap (asks s' k) = ADone None).
  Hypothesis Hvali : forall ch, ch <> ch0 -> chans s ch = Some i ->
     a_ch a' = Some ch /\ quiet_a s' a' /\ (reading (ap a') = true \/ ap a' = ADone None).

  Lemma inv_step_frame : Inv fx s'.
  Proof.
    constructor.
    - intros k. rewrite Hasks. destruct (Nat.eq_dec k i) as [->|Hne].
      + now rewrite upd_eq.
      + rewrite upd_neq by auto. now apply other_local.
    - intros k j ch. rewrite !Hasks.
      destruct (Nat.eq_dec k i) as [->|Hk], (Nat.eq_dec j i) as [->|Hj]; rewrite ?upd_eq, ?upd_neq by auto; auto.
      + intros A B. destruct (Howns ch A) as [A'|A']; [apply (i_uch fx s I i j ch A' B)|destruct (A' j Hj B)].
      + intros A B. destruct (Howns ch B) as [B'|B']; [apply (i_uch fx s I k i ch A B')|destruct (B' k Hk A)].
      + apply (i_uch fx s I).
    - intros k j c. rewrite !Hasks.
      destruct (Nat.eq_dec k i) as [->|Hk], (Nat.eq_dec j i) as [->|Hj]; rewrite ?upd_eq, ?upd_neq by auto; auto.
      + intros A B. destruct (Hcown c A) as [A'|A']; [apply (i_xctx fx s I i j c A' B)|destruct (A' j Hj B)].
      + intros A B. destruct (Hcown c B) as [B'|B']; [apply (i_xctx fx s I k i c A B')|destruct (B' k Hk A)].
      + apply (i_xctx fx s I).
    - exact Hpch.
    - exact Hpctx.
    - intros ch k H. destruct (Nat.eq_dec ch ch0) as [->|Hne]; [now apply Hval0|].
      rewrite Hch in H by auto. rewrite Hasks. destruct (Nat.eq_dec k i) as [->|Hk].
      + rewrite upd_eq. now apply Hvali.
      + rewrite upd_neq by auto. destruct (i_val fx s I ch k H) as (A & B & C). repeat split; auto.
        now apply other_quiet.
  Qed.
End Step.

(* ------------------------------------------------------------------ helpers *)

Lemma fresh_ctx_unowned fx s k : Inv fx s -> ~ cown_a (asks s k) (nctx s).
Proof. intros I H. destruct (l_xpool _ _ _ _ (i_local fx s I k) _ H). lia. Qed.

Lemma fresh_ch_unowned fx s k : Inv fx s -> ~ owns_a (asks s k) (nch s).
Proof. intros I H. destruct (l_upool _ _ _ _ (i_local fx s I k) _ H). lia. Qed.

Lemma pooled_ctx_unowned fx s k c : Inv fx s -> In c (ctxpool s) -> ~ cown_a (asks s k) c.
Proof. intros I Hin H. destruct (l_xpool _ _ _ _ (i_local fx s I k) _ H). contradiction. Qed.

Lemma pooled_ch_unowned fx s k ch : Inv fx s -> In ch (chpool s) -> ~ owns_a (asks s k) ch.
Proof. intros I Hin H. destruct (l_upool _ _ _ _ (i_local fx s I k) _ H). contradiction. Qed.

Lemma fresh_ch_empty fx s : Inv fx s -> chans s (nch s) = None.
Proof.
  intros I. destruct (chans s (nch s)) as [k|] eqn:E; [|reflexivity].
  exfalso. apply (fresh_ch_unowned fx s k I). now apply (val_owner fx).
Qed.

Lemma remove_nth_In A (l : list A) k x : In x (remove_nth k l) -> In x l.
Proof.
  revert k. induction l as [|a l IH]; intros k H; cbn in *; [destruct k; destruct H|].
  destruct k; cbn in *; [now right|]. destruct H as [->|H]; [now left|right; eauto].
Qed.

Lemma remove_nth_NoDup A (l : list A) k : NoDup l -> NoDup (remove_nth k l).
Proof.
  revert k. induction l as [|a l IH]; intros k H; cbn; [destruct k; constructor|].
  inversion H; subst. destruct k; cbn; auto. constructor; auto.
  intros Hin. apply remove_nth_In in Hin. contradiction.
Qed.

Lemma remove_nth_notin A (l : list A) k x : NoDup l -> nth_error l k = Some x -> ~ In x (remove_nth k l).
Proof.
  revert k. induction l as [|a l IH]; intros k Hnd H; [destruct k; discriminate|].
  inversion Hnd; subst. destruct k; cbn in *.
  - inversion H; subst. assumption.
  - intros [->|Hin]; [apply H2; eapply nth_error_In; eauto|]. eapply IH; eauto.
Qed.

Lemma take_spec pool fresh o x pool' fresh' :
  NoDup pool -> (forall y, In y pool -> y < fresh) -> take pool fresh o = (x, pool', fresh') ->
  fresh <= fresh' /\ x < fresh' /\ ~ In x pool' /\ NoDup pool' /\ (forall y, In y pool' -> In y pool /\ y < fresh') /\
  ((x = fresh /\ pool' = pool) \/ In x pool).
Proof.
  intros Hnd Hlt. unfold take. destruct o as [k|].
  - destruct (nth_error pool k) as [y|] eqn:E; intros H; inversion H; subst.
    + pose proof (nth_error_In _ _ E) as Hin. repeat split; auto.
      * apply remove_nth_notin; auto.
      * now apply remove_nth_NoDup.
      * eapply remove_nth_In; eauto.
      * apply Hlt. eapply remove_nth_In; eauto.
    + repeat split; auto; try lia.
      * intros Hin. apply Hlt in Hin. lia.
      * apply Hlt in H0. lia.
  - intros H; inversion H; subst. repeat split; auto; try lia.
    + intros Hin. apply Hlt in Hin. lia.
    + apply Hlt in H0. lia.
Qed.

(* ------------------------------------------------------------------ the steps of the asker *)

Ltac inv_ask I i Hap :=
  pose proof (i_local _ _ I i) as L; destruct L as [Ls Lrec Lu Lx [Lpc1 Lpc2] Le Ll Li Lr Lf Lle Lsd Lt Lk Lfl];
  rewrite ?Hap in *; cbn in *.

Lemma step_new fx fx' s i o sl : Inv fx s -> ap (asks s i) = ANew -> Inv fx (step fx' s (LAsker i o sl)).
Proof.
  intros I Hap. cbn. rewrite Hap.
  destruct (take (ctxpool s) (nctx s) o) as [[c pool'] n'] eqn:T.
  pose proof (take_spec (ctxpool s) (nctx s) o c pool' n' (proj1 (i_pctx fx s I)) (proj2 (i_pctx fx s I)) T) as (T1 & T2 & T3 & T4 & T5 & T6).
  inv_ask I i Hap. destruct (Le eq_refl) as (E1 & E2 & E3 & E4).
  assert (Hun : forall k, k <> i -> ~ cown_a (asks s k) c).
  { intros k _. destruct T6 as [(-> & _)|Hin]; [now apply (fresh_ctx_unowned fx)|now apply (pooled_ctx_unowned fx)]. }
  eapply inv_step_frame with (i := i) (c0 := c) (ch0 := nch s); try exact I; cbn; try reflexivity; auto.
  - intros k _. now apply (fresh_ch_unowned fx).
  - intros c' H. left. now apply T5.
  - constructor; cbn; unfold owns_a, cown_a, closed_a, quiet_a; cbn; rewrite ?E1, ?E2, ?E3, ?E4.
    + reflexivity.
    + intros _ H; discriminate.
    + intros ch [H|[H _]]; discriminate.
    + intros c' [H|[H _]]; [inversion H; subst; auto|discriminate].
    + split; intros; discriminate.
    + auto.
    + discriminate.
    + split; auto.
    + intros; discriminate.
    + reflexivity.
    + intros n. split; discriminate.
    + intros; discriminate.
    + intros; discriminate.
    + intros [H|(c' & ch & H)]; discriminate.
    + discriminate.
  - intros ch [H|[H _]]; discriminate.
  - intros c' [H|[H H']]; [inversion H; subst; right; exact Hun|]. cbn in H. rewrite E1 in H. discriminate.
  - apply (i_pch fx s I).
  - split; auto. intros c' H. now apply T5.
  - intros k H. rewrite (fresh_ch_empty fx s I) in H. discriminate.
  - intros ch _ H. destruct (i_val fx s I ch i H) as (A & _). congruence.
Qed.

Lemma step_build fx fx' s i o sl c : Inv fx s -> ap (asks s i) = ABuild c -> Inv fx (step fx' s (LAsker i o sl)).
Proof.
  intros I Hap. cbn. rewrite Hap.
  destruct (take (chpool s) (nch s) o) as [[ch pool'] n'] eqn:T.
  pose proof (take_spec (chpool s) (nch s) o ch pool' n' (proj1 (i_pch fx s I)) (proj2 (i_pch fx s I)) T) as (T1 & T2 & T3 & T4 & T5 & T6).
  inv_ask I i Hap. destruct (Le eq_refl) as (E1 & E2 & E3 & E4).
  assert (Hun : forall k, k <> i -> ~ owns_a (asks s k) ch).
  { intros k _. destruct T6 as [(-> & _)|Hin]; [now apply (fresh_ch_unowned fx)|now apply (pooled_ch_unowned fx)]. }
  assert (Hemp : chans s ch = None).
  { destruct T6 as [(-> & _)|Hin]; [now apply (fresh_ch_empty fx)|now apply (pool_ch_empty fx)]. }
  assert (Hci : cown_a (asks s i) c) by (left; exact Hap).
  eapply inv_step_frame with (i := i) (c0 := c) (ch0 := ch); try exact I; cbn; try reflexivity; auto.
  - intros c' Hne. now rewrite upd_neq.
  - intros k Hne H. apply Hne. apply (i_xctx fx s I k i c H Hci).
  - intros ch' H. left. now apply T5.
  - constructor; cbn; unfold owns_a, cown_a, closed_a, quiet_a; cbn; rewrite ?upd_eq; cbn; rewrite ?E3, ?E4.
    + reflexivity.
    + intros _ H; discriminate.
    + intros ch' [H|[H _]]; [inversion H; subst; auto|discriminate].
    + intros c' [H|[H _]]; [discriminate|inversion H; subst; apply Lx; exact Hci].
    + split; intros ? H; inversion H; reflexivity.
    + discriminate.
    + intros _. eauto.
    + split; [intros _; right; eauto|reflexivity].
    + intros c' H _. inversion H; subst. now rewrite upd_eq.
    + reflexivity.
    + intros n. split; discriminate.
    + intros; discriminate.
    + intros; discriminate.
    + intros [H|(c' & ch' & H)]; discriminate.
    + discriminate.
  - intros ch' [H|[H _]]; [inversion H; subst; right; exact Hun|discriminate].
  - intros c' [H|[H _]]; [discriminate|inversion H; subst; left; exact Hci].
  - split; auto. intros ch' H. now apply T5.
  - apply (i_pctx fx s I).
  - intros k H. rewrite Hemp in H. discriminate.
  - intros ch' _ H. destruct (i_val fx s I ch' i H) as (A & _). rewrite E2 in A. discriminate.
Qed.

Lemma step_enq fx fx' s i o sl c ch : Inv fx s -> ap (asks s i) = AEnq c ch -> Inv fx (step fx' s (LAsker i o sl)).
Proof.
  intros I Hap. cbn. rewrite Hap.
  inv_ask I i Hap.
  assert (Hidle : rp (asks s i) = RIdle) by (apply Li; right; eauto).
  pose proof (Lpc1 c eq_refl) as Ec. pose proof (Lpc2 ch eq_refl) as Ech.
  eapply inv_step_frame with (i := i) (c0 := nctx s) (ch0 := nch s); try exact I; cbn; try reflexivity; auto.
  - intros k. apply upd_upd.
  - intros k _. now apply (fresh_ctx_unowned fx).
  - intros k _. now apply (fresh_ch_unowned fx).
  - rewrite !upd_eq. cbn.
    constructor; cbn; unfold owns_a, cown_a, closed_a, quiet_a in *; cbn in *; rewrite ?Hap in *; cbn in *.
    + reflexivity.
    + intros _ H; discriminate.
    + intros ch' [H|[H _]]; [apply Lu; left; exact H|discriminate].
    + intros c' [H|[H H']]; [discriminate|]. apply Lx. right. split; auto. rewrite Hidle. discriminate.
    + split; intros ? H; inversion H; subst; auto.
    + discriminate.
    + intros _. eauto.
    + split; [discriminate|intros [H|(c' & ch' & H)]; discriminate].
    + intros c' H _. apply Lr; auto. rewrite Hidle. discriminate.
    + intros _. apply Lf. now left.
    + intros n. split; [intros H; inversion H; lia|discriminate].
    + intros; discriminate.
    + intros; discriminate.
    + intros [H|(c' & ch' & H)]; discriminate.
    + exact Lfl.
  - rewrite !upd_eq. cbn. unfold owns_a. cbn. rewrite Hap. intros ch' [H|[H _]]; [left; left; exact H|discriminate].
  - rewrite !upd_eq. cbn. unfold cown_a. cbn. intros c' [H|[H _]]; [discriminate|].
    left. right. split; auto. rewrite Hidle. discriminate.
  - apply (i_pch fx s I).
  - apply (i_pctx fx s I).
  - intros k H. rewrite (fresh_ch_empty fx s I) in H. discriminate.
  - rewrite !upd_eq. cbn. intros ch' _ H. destruct (i_val fx s I ch' i H) as (A & B & C).
    unfold quiet_a in B. rewrite Hidle in B. destruct B.
Qed.

(* the asker takes the value out of its channel (select's reply branch, or the poll after the deadline) *)
Lemma step_take fx s i c ch v p :
  Inv fx s -> (ap (asks s i) = AWait c ch \/ ap (asks s i) = ATimePoll c ch) -> chans s ch = Some v ->
  (p = AGotDrain c ch v \/ p = AGotStore c ch v) -> bad_shape fx p = false ->
  Inv fx (set_ap (set_chan s ch None) i p).
Proof.
  intros I Hap Hv Hp Hps.
  assert (Hp1 : ch_of p = Some ch) by (destruct Hp as [-> | ->]; reflexivity).
  assert (Hp2 : ctx_of p = Some c) by (destruct Hp as [-> | ->]; reflexivity).
  assert (Hp3 : got p = Some v) by (destruct Hp as [-> | ->]; reflexivity).
  assert (Hp4 : early p = false) by (destruct Hp as [-> | ->]; reflexivity).
  assert (Hp5 : forall r, p <> ADone r) by (destruct Hp as [-> | ->]; discriminate).
  assert (Hp6 : forall c' ch', p <> AEnq c' ch' /\ p <> ATimePoll c' ch' /\ p <> ABuild c') by (destruct Hp as [-> | ->]; repeat split; discriminate).
  assert (Hoi : owns_a (asks s i) ch) by (left; destruct Hap as [-> | ->]; reflexivity).
  assert (v = i) by (apply (i_uch fx s I v i ch); [now apply (val_owner fx)|exact Hoi]). subst v.
  destruct (i_val fx s I ch i Hv) as (Va & Vq & _).
  pose proof (i_local fx s I i) as L. destruct L as [Ls Lrec Lu Lx [Lpc1 Lpc2] Le Ll Li Lr Lf Lle Lsd Lt Lk Lfl].
  assert (Hearly : early (ap (asks s i)) = false) by (destruct Hap as [-> | ->]; reflexivity).
  assert (Hc : a_ctx (asks s i) = Some c) by (apply Lpc1; destruct Hap as [-> | ->]; reflexivity).
  assert (Hnidle : rp (asks s i) <> RIdle).
  { intros H. apply Li in H. destruct H as [H|(c' & ch' & H)]; [congruence|]. destruct Hap as [E|E]; rewrite E in H; discriminate. }
  eapply inv_step_frame with (i := i) (c0 := nctx s) (ch0 := ch); try exact I; cbn; try reflexivity; auto.
  - intros k _. now apply (fresh_ctx_unowned fx).
  - intros ch' Hne. now rewrite upd_neq.
  - intros k Hne H. apply Hne. apply (i_uch fx s I k i ch H Hoi).
  - constructor; cbn; unfold owns_a, cown_a, closed_a, quiet_a in *; cbn in *.
    + exact Hps.
    + intros Hfx H. destruct (Lrec Hfx H) as (r & E). destruct Hap as [X|X]; rewrite X in E; discriminate.
    + intros ch' [H|[H _]]; [rewrite Hp1 in H; inversion H; subst; apply Lu; exact Hoi|destruct (Hp5 _ H)].
    + intros c' [H|H]; [destruct (Hp6 c' 0) as (_ & _ & X); destruct (X H)|]. apply Lx. now right.
    + split; intros ? H; [rewrite Hp2 in H|rewrite Hp1 in H]; inversion H; subst; auto.
    + rewrite Hp4. discriminate.
    + intros _. now apply Ll.
    + split; [intros H; contradiction|intros [H|(c' & ch' & H)]; [congruence|destruct (Hp6 c' ch') as (X & _); destruct (X H)]].
    + exact Lr.
    + exact Lf.
    + exact Lle.
    + exact Lsd.
    + intros v H. rewrite Hp3 in H. inversion H; subst. split; auto.
    + intros [H|(c' & ch' & H)]; [destruct (Hp5 _ H)|destruct (Hp6 c' ch') as (_ & X & _); destruct (X H)].
    + intros _. destruct Hp as [-> | ->]; exact Logic.I.
  - unfold owns_a. cbn. intros ch' [H|[H _]]; [rewrite Hp1 in H; inversion H; subst; left; exact Hoi|destruct (Hp5 _ H)].
  - unfold cown_a. cbn. intros c' [H|H]; [destruct (Hp6 c' 0) as (_ & _ & X); destruct (X H)|]. left. now right.
  - apply (i_pch fx s I).
  - apply (i_pctx fx s I).
  - intros k. rewrite upd_eq. discriminate.
  - intros ch' Hne H. exfalso. apply Hne.
    pose proof (val_owner fx s ch' i I H) as O. destruct O as [O|[O _]]; destruct Hap as [E|E]; rewrite E in O; cbn in O; congruence.
Qed.

Lemma step_wait_timer fx s i c ch :
  fx = true ->
  Inv fx s -> ap (asks s i) = AWait c ch -> ticked (asks s i) = true -> Inv fx (set_ap s i (ATimePoll c ch)).
Proof.
  intros Hfx I Hap Htick.
  pose proof (i_local fx s I i) as L. destruct L as [Ls Lrec Lu Lx [Lpc1 Lpc2] Le Ll Li Lr Lf Lle Lsd Lt Lk Lfl].
  rewrite Hap in *. cbn in *.
  assert (Hoi : owns_a (asks s i) ch) by (left; rewrite Hap; reflexivity).
  eapply inv_step_frame with (i := i) (c0 := nctx s) (ch0 := nch s); try exact I; cbn; try reflexivity; auto.
  - intros k _. now apply (fresh_ctx_unowned fx).
  - intros k _. now apply (fresh_ch_unowned fx).
  - constructor; cbn; unfold owns_a, cown_a, closed_a, quiet_a in *; cbn in *; rewrite ?Hap in *; cbn in *.
    + now rewrite Hfx.
    + intros H; congruence.
    + intros ch' [H|[H _]]; [apply Lu; now left|discriminate].
    + intros c' [H|H]; [discriminate|]. apply Lx. now right.
    + split; intros ? H; inversion H; subst; auto.
    + discriminate.
    + exact Ll.
    + split; [intros H; apply Li in H; destruct H as [H|(c' & ch' & H)]; discriminate|intros [H|(c' & ch' & H)]; discriminate].
    + exact Lr.
    + exact Lf.
    + exact Lle.
    + exact Lsd.
    + intros; discriminate.
    + intros _. exact Htick.
    + exact Lfl.
  - unfold owns_a. cbn. rewrite Hap. intros ch' [H|[H _]]; [left; left; exact H|discriminate].
  - unfold cown_a. cbn. rewrite Hap. intros c' [H|H]; [discriminate|]. left. now right.
  - apply (i_pch fx s I).
  - apply (i_pctx fx s I).
  - intros k H. rewrite (fresh_ch_empty fx s I) in H. discriminate.
  - intros ch' _ H. destruct (i_val fx s I ch' i H) as (A & B & C). rewrite Hap in C. cbn in C. repeat split; auto.
Qed.

(* the poll after the deadline finds nothing: the Ask fails and the channel is abandoned *)
Lemma step_poll_none fx s i c ch :
  Inv fx s -> ap (asks s i) = ATimePoll c ch -> chans s ch = None -> Inv fx (set_ap s i (ADone None)).
Proof.
  intros I Hap Hv.
  pose proof (i_local fx s I i) as L. destruct L as [Ls Lrec Lu Lx [Lpc1 Lpc2] Le Ll Li Lr Lf Lle Lsd Lt Lk Lfl].
  rewrite Hap in *. cbn in *.
  assert (Hoi : owns_a (asks s i) ch) by (left; rewrite Hap; reflexivity).
  pose proof (Lpc2 ch eq_refl) as Ech.
  eapply inv_step_frame with (i := i) (c0 := nctx s) (ch0 := nch s); try exact I; cbn; try reflexivity; auto.
  - intros k _. now apply (fresh_ctx_unowned fx).
  - intros k _. now apply (fresh_ch_unowned fx).
  - constructor; cbn; unfold owns_a, cown_a, closed_a, quiet_a in *; cbn in *; rewrite ?Hap in *; cbn in *.
    + exact Ls.
    + intros _ _. eauto.
    + intros ch' [H|[_ H]]; [discriminate|]. apply Lu. left. congruence.
    + intros c' [H|H]; [discriminate|]. apply Lx. now right.
    + split; intros; discriminate.
    + discriminate.
    + exact Ll.
    + split; [intros H; apply Li in H; destruct H as [H|(c' & ch' & H)]; discriminate|intros [H|(c' & ch' & H)]; discriminate].
    + exact Lr.
    + exact Lf.
    + exact Lle.
    + exact Lsd.
    + intros; discriminate.
    + intros _. apply Lk. right. eauto.
    + intros H. apply Lfl in H. congruence.
  - unfold owns_a. cbn. rewrite Hap. intros ch' [H|[_ H]]; [discriminate|]. left. left. cbn. congruence.
  - unfold cown_a. cbn. rewrite Hap. intros c' [H|H]; [discriminate|]. left. now right.
  - apply (i_pch fx s I).
  - apply (i_pctx fx s I).
  - intros k H. rewrite (fresh_ch_empty fx s I) in H. discriminate.
  - intros ch' _ H. destruct (i_val fx s I ch' i H) as (A & B & C). repeat split; auto.
Qed.

Lemma NoDup_snoc A (l : list A) x : NoDup l -> ~ In x l -> NoDup (l ++ [x]).
Proof.
  induction l as [|a l IH]; intros Hnd Hx; cbn.
  - constructor; [intros []|constructor].
  - inversion Hnd; subst. constructor.
    + rewrite in_app_iff. cbn. intros [H|[H|[]]]; [auto|subst; apply Hx; now left].
    + apply IH; auto. intros H; apply Hx; now right.
Qed.

Lemma step_drain fx s i c ch v :
  Inv fx s -> ap (asks s i) = AGotDrain c ch v -> Inv fx (set_ap (set_chan s ch None) i (AGotPush c ch v)).
Proof.
  intros I Hap.
  pose proof (i_local fx s I i) as L. destruct L as [Ls Lrec Lu Lx [Lpc1 Lpc2] Le Ll Li Lr Lf Lle Lsd Lt Lk Lfl].
  rewrite Hap in *. cbn in *.
  assert (Hoi : owns_a (asks s i) ch) by (left; rewrite Hap; reflexivity).
  eapply inv_step_frame with (i := i) (c0 := nctx s) (ch0 := ch); try exact I; cbn; try reflexivity; auto.
  - intros k _. now apply (fresh_ctx_unowned fx).
  - intros ch' Hne. now rewrite upd_neq.
  - intros k Hne H. apply Hne. apply (i_uch fx s I k i ch H Hoi).
  - constructor; cbn; unfold owns_a, cown_a, closed_a, quiet_a in *; cbn in *; rewrite ?Hap in *; cbn in *.
    + reflexivity.
    + intros Hfx H. destruct (Lrec Hfx H) as (r & E). discriminate.
    + intros ch' [H|[H _]]; [apply Lu; now left|discriminate].
    + intros c' [H|H]; [discriminate|]. apply Lx. now right.
    + split; intros ? H; inversion H; subst; auto.
    + discriminate.
    + exact Ll.
    + split; [intros H; apply Li in H; destruct H as [H|(c' & ch' & H)]; discriminate|intros [H|(c' & ch' & H)]; discriminate].
    + exact Lr.
    + exact Lf.
    + exact Lle.
    + exact Lsd.
    + exact Lt.
    + intros [H|(c' & ch' & H)]; discriminate.
    + auto.
  - unfold owns_a. cbn. rewrite Hap. intros ch' [H|[H _]]; [left; left; exact H|discriminate].
  - unfold cown_a. cbn. rewrite Hap. intros c' [H|H]; [discriminate|]. left. now right.
  - apply (i_pch fx s I).
  - apply (i_pctx fx s I).
  - intros k. rewrite upd_eq. discriminate.
  - intros ch' _ H. destruct (i_val fx s I ch' i H) as (A & B & C). rewrite Hap in C. cbn in C. destruct C; discriminate.
Qed.

Lemma step_push fx s i c ch v :
  Inv fx s -> ap (asks s i) = AGotPush c ch v -> Inv fx (set_ap (push_ch s ch) i (ADone (Some v))).
Proof.
  intros I Hap.
  pose proof (i_local fx s I i) as L. destruct L as [Ls Lrec Lu Lx [Lpc1 Lpc2] Le Ll Li Lr Lf Lle Lsd Lt Lk Lfl].
  rewrite Hap in *. cbn in *.
  assert (Hoi : owns_a (asks s i) ch) by (left; rewrite Hap; reflexivity).
  destruct (Lu ch Hoi) as (Hnp & Hlt).
  eapply inv_step_frame with (i := i) (c0 := nctx s) (ch0 := ch); try exact I; cbn; try reflexivity; auto.
  - intros k _. now apply (fresh_ctx_unowned fx).
  - intros k Hne H. apply Hne. apply (i_uch fx s I k i ch H Hoi).
  - intros ch' H. apply in_app_or in H. destruct H as [H|[H|[]]]; auto.
  - constructor; cbn; unfold owns_a, cown_a, closed_a, quiet_a in *; cbn in *; rewrite ?Hap in *; cbn in *.
    + reflexivity.
    + intros _ _. eauto.
    + intros ch' [H|[H _]]; discriminate.
    + intros c' [H|H]; [discriminate|]. apply Lx. now right.
    + split; intros; discriminate.
    + discriminate.
    + exact Ll.
    + split; [intros H; apply Li in H; destruct H as [H|(c' & ch' & H)]; discriminate|intros [H|(c' & ch' & H)]; discriminate].
    + exact Lr.
    + exact Lf.
    + exact Lle.
    + exact Lsd.
    + exact Lt.
    + intros [H|(c' & ch' & H)]; discriminate.
    + auto.
  - unfold owns_a. cbn. intros ch' [H|[H _]]; discriminate.
  - unfold cown_a. cbn. rewrite Hap. intros c' [H|H]; [discriminate|]. left. now right.
  - split.
    + apply NoDup_snoc; [apply (i_pch fx s I)|exact Hnp].
    + intros ch' H. apply in_app_or in H. destruct H as [H|[<-|[]]]; [now apply (i_pch fx s I)|exact Hlt].
  - apply (i_pctx fx s I).
  - intros k H. exfalso. pose proof (val_owner fx s ch k I H) as O.
    assert (k = i) by (apply (i_uch fx s I k i ch O Hoi)). subst k.
    destruct (i_val fx s I ch i H) as (_ & _ & C). rewrite Hap in C. destruct C; discriminate.
  - intros ch' _ H. destruct (i_val fx s I ch' i H) as (A & B & C). rewrite Hap in C. cbn in C. destruct C; discriminate.
Qed.

(* ------------------------------------------------------------------ the steps of the handler *)

(* a generic lemma for steps that only change the handler phase / flags of ask i *)
Lemma step_ask_only fx s i a' :
  Inv fx s ->
  let a := asks s i in
  ap a' = ap a -> a_ctx a' = a_ctx a -> a_ch a' = a_ch a -> nresp a' = nresp a ->
  (ticked a = true -> ticked a' = true) ->
  (rp a' = RIdle <-> rp a = RIdle) -> (rp a' <> RRecycled <-> rp a <> RRecycled) -> (rp a' = RRecycled -> rp a = RRecycled) ->
  ((rp a' = RIdle \/ rp a' = RCall (nresp a)) -> closed_a s a = false) ->
  (forall n, (rp a' = RCall n -> n <= nresp a) /\ (rp a' = RSend n -> n < nresp a)) ->
  (forall n, rp a' = RSend n -> closed_a s a = true) ->
  (quiet_a s a -> quiet_a s a') ->
  (replied_in_time a' = true -> replied_in_time a = true) ->
  Inv fx (set_ask s i a').
Proof.
  intros I a Eap Ectx Ech Enr Htk Hidle Hrec Hrec2 Hfirst Hle Hsend Hq Hfl.
  pose proof (i_local fx s I i) as L. destruct L as [Ls Lrec Lu Lx [Lpc1 Lpc2] Le Ll Li Lr Lf Lle Lsd Lt Lk Lfl].
  fold a in Ls, Lrec, Lu, Lx, Lpc1, Lpc2, Le, Ll, Li, Lr, Lf, Lle, Lsd, Lt, Lk, Lfl.
  assert (Hcl : closed_a s a' = closed_a s a) by (unfold closed_a; now rewrite Ectx).
  eapply inv_step_frame with (i := i) (c0 := nctx s) (ch0 := nch s); try exact I; cbn; try reflexivity; auto.
  - intros k _. now apply (fresh_ctx_unowned fx).
  - intros k _. now apply (fresh_ch_unowned fx).
  - constructor; unfold owns_a, cown_a in *; rewrite ?Eap, ?Ectx, ?Ech, ?Enr, ?Hcl in *.
    + exact Ls.
    + intros Hfx H. apply Lrec; auto.
    + exact Lu.
    + intros c' [H|[H H']]; apply Lx; [now left|right; split; auto; now apply Hrec].
    + split; assumption.
    + intros H. destruct (Le H) as (A & B & C & D). repeat split; auto.
      * now apply Hidle.
      * destruct (replied_in_time a') eqn:E; auto. rewrite (Hfl eq_refl) in D. discriminate.
    + exact Ll.
    + rewrite Hidle. exact Li.
    + intros c' H H'. apply Lr; auto. now apply Hrec.
    + intros H. change (closed_a s a' = false). rewrite Hcl. now apply Hfirst.
    + exact Hle.
    + intros n H. change (closed_a s a' = true). rewrite Hcl. now apply (Hsend n).
    + intros v H. destruct (Lt v H). split; auto.
    + intros H. apply Htk. now apply Lk.
    + intros H. apply Lfl. now apply Hfl.
  - unfold owns_a. rewrite Eap, Ech. auto.
  - unfold cown_a. rewrite Eap, Ectx. intros c' [H|[H H']]; left; [now left|right; split; auto; now apply Hrec].
  - apply (i_pch fx s I).
  - apply (i_pctx fx s I).
  - intros k H. rewrite (fresh_ch_empty fx s I) in H. discriminate.
  - intros ch' _ H. destruct (i_val fx s I ch' i H) as (A & B & C). fold a in A, B, C.
    rewrite Ech, Eap. repeat split; auto.
Qed.

(* Response wins the responseClosed CAS *)
Lemma step_cas fx s i n c :
  Inv fx s -> rp (asks s i) = RCall (S n) -> a_ctx (asks s i) = Some c -> closed (ctxs s c) = false ->
  Inv fx (set_rp (set_closed s c true) i (RSend n)).
Proof.
  intros I Hrp Hc Hcl.
  pose proof (i_local fx s I i) as L. destruct L as [Ls Lrec Lu Lx [Lpc1 Lpc2] Le Ll Li Lr Lf Lle Lsd Lt Lk Lfl].
  assert (Hci : cown_a (asks s i) c) by (right; split; auto; rewrite Hrp; discriminate).
  assert (Hnq : ~ quiet_a s (asks s i)).
  { unfold quiet_a, closed_a. rewrite Hrp, Hc, Hcl. discriminate. }
  eapply inv_step_frame with (i := i) (c0 := c) (ch0 := nch s); try exact I; cbn; try reflexivity; auto.
  - intros c' Hne. now rewrite upd_neq.
  - intros k Hne H. apply Hne. apply (i_xctx fx s I k i c H Hci).
  - intros k _. now apply (fresh_ch_unowned fx).
  - constructor; cbn; unfold closed_a; cbn; rewrite ?Hc.
    + exact Ls.
    + intros _ H; discriminate.
    + exact Lu.
    + intros c' [H|[H _]]; apply Lx; [left; exact H|right; split; [cbn in H; congruence|rewrite Hrp; discriminate]].
    + split; [intros c' H; rewrite <- Hc; now apply Lpc1|exact Lpc2].
    + intros H. destruct (Le H) as (_ & _ & H' & _). congruence.
    + intros H. destruct (Ll H) as (c' & ch' & A & B). exists c, ch'. split; auto.
    + split; [discriminate|]. intros H. apply Li in H. congruence.
    + intros c' H _. inversion H; subst c'. rewrite upd_eq. cbn. apply Lr; auto. rewrite Hrp; discriminate.
    + intros [H|H]; discriminate.
    + intros m. split; [discriminate|]. intros H. inversion H; subst m. destruct (Lle (S n)) as (A & _). specialize (A Hrp). lia.
    + intros m _. now rewrite upd_eq.
    + intros v H. exfalso. apply Hnq. exact (proj2 (Lt v H)).
    + exact Lk.
    + exact Lfl.
  - unfold cown_a. cbn. intros c' [H|[H _]]; left; [now left|right; split; [congruence|rewrite Hrp; discriminate]].
  - apply (i_pch fx s I).
  - apply (i_pctx fx s I).
  - intros k H. rewrite (fresh_ch_empty fx s I) in H. discriminate.
  - intros ch' _ H. exfalso. apply Hnq. now destruct (i_val fx s I ch' i H) as (_ & B & _).
Qed.

(* facts about an ask whose handler is about to send *)
Lemma sending_facts fx s i n c :
  Inv fx s -> rp (asks s i) = RSend n -> a_ctx (asks s i) = Some c ->
  exists ch, a_ch (asks s i) = Some ch /\ cresp (ctxs s c) = Some ch /\ chans s ch = None /\
             owns_a (asks s i) ch /\
             (reading (ap (asks s i)) = true /\ ch_of (ap (asks s i)) = Some ch \/ ap (asks s i) = ADone None).
Proof.
  intros I Hrp Hc.
  pose proof (i_local fx s I i) as L. destruct L as [Ls Lrec Lu Lx [Lpc1 Lpc2] Le Ll Li Lr Lf Lle Lsd Lt Lk Lfl].
  assert (Hnq : ~ quiet_a s (asks s i)) by (unfold quiet_a; rewrite Hrp; auto).
  assert (Hearly : early (ap (asks s i)) = false).
  { destruct (early (ap (asks s i))) eqn:E; auto. destruct (Le eq_refl) as (_ & _ & H & _). congruence. }
  destruct (Ll Hearly) as (c' & ch & A & B). exists ch.
  assert (Hcr : cresp (ctxs s c) = Some ch) by (rewrite <- B; apply Lr; auto; rewrite Hrp; discriminate).
  assert (Hshape : reading (ap (asks s i)) = true /\ ch_of (ap (asks s i)) = Some ch \/ ap (asks s i) = ADone None).
  { destruct (ap (asks s i)) as [| | | | | | | | | | |[v|]] eqn:E; cbn in *; try discriminate; auto;
      try (left; split; auto; f_equal; specialize (Lpc2 _ eq_refl); congruence);
      try (exfalso; apply Hnq; exact (proj2 (Lt _ eq_refl))). }
  assert (Hown : owns_a (asks s i) ch).
  { destruct Hshape as [(_ & H)|H]; [now left|right; auto]. }
  repeat split; auto.
  destruct (chans s ch) as [k|] eqn:E; auto. exfalso.
  assert (k = i) by (apply (i_uch fx s I k i ch); [now apply (val_owner fx)|exact Hown]). subst k.
  apply Hnq. now destruct (i_val fx s I ch i E) as (_ & Q & _).
Qed.

Lemma step_send fx fx' s i n c :
  Inv fx s -> rp (asks s i) = RSend n -> a_ctx (asks s i) = Some c -> Inv fx (step fx' s (LResp i)).
Proof.
  intros I Hrp Hc.
  destruct (sending_facts fx s i n c I Hrp Hc) as (ch & Hch & Hcr & Hemp & Hown & Hshape).
  cbn. rewrite Hrp, Hc, Hcr, Hemp.
  pose proof (i_local fx s I i) as L. destruct L as [Ls Lrec Lu Lx [Lpc1 Lpc2] Le Ll Li Lr Lf Lle Lsd Lt Lk Lfl].
  assert (Hnq : ~ quiet_a s (asks s i)) by (unfold quiet_a; rewrite Hrp; auto).
  assert (Hclosed : closed (ctxs s c) = true) by (specialize (Lsd n Hrp); unfold closed_a in Lsd; now rewrite Hc in Lsd).
  eapply inv_step_frame with (i := i) (c0 := nctx s) (ch0 := ch); try exact I; cbn; try reflexivity; auto.
  - intros k _. now apply (fresh_ctx_unowned fx).
  - intros ch' Hne. now rewrite upd_neq.
  - intros k Hne H. apply Hne. apply (i_uch fx s I k i ch H Hown).
  - constructor; cbn; unfold closed_a; cbn; rewrite ?Hc, ?Hclosed.
    + exact Ls.
    + intros _ H; discriminate.
    + exact Lu.
    + intros c' [H|[H _]]; apply Lx; [left; exact H|right; split; [cbn in H; congruence|rewrite Hrp; discriminate]].
    + split; [intros c' H; rewrite <- Hc; now apply Lpc1|exact Lpc2].
    + intros H. destruct (Le H) as (_ & _ & H' & _). congruence.
    + intros H. destruct (Ll H) as (c' & ch' & A & B). exists c, ch'. split; auto.
    + split; [discriminate|]. intros H. apply Li in H. congruence.
    + intros c' H _. inversion H; subst c'. now rewrite Hcr, Hch.
    + intros [H|H]; [discriminate|]. exfalso. inversion H. destruct (Lle n) as (_ & B). specialize (B Hrp). lia.
    + intros m. split; [|discriminate]. intros H. inversion H; subst m. destruct (Lle n) as (_ & B). specialize (B Hrp). lia.
    + intros; reflexivity.
    + intros v H. split; [exact (proj1 (Lt v H))|reflexivity].
    + exact Lk.
    + intros H. destruct Hshape as [(R & C)|D].
      * destruct (ap (asks s i)); cbn in *; try discriminate; inversion C; subst; now rewrite upd_eq.
      * rewrite D in *. apply orb_true_iff in H. destruct H as [H|H]; [now apply Lfl|].
        rewrite (Lk (or_introl eq_refl)) in H. cbn in H. rewrite andb_false_r in H. discriminate.
  - unfold cown_a. cbn. intros c' [H|[H _]]; left; [now left|right; split; [cbn in H; congruence|rewrite Hrp; discriminate]].
  - apply (i_pch fx s I).
  - apply (i_pctx fx s I).
  - intros k. rewrite !upd_eq. intros H. inversion H; subst k. rewrite upd_eq. cbn.
    repeat split; auto.
    destruct Hshape as [(R & _)|D]; auto.
  - intros ch' Hne H. exfalso. apply Hne. destruct (i_val fx s I ch' i H) as (A & _). congruence.
Qed.

Lemma step_recycle fx fx' s i c :
  Inv fx s -> rp (asks s i) = RDone -> a_ctx (asks s i) = Some c ->
  (fx = false -> exists r, ap (asks s i) = ADone r) -> Inv fx (step fx' s (LRecycle i)).
Proof.
  intros I Hrp Hc Hguard. cbn. rewrite Hrp, Hc.
  pose proof (i_local fx s I i) as L. destruct L as [Ls Lrec Lu Lx [Lpc1 Lpc2] Le Ll Li Lr Lf Lle Lsd Lt Lk Lfl].
  assert (Hci : cown_a (asks s i) c) by (right; split; auto; rewrite Hrp; discriminate).
  destruct (Lx c Hci) as (Hnp & Hlt).
  eapply inv_step_frame with (i := i) (c0 := c) (ch0 := nch s); try exact I; cbn; try reflexivity; auto.
  - intros c' Hne. now rewrite upd_neq.
  - intros k Hne H. apply Hne. apply (i_xctx fx s I k i c H Hci).
  - intros k _. now apply (fresh_ch_unowned fx).
  - intros c' H. apply in_app_or in H. destruct H as [H|[H|[]]]; auto.
  - constructor; cbn; unfold closed_a; cbn.
    + exact Ls.
    + intros Hfx _. now apply Hguard.
    + exact Lu.
    + intros c' [H|[_ H]]; [|exfalso; apply H; reflexivity]. exfalso. cbn in H.
      assert (early (ap (asks s i)) = true) by (rewrite H; reflexivity).
      destruct (Le H0) as (_ & _ & H' & _). congruence.
    + split; assumption.
    + intros H. destruct (Le H) as (_ & _ & H' & _). congruence.
    + exact Ll.
    + split; [discriminate|]. intros H. apply Li in H. congruence.
    + intros c' _ H. exfalso. apply H. reflexivity.
    + intros [H|H]; discriminate.
    + intros m. split; discriminate.
    + intros; discriminate.
    + intros v H. split; [exact (proj1 (Lt v H))|exact Logic.I].
    + exact Lk.
    + exact Lfl.
  - unfold cown_a. cbn. intros c' [H|[_ H]]; [left; now left|exfalso; apply H; reflexivity].
  - apply (i_pch fx s I).
  - split.
    + apply NoDup_snoc; [apply (i_pctx fx s I)|exact Hnp].
    + intros c' H. apply in_app_or in H. destruct H as [H|[<-|[]]]; [now apply (i_pctx fx s I)|exact Hlt].
  - intros k H. rewrite (fresh_ch_empty fx s I) in H. discriminate.
  - intros ch' _ H. destruct (i_val fx s I ch' i H) as (A & B & C). repeat split; auto.
Qed.

(* the asker's store of responseClosed := true after it took the reply (the code as it exists): harmless
   as long as the context is still the one of this Ask *)
Lemma step_store fx s i c ch v :
  fx = false -> Inv fx s -> ap (asks s i) = AGotStore c ch v ->
  Inv fx (set_ap (set_closed s c true) i (AGotDrain c ch v)).
Proof.
  intros Hfx I Hap.
  pose proof (i_local fx s I i) as L. destruct L as [Ls Lrec Lu Lx [Lpc1 Lpc2] Le Ll Li Lr Lf Lle Lsd Lt Lk Lfl].
  rewrite Hap in *. cbn in *.
  pose proof (Lpc1 c eq_refl) as Hc. destruct (Lt v eq_refl) as (-> & Hq).
  assert (Hnr : rp (asks s i) <> RRecycled).
  { intros H. destruct (Lrec Hfx H) as (r & E). discriminate. }
  assert (Hci : cown_a (asks s i) c) by (right; auto).
  assert (Hoi : owns_a (asks s i) ch) by (left; rewrite Hap; reflexivity).
  eapply inv_step_frame with (i := i) (c0 := c) (ch0 := nch s); try exact I; cbn; try reflexivity; auto.
  - intros c' Hne. now rewrite upd_neq.
  - intros k Hne H. apply Hne. apply (i_xctx fx s I k i c H Hci).
  - intros k _. now apply (fresh_ch_unowned fx).
  - constructor; cbn; unfold closed_a; cbn; rewrite ?Hc, ?upd_eq; cbn.
    + reflexivity.
    + intros _ H. contradiction.
    + intros ch' [H|[H _]]; [apply Lu; left; rewrite Hap; exact H|discriminate].
    + intros c' [H|[H _]]; [discriminate|]. apply Lx. right. split; auto.
    + split; intros ? H; inversion H; subst; auto.
    + discriminate.
    + intros H. destruct (Ll H) as (c' & ch' & A & B). exists c, ch'. split; auto.
    + split; [intros H; apply Li in H; destruct H as [H|(c' & ch' & H)]; discriminate|intros [H|(c' & ch' & H)]; discriminate].
    + intros c' H _. inversion H; subst c'. rewrite upd_eq. cbn. apply Lr; auto.
    + intros H. exfalso. unfold quiet_a in Hq.
      destruct H as [H|H]; rewrite H in Hq; [exact Hq|]. rewrite (Lf (or_intror H)) in Hq. discriminate.
    + exact Lle.
    + intros; reflexivity.
    + intros v H. inversion H; subst v. split; auto.
      unfold quiet_a in *. cbn. destruct (rp (asks s i)); auto. unfold closed_a. cbn. rewrite ?Hc, ?upd_eq. reflexivity.
    + intros [H|(c' & ch' & H)]; discriminate.
    + auto.
  - unfold owns_a. cbn. intros ch' [H|[H _]]; [left; left; rewrite Hap; exact H|discriminate].
  - unfold cown_a. cbn. intros c' [H|H]; [discriminate|]. left. now right.
  - apply (i_pch fx s I).
  - apply (i_pctx fx s I).
  - intros k H. rewrite (fresh_ch_empty fx s I) in H. discriminate.
  - intros ch' _ H. destruct (i_val fx s I ch' i H) as (_ & _ & C). rewrite Hap in C. destruct C; discriminate.
Qed.

(* ------------------------------------------------------------------ every step preserves the invariant *)

(* The executions considered. For the repaired shape: all. For the shape that exists: those in which no
   Ask takes the timeout/cancel branch and a ReceiveContext is recycled only after its Ask returned. *)
Definition allowed (fx : bool) (s : state) (l : label) : Prop :=
  fx = true \/
  match l with
  | LAsker i _ SelTimer => forall c ch, ap (asks s i) <> AWait c ch
  | LRecycle i => exists r, ap (asks s i) = ADone r
  | _ => True
  end.

Lemma inv_step fx s l : Inv fx s -> allowed fx s l -> Inv fx (step fx s l).
Proof.
  intros I Hal. destruct l as [i o sl|i|i|i].
  - (* asker *)
    pose proof (l_shape _ _ _ _ (i_local fx s I i)) as Hshape.
    destruct (ap (asks s i)) eqn:Hap; try discriminate.
    + eapply step_new; eauto.
    + eapply step_build; eauto.
    + eapply step_enq; eauto.
    + cbn. rewrite Hap. destruct sl.
      * destruct (chans s ch) as [v|] eqn:Hv; [|exact I].
        destruct fx; eapply (step_take _ s i c ch v); eauto.
      * destruct (ticked (asks s i)) eqn:Ht; [|exact I].
        destruct fx; [now apply step_wait_timer|].
        exfalso. destruct Hal as [H|H]; [discriminate|]. now apply (H c ch).
    + cbn in Hshape. subst fx. cbn. rewrite Hap. now apply step_store.
    + cbn. rewrite Hap. exact (step_drain fx s i c ch v I Hap).
    + cbn. rewrite Hap. exact (step_push fx s i c ch v I Hap).
    + cbn in Hshape. apply negb_false_iff in Hshape. subst fx.
      cbn. rewrite Hap. destruct (chans s ch) as [v|] eqn:Hv;
        [eapply (step_take _ s i c ch v); eauto|exact (step_poll_none true s i c ch I Hap Hv)].
    + cbn. rewrite Hap. exact I.
  - (* handler *)
    pose proof (i_local fx s I i) as L. destruct L as [Ls Lrec Lu Lx [Lpc1 Lpc2] Le Ll Li Lr Lf Lle Lsd Lt Lk Lfl].
    destruct (rp (asks s i)) as [|[|n]|n| |] eqn:Hrp; try (cbn; rewrite Hrp; try destruct (a_ctx (asks s i)); exact I).
    + (* RCall 0 -> RDone *)
      cbn. rewrite Hrp. apply step_ask_only; cbn; auto; try tauto.
      * rewrite Hrp. split; discriminate.
      * rewrite Hrp. split; discriminate.
      * discriminate.
      * intros [H|H]; discriminate.
      * intros m. split; discriminate.
      * intros; discriminate.
    + (* RCall (S n): the CAS *)
      destruct (a_ctx (asks s i)) as [c|] eqn:Hc; [|cbn; rewrite Hrp, Hc; exact I].
      cbn. rewrite Hrp, Hc. destruct (closed (ctxs s c)) eqn:Hcl; [|now apply step_cas].
      assert (Hne : Nat.eqb (S n) (nresp (asks s i)) = false).
      { apply Nat.eqb_neq. intros E. assert (closed_a s (asks s i) = false) by (apply Lf; right; rewrite ?Hrp, E; reflexivity).
        unfold closed_a in H. rewrite Hc, Hcl in H. discriminate. }
      apply step_ask_only; cbn; auto; try tauto.
      * rewrite Hrp. split; discriminate.
      * rewrite Hrp. split; discriminate.
      * discriminate.
      * intros [H|H]; [discriminate|]. exfalso. inversion H. destruct (Lle (S n)) as (A & _). assert (S n <= nresp (asks s i)) by (apply A; (exact Hrp || reflexivity)). lia.
      * intros m. split; [|discriminate]. intros H. inversion H; subst m. destruct (Lle (S n)) as (A & _). assert (S n <= nresp (asks s i)) by (apply A; (exact Hrp || reflexivity)). lia.
      * intros; discriminate.
      * cbn in Hne. rewrite Hne. cbn. now rewrite orb_false_r.
    + (* RSend: the send *)
      destruct (a_ctx (asks s i)) as [c|] eqn:Hc; [|cbn; rewrite Hrp, Hc; exact I].
      eapply step_send; eauto.
  - (* the deadline passes *)
    pose proof (i_local fx s I i) as L. destruct L as [Ls Lrec Lu Lx [Lpc1 Lpc2] Le Ll Li Lr Lf Lle Lsd Lt Lk Lfl].
    cbn. apply step_ask_only; cbn; auto; try tauto.
  - (* recycling *)
    destruct (rp (asks s i)) eqn:Hrp; try (cbn; rewrite Hrp; exact I).
    destruct (a_ctx (asks s i)) as [c|] eqn:Hc; [|cbn; rewrite Hrp, Hc; exact I].
    eapply step_recycle; eauto.
    intros Hfx. destruct Hal as [H|H]; [congruence|exact H].
Qed.

(* ------------------------------------------------------------------ reachable states and the property *)

Inductive reach (fx : bool) (nresps : list nat) : state -> Prop :=
| reach_init : reach fx nresps (init nresps)
| reach_step s l : reach fx nresps s -> allowed fx s l -> reach fx nresps (step fx s l).

Lemma reach_inv fx nresps s : reach fx nresps s -> Inv fx s.
Proof. induction 1; [apply inv_init|now apply inv_step]. Qed.

Lemma reach_run nresps ls : forall s, reach true nresps s -> reach true nresps (run true s ls).
Proof. induction ls as [|l ls IH]; intros s H; cbn; auto. apply IH. constructor; auto. now left. Qed.

(* an Ask that returns a reply returns the reply to its own request *)
Lemma proto_no_cross fx nresps s i v : reach fx nresps s -> result s i = Some (Some v) -> v = i.
Proof.
  intros H R. pose proof (l_took _ _ _ _ (i_local fx s (reach_inv _ _ _ H) i) v) as T.
  unfold result in R. destruct (ap (asks s i)) as [| | | | | | | | | | |r] eqn:E; try discriminate.
  inversion R; subst r. cbn in T. now destruct (T eq_refl).
Qed.

(* an Ask whose handler's Response call returned before the deadline does not fail *)
Lemma proto_in_time fx nresps s i :
  reach fx nresps s -> result s i = Some None -> replied_in_time (asks s i) = false.
Proof.
  intros H R. pose proof (l_flag _ _ _ _ (i_local fx s (reach_inv _ _ _ H) i)) as F.
  unfold result in R. destruct (ap (asks s i)) as [| | | | | | | | | | |r] eqn:E; try discriminate.
  inversion R; subst r. destruct (replied_in_time (asks s i)); auto. destruct (F eq_refl).
Qed.

(* in the shape that exists, on the executions considered, no Ask fails *)
Lemma asis_never_fails nresps s i : reach false nresps s -> result s i <> Some None.
Proof.
  intros H R. pose proof (l_shape _ _ _ _ (i_local false s (reach_inv _ _ _ H) i)) as S.
  unfold result in R. destruct (ap (asks s i)) as [| | | | | | | | | | |[v|]]; try discriminate.
Qed.

Lemma proto_reply_returned fx nresps s i r :
  reach fx nresps s -> result s i = Some r -> replied_in_time (asks s i) = true -> r = Some i.
Proof.
  intros H R F. destruct r as [v|].
  - f_equal. eapply proto_no_cross; eauto.
  - rewrite (proto_in_time _ _ _ _ H R) in F. discriminate.
Qed.

(* the hypotheses are satisfiable: the interleavings that defeat the code as it exists, replayed on the
   repaired model (same thread schedule; the repaired asker takes fewer steps) *)
Definition Ar (i : nat) : label := LAsker i None SelReply.
Definition Atm (i : nat) : label := LAsker i None SelTimer.

Example ex_fixed_cross :
  let s := run true (init [1; 1])
             [Ar 0; Ar 0; Ar 0; LResp 0; LTick 0; Atm 0; Ar 0;
              Ar 1; LAsker 1 (Some 0) SelReply; Ar 1; LResp 0; LResp 0; LResp 1; LResp 1; LResp 1; Ar 1; Ar 1; Ar 1] in
  reach true [1; 1] s /\ results s 2 = [Some None; Some (Some 1)] /\ replied_in_time (asks s 0) = false.
Proof. split; [apply reach_run; constructor|]. vm_compute. split; reflexivity. Qed.

Example ex_fixed_both_ready :
  let s := run true (init [1]) [Ar 0; Ar 0; Ar 0; LResp 0; LResp 0; LTick 0; Atm 0; Ar 0; Ar 0; Ar 0] in
  reach true [1] s /\ results s 1 = [Some (Some 0)] /\ replied_in_time (asks s 0) = true.
Proof. split; [apply reach_run; constructor|]. vm_compute. split; reflexivity. Qed.

(* a decidable version of [allowed], to exhibit guarded executions of the shape that exists *)
Definition allowedb (fx : bool) (s : state) (l : label) : bool :=
  fx ||
  match l with
  | LAsker i _ SelTimer => match ap (asks s i) with AWait _ _ => false | _ => true end
  | LRecycle i => match ap (asks s i) with ADone _ => true | _ => false end
  | _ => true
  end.

Lemma allowedb_sound fx s l : allowedb fx s l = true -> allowed fx s l.
Proof.
  unfold allowedb, allowed. destruct fx; [now left|]. cbn. intros H. right.
  destruct l as [i o [|]|i|i|i]; auto.
  - intros c ch E. rewrite E in H. discriminate.
  - destruct (ap (asks s i)); try discriminate. eauto.
Qed.

Fixpoint run_ok (fx : bool) (s : state) (ls : list label) : bool :=
  match ls with
  | [] => true
  | l :: r => allowedb fx s l && run_ok fx (step fx s l) r
  end.

Lemma reach_run_ok fx nresps ls : forall s, reach fx nresps s -> run_ok fx s ls = true -> reach fx nresps (run fx s ls).
Proof.
  induction ls as [|l ls IH]; intros s H Hok; cbn in *; auto.
  apply andb_true_iff in Hok. destruct Hok as (A & B).
  apply IH; auto. constructor; auto. now apply allowedb_sound.
Qed.

(* two Asks in the shape that exists; the second is handed the first one's channel and recycled context *)
Example ex_as_is_guarded :
  let ls := [Ar 0; Ar 0; Ar 0; LResp 0; LResp 0; LTick 0; LResp 0; Ar 0; Ar 0; Ar 0; Ar 0; LRecycle 0;
             LAsker 1 (Some 0) SelReply; LAsker 1 (Some 0) SelReply; Ar 1; LResp 1; LResp 1; LResp 1; Ar 1; Ar 1; Ar 1; Ar 1] in
  let s := run false (init [1; 1]) ls in
  reach false [1; 1] s /\ results s 2 = [Some (Some 0); Some (Some 1)] /\
  a_ch (asks s 1) = a_ch (asks s 0) /\ a_ctx (asks s 1) = a_ctx (asks s 0).
Proof.
  split; [apply reach_run_ok; [constructor|vm_compute; reflexivity]|].
  vm_compute. repeat split; reflexivity.
Qed.
