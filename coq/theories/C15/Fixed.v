(* C15 — the repaired Ask path (fx = true) under EVERY interleaving of any number of Asks: an inductive
   invariant of the atomic-step model (ownership of pooled channels and contexts, the responseClosed
   protocol) and, from it: an Ask only ever returns its own reply, and never an error when the
   handler's Response had returned before the deadline. *)
From Coq Require Import List Arith Bool Lia.
Import ListNotations.
From GV Require Import C15.Model.

Lemma upd_eq A (f : nat -> A) k a : upd f k a k = a.
Proof. unfold upd. now rewrite Nat.eqb_refl. Qed.

Lemma upd_neq A (f : nat -> A) k a x : x <> k -> upd f k a x = f x.
Proof. unfold upd. intros H. apply Nat.eqb_neq in H. now rewrite H. Qed.

Definition ch_of (p : apc) : option nat :=
  match p with
  | AEnq _ ch | AWait _ ch | ATimePoll _ ch | AGotDrain _ ch _ | AGotPush _ ch _ => Some ch
  | _ => None
  end.

Definition ctx_of (p : apc) : option nat :=
  match p with
  | AEnq c _ | AWait c _ | ATimePoll c _ | AGotDrain c _ _ | AGotPush c _ _ => Some c
  | _ => None
  end.

(* the asker may still read its channel *)
Definition reading (p : apc) : bool :=
  match p with AEnq _ _ | AWait _ _ | ATimePoll _ _ => true | _ => false end.

Definition got (p : apc) : option nat :=
  match p with AGotDrain _ _ v | AGotPush _ _ v => Some v | ADone (Some v) => Some v | _ => None end.

Definition bad_shape (p : apc) : bool :=
  match p with AGotStore _ _ _ | ATimeStore _ _ | ATimeDrain _ _ | ATimePush _ _ => true | _ => false end.

Definition early (p : apc) : bool := match p with ANew | ABuild _ => true | _ => false end.

(* ask a is responsible for channel ch: it may still read it, has taken its value and not yet pooled
   it again, or has given up on it (then nobody is ever handed it again) *)
Definition owns_a (a : ask) (ch : nat) : Prop :=
  ch_of (ap a) = Some ch \/ (ap a = ADone None /\ a_ch a = Some ch).

Definition cown_a (a : ask) (c : nat) : Prop :=
  ap a = ABuild c \/ (a_ctx a = Some c /\ rp a <> RRecycled).

Section Local.
  Variables (s : state) (a : ask) (k : nat).

  Definition closed_a : bool := match a_ctx a with Some c => closed (ctxs s c) | None => false end.

  (* the handler will not send again *)
  Definition quiet_a : Prop :=
    match rp a with
    | RCall _ => closed_a = true
    | RDone | RRecycled => True
    | _ => False
    end.

  Record Local : Prop := mkLocal {
    l_shape : bad_shape (ap a) = false;
    l_upool : forall ch, owns_a a ch -> ~ In ch (chpool s) /\ ch < nch s;
    l_xpool : forall c, cown_a a c -> ~ In c (ctxpool s) /\ c < nctx s;
    l_pc : (forall c, ctx_of (ap a) = Some c -> a_ctx a = Some c) /\
           (forall ch, ch_of (ap a) = Some ch -> a_ch a = Some ch);
    l_early : early (ap a) = true ->
              a_ctx a = None /\ a_ch a = None /\ rp a = RIdle /\ replied_in_time a = false;
    l_late : early (ap a) = false -> exists c ch, a_ctx a = Some c /\ a_ch a = Some ch;
    l_idle : rp a = RIdle <-> (early (ap a) = true \/ exists c ch, ap a = AEnq c ch);
    l_resp : forall c, a_ctx a = Some c -> rp a <> RRecycled -> cresp (ctxs s c) = a_ch a;
    l_first : (rp a = RIdle \/ rp a = RCall (nresp a)) -> closed_a = false;
    l_le : forall n, (rp a = RCall n -> n <= nresp a) /\ (rp a = RSend n -> n < nresp a);
    l_send : forall n, rp a = RSend n -> closed_a = true;
    l_took : forall v, got (ap a) = Some v -> v = k /\ quiet_a;
    l_tick : (ap a = ADone None \/ exists c ch, ap a = ATimePoll c ch) -> ticked a = true;
    l_flag : replied_in_time a = true ->
             match ap a with
             | AEnq _ ch | AWait _ ch | ATimePoll _ ch => chans s ch = Some k
             | ADone None => False
             | _ => True
             end
  }.
End Local.

Record Inv (s : state) : Prop := mkInv {
  i_local : forall k, Local s (asks s k) k;
  i_uch : forall k j ch, owns_a (asks s k) ch -> owns_a (asks s j) ch -> k = j;
  i_xctx : forall k j c, cown_a (asks s k) c -> cown_a (asks s j) c -> k = j;
  i_pch : NoDup (chpool s) /\ forall ch, In ch (chpool s) -> ch < nch s;
  i_pctx : NoDup (ctxpool s) /\ forall c, In c (ctxpool s) -> c < nctx s;
  i_val : forall ch k, chans s ch = Some k ->
            a_ch (asks s k) = Some ch /\ quiet_a s (asks s k) /\
            (reading (ap (asks s k)) = true \/ ap (asks s k) = ADone None)
}.

Lemma inv_init nresps : Inv (init nresps).
Proof.
  constructor; cbn.
  - intros k. constructor; cbn; unfold owns_a, cown_a, closed_a, quiet_a; cbn.
    + reflexivity.
    + intros ch [H|[H _]]; discriminate.
    + intros c [H|[H _]]; discriminate.
    + split; intros; discriminate.
    + auto.
    + discriminate.
    + split; [intros _; now left|reflexivity].
    + intros; discriminate.
    + reflexivity.
    + intros n. split; discriminate.
    + intros; discriminate.
    + intros; discriminate.
    + intros [H|(c & ch & H)]; discriminate.
    + discriminate.
  - intros k j ch [H|[H _]]; discriminate.
  - intros k j c [H|[H _]]; discriminate.
  - split; [constructor|intros ? []].
  - split; [constructor|intros ? []].
  - intros; discriminate.
Qed.

(* a channel that holds a value is owned by the ask whose handler sent it *)
Lemma val_owner s ch k : Inv s -> chans s ch = Some k -> owns_a (asks s k) ch.
Proof.
  intros I H. destruct (i_val s I ch k H) as (A & _ & [R|D]).
  - left. pose proof (l_pc _ _ _ (i_local s I k)) as (_ & P).
    destruct (ap (asks s k)); cbn in *; try discriminate; rewrite (P _ eq_refl) in A; exact A.
  - right. auto.
Qed.

Lemma pool_ch_empty s ch : Inv s -> In ch (chpool s) -> chans s ch = None.
Proof.
  intros I Hin. destruct (chans s ch) as [k|] eqn:E; [|reflexivity].
  pose proof (val_owner s ch k I E) as O.
  destruct (l_upool _ _ _ (i_local s I k) ch O). contradiction.
Qed.

(* ------------------------------------------------------------------ the step framework *)

(* Ask i moves from [asks s i] to a'; contexts change at most at c0 and channels at most at ch0, both
   of which no other ask is responsible for; pools only lose elements or gain c0 / ch0. *)
Section Step.
  Variables (s s' : state) (i : nat) (a' : ask) (c0 ch0 : nat).
  Hypothesis I : Inv s.
  Hypothesis Hasks : asks s' = upd (asks s) i a'.
  Hypothesis Hctx : forall c, c <> c0 -> ctxs s' c = ctxs s c.
  Hypothesis Hc0 : forall k, k <> i -> ~ cown_a (asks s k) c0.
  Hypothesis Hch : forall ch, ch <> ch0 -> chans s' ch = chans s ch.
  Hypothesis Hch0 : forall k, k <> i -> ~ owns_a (asks s k) ch0.
  Hypothesis Hchpool : forall ch, In ch (chpool s') -> In ch (chpool s) \/ ch = ch0.
  Hypothesis Hctxpool : forall c, In c (ctxpool s') -> In c (ctxpool s) \/ c = c0.
  Hypothesis Hnch : nch s <= nch s'.
  Hypothesis Hnctx : nctx s <= nctx s'.

  Lemma other_ask k : k <> i -> asks s' k = asks s k.
  Proof. intros. rewrite Hasks. now apply upd_neq. Qed.

  Lemma other_closed k : k <> i -> rp (asks s k) <> RRecycled -> closed_a s' (asks s k) = closed_a s (asks s k).
  Proof.
    intros Hne Hr. unfold closed_a. destruct (a_ctx (asks s k)) as [c|] eqn:E; [|reflexivity].
    rewrite Hctx; [reflexivity|]. intros ->. apply (Hc0 k Hne). right. auto.
  Qed.

  Lemma other_quiet k : k <> i -> quiet_a s (asks s k) -> quiet_a s' (asks s k).
  Proof.
    intros Hne. unfold quiet_a. destruct (rp (asks s k)) eqn:E; auto.
    rewrite other_closed; auto. congruence.
  Qed.

  Lemma other_local k : k <> i -> Local s' (asks s k) k.
  Proof.
    intros Hne. pose proof (i_local s I k) as L. destruct L.
    constructor; auto.
    - intros ch O. destruct (l_upool0 ch O) as (A & B). split; [|lia].
      intros H. destruct (Hchpool ch H) as [H'| ->]; [contradiction|]. now apply (Hch0 k Hne).
    - intros c O. destruct (l_xpool0 c O) as (A & B). split; [|lia].
      intros H. destruct (Hctxpool c H) as [H'| ->]; [contradiction|]. now apply (Hc0 k Hne).
    - intros c E Hr. rewrite Hctx; auto. intros ->. apply (Hc0 k Hne). right; auto.
    - intros H. rewrite other_closed; [now apply l_first0|exact Hne|destruct H as [H|H]; rewrite H; discriminate].
    - intros n H. rewrite other_closed; [now apply (l_send0 n)|exact Hne|rewrite H; discriminate].
    - intros v H. destruct (l_took0 v H). split; auto. now apply other_quiet.
    - intros H. specialize (l_flag0 H).
      destruct (ap (asks s k)) eqn:E; auto;
        (rewrite Hch; [exact l_flag0|]; intros ->; apply (Hch0 k Hne); left; rewrite E; reflexivity).
  Qed.

  (* what remains to be shown for the ask that moved, the resources it touched, and the values *)
  Hypothesis Hlocal : Local s' a' i.
  Hypothesis Howns : forall ch, owns_a a' ch -> owns_a (asks s i) ch \/ (forall k, k <> i -> ~ owns_a (asks s k) ch).
  Hypothesis Hcown : forall c, cown_a a' c -> cown_a (asks s i) c \/ (forall k, k <> i -> ~ cown_a (asks s k) c).
  Hypothesis Hpch : NoDup (chpool s') /\ forall ch, In ch (chpool s') -> ch < nch s'.
  Hypothesis Hpctx : NoDup (ctxpool s') /\ forall c, In c (ctxpool s') -> c < nctx s'.
  Hypothesis Hval0 : forall k, chans s' ch0 = Some k ->
     a_ch (asks s' k) = Some ch0 /\ quiet_a s' (asks s' k) /\
     (reading (ap (asks s' k)) = true \/ ap (asks s' k) = ADone None).
  Hypothesis Hvali : forall ch, ch <> ch0 -> chans s ch = Some i ->
     a_ch a' = Some ch /\ quiet_a s' a' /\ (reading (ap a') = true \/ ap a' = ADone None).

  Lemma inv_step_frame : Inv s'.
  Proof.
    constructor.
    - intros k. rewrite Hasks. destruct (Nat.eq_dec k i) as [->|Hne].
      + now rewrite upd_eq.
      + rewrite upd_neq by auto. now apply other_local.
    - intros k j ch. rewrite Hasks.
      destruct (Nat.eq_dec k i) as [->|Hk], (Nat.eq_dec j i) as [->|Hj]; rewrite ?upd_eq, ?upd_neq by auto; auto.
      + intros A B. destruct (Howns ch A) as [A'|A']; [apply (i_uch s I i j ch A' B)|destruct (A' j Hj B)].
      + intros A B. destruct (Howns ch B) as [B'|B']; [apply (i_uch s I k i ch A B')|destruct (B' k Hk A)].
      + apply (i_uch s I).
    - intros k j c. rewrite Hasks.
      destruct (Nat.eq_dec k i) as [->|Hk], (Nat.eq_dec j i) as [->|Hj]; rewrite ?upd_eq, ?upd_neq by auto; auto.
      + intros A B. destruct (Hcown c A) as [A'|A']; [apply (i_xctx s I i j c A' B)|destruct (A' j Hj B)].
      + intros A B. destruct (Hcown c B) as [B'|B']; [apply (i_xctx s I k i c A B')|destruct (B' k Hk A)].
      + apply (i_xctx s I).
    - exact Hpch.
    - exact Hpctx.
    - intros ch k H. destruct (Nat.eq_dec ch ch0) as [->|Hne]; [now apply Hval0|].
      rewrite Hch in H by auto. rewrite Hasks. destruct (Nat.eq_dec k i) as [->|Hk].
      + rewrite upd_eq. now apply Hvali.
      + rewrite upd_neq by auto. destruct (i_val s I ch k H) as (A & B & C). repeat split; auto.
        now apply other_quiet.
  Qed.
End Step.

(* ------------------------------------------------------------------ helpers *)

Lemma fresh_ctx_unowned s k : Inv s -> ~ cown_a (asks s k) (nctx s).
Proof. intros I H. destruct (l_xpool _ _ _ (i_local s I k) _ H). lia. Qed.

Lemma fresh_ch_unowned s k : Inv s -> ~ owns_a (asks s k) (nch s).
Proof. intros I H. destruct (l_upool _ _ _ (i_local s I k) _ H). lia. Qed.

Lemma pooled_ctx_unowned s k c : Inv s -> In c (ctxpool s) -> ~ cown_a (asks s k) c.
Proof. intros I Hin H. destruct (l_xpool _ _ _ (i_local s I k) _ H). contradiction. Qed.

Lemma pooled_ch_unowned s k ch : Inv s -> In ch (chpool s) -> ~ owns_a (asks s k) ch.
Proof. intros I Hin H. destruct (l_upool _ _ _ (i_local s I k) _ H). contradiction. Qed.

Lemma fresh_ch_empty s : Inv s -> chans s (nch s) = None.
Proof.
  intros I. destruct (chans s (nch s)) as [k|] eqn:E; [|reflexivity].
  exfalso. apply (fresh_ch_unowned s k I). now apply val_owner.
Qed.

Lemma remove_nth_In A (l : list A) k x : In x (remove_nth k l) -> In x l.
Proof.
  revert k. induction l as [|a l IH]; intros k H; cbn in *; [destruct k; destruct H|].
  destruct k; cbn in *; [now right|]. destruct H as [->|H]; [now left|right; eauto].
Qed.

Lemma remove_nth_NoDup A (l : list A) k : NoDup l -> NoDup (remove_nth k l).
Proof.
  revert k. induction l as [|a l IH]; intros k H; cbn; [destruct k; constructor|].
  inversion H; subst. destruct k; cbn; auto. constructor; auto.
  intros Hin. apply remove_nth_In in Hin. contradiction.
Qed.

Lemma remove_nth_notin A (l : list A) k x : NoDup l -> nth_error l k = Some x -> ~ In x (remove_nth k l).
Proof.
  revert k. induction l as [|a l IH]; intros k Hnd H; [destruct k; discriminate|].
  inversion Hnd; subst. destruct k; cbn in *.
  - inversion H; subst. assumption.
  - intros [->|Hin]; [apply H2; eapply nth_error_In; eauto|]. eapply IH; eauto.
Qed.

Lemma take_spec pool fresh o x pool' fresh' :
  NoDup pool -> (forall y, In y pool -> y < fresh) -> take pool fresh o = (x, pool', fresh') ->
  fresh <= fresh' /\ x < fresh' /\ ~ In x pool' /\ NoDup pool' /\ (forall y, In y pool' -> In y pool /\ y < fresh') /\
  ((x = fresh /\ pool' = pool) \/ In x pool).
Proof.
  intros Hnd Hlt. unfold take. destruct o as [k|].
  - destruct (nth_error pool k) as [y|] eqn:E; intros H; inversion H; subst.
    + pose proof (nth_error_In _ _ E) as Hin. repeat split; auto.
      * apply remove_nth_notin; auto.
      * now apply remove_nth_NoDup.
      * eapply remove_nth_In; eauto.
      * apply Hlt. eapply remove_nth_In; eauto.
    + repeat split; auto; try lia.
      * intros Hin. apply Hlt in Hin. lia.
      * apply Hlt in H0. lia.
  - intros H; inversion H; subst. repeat split; auto; try lia.
    + intros Hin. apply Hlt in Hin. lia.
    + apply Hlt in H0. lia.
Qed.

(* ------------------------------------------------------------------ the steps of the asker *)

Ltac inv_ask I i Hap :=
  pose proof (i_local _ I i) as L; destruct L as [Ls Lu Lx [Lpc1 Lpc2] Le Ll Li Lr Lf Lle Lsd Lt Lk Lfl];
  rewrite ?Hap in *; cbn in *.

Lemma step_new s i o : Inv s -> ap (asks s i) = ANew -> Inv (step true s (LAsker i o SelReply)).
Proof.
  intros I Hap. cbn. rewrite Hap.
  destruct (take (ctxpool s) (nctx s) o) as [[c pool'] n'] eqn:T.
  pose proof (take_spec (ctxpool s) (nctx s) o c pool' n' (proj1 (i_pctx s I)) (proj2 (i_pctx s I)) T) as (T1 & T2 & T3 & T4 & T5 & T6).
  inv_ask I i Hap. destruct (Le eq_refl) as (E1 & E2 & E3 & E4).
  assert (Hun : forall k, k <> i -> ~ cown_a (asks s k) c).
  { intros k _. destruct T6 as [(-> & _)|Hin]; [now apply fresh_ctx_unowned|now apply pooled_ctx_unowned]. }
  eapply inv_step_frame with (i := i) (c0 := c) (ch0 := nch s); try exact I; cbn; try reflexivity; auto.
  - intros k _. now apply fresh_ch_unowned.
  - intros c' H. left. now apply T5.
  - constructor; cbn; unfold owns_a, cown_a, closed_a, quiet_a; cbn; rewrite ?E1, ?E2, ?E3, ?E4; auto.
    + intros ch [H|[H _]]; discriminate.
    + intros c' [H|[H _]]; [inversion H; subst; auto|discriminate].
    + split; intros; discriminate.
    + discriminate.
    + split; auto.
    + intros; discriminate.
    + intros n. split; discriminate.
    + intros; discriminate.
    + intros; discriminate.
    + intros [H|(c' & ch & H)]; discriminate.
    + discriminate.
  - intros ch [H|[H _]]; discriminate.
  - intros c' [H|[H _]]; [inversion H; subst; right; exact Hun|congruence].
  - apply (i_pch s I).
  - split; auto. intros c' H. now apply T5.
  - intros k H. rewrite (fresh_ch_empty s I) in H. discriminate.
  - intros ch _ H. destruct (i_val s I ch i H) as (A & _). congruence.
Qed.
