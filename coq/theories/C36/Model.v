(* C36 — executable model of SpawnSingleton (actor/spawn.go, actor/cluster_singleton.go,
   actor_system.go checkSpawnPreconditions/completeSpawn/attachAndPublish/rollbackSpawn, death_watch.go)
   over the shared registry M-REGISTRY (C30/Registry.v), with a membership oracle.

   One singleton name (registry key sk), any number of nodes. A call of SpawnSingleton on node n is a
   thread with a stack of nodes (innermost first): retrySpawnSingleton wraps spawnSingletonOnLeader, which
     PMembers   asks cluster.Members() who the coordinator is. The ANSWER IS PART OF THE LABEL: any node may be
                named at any step, and different nodes may be told different things (leadership changes, stale views).
                If the answer is the current node the call enters spawnSingletonOnLocal (the per-name single flight of
                runSpawnActivation: at most one flight per node); otherwise it is forwarded (RemoteSpawn ->
                remoteSpawnHandler -> SpawnSingleton on the named node: push).
     PFlight    FExists   checkSpawnPreconditions: ActorExists(name) (exists => ErrActorAlreadyExists), then the
                          local tree check (a running local instance is returned)
                FStart    configPID: the actor starts (PreStart) — the instance RUNS from here — and is added to the tree
                FPublish  publishSpawnedActor: plain PutActor (or PutActorIfAbsent when nx); on failure
                          rollbackSpawn: Shutdown (instance stops; the death watch deletes the tree node and will later
                          RemoveActor(name) from the registry, unconditionally by name: a pending background job)
     PConflict  handleSingletonNameConflict after ErrActorAlreadyExists: GetActor(name); a record => success (idempotent)
   Results unwind through the stack of forwarding nodes (each level runs its own conflict handler).
   Granularity: one step per registry operation / PreStart; the node-local work between them is guarded by the
   node's single flight. *)
From Coq Require Import List Arith Bool.
From GV Require Import C30.Registry.
Import ListNotations.

Definition sk : nat := 0.

Inductive fpc := FExists | FStart | FPublish (i : nat).
Inductive res := ROk | RExists | RErr.
Inductive phase := PMembers | PFlight (pc : fpc) | PConflict | PDone (r : res).

Record call := mkCall { stack : list nat; ph : phase }.

Record nst := mkN { insts : list bool; tree : option nat }.

Record state := mkS {
  sreg : reg nat;               (* the actor record of the name: value = hosting node *)
  nodes : nat -> nst;
  calls : list call;
  dws : list (nat * bool)       (* death-watch RemoveActor jobs: (node, still pending) *)
}.

Definition nst0 : nst := mkN [] None.
Definition state0 : state := mkS r_empty (fun _ => nst0) [] [].

Definition cur (c : call) : nat := hd 0 (stack c).

Fixpoint set_nth {A} (i : nat) (x : A) (l : list A) : list A :=
  match l, i with
  | [], _ => []
  | _ :: t, 0 => x :: t
  | h :: t, S j => h :: set_nth j x t
  end.

Definition running (ns : nst) (i : nat) : bool := nth i (insts ns) false.
Definition run_count (ns : nst) : nat := length (filter (fun b => b) (insts ns)).

Definition upd_node (f : nat -> nst) (n : nat) (ns : nst) : nat -> nst :=
  fun m => if Nat.eqb m n then ns else f m.

(* some call is inside the single flight of node n *)
Definition in_flight (c : call) (n : nat) : bool :=
  match ph c with PFlight _ => Nat.eqb (cur c) n | _ => false end.
Definition flight_busy (s : state) (n : nat) : bool := existsb (fun c => in_flight c n) (calls s).

(* a result travels back through the forwarding nodes; every level that sees ErrActorAlreadyExists runs its own
   conflict handler, everything else is passed on *)
Fixpoint unwind (st : list nat) (r : res) : list nat * phase :=
  match st with
  | [] => ([], PDone r)
  | [n] => ([n], PDone r)
  | _ :: rest => match r with RExists => (rest, PConflict) | _ => unwind rest r end
  end.

(* the result of a flight / conflict handler at the current level *)
Definition level_result (st : list nat) (r : res) : list nat * phase :=
  match r with
  | RExists => (st, PConflict)
  | _ => unwind st r
  end.

Inductive label :=
| Call (n : nat)                          (* SpawnSingleton is called on node n *)
| Adv (i : nat) (ok : bool) (l : nat)     (* call i executes its next operation; l = coordinator named by Members() *)
| Dw (k : nat) (ok : bool)                (* death-watch job k executes its RemoveActor *).

Definition step (nx : bool) (s : state) (lb : label) : option state :=
  match lb with
  | Call n => Some (mkS (sreg s) (nodes s) (calls s ++ [mkCall [n] PMembers]) (dws s))
  | Adv i ok l =>
      match nth_error (calls s) i with
      | None => None
      | Some c =>
          let n := cur c in
          let setc c' := set_nth i c' (calls s) in
          match ph c with
          | PDone _ => None
          | PMembers =>
              if negb ok then let '(st, p) := unwind (stack c) RErr in Some (mkS (sreg s) (nodes s) (setc (mkCall st p)) (dws s))
              else if Nat.eqb l n then
                     if flight_busy s n then None      (* would join the running flight and share its result: no step of its own *)
                     else Some (mkS (sreg s) (nodes s) (setc (mkCall (stack c) (PFlight FExists))) (dws s))
                   else Some (mkS (sreg s) (nodes s) (setc (mkCall (l :: stack c) PMembers)) (dws s))
          | PFlight FExists =>
              let ns := nodes s n in
              let fin r := let '(st, p) := level_result (stack c) r in Some (mkS (sreg s) (nodes s) (setc (mkCall st p)) (dws s)) in
              if negb ok then fin RErr
              else if r_exists sk (sreg s) then fin RExists
              else match tree ns with
                   | Some j => if running ns j then fin ROk
                               else Some (mkS (sreg s) (nodes s) (setc (mkCall (stack c) (PFlight FStart))) (dws s))
                   | None => Some (mkS (sreg s) (nodes s) (setc (mkCall (stack c) (PFlight FStart))) (dws s))
                   end
          | PFlight FStart =>
              let ns := nodes s n in
              let j := length (insts ns) in
              Some (mkS (sreg s) (upd_node (nodes s) n (mkN (insts ns ++ [true]) (Some j)))
                        (setc (mkCall (stack c) (PFlight (FPublish j)))) (dws s))
          | PFlight (FPublish j) =>
              let ns := nodes s n in
              let rollback r :=
                let '(st, p) := level_result (stack c) r in
                Some (mkS (sreg s) (upd_node (nodes s) n (mkN (set_nth j false (insts ns)) None))
                          (setc (mkCall st p)) (dws s ++ [(n, true)])) in
              if negb ok then rollback RErr
              else if nx then
                     let '(r', won) := r_put_if_absent sk n (sreg s) in
                     if won then let '(st, p) := level_result (stack c) ROk in Some (mkS r' (nodes s) (setc (mkCall st p)) (dws s))
                     else rollback RExists
                   else let '(st, p) := level_result (stack c) ROk in
                        Some (mkS (r_put sk n (sreg s)) (nodes s) (setc (mkCall st p)) (dws s))
          | PConflict =>
              let fin r := let '(st, p) := unwind (stack c) r in Some (mkS (sreg s) (nodes s) (setc (mkCall st p)) (dws s)) in
              if negb ok then fin RErr
              else match r_get sk (sreg s) with Some _ => fin ROk | None => fin RExists end
          end
      end
  | Dw k ok =>
      match nth_error (dws s) k with
      | Some (n, true) =>
          Some (mkS (if ok then r_remove sk (sreg s) else sreg s) (nodes s) (calls s) (set_nth k (n, false) (dws s)))
      | _ => None
      end
  end.

Fixpoint run (nx : bool) (s : state) (ls : list label) : option state :=
  match ls with
  | [] => Some s
  | l :: t => match step nx s l with Some s' => run nx s' t | None => None end
  end.

(* ---- the property *)
Definition is_running (s : state) (n i : nat) : Prop := running (nodes s n) i = true.

Definition at_most_one_instance (s : state) : Prop :=
  forall n m i j, is_running s n i -> is_running s m j -> n = m /\ i = j.

Definition quiescent (s : state) : Prop :=
  (forall c, In c (calls s) -> exists r, ph c = PDone r) /\ (forall x, In x (dws s) -> snd x = false).

Definition running_list (nn : nat) (s : state) : list (nat * nat) :=
  flat_map (fun n => map (fun i => (n, i)) (filter (fun i => running (nodes s n) i) (seq 0 (length (insts (nodes s n)))))) (seq 0 nn).

(* ---- the guard of C36_partial: the leader is stable — every Members() answer names the same node ld *)
Definition stable (ld : nat) (s : state) (lb : label) : bool :=
  match lb with
  | Adv i true l =>
      match nth_error (calls s) i with
      | Some c => match ph c with PMembers => Nat.eqb l ld | _ => true end
      | None => true
      end
  | _ => true
  end.

Fixpoint run_g (nx : bool) (ld : nat) (s : state) (ls : list label) : option state :=
  match ls with
  | [] => Some s
  | l :: t => if stable ld s l then match step nx s l with Some s' => run_g nx ld s' t | None => None end else None
  end.

(* ================================================================== conformance interface *)
Definition b2n (b : bool) : nat := if b then 1 else 0.

Definition code_call (nx : bool) (c : call) : nat :=
  match ph c with
  | PMembers => 1
  | PFlight FExists => 2
  | PFlight FStart => 3
  | PFlight (FPublish _) => if nx then 5 else 4
  | PConflict => 6
  | PDone ROk => 20 | PDone RExists => 21 | PDone RErr => 22
  end.

Definition observe (nx : bool) (nn : nat) (s : state) : list nat :=
  (match r_get sk (sreg s) with None => 0 | Some o => S o end)
  :: flat_map (fun n => let ns := nodes s n in
                        [match tree ns with None => 0 | Some j => if running ns j then 2 else 1 end; run_count ns]) (seq 0 nn)
  ++ length (calls s) :: flat_map (fun c => [code_call nx c; cur c; pred (length (stack c))]) (calls s)
  ++ length (dws s) :: flat_map (fun x : nat * bool => [if snd x then 7 else 20; fst x]) (dws s).

Fixpoint list_eqb (a b : list nat) : bool :=
  match a, b with
  | [], [] => true
  | x :: a', y :: b' => Nat.eqb x y && list_eqb a' b'
  | _, _ => false
  end.

(* number of distinct coordinators named so far is what the oracle checks; here: were all answers equal to the first one? *)
Definition answer_of (s : state) (lb : label) : option nat :=
  match lb with
  | Adv i true l => match nth_error (calls s) i with
                    | Some c => match ph c with PMembers => Some l | _ => None end
                    | None => None
                    end
  | _ => None
  end.

(* replay: (first disagreement, the leader answers seen were all the same, max running instances, running at the end) *)
Fixpoint conform (nx : bool) (nn : nat) (s : state) (tr : list (label * list nat)) (i : nat) (ld : option nat) (st : bool) (mx : nat)
  : option nat * bool * nat * nat :=
  match tr with
  | [] => (None, st, mx, length (running_list nn s))
  | (lb, o) :: t =>
      let '(ld', st') := match answer_of s lb with
                         | Some a => match ld with None => (Some a, st) | Some b => (ld, st && Nat.eqb a b) end
                         | None => (ld, st)
                         end in
      match step nx s lb with
      | None => (Some i, st', mx, length (running_list nn s))
      | Some s' =>
          let mx' := Nat.max mx (length (running_list nn s')) in
          if list_eqb (observe nx nn s') o then conform nx nn s' t (S i) ld' st' mx'
          else (Some i, st', mx', length (running_list nn s'))
      end
  end.
